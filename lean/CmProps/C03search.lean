import CmProofs.SearchComplete
import CmProofs.SearchCompleteField
import CmProps.C02
import CmProps.C16
/-!
# C03 — a barely perceptible lightness-only fix, if one exists, is found

"Whenever a barely perceptible lightness-only fix exists — some colour with the text's own OKLCH
chroma and hue lies within CIEDE2000 1.5 of the text and clears the required contrast minimum by at
least 0.05 — make_readable succeeds in every mode, and the colour it returns is no further than
CIEDE2000 2.0 from the original."

This is a completeness claim about a numeric search (a 20-step bisection over lightness). It cannot
follow from control flow: whether the bisection *reaches* the witness depends on the shape of the
leaf functions along the searched lightness interval. What is proved here, for every carrier, every
leaf record and every descent function, is the search's correctness **relative to explicit
hypotheses** about what the bisection probes:

1. `bs_invariant` — the loop invariant of the bisection over a ghost trace of probed lightnesses;
2. `binarySearch_meets_target_of_probe`, `binarySearch_ge_of_probe` — a good probe ⇒ a good result;
3. `genAccessible_returns_target_or_best`, `gen_success_if_some_phase_meets_min`,
   `gen_early_within` — a good phase result ⇒ a good (and early, hence close) multi-phase result;
4. `strict_…`, `recursive_…`, `relaxed_…`, `checkAndFix_C03_of_seen`, `checkAndFix_C03_of_probe`;
5. `C03_full` (a definition, **not** a theorem), `C03_full_of_probeHyp` (its reduction to the one
   numeric hypothesis `ProbeHyp`), and `miss_brackets_band` / `hit_of_unbracketed` (how
   `Mono` + `DirOK` + `Res` give `ProbeHyp`);
6. at carriers with exact ordered-field arithmetic (`FieldCarrier`: `ℚ`, `ℝ`) `Res` is made concrete
   (`bsLoop_width`: width `/ 2ⁿ`), giving `binarySearch_complete` and `C03_full_of_bandHyp`,
   `C03_full_real`, `C03_full_rat`: **C03 as worded, relative to `BandHypAll` = `Mono` + `DirOK` +
   `Res`** for the calls the property talks about.

Order laws: every theorem that says "needs `LawfulNumOrd`" takes `[LawfulNumOrd α]`; the others hold
for the executed `Float` instance as is.  Notation (from `CmProofs/SearchComplete.lean`), for one call
`binarySearch O t bg thr target` with `c := bsC O t`, `h := bsH O t`:
`candAt O c h L`, `dAt O t c h L`, `kAt O bg c h L`, `Acc O t thr c h L` (= `A L`),
`Meets O bg target c h L` (= `T L`), `bsProbes O t bg thr target` (the 20 probed lightnesses).
-/
set_option linter.unusedSectionVars false
set_option linter.unusedVariables false
namespace CmProps.C03
open Cm
variable {α : Type} [Num α]

/-! ## 1. The bisection's loop invariant -/

/-- the ghost loop is the loop -/
theorem bsLoopTrace_eq (O : Leaf α) (t bg : RGB) (thr target c h : α) (up : Bool) (n : Nat) (s : BS α) :
    (bsLoopTrace O t bg thr target c h up n s).1 = bsLoop O t bg thr target c h up n s :=
  bsLoopTrace_fst O t bg thr target c h up n s

/-- … and records exactly one lightness per iteration -/
theorem bsLoopTrace_count (O : Leaf α) (t bg : RGB) (thr target c h : α) (up : Bool) (n : Nat) (s : BS α) :
    (bsLoopTrace O t bg thr target c h up n s).2.length = n :=
  bsLoopTrace_length O t bg thr target c h up n s

/-- (i), every carrier: `best`, when set, is `cand m` for a probed `m` with `A m`, and the recorded
    numbers are that colour's: `bestC = k m`, `bestDE = d m`.  `P` = lightnesses probed before. -/
theorem bs_invariant_recorded (O : Leaf α) (t bg : RGB) (thr target c h : α) (up : Bool) (n : Nat)
    (P : α → Prop) (s : BS α)
    (hs : ∀ r, s.best = some r → ∃ m, P m ∧ r = candAt O c h m ∧ Acc O t thr c h m ∧
      s.bestC = kAt O bg c h m ∧ s.bestDE = dAt O t c h m) :
    ∀ r, (bsLoop O t bg thr target c h up n s).best = some r →
      ∃ m, (m ∈ (bsLoopTrace O t bg thr target c h up n s).2 ∨ P m) ∧ r = candAt O c h m ∧
        Acc O t thr c h m ∧
        (bsLoop O t bg thr target c h up n s).bestC = kAt O bg c h m ∧
        (bsLoop O t bg thr target c h up n s).bestDE = dAt O t c h m :=
  bsLoop_rec O t bg thr target c h up n P s hs

/-- **the loop invariant** (needs `LawfulNumOrd`), by induction on the iteration count.
    `BSInvC P s` is the conjunction of
    * `recorded` — (i) above;
    * `seen` — (ii): either `bestC < target` and no lightness in `P` satisfies `A ∧ T`, or
      `best = some (cand m)` for an `m ∈ P` with `A m ∧ T m`, `bestC = k m`, `bestDE = d m`, and
      `bestDE ≤ d m'` for every `m' ∈ P` with `A m' ∧ T m'` (the recorded one is the closest);
    * `max` — `best = none → bestC = 0.0`, and for every `m ∈ P` with `A m`: `k m ≤ bestC` or
      `bestC ≥ target`. -/
theorem bs_invariant [LawfulNumOrd α] (O : Leaf α) (t bg : RGB) (thr target c h : α) (up : Bool)
    (n : Nat) (P : α → Prop) (s : BS α) (hs : BSInvC O t bg thr target c h P s) :
    BSInvC O t bg thr target c h
      (fun x => x ∈ (bsLoopTrace O t bg thr target c h up n s).2 ∨ P x)
      (bsLoop O t bg thr target c h up n s) :=
  bsLoop_invC O t bg thr target c h up n P s hs

/-- it holds initially, with nothing probed, when the target is positive -/
theorem bs_invariant_init (O : Leaf α) (t bg : RGB) (thr target c h l : α) (up : Bool)
    (hpos : Num.lt (0.0 : α) target = true) :
    BSInvC O t bg thr target c h (fun _ => False) (bsInit O l up) :=
  bsInit_invC O t bg thr target c h l up hpos

/-- what (ii) says once a target-meeting probe has been seen: it (or a closer one) is what is
    recorded, and `bestC ≥ target` -/
theorem seen_is_recorded (O : Leaf α) (t bg : RGB) (thr target c h : α) (P : α → Prop) (s : BS α)
    (hs : BSSeen O t bg thr target c h P s)
    (hseen : ∃ m, P m ∧ Acc O t thr c h m ∧ Meets O bg target c h m) :
    ∃ m', P m' ∧ s.best = some (candAt O c h m') ∧ Acc O t thr c h m' ∧ Meets O bg target c h m' ∧
      Num.ge s.bestC target = true ∧
      ∀ m, P m → Acc O t thr c h m → Meets O bg target c h m →
        Num.le s.bestDE (dAt O t c h m) = true := by
  obtain ⟨m, hm, hA, hT⟩ := hseen
  rcases hs with ⟨_, hno⟩ | ⟨m0, hP0, hb0, hA0, hT0, hc0, hd0, hmin⟩
  · exact absurd hT (hno m hm hA)
  · exact ⟨m0, hP0, hb0, hA0, hT0, by rw [hc0]; exact hT0, hmin⟩

/-- the bookkeeping fix, without ghost state (needs `LawfulNumOrd`): once the recorded contrast
    meets the target, one more iteration keeps it so and can only lower the recorded distance -/
theorem bsStep_keeps_target [LawfulNumOrd α] (O : Leaf α) (t bg : RGB) (thr target c h : α)
    (up : Bool) (s : BS α) (hs : Num.ge s.bestC target = true) :
    Num.ge (bsStep O t bg thr target c h up s).bestC target = true ∧
    Num.le (bsStep O t bg thr target c h up s).bestDE s.bestDE = true := by
  rcases bsStep_cases O t bg thr target c h up s with
    ⟨_, _, hde, hc⟩ | ⟨_, hT, hcond, _, hde, hc⟩ | ⟨_, _, _, _, hde, hc⟩ | ⟨_, hnT, hgt, _, _, _⟩ |
    ⟨_, _, _, _, hde, hc⟩
  · rw [hc, hde]; exact ⟨hs, le_rfl' _⟩
  · rw [hc, hde]
    refine ⟨hT, le_of_lt ?_⟩
    rw [not_lt_of_le hs] at hcond; simpa using hcond
  · rw [hc, hde]; exact ⟨hs, le_rfl' _⟩
  · exact absurd (le_trans' hs (le_of_lt hgt)) hnT
  · rw [hc, hde]; exact ⟨hs, le_rfl' _⟩

theorem bsLoop_keeps_target [LawfulNumOrd α] (O : Leaf α) (t bg : RGB) (thr target c h : α)
    (up : Bool) (n : Nat) (s : BS α) (hs : Num.ge s.bestC target = true) :
    Num.ge (bsLoop O t bg thr target c h up n s).bestC target = true ∧
    Num.le (bsLoop O t bg thr target c h up n s).bestDE s.bestDE = true := by
  induction n generalizing s with
  | zero => exact ⟨hs, le_rfl' _⟩
  | succ n ih =>
    obtain ⟨h1, h2⟩ := bsStep_keeps_target O t bg thr target c h up s hs
    obtain ⟨h3, h4⟩ := ih _ h1
    exact ⟨h3, le_trans' h4 h2⟩

/-! ## 2. One call of the lightness search -/

/-- every carrier: what is returned is `cand m` for one of the 20 probed lightnesses, in tolerance -/
theorem binarySearch_result_is_probe (O : Leaf α) (t bg : RGB) (thr target : α) (r : RGB)
    (hr : binarySearch O t bg thr target = some r) :
    ∃ m ∈ bsProbes O t bg thr target, r = candAt O (bsC O t) (bsH O t) m ∧
      Acc O t thr (bsC O t) (bsH O t) m :=
  binarySearch_result_probed O t bg thr target r hr

/-- needs `LawfulNumOrd` and a positive target: if during the 20 iterations some probe satisfies
    `A ∧ T`, the search returns a colour that meets the target and is in tolerance — indeed the
    closest to the text of all probes satisfying `A ∧ T` -/
theorem binarySearch_meets_target_of_probe [LawfulNumOrd α] (O : Leaf α) (t bg : RGB) (thr target : α)
    (hpos : Num.lt (0.0 : α) target = true)
    (hprobe : ∃ m ∈ bsProbes O t bg thr target,
      Acc O t thr (bsC O t) (bsH O t) m ∧ Meets O bg target (bsC O t) (bsH O t) m) :
    ∃ r, binarySearch O t bg thr target = some r ∧ Num.ge (O.contrast r bg) target = true ∧
      InTol O t thr r ∧
      ∀ m ∈ bsProbes O t bg thr target, Acc O t thr (bsC O t) (bsH O t) m →
        Meets O bg target (bsC O t) (bsH O t) m →
        Num.le (O.deltaE t r) (dAt O t (bsC O t) (bsH O t) m) = true :=
  binarySearch_of_probe_meets O t bg thr target hpos hprobe

/-- needs `LawfulNumOrd`: the same for any level `0 < v ≤ target` (the required *minimum* is such a
    level): an in-tolerance probe of contrast `≥ v` ⇒ an in-tolerance result of contrast `≥ v` -/
theorem binarySearch_ge_of_probe [LawfulNumOrd α] (O : Leaf α) (t bg : RGB) (thr target v : α)
    (hpos : Num.lt (0.0 : α) v = true) (hv : Num.le v target = true)
    (hprobe : ∃ m ∈ bsProbes O t bg thr target,
      Acc O t thr (bsC O t) (bsH O t) m ∧ Num.ge (kAt O bg (bsC O t) (bsH O t) m) v = true) :
    ∃ r, binarySearch O t bg thr target = some r ∧ Num.ge (O.contrast r bg) v = true ∧
      InTol O t thr r :=
  binarySearch_of_probe_ge O t bg thr target v hpos hv hprobe

/-! ## 3. The multi-phase search -/

/-- every carrier: the result is the input or a phase result at one of the schedule's entries -/
theorem genAccessible_origin (O : Leaf α) (d : Descend α) (t bg : RGB) (target minC : α)
    (sched : List α) :
    genAccessible O d t bg target minC sched = t ∨
    ∃ thr ∈ sched, PhaseRes O d t bg target thr (genAccessible O d t bg target minC sched) := by
  simp only [genAccessible]
  split
  · exact Or.inl rfl
  · rcases genLoop_origin O d t bg target minC (sched.getLastD (0.0 : α)) sched
      { best := none, bestC := O.contrast t bg, bestDE := O.inf } with h | ⟨_, h⟩ | h
    · cases h
    · exact Or.inl h
    · exact Or.inr h

/-- needs `LawfulNumOrd`: the result meets the target, or the loop processed a prefix `pre` of the
    schedule and stopped — schedule exhausted (`post = []`) or early termination on a colour meeting
    the minimum — and the result is the best seen: its contrast is at least the input's and at
    least that of **every** phase result (lightness search or descent) of every entry in `pre`.
    (With `genAccessible_origin`: it is the input or one of those phase results.) -/
theorem genAccessible_returns_target_or_best [LawfulNumOrd α] (O : Leaf α) (d : Descend α)
    (t bg : RGB) (target minC : α) (sched : List α) :
    Num.ge (O.contrast (genAccessible O d t bg target minC sched) bg) target = true ∨
    ∃ pre post, sched = pre ++ post ∧
      (post = [] ∨ Num.ge (O.contrast (genAccessible O d t bg target minC sched) bg) minC = true) ∧
      Num.le (O.contrast t bg) (O.contrast (genAccessible O d t bg target minC sched) bg) = true ∧
      ∀ thr ∈ pre, ∀ b, PhaseRes O d t bg target thr b →
        Num.le (O.contrast b bg) (O.contrast (genAccessible O d t bg target minC sched) bg) = true := by
  simp only [genAccessible]
  split
  · rename_i h; exact Or.inl h
  · exact genLoop_spec O d t bg target minC _ sched _ ⟨fun b hb => (by cases hb), fun _ => rfl⟩

/-- needs `LawfulNumOrd` and `minC ≤ target`: if ANY phase result at ANY entry of the schedule meets
    the minimum, the final result meets the minimum — success can only be lost by never seeing a
    passing candidate.  (A phase result does not depend on the loop state, and every return before
    an entry is reached is itself on a colour meeting the target or the minimum.) -/
theorem gen_success_if_some_phase_meets_min [LawfulNumOrd α] (O : Leaf α) (d : Descend α)
    (t bg : RGB) (target minC : α) (sched : List α) (hmt : Num.le minC target = true)
    (thr : α) (hthr : thr ∈ sched) (b : RGB) (hb : PhaseRes O d t bg target thr b)
    (hk : Num.ge (O.contrast b bg) minC = true) :
    Num.ge (O.contrast (genAccessible O d t bg target minC sched) bg) minC = true := by
  simp only [genAccessible]
  split
  · rename_i h; exact le_trans' hmt h
  · exact genLoop_ge_of_phase O d t bg target minC _ hmt sched _
      ⟨fun b hb => (by cases hb), fun _ => rfl⟩ thr hthr b hb hk

/-- the special case asked for: the lightness search at some entry returns a colour meeting the target -/
theorem genAccessible_success_of_bs [LawfulNumOrd α] (O : Leaf α) (d : Descend α)
    (t bg : RGB) (target minC : α) (sched : List α) (hmt : Num.le minC target = true)
    (thr : α) (hthr : thr ∈ sched) (r : RGB) (hr : binarySearch O t bg thr target = some r)
    (hk : Num.ge (O.contrast r bg) target = true) :
    Num.ge (O.contrast (genAccessible O d t bg target minC sched) bg) minC = true :=
  gen_success_if_some_phase_meets_min O d t bg target minC sched hmt thr hthr r (Or.inl hr)
    (le_trans' hmt hk)

/-- needs `LawfulNumOrd`: with the text itself below the minimum, if a phase result at an entry
    `thr ≤ 2.5` of a schedule ending `≤ 5.0` meets the minimum, the search returns **at or before
    that entry**: the result meets the minimum and is the text or within one of the tolerances up
    to and including `thr` -/
theorem gen_early_within [LawfulNumOrd α] (O : Leaf α) (d : Descend α) (t bg : RGB) (target minC : α)
    (hcur : Num.ge (O.contrast t bg) minC = false) (hmt : Num.le minC target = true)
    (pre : List α) (thr : α) (post : List α)
    (h1 : Num.le thr (2.5 : α) = true)
    (h2 : Num.le ((pre ++ thr :: post).getLastD (0.0 : α)) (5.0 : α) = true)
    (b : RGB) (hb : PhaseRes O d t bg target thr b) (hk : Num.ge (O.contrast b bg) minC = true) :
    Num.ge (O.contrast (genAccessible O d t bg target minC (pre ++ thr :: post)) bg) minC = true ∧
    Within O t (pre ++ [thr]) (genAccessible O d t bg target minC (pre ++ thr :: post)) := by
  refine ⟨gen_success_if_some_phase_meets_min O d t bg target minC _ hmt thr (by simp) b hb hk, ?_⟩
  simp only [genAccessible]
  split
  · exact Or.inl rfl
  · exact genLoop_early_within O d t bg target minC _ hcur (pre ++ [thr]) pre thr post (fun x hx => hx)
      h1 h2 b hb hk _ ⟨fun b hb => (by cases hb), fun _ => rfl⟩ (by intro b hb; cases hb)

/-- "the text itself, or a valid colour within CIEDE2000 2.0 of it" -/
def Close (O : Leaf α) (t r : RGB) : Prop :=
  r = t ∨ (O.validRgb r = true ∧ Num.le (O.deltaE t r) (2.0 : α) = true)

theorem close_of_within [LawfulNumOrd α] (O : Leaf α) (t r : RGB) (W : List α)
    (hW : ∀ x ∈ W, Num.le x (2.0 : α) = true) (h : Within O t W r) : Close O t r := by
  rcases h with h | ⟨thr, hm, hv, hd⟩
  · exact Or.inl h
  · exact Or.inr ⟨hv, le_trans' (le_of_not_lt hd) (hW thr hm)⟩

section lit
variable [LawfulNumOrd α] [LawfulLit α]

theorem upTo16_le_2 : ∀ x ∈ ([0.8, 1.0, 1.2, 1.4] ++ [1.6] : List α), Num.le x (2.0 : α) = true := by
  intro x h
  simp only [List.cons_append, List.nil_append, List.mem_cons, List.not_mem_nil, or_false] at h
  rcases h with rfl|rfl|rfl|rfl|rfl <;> exact LawfulLit.lit_le _ _ _ _ (by decide)

/-- a schedule that starts `0.8, 1.0, 1.2, 1.4, 1.6` and ends `≤ 5.0`: a phase result at `1.6`
    meeting the minimum ⇒ the result meets the minimum and is `Close` to the text -/
theorem gen_entry16 (O : Leaf α) (d : Descend α) (t bg : RGB) (target minC : α) (post : List α)
    (hcur : Num.ge (O.contrast t bg) minC = false) (hmt : Num.le minC target = true)
    (h2 : Num.le (([0.8, 1.0, 1.2, 1.4] ++ (1.6 : α) :: post).getLastD (0.0 : α)) (5.0 : α) = true)
    (b : RGB) (hb : PhaseRes O d t bg target (1.6 : α) b)
    (hk : Num.ge (O.contrast b bg) minC = true) :
    Num.ge (O.contrast (genAccessible O d t bg target minC ([0.8, 1.0, 1.2, 1.4] ++ (1.6 : α) :: post)) bg)
      minC = true ∧
    Close O t (genAccessible O d t bg target minC ([0.8, 1.0, 1.2, 1.4] ++ (1.6 : α) :: post)) := by
  have h := gen_early_within O d t bg target minC hcur hmt [0.8, 1.0, 1.2, 1.4] (1.6 : α) post
    (LawfulLit.lit_le 16 1 25 1 (by decide)) h2 b hb hk
  exact ⟨h.1, close_of_within O t _ _ upTo16_le_2 h.2⟩

theorem defaultSchedule_split :
    (defaultSchedule : List α) = [0.8, 1.0, 1.2, 1.4] ++ (1.6 : α) ::
      [1.8, 2.0, 2.1, 2.2, 2.3, 2.4, 2.5, 2.7, 3.0, 3.5, 4.0, 5.0] := rfl

theorem stepSchedule_split :
    (stepSchedule : List α) = [0.8, 1.0, 1.2, 1.4] ++ (1.6 : α) :: [1.8, 2.0, 2.2, 2.5, 2.8, 3.0] := rfl

/-- both schedules used by the three modes: a phase result at tolerance `1.6` that meets the minimum
    makes the multi-phase search return, at or before that entry, a colour meeting the minimum -/
theorem gen_default_entry16 (O : Leaf α) (d : Descend α) (t bg : RGB) (target minC : α)
    (hcur : Num.ge (O.contrast t bg) minC = false) (hmt : Num.le minC target = true)
    (b : RGB) (hb : PhaseRes O d t bg target (1.6 : α) b)
    (hk : Num.ge (O.contrast b bg) minC = true) :
    Num.ge (O.contrast (genAccessible O d t bg target minC defaultSchedule) bg) minC = true ∧
    Close O t (genAccessible O d t bg target minC defaultSchedule) := by
  rw [defaultSchedule_split]
  exact gen_entry16 O d t bg target minC _ hcur hmt (le_rfl' _) b hb hk

theorem gen_step_entry16 (O : Leaf α) (d : Descend α) (t bg : RGB) (target minC : α)
    (hcur : Num.ge (O.contrast t bg) minC = false) (hmt : Num.le minC target = true)
    (b : RGB) (hb : PhaseRes O d t bg target (1.6 : α) b)
    (hk : Num.ge (O.contrast b bg) minC = true) :
    Num.ge (O.contrast (genAccessible O d t bg target minC stepSchedule) bg) minC = true ∧
    Close O t (genAccessible O d t bg target minC stepSchedule) := by
  rw [stepSchedule_split]
  exact gen_entry16 O d t bg target minC _ hcur hmt (LawfulLit.lit_le 30 1 50 1 (by decide)) b hb hk

end lit

/-! ## 4. The strategies -/

/-- mode 0 (needs `LawfulNumOrd`): success can only be lost by never seeing a passing candidate -/
theorem strict_success_if_seen [LawfulNumOrd α] (O : Leaf α) (d : Descend α) (t bg : RGB)
    (target minC : α) (hmt : Num.le minC target = true)
    (thr : α) (hthr : thr ∈ (defaultSchedule : List α)) (b : RGB)
    (hb : PhaseRes O d t bg target thr b) (hk : Num.ge (O.contrast b bg) minC = true) :
    (strategyStrict O d t bg target minC).2 = true :=
  gen_success_if_some_phase_meets_min O d t bg target minC defaultSchedule hmt thr hthr b hb hk

/-- mode 1, every carrier: if the first multi-phase step returns a colour meeting the minimum, the
    strategy returns it, with success -/
theorem recursive_success_first_step (O : Leaf α) (d : Descend α) (t bg : RGB) (target minC : α)
    (hcur : Num.ge (O.contrast t bg) minC = false)
    (hnext : Num.ge (O.contrast (genAccessible O d t bg target minC stepSchedule) bg) minC = true) :
    strategyRecursive O d t bg target minC = (genAccessible O d t bg target minC stepSchedule, true) := by
  show recursiveLoop O d bg target minC (9 + 1) t = _
  simp only [recursiveLoop, hcur, hnext, Bool.false_eq_true, if_false, if_true]
  split <;> rfl

/-- … and without assuming the text is below the minimum: success in any case -/
theorem recursive_success_first_step' (O : Leaf α) (d : Descend α) (t bg : RGB) (target minC : α)
    (hnext : Num.ge (O.contrast (genAccessible O d t bg target minC stepSchedule) bg) minC = true) :
    (strategyRecursive O d t bg target minC).2 = true := by
  show (recursiveLoop O d bg target minC (9 + 1) t).2 = true
  simp only [recursiveLoop, hnext, if_true]
  repeat' split
  all_goals rfl

/-- mode 1 (needs `LawfulNumOrd`): a passing candidate seen in the first step ⇒ success -/
theorem recursive_success_if_seen [LawfulNumOrd α] (O : Leaf α) (d : Descend α) (t bg : RGB)
    (target minC : α) (hmt : Num.le minC target = true)
    (thr : α) (hthr : thr ∈ (stepSchedule : List α)) (b : RGB)
    (hb : PhaseRes O d t bg target thr b) (hk : Num.ge (O.contrast b bg) minC = true) :
    (strategyRecursive O d t bg target minC).2 = true :=
  recursive_success_first_step' O d t bg target minC
    (gen_success_if_some_phase_meets_min O d t bg target minC stepSchedule hmt thr hthr b hb hk)

/-- mode 2 returns mode 1's result then -/
theorem relaxed_success_first_step (O : Leaf α) (d : Descend α) (t bg : RGB) (target minC : α)
    (hcur : Num.ge (O.contrast t bg) minC = false)
    (hnext : Num.ge (O.contrast (genAccessible O d t bg target minC stepSchedule) bg) minC = true) :
    strategyRelaxed O d t bg target minC = (genAccessible O d t bg target minC stepSchedule, true) := by
  have h := recursive_success_first_step O d t bg target minC hcur hnext
  rw [CmProps.C16.relaxed_of_recursive O d t bg target minC (by rw [h]), h]

theorem relaxed_success_if_seen [LawfulNumOrd α] (O : Leaf α) (d : Descend α) (t bg : RGB)
    (target minC : α) (hmt : Num.le minC target = true)
    (thr : α) (hthr : thr ∈ (stepSchedule : List α)) (b : RGB)
    (hb : PhaseRes O d t bg target thr b) (hk : Num.ge (O.contrast b bg) minC = true) :
    (strategyRelaxed O d t bg target minC).2 = true := by
  have h := recursive_success_if_seen O d t bg target minC hmt thr hthr b hb hk
  rw [CmProps.C16.relaxed_of_recursive O d t bg target minC h]; exact h

section lit
variable [LawfulNumOrd α] [LawfulLit α]

/-- the minimum never exceeds the target, in all four settings -/
theorem min_le_target (large premium : Bool) :
    Num.le (thresholds (α := α) large premium).1 (thresholds (α := α) large premium).2 = true := by
  cases large <;> cases premium
  · exact LawfulLit.lit_le 45 1 70 1 (by decide)
  · exact le_rfl' _
  · exact LawfulLit.lit_le 30 1 45 1 (by decide)
  · exact le_rfl' _

/-- all three strategies: a phase result at tolerance `1.6` meeting the minimum ⇒ success, with a
    colour `Close` to the text -/
theorem strategies_C03_of_seen (O : Leaf α) (d : Descend α) (t bg : RGB) (target minC : α)
    (hcur : Num.ge (O.contrast t bg) minC = false) (hmt : Num.le minC target = true)
    (b : RGB) (hb : PhaseRes O d t bg target (1.6 : α) b)
    (hk : Num.ge (O.contrast b bg) minC = true) :
    ((strategyStrict O d t bg target minC).2 = true ∧ Close O t (strategyStrict O d t bg target minC).1) ∧
    ((strategyRecursive O d t bg target minC).2 = true ∧
      Close O t (strategyRecursive O d t bg target minC).1) ∧
    ((strategyRelaxed O d t bg target minC).2 = true ∧
      Close O t (strategyRelaxed O d t bg target minC).1) := by
  have h0 := gen_default_entry16 O d t bg target minC hcur hmt b hb hk
  have h1 := gen_step_entry16 O d t bg target minC hcur hmt b hb hk
  refine ⟨h0, ?_, ?_⟩
  · rw [recursive_success_first_step O d t bg target minC hcur h1.1]; exact ⟨rfl, h1.2⟩
  · rw [relaxed_success_first_step O d t bg target minC hcur h1.1]; exact ⟨rfl, h1.2⟩

/-- `check_and_fix_contrast`, every mode (any integer), text size and very-readable setting:
    if one of the two phases at tolerance `1.6` (with the setting's target) returns a colour meeting
    the setting's minimum, the call succeeds and returns the text itself or a valid colour within
    CIEDE2000 2.0 of it -/
theorem checkAndFix_C03_of_seen (O : Leaf α) (d : Descend α) (t bg : RGB) (large premium : Bool)
    (mode : Int) (b : RGB)
    (hb : PhaseRes O d t bg (thresholds (α := α) large premium).2 (1.6 : α) b)
    (hk : Num.ge (O.contrast b bg) (thresholds (α := α) large premium).1 = true) :
    (checkAndFix O d t bg large mode premium).2 = true ∧
    Close O t (checkAndFix O d t bg large mode premium).1 := by
  simp only [checkAndFix]
  by_cases hc : Num.ge (O.contrast t bg) (thresholds (α := α) large premium).1 = true
  · rw [if_pos hc]; exact ⟨rfl, Or.inl rfl⟩
  · have hcur : Num.ge (O.contrast t bg) (thresholds (α := α) large premium).1 = false := by
      cases hx : Num.ge (O.contrast t bg) (thresholds (α := α) large premium).1 with
      | false => rfl
      | true => exact absurd hx hc
    obtain ⟨h0, h1, h2⟩ := strategies_C03_of_seen O d t bg _ _ hcur (min_le_target large premium) b hb hk
    rw [if_neg hc]
    repeat' split
    all_goals first | exact h0 | exact h1 | exact h2

/-- the same, from what the bisection at tolerance `1.6` **probes** (needs a positive minimum):
    if one of its 20 probes is in tolerance and has contrast at least the minimum, the call succeeds
    with a colour `Close` to the text -/
theorem checkAndFix_C03_of_probe (O : Leaf α) (d : Descend α) (t bg : RGB) (large premium : Bool)
    (mode : Int) (hpos : Num.lt (0.0 : α) (thresholds (α := α) large premium).1 = true)
    (hprobe : ∃ m ∈ bsProbes O t bg (1.6 : α) (thresholds (α := α) large premium).2,
      Acc O t (1.6 : α) (bsC O t) (bsH O t) m ∧
      Num.ge (kAt O bg (bsC O t) (bsH O t) m) (thresholds (α := α) large premium).1 = true) :
    (checkAndFix O d t bg large mode premium).2 = true ∧
    Close O t (checkAndFix O d t bg large mode premium).1 := by
  obtain ⟨r, hr, hk, _⟩ := binarySearch_ge_of_probe O t bg (1.6 : α) _ _ hpos
    (min_le_target large premium) hprobe
  exact checkAndFix_C03_of_seen O d t bg large premium mode r (Or.inl hr) hk

end lit

/-! ## 5. The full-strength property, and what separates it from 1–4

`C03_full O d` below is the property as worded.  It is a **definition, not a theorem**: for an
arbitrary leaf record it is false (take `deltaE`/`contrast` that make the witness an isolated point
which the 20 dyadic probes miss), and for the real leaves it is a statement about the numeric shape
of CIEDE2000 and WCAG contrast along a line of constant OKLCH chroma and hue.

What 1–4 prove is `C03_full_of_probeHyp`: `C03_full` follows from the single hypothesis
`ProbeHyp O` — "whenever the witness exists (and the text is below the minimum), one of the 20
lightnesses probed by the bisection at tolerance 1.6 is in tolerance and has contrast at least the
minimum" — plus `0 < minimum` and `ΔE(t, t) ≤ 2.0`.

`ProbeHyp` in turn follows (lemmas `miss_brackets_band`, `hit_of_unbracketed` below) from three
numeric hypotheses about the leaves along the searched lightness interval `I` (from the text's
lightness to 1.0 when searching up, from 0.0 to it when searching down):

* `Mono` — `MonoOn.acc_towards`: in-tolerance is inherited towards the text (`d` does not decrease
  away from the text and validity is not lost towards it); `MonoOn.k_away`: `k` does not decrease
  away from the text.  Then the band `{L ∈ I | A L ∧ k L ≥ v}` is an interval, every probe below it
  is in tolerance and below the target (the loop moves away from the text), every probe beyond it
  is out of tolerance (the loop moves towards the text), so a probe that misses the band keeps the
  whole band inside `[low, high]`.
* `DirOK` — the side chosen by `searchUp` (away from the background's lightness) is the side on
  which `k` grows, i.e. `k_away` holds for the `up` the code computes, and the witness lies on
  that side (`I L`).  On the other side the loop never looks.
* `Res` — the band is wider than what 20 halvings leave: it contains two points that the final
  interval `[low₂₀, high₂₀]` cannot both contain (at an ordered field carrier
  `high₂₀ − low₂₀ = (high₀ − low₀) / 2²⁰`, so "two band points further apart than that").  The
  0.05 margin and the 1.5-vs-1.6 margin are what make the band wide: with `k` `K`-Lipschitz the band
  at tolerance 1.6 and level `minimum` contains `[L* − 0.05/K, L*]`.

No control-flow argument can supply these: the model's loop is the same function of the leaf record
whether or not `d` and `k` are monotone, the direction test looks only at two lightness values, and
the iteration count 20 is a constant — nothing in the code inspects the width of the band.
-/

/-- **C03 as worded. A definition — NOT claimed as a theorem.** -/
def C03_full (O : Leaf α) (d : Descend α) : Prop :=
  ∀ (t bg : RGB) (large premium : Bool) (mode : Int),
    (∃ L : α, Acc O t (1.5 : α) (bsC O t) (bsH O t) L ∧
      Num.ge (kAt O bg (bsC O t) (bsH O t) L)
        ((thresholds (α := α) large premium).1 + (0.05 : α)) = true) →
    (checkAndFix O d t bg large mode premium).2 = true ∧
    Num.le (O.deltaE t (checkAndFix O d t bg large mode premium).1) (2.0 : α) = true

/-- the one numeric hypothesis between 1–4 and `C03_full` -/
def ProbeHyp (O : Leaf α) : Prop :=
  ∀ (t bg : RGB) (large premium : Bool),
    Num.ge (O.contrast t bg) (thresholds (α := α) large premium).1 = false →
    (∃ L : α, Acc O t (1.5 : α) (bsC O t) (bsH O t) L ∧
      Num.ge (kAt O bg (bsC O t) (bsH O t) L)
        ((thresholds (α := α) large premium).1 + (0.05 : α)) = true) →
    ∃ m ∈ bsProbes O t bg (1.6 : α) (thresholds (α := α) large premium).2,
      Acc O t (1.6 : α) (bsC O t) (bsH O t) m ∧
      Num.ge (kAt O bg (bsC O t) (bsH O t) m) (thresholds (α := α) large premium).1 = true

/-- the same one step later: the lightness search at tolerance 1.6 returns a colour meeting the minimum -/
def SeenHyp (O : Leaf α) : Prop :=
  ∀ (t bg : RGB) (large premium : Bool),
    Num.ge (O.contrast t bg) (thresholds (α := α) large premium).1 = false →
    (∃ L : α, Acc O t (1.5 : α) (bsC O t) (bsH O t) L ∧
      Num.ge (kAt O bg (bsC O t) (bsH O t) L)
        ((thresholds (α := α) large premium).1 + (0.05 : α)) = true) →
    ∃ r, binarySearch O t bg (1.6 : α) (thresholds (α := α) large premium).2 = some r ∧
      Num.ge (O.contrast r bg) (thresholds (α := α) large premium).1 = true

theorem seenHyp_of_probeHyp [LawfulNumOrd α] [LawfulLit α] (O : Leaf α) (hprobe : ProbeHyp O)
    (hpos : ∀ large premium, Num.lt (0.0 : α) (thresholds (α := α) large premium).1 = true) :
    SeenHyp O := by
  intro t bg large premium hcur hw
  obtain ⟨r, hr, hk, _⟩ := binarySearch_ge_of_probe O t bg (1.6 : α) _ _ (hpos large premium)
    (min_le_target large premium) (hprobe t bg large premium hcur hw)
  exact ⟨r, hr, hk⟩

/-- the reduction (needs `LawfulNumOrd`, `LawfulLit`): `SeenHyp` and `ΔE(t, t) ≤ 2.0` give the
    property as worded, for every descent function -/
theorem C03_full_of_seenHyp [LawfulNumOrd α] [LawfulLit α] (O : Leaf α) (d : Descend α)
    (hseen : SeenHyp O) (hself : ∀ t, Num.le (O.deltaE t t) (2.0 : α) = true) :
    C03_full O d := by
  intro t bg large premium mode hw
  have close_le : ∀ r, Close O t r → Num.le (O.deltaE t r) (2.0 : α) = true := by
    intro r hr
    rcases hr with rfl | ⟨_, h⟩
    · exact hself _
    · exact h
  by_cases hc : Num.ge (O.contrast t bg) (thresholds (α := α) large premium).1 = true
  · have e := CmProps.C02.already_ok_identity O d t bg large premium mode hc
    rw [e]; exact ⟨rfl, hself t⟩
  · have hcur : Num.ge (O.contrast t bg) (thresholds (α := α) large premium).1 = false := by
      cases hx : Num.ge (O.contrast t bg) (thresholds (α := α) large premium).1 with
      | false => rfl
      | true => exact absurd hx hc
    obtain ⟨r, hr, hk⟩ := hseen t bg large premium hcur hw
    obtain ⟨h1, h2⟩ := checkAndFix_C03_of_seen O d t bg large premium mode r (Or.inl hr) hk
    exact ⟨h1, close_le _ h2⟩

/-- … hence from `ProbeHyp` and positive minima -/
theorem C03_full_of_probeHyp [LawfulNumOrd α] [LawfulLit α] (O : Leaf α) (d : Descend α)
    (hprobe : ProbeHyp O)
    (hpos : ∀ large premium, Num.lt (0.0 : α) (thresholds (α := α) large premium).1 = true)
    (hself : ∀ t, Num.le (O.deltaE t t) (2.0 : α) = true) :
    C03_full O d :=
  C03_full_of_seenHyp O d (seenHyp_of_probeHyp O hprobe hpos) hself

/-- **bracketing** (needs `LawfulNumOrd`; `Mono` + `DirOK` as `MonoOn … up I`): as long as every
    probe (all in `I`) misses the band `{L | A L ∧ k L ≥ v}`, `v ≤ target`, every point of the band
    that lies in `I` and in the starting interval stays inside the current interval -/
theorem miss_brackets_band [LawfulNumOrd α] (O : Leaf α) (t bg : RGB) (thr target c h : α)
    (up : Bool) (I : α → Prop) (hmono : MonoOn O t bg thr c h up I)
    (v : α) (hv : Num.le v target = true) (L : α) (hI : I L) (hL : Hit O t bg thr c h v L)
    (n : Nat) (s : BS α)
    (hIm : ∀ m ∈ (bsLoopTrace O t bg thr target c h up n s).2, I m)
    (hmiss : ∀ m ∈ (bsLoopTrace O t bg thr target c h up n s).2, ¬ Hit O t bg thr c h v m)
    (hb : Brackets s L) :
    Brackets (bsLoop O t bg thr target c h up n s) L :=
  Cm.miss_brackets_band O t bg thr target c h up I hmono v hv L hI hL n s hIm hmiss hb

/-- `Res` in its abstract form: a band point that the final interval does not contain proves that
    some probe hit the band -/
theorem hit_of_unbracketed [LawfulNumOrd α] (O : Leaf α) (t bg : RGB) (thr target c h : α)
    (up : Bool) (I : α → Prop) (hmono : MonoOn O t bg thr c h up I)
    (v : α) (hv : Num.le v target = true) (L : α) (hI : I L) (hL : Hit O t bg thr c h v L)
    (n : Nat) (s : BS α)
    (hIm : ∀ m ∈ (bsLoopTrace O t bg thr target c h up n s).2, I m)
    (hb : Brackets s L) (hnb : ¬ Brackets (bsLoop O t bg thr target c h up n s) L) :
    ∃ m ∈ (bsLoopTrace O t bg thr target c h up n s).2, Hit O t bg thr c h v m :=
  hit_of_not_bracketed O t bg thr target c h up I hmono v hv L hI hL n s hIm hb hnb

/-- … and so the lightness search returns an in-tolerance colour of contrast `≥ v`:
    `Mono` + `DirOK` + `Res` ⇒ what 2–4 need.  `Res` here: some band point inside the starting
    interval is outside the final one. -/
theorem binarySearch_complete_of_mono_res [LawfulNumOrd α] (O : Leaf α) (t bg : RGB) (thr target v : α)
    (hpos : Num.lt (0.0 : α) v = true) (hv : Num.le v target = true)
    (I : α → Prop) (hmono : MonoOn O t bg thr (bsC O t) (bsH O t) (bsUp O t bg) I)
    (hIm : ∀ m ∈ bsProbes O t bg thr target, I m)
    (L : α) (hI : I L) (hL : Hit O t bg thr (bsC O t) (bsH O t) v L)
    (hb : Brackets (bsStart O t bg) L)
    (hres : ¬ Brackets (bsLoop O t bg thr target (bsC O t) (bsH O t) (bsUp O t bg) 20
      (bsStart O t bg)) L) :
    ∃ r, binarySearch O t bg thr target = some r ∧ Num.ge (O.contrast r bg) v = true ∧
      InTol O t thr r := by
  obtain ⟨m, hm, hA, hk⟩ := hit_of_not_bracketed O t bg thr target _ _ _ I hmono v hv L hI hL 20
    (bsStart O t bg) hIm hb hres
  exact binarySearch_ge_of_probe O t bg thr target v hpos hv ⟨m, hm, hA, hk⟩

/-! ## 6. Exact carriers: `Res` made concrete, and C03 relative to `Mono` + `DirOK` + `Res`

At a carrier whose arithmetic is that of an ordered field (`FieldCarrier N`; proved for `ℚ`/`ratNum`
and `ℝ`/`realNum`) each iteration halves the interval exactly, so `Res` becomes "the band contains
two points of the searched interval more than `2⁻²⁰` apart" (`BandHyp.band`). -/

section field
variable {F : Type} [Field F] [LinearOrder F] [IsStrictOrderedRing F] {N : Num F}

/-- `n` iterations leave an interval of width `(high − low) / 2ⁿ` inside the initial one, and every
    probe lies in the initial interval -/
theorem bsLoop_width (FC : FieldCarrier N) (O : Leaf F) (t bg : RGB) (thr target c h : F) (up : Bool)
    (n : Nat) (s : BS F) (hs : s.low ≤ s.high) :
    s.low ≤ (@bsLoop F N O t bg thr target c h up n s).low ∧
    (@bsLoop F N O t bg thr target c h up n s).low ≤ (@bsLoop F N O t bg thr target c h up n s).high ∧
    (@bsLoop F N O t bg thr target c h up n s).high ≤ s.high ∧
    (@bsLoop F N O t bg thr target c h up n s).high - (@bsLoop F N O t bg thr target c h up n s).low
      = (s.high - s.low) / 2 ^ n ∧
    ∀ m ∈ (@bsLoopTrace F N O t bg thr target c h up n s).2, s.low ≤ m ∧ m ≤ s.high :=
  Cm.bsLoop_width FC O t bg thr target c h up n s hs

/-- the lightness search is complete relative to `BandHyp` (= `Mono` + `DirOK` + `Res` for this
    call, at level `0 < v ≤ target`) -/
theorem binarySearch_complete (FC : FieldCarrier N) (O : Leaf F) (t bg : RGB) (thr target v : F)
    (hpos : 0 < v) (hv : v ≤ target) (H : BandHyp (N := N) O t bg thr v) :
    ∃ r, @binarySearch F N O t bg thr target = some r ∧ v ≤ O.contrast r bg ∧ @InTol F N O t thr r :=
  binarySearch_complete_field FC O t bg thr target v hpos hv H

/-- `Mono` + `DirOK` + `Res` for every call the property talks about: whenever the text is below
    the minimum and the witness exists, the band at tolerance 1.6 and level `minimum` satisfies
    `BandHyp` -/
def BandHypAll (N : Num F) (O : Leaf F) : Prop :=
  ∀ (t bg : RGB) (large premium : Bool),
    @Num.ge F N (O.contrast t bg) (@thresholds F N large premium).1 = false →
    (∃ L : F, @Acc F N O t (@OfScientific.ofScientific F N.toOfScientific 15 true 1) (bsC O t) (bsH O t) L ∧
      @Num.ge F N (kAt O bg (bsC O t) (bsH O t) L)
        (@HAdd.hAdd F F F (@instHAdd F N.toAdd) (@thresholds F N large premium).1
          (@OfScientific.ofScientific F N.toOfScientific 5 true 2)) = true) →
    BandHyp (N := N) O t bg (@OfScientific.ofScientific F N.toOfScientific 16 true 1)
      (@thresholds F N large premium).1

theorem thresholds_pos (FC : FieldCarrier N) (large premium : Bool) :
    (0 : F) < (@thresholds F N large premium).1 := by
  cases large <;> cases premium
  · show (0 : F) < @OfScientific.ofScientific F N.toOfScientific 45 true 1
    rw [FC.sci_eq]; norm_num
  · show (0 : F) < @OfScientific.ofScientific F N.toOfScientific 70 true 1
    rw [FC.sci_eq]; norm_num
  · show (0 : F) < @OfScientific.ofScientific F N.toOfScientific 30 true 1
    rw [FC.sci_eq]; norm_num
  · show (0 : F) < @OfScientific.ofScientific F N.toOfScientific 45 true 1
    rw [FC.sci_eq]; norm_num

/-- **C03 as worded, at an exact carrier, relative to `Mono` + `DirOK` + `Res`** (and
    `ΔE(t, t) ≤ 2.0`): every mode, text size, very-readable setting, descent function -/
theorem C03_full_of_bandHyp (FC : FieldCarrier N) (O : Leaf F) (d : Descend F)
    (H : BandHypAll N O) (hself : ∀ t, O.deltaE t t ≤ 2) :
    @C03_full F N O d := by
  refine @C03_full_of_seenHyp F N FC.lawful FC.lit O d ?_ ?_
  · intro t bg large premium hcur hw
    obtain ⟨r, h1, h2, _⟩ := binarySearch_complete_field FC O t bg _ (@thresholds F N large premium).2
      (@thresholds F N large premium).1 (thresholds_pos FC large premium)
      ((FC.le_iff _ _).1 (@min_le_target F N FC.lawful FC.lit large premium))
      (H t bg large premium hcur hw)
    exact ⟨r, h1, (FC.le_iff _ _).2 h2⟩
  · intro t
    rw [FC.le_iff, FC.sci_eq]
    have := hself t
    norm_num
    exact this

/-- … in particular at the real numbers -/
theorem C03_full_real (O : Leaf ℝ) (d : Descend ℝ) (H : BandHypAll realNum.toNum O)
    (hself : ∀ t, O.deltaE t t ≤ 2) : @C03_full ℝ realNum.toNum O d :=
  C03_full_of_bandHyp realFieldCarrier O d H hself

/-- … and at the exact rationals -/
theorem C03_full_rat (O : Leaf ℚ) (d : Descend ℚ) (H : BandHypAll ratNum O)
    (hself : ∀ t, O.deltaE t t ≤ 2) : @C03_full ℚ ratNum O d :=
  C03_full_of_bandHyp ratFieldCarrier O d H hself

end field

/-! ## Non-vacuity: the hypotheses are satisfiable (exact rationals, constant leaves) -/

section examples

/-- the order laws hold at the exact rational carrier -/
theorem ratLawful : @LawfulNumOrd ℚ ratNum :=
  @LawfulNumOrd.mk ℚ ratNum
    (fun a => (rat_le a a).2 (_root_.le_refl a))
    (fun a b c h1 h2 => (rat_le a c).2 (_root_.le_trans ((rat_le a b).1 h1) ((rat_le b c).1 h2)))
    (fun a b => by
      rcases _root_.le_total a b with h | h
      · exact Or.inl ((rat_le a b).2 h)
      · exact Or.inr ((rat_le b a).2 h))
    (fun a b => by
      rw [rat_lt]
      constructor
      · intro h
        cases hx : @Num.le ℚ ratNum b a with
        | false => rfl
        | true => exact absurd ((rat_le b a).1 hx) (not_le.2 h)
      · intro h
        apply lt_of_not_ge
        intro hba
        rw [(rat_le b a).2 hba] at h; cases h)

theorem rat_gt_false {a b : ℚ} (h : a ≤ b) : @Num.gt ℚ ratNum a b = false := by
  cases hx : @Num.gt ℚ ratNum a b with
  | false => rfl
  | true => exact absurd ((rat_gt a b).1 hx) (not_lt.2 h)

/-- a leaf record over ℚ made of constant functions: every candidate is the same grey, at distance 1
    from everything, with contrast 8 -/
def constLeaf : Leaf ℚ where
  contrast := fun _ _ => 8
  deltaE := fun _ _ => 1
  toOklch := fun _ => (1/2, 0, 0)
  ofOklch := fun _ => (100, 100, 100)
  validRgb := fun _ => true
  inf := 1000

theorem constLeaf_acc (L : ℚ) : @Acc ℚ ratNum constLeaf (0, 0, 0) (8/5) 0 0 L :=
  ⟨rfl, rat_gt_false (a := 1) (b := 8/5) (by norm_num)⟩

theorem constLeaf_meets (L : ℚ) : @Meets ℚ ratNum constLeaf (255, 255, 255) 7 0 0 L :=
  (rat_ge 8 7).2 (by norm_num)

/-- the hypothesis of `binarySearch_meets_target_of_probe` is satisfiable, and its conclusion is
    not vacuous: the search at this leaf does return a colour -/
example : ∃ r, @binarySearch ℚ ratNum constLeaf (0, 0, 0) (255, 255, 255) (8/5) 7 = some r ∧
    @Num.ge ℚ ratNum (constLeaf.contrast r (255, 255, 255)) 7 = true ∧
    @InTol ℚ ratNum constLeaf (0, 0, 0) (8/5) r := by
  obtain ⟨r, h1, h2, h3, _⟩ := @binarySearch_meets_target_of_probe ℚ ratNum ratLawful constLeaf
    (0, 0, 0) (255, 255, 255) (8/5) 7 ((rat_lt _ _).2 (by rw [rat_sci]; norm_num))
    (by
      have hl := @bsProbes_length ℚ ratNum constLeaf (0, 0, 0) (255, 255, 255) (8/5) 7
      cases hp : @bsProbes ℚ ratNum constLeaf (0, 0, 0) (255, 255, 255) (8/5) 7 with
      | nil => rw [hp] at hl; cases hl
      | cons m rest => exact ⟨m, by simp, constLeaf_acc m, constLeaf_meets m⟩)
  exact ⟨r, h1, h2, h3⟩

/-- a concrete state satisfying the invariant's "seen" clause -/
example : @BSSeen ℚ ratNum constLeaf (0, 0, 0) (255, 255, 255) (8/5) 7 0 0 (fun x => x = 3/4)
    { low := 1/2, high := 3/4, best := some (100, 100, 100), bestDE := 1, bestC := 8 } :=
  Or.inr ⟨3/4, rfl, rfl, constLeaf_acc _, constLeaf_meets _, rfl, rfl,
    fun _ _ _ _ => (rat_le 1 1).2 (_root_.le_refl 1)⟩

/-- … and one iteration from it, by the step lemma -/
example : @BSSeen ℚ ratNum constLeaf (0, 0, 0) (255, 255, 255) (8/5) 7 0 0
    (fun x => x = @bsMid ℚ ratNum
        { low := 1/2, high := 3/4, best := some (100, 100, 100), bestDE := 1, bestC := 8 } ∨ x = 3/4)
    (@bsStep ℚ ratNum constLeaf (0, 0, 0) (255, 255, 255) (8/5) 7 0 0 true
      { low := 1/2, high := 3/4, best := some (100, 100, 100), bestDE := 1, bestC := 8 }) :=
  @bsStep_seen ℚ ratNum constLeaf (0, 0, 0) (255, 255, 255) (8/5) 7 0 0 ratLawful true _ _
    (Or.inr ⟨3/4, rfl, rfl, constLeaf_acc _, constLeaf_meets _, rfl, rfl,
      fun _ _ _ _ => (rat_le 1 1).2 (_root_.le_refl 1)⟩)

/-- `MonoOn` is satisfiable (constant leaves are monotone in every direction) -/
example (up : Bool) : @MonoOn ℚ ratNum constLeaf (0, 0, 0) (255, 255, 255) (8/5) 0 0 up (fun _ => True) :=
  @MonoOn.mk ℚ ratNum constLeaf (0, 0, 0) (255, 255, 255) (8/5) 0 0 up (fun _ => True)
    (fun _ _ _ _ _ _ => constLeaf_acc _) (fun _ _ _ _ _ => (rat_le 8 8).2 (_root_.le_refl 8))

/-- `BandHyp` (`Mono` + `DirOK` + `Res`) is satisfiable: at the constant leaf the whole searched
    interval — of width 1/2 whichever way the code searches — is the band … -/
theorem constLeaf_bandHyp : BandHyp (N := ratNum) constLeaf (0, 0, 0) (255, 255, 255) (8/5) 7 := by
  obtain ⟨e1, e2⟩ := bsStart_low_high ratFieldCarrier constLeaf (0, 0, 0) (255, 255, 255)
  have hl : (constLeaf.toOklch (0, 0, 0)).1 = 1/2 := rfl
  refine ⟨by rw [hl]; norm_num, by rw [hl]; norm_num,
    @MonoOn.mk ℚ ratNum constLeaf (0, 0, 0) (255, 255, 255) (8/5) _ _ _ _
      (fun _ _ _ _ _ _ => constLeaf_acc _) (fun _ _ _ _ _ => (rat_le 8 8).2 (_root_.le_refl 8)),
    ⟨_, _, _root_.le_refl _, _root_.le_refl _, ⟨constLeaf_acc _, constLeaf_meets _⟩,
      ⟨constLeaf_acc _, constLeaf_meets _⟩, ?_⟩⟩
  rw [e1, e2, hl]
  split <;> norm_num

/-- … and the completeness theorem then produces a result -/
example : ∃ r, @binarySearch ℚ ratNum constLeaf (0, 0, 0) (255, 255, 255) (8/5) 7 = some r ∧
    (7 : ℚ) ≤ constLeaf.contrast r (255, 255, 255) := by
  obtain ⟨r, h1, h2, _⟩ := binarySearch_complete ratFieldCarrier constLeaf (0, 0, 0) (255, 255, 255)
    (8/5) 7 7 (by norm_num) (_root_.le_refl _) constLeaf_bandHyp
  exact ⟨r, h1, h2⟩

/-- a leaf where fixing is actually needed: every candidate is the grey `(100,100,100)`, which has
    contrast 8 against anything, while every other colour has contrast 1 -/
def greyLeaf : Leaf ℚ where
  contrast := fun r _ => if r = (100, 100, 100) then 8 else 1
  deltaE := fun _ _ => 1
  toOklch := fun _ => (1/2, 0, 0)
  ofOklch := fun _ => (100, 100, 100)
  validRgb := fun _ => true
  inf := 1000

theorem thresholds_le_8 (large premium : Bool) : (@thresholds ℚ ratNum large premium).1 ≤ 8 := by
  have h := (ratFieldCarrier).sci_eq
  cases large <;> cases premium
  · show @OfScientific.ofScientific ℚ ratNum.toOfScientific 45 true 1 ≤ 8
    rw [h]; norm_num
  · show @OfScientific.ofScientific ℚ ratNum.toOfScientific 70 true 1 ≤ 8
    rw [h]; norm_num
  · show @OfScientific.ofScientific ℚ ratNum.toOfScientific 30 true 1 ≤ 8
    rw [h]; norm_num
  · show @OfScientific.ofScientific ℚ ratNum.toOfScientific 45 true 1 ≤ 8
    rw [h]; norm_num

/-- `Mono` + `DirOK` + `Res` hold at `greyLeaf` for every call … -/
theorem greyLeaf_bandHypAll : BandHypAll ratNum greyLeaf := by
  intro t bg large premium _ _
  obtain ⟨e1, e2⟩ := bsStart_low_high ratFieldCarrier greyLeaf t bg
  have hl : (greyLeaf.toOklch t).1 = 1/2 := rfl
  have hacc : ∀ L : ℚ, @Acc ℚ ratNum greyLeaf t
      (@OfScientific.ofScientific ℚ ratNum.toOfScientific 16 true 1) (bsC greyLeaf t) (bsH greyLeaf t) L :=
    fun L => ⟨rfl, rat_gt_false (a := 1) (by rw [(ratFieldCarrier).sci_eq]; norm_num)⟩
  have hk : ∀ L : ℚ, @Num.ge ℚ ratNum (kAt greyLeaf bg (bsC greyLeaf t) (bsH greyLeaf t) L)
      (@thresholds ℚ ratNum large premium).1 = true :=
    fun L => (rat_ge _ _).2 (thresholds_le_8 large premium)
  refine ⟨by rw [hl]; norm_num, by rw [hl]; norm_num,
    @MonoOn.mk ℚ ratNum greyLeaf t bg _ _ _ _ _
      (fun _ _ _ _ _ _ => hacc _) (fun _ _ _ _ _ => (rat_le 8 8).2 (_root_.le_refl 8)),
    ⟨_, _, _root_.le_refl _, _root_.le_refl _, ⟨hacc _, hk _⟩, ⟨hacc _, hk _⟩, ?_⟩⟩
  rw [e1, e2, hl]
  split <;> norm_num

/-- … so the end-to-end theorem applies to it, for every descent function: an instance of
    `C03_full` whose hypothesis is not vacuous (black on white is below every minimum there) -/
example (d : Descend ℚ) : @C03_full ℚ ratNum greyLeaf d :=
  C03_full_rat greyLeaf d greyLeaf_bandHypAll (fun _ => by show (1 : ℚ) ≤ 2; norm_num)

example : @Num.ge ℚ ratNum (greyLeaf.contrast (0, 0, 0) (255, 255, 255))
    (@thresholds ℚ ratNum false false).1 = false := by
  cases hx : @Num.ge ℚ ratNum (greyLeaf.contrast (0, 0, 0) (255, 255, 255))
    (@thresholds ℚ ratNum false false).1 with
  | false => rfl
  | true =>
    have h := (rat_ge _ _).1 hx
    have e : (@thresholds ℚ ratNum false false).1 = @OfScientific.ofScientific ℚ ratNum.toOfScientific 45 true 1 := rfl
    rw [e, (ratFieldCarrier).sci_eq] at h
    have e2 : greyLeaf.contrast (0, 0, 0) (255, 255, 255) = 1 := by decide
    rw [e2] at h
    norm_num at h

end examples

end CmProps.C03
