import CmModel.Cli
import CmModel.CliErr
import CmProofs.CliLemmas
import CmProofs.CliTopLemmas
import CmGen.CliRules
import CmProps.C08rules
/-!
# C08 — the loop of `process_nodes_recursive` run on the stylesheet itself (the call in `main`) is the model's `processTop`

`CmGen.CliRules.process_top` is the translated loop with `top = some i` for node number i (`rule_declarations.get(id(node))` is
tried for *every* top-level node); the model's `processTop` passes the index only for `:root` / `html` rules. They agree for
every state in which only such rules have a pre-parsed block (`RootKeys`) of the rule's shape (`RootInv`) — both established by
the pre-pass and preserved by every step — with the conventions of `C08rules.lean` (`late = fun _ _ => false`; `.error` states
compared through `onError`).
-/
namespace CmProps.C08
open Cm Cm.Cli CmGen.CliRules

/-- the loop of `process_nodes_recursive` run on the stylesheet (as `main` calls it) is the model's `processTop`, for a state
    whose pre-parsed blocks belong to top-level `:root` / `html` rules and have their shape (what the pre-pass produces) -/
theorem source_process_top (env : CliEnv) (cfg : Cfg) : (ns : List Node) → (i : Nat) → (st : St) →
    RootInv ns i st.rootDecls → RootKeys ns i st.rootDecls →
    onError (process_top env cfg (fun _ _ => false) ns i st) = onError (processTop env cfg ns i st)
  | [], i, st, _, _ => by rw [processTop_nil]; rfl
  | n :: ns, i, st, hinv, hkeys => by
    have h1 := source_process_node_top env cfg (some i) st n
    rw [processNode_topOf env cfg n ns i st hkeys] at h1
    have hspec := processNode_spec env cfg (topOf n i) st n (by
      intro sel items0 hn
      subst hn
      refine hinv.seen _ ?_
      simp only [topOf]; split <;> simp)
    rw [processTop_cons]
    unfold process_top
    cases hr : processNode env cfg (topOf n i) st n with
    | error e =>
      rw [hr] at h1
      cases hl : process_node env cfg (fun _ _ => false) (some i) st n with
      | error e' =>
        rw [hl] at h1; simp only [onError] at h1 ⊢
        injection h1 with h1; rw [h1]
      | ok q => rw [hl] at h1; simp only [onError] at h1; cases h1
    | ok p =>
      obtain ⟨n', st1⟩ := p
      rw [hr] at h1 hspec
      cases hl : process_node env cfg (fun _ _ => false) (some i) st n with
      | error e' => rw [hl] at h1; simp only [onError] at h1; cases h1
      | ok q =>
        rw [hl] at h1
        simp only [onError] at h1
        cases h1
        obtain ⟨_, _, hle⟩ := hspec
        have ih := source_process_top env cfg ns (i + 1) st1 (hinv.step hle) (hkeys.step hle)
        simp only []
        cases h2 : processTop env cfg ns (i + 1) st1 <;>
          cases h3 : process_top env cfg (fun _ _ => false) ns (i + 1) st1 <;>
          rw [h2, h3] at ih <;> simp only [onError] at ih ⊢
        · exact ih
        · cases ih
        · cases ih
        · cases ih; rfl

/-- the pre-pass of `main` establishes both hypotheses of `source_process_top` -/
theorem source_process_top_prepass (env : CliEnv) (cfg : Cfg) (nodes : List Node) (st0 : St) :
    onError (process_top env cfg (fun _ _ => false) nodes 0 (fileSt env nodes st0)) =
      onError (processTop env cfg nodes 0 (fileSt env nodes st0)) := by
  refine source_process_top env cfg nodes 0 _ (prePass_rootInv env nodes) ?_
  intro kv hkv j n hj hn
  obtain ⟨sel, hsel, hroot⟩ := prePass_roots env nodes kv hkv
  have : kv.1 = j := by omega
  rw [this, hn] at hsel
  exact ⟨sel, kv.2, by simpa using hsel, hroot⟩
end CmProps.C08
