import CmProofs.Schedules
import CmModel.Strategy
import CmModel.Descent
import CmGen.Leaves
/-!
# C04 — the tolerance schedules of `optimisation.py`, as read from the source on this run, are the model's;
hence the bounds the C04 theorems rest on hold of the lists the code contains now.
-/
namespace CmProps.C04
open Cm
variable {α : Type} [NumT α]

theorem source_default_sequence : (CmGen.Leaves.default_sequence : List α) = defaultSchedule := rfl
theorem source_recursive_sequence : (CmGen.Leaves.recursive_sequence : List α) = stepSchedule := rfl
theorem source_relaxed_step_sequence : (CmGen.Leaves.relaxed_step_sequence : List α) = stepSchedule := rfl
theorem source_relaxed_sequence : (CmGen.Leaves.relaxed_sequence : List α) = relaxedSchedule := rfl

/-- every tolerance of the strict mode's list, as written in the source, is at most 5.0 -/
theorem source_default_sequence_le [LawfulLit α] :
    ∀ thr ∈ (CmGen.Leaves.default_sequence : List α), Num.le thr (5.0 : α) = true := by
  rw [source_default_sequence]; exact defaultSchedule_le

/-- … of the per-step lists of modes 1 and 2, at most 3.0 -/
theorem source_step_sequences_le [LawfulLit α] :
    (∀ thr ∈ (CmGen.Leaves.recursive_sequence : List α), Num.le thr (3.0 : α) = true) ∧
    (∀ thr ∈ (CmGen.Leaves.relaxed_step_sequence : List α), Num.le thr (3.0 : α) = true) := by
  rw [source_recursive_sequence, source_relaxed_step_sequence]; exact ⟨stepSchedule_le, stepSchedule_le⟩

/-- … of mode 2's fallback list, at most 15.0 -/
theorem source_relaxed_sequence_le [LawfulLit α] :
    ∀ thr ∈ (CmGen.Leaves.relaxed_sequence : List α), Num.le thr (15.0 : α) = true := by
  rw [source_relaxed_sequence]; exact relaxedSchedule_le

/-! ## loop bounds (how many bounded steps a result is away from the original) -/

/-- the four loop bounds as written in the source (decided first, so that a changed bound fails here at once) -/
theorem source_loop_bounds :
    CmGen.Leaves.recursive_iterations = 10 ∧ CmGen.Leaves.relaxed_iterations = 15 ∧
    CmGen.Leaves.binary_search_iterations = 20 ∧ CmGen.Leaves.descent_iterations = 50 := by decide

/-- `_strategy_recursive` runs the model's loop for the source's `max_iterations` -/
theorem source_recursive_iterations (O : Leaf α) (d : Descend α) (t bg : RGB) (target minC : α) :
    strategyRecursive O d t bg target minC = recursiveLoop O d bg target minC CmGen.Leaves.recursive_iterations t := by
  rw [source_loop_bounds.1]; rfl

/-- `_strategy_relaxed`: its first option runs the per-step loop for the source's `max_iterations_extended`,
    its second option uses the source's `relaxed_sequence` -/
theorem source_relaxed_iterations (O : Leaf α) (d : Descend α) (t bg : RGB) (target minC : α) :
    strategyRelaxed O d t bg target minC =
      (let rec_ := strategyRecursive O d t bg target minC
       if rec_.2 then (rec_.1, true) else
       let a := optALoop O d bg target minC CmGen.Leaves.relaxed_iterations t
       let bRgb := genAccessible O d t bg target minC CmGen.Leaves.relaxed_sequence
       let bOk := Num.ge (O.contrast bRgb bg) minC
       if a.2 && bOk then
         if Num.le (O.deltaE t a.1) (O.deltaE t bRgb) then (a.1, true) else (bRgb, true)
       else if a.2 then (a.1, true)
       else if bOk then (bRgb, true)
       else (rec_.1, false)) := by
  rw [source_loop_bounds.2.1]; rfl

/-- `binary_search_lightness` halves the interval the source's number of times -/
theorem source_binary_search_iterations (O : Leaf α) (t bg : RGB) (thr target : α) :
    binarySearch O t bg thr target =
      (let (l, c, h) := O.toOklch t
       let (bl, _, _) := O.toOklch bg
       let up := searchUp l bl
       (bsLoop O t bg thr target c h up CmGen.Leaves.binary_search_iterations (bsInit O l up)).best) := by
  rw [source_loop_bounds.2.2.1]; rfl

/-- `gradient_descent_oklch` is run with the source's default `max_iter` -/
theorem source_descent_iterations (O : Leaf α) (t bg : RGB) (thr target : α) :
    descendImpl O t bg thr target =
      (let (l, c, h) := O.toOklch t
       let fin := gdLoop O t bg thr target h CmGen.Leaves.descent_iterations 0 (l, c)
       O.ofOklch (fin.1, fin.2, h)) := by
  rw [source_loop_bounds.2.2.2]; rfl

end CmProps.C04
