import CmProps.C04
import CmProps.C01api
/-!
# C04 at the API: in strict mode the colour the caller gets back reads as a colour within 5.0
-/
namespace CmProps.C04
open Cm Cm.Parse Cm.FmtRt CmProps.C01

/-- mode 0 through `make_readable`: the returned value reads back as the text colour itself or as a
    valid colour within CIEDE2000 5.0 of it — every setting, oracle and descent function -/
theorem makeReadable_strict_le_5 {α : Type} [NumT α] [LawfulNumOrd α] [LawfulLit α]
    (hα : ByteExact α) (hH : HslExact α) (E : PEnv)
    (hf : AsciiFaithful E.cls) (hk : keysLower E.named = true) (O : Leaf α) (d : Descend α)
    (p : ColorPair α) (very : Bool) (t b : RGB) (ht : p.text.rgb? = some t)
    (hb : p.bg.rgb? = some b) (hv : validRgb (checkAndFix O d t b p.large 0 very).1 = true)
    (bg' : Option RGB) :
    ∃ out ok c, p.makeReadable E O d 0 very = some (out, ok) ∧ readBack (α := α) E bg' out = some c ∧
      Step O (5.0 : α) t c := by
  refine ⟨_, _, (checkAndFix O d t b p.large 0 very).1,
    CmProps.C06.makeReadable_returns_formatted hα E hf hk O d p 0 very t b ht hb hv, ?_,
    checkAndFix_strict_le_5 O d t b p.large very⟩
  obtain ⟨cls, named⟩ := E
  exact format_reads_back_of hα hH hf named hk _ hv _ bg'

end CmProps.C04
