import CmProofs.SourceOpt
import CmProofs.SourceDescent
/-!
# C04 — the optimiser functions this property's theorems are about are the source's, as translated on this run

`CmGen/Optimiser.lean` is regenerated from `/repo`'s `optimisation.py` on every run (statement by statement:
`harness/translate/optimiser.py`); `CmProofs/SourceOpt.lean` proves each image equal to the hand-written model
function (loop bodies step by step, loops by induction). `gdOf O d` is the descent phase as the source calls it
(`gradient_descent_oklch` itself is not translated: list mutation and closures); the equations hold for every
carrier, every leaf record `O` and every descent function `d`.
-/
namespace CmProps.C04
open Cm Cm.SourceOpt
variable {α : Type} [Num α]

/-- `binary_search_lightness` is the model's `binarySearch` (its `large_text` argument is ignored) -/
theorem source_binary_search (O : Leaf α) (t bg : RGB) (thr target : α) (large : Bool) :
    CmGen.Opt.binary_search_lightness O t bg thr target large = binarySearch O t bg thr target :=
  Cm.SourceOpt.source_binary_search O t bg thr target large

/-- `generate_accessible_color` (all optional arguments given) is the model's `genAccessible`, for any schedule -/
theorem source_generate_accessible_color (O : Leaf α) (d : Descend α) (t bg : RGB) (large : Bool) (target minC : α) (seq : List α) :
    CmGen.Opt.generate_accessible_color O (gdOf O d) t bg large target minC seq = genAccessible O d t bg target minC seq :=
  Cm.SourceOpt.source_generate_accessible_color O d t bg large target minC seq

/-- `_strategy_strict`, `_strategy_recursive`, `_strategy_relaxed` are the model's three strategies -/
theorem source_strategies (O : Leaf α) (d : Descend α) (t bg : RGB) (large : Bool) (target minC : α) :
    CmGen.Opt.strategy_strict O (gdOf O d) t bg large target minC = strategyStrict O d t bg target minC ∧
    CmGen.Opt.strategy_recursive O (gdOf O d) t bg large target minC = strategyRecursive O d t bg target minC ∧
    CmGen.Opt.strategy_relaxed O (gdOf O d) t bg large target minC = strategyRelaxed O d t bg target minC :=
  ⟨source_strategy_strict O d t bg large target minC, source_strategy_recursive O d t bg large target minC,
   source_strategy_relaxed O d t bg large target minC⟩

/-- `gradient_descent_oklch` (nested cost function, central-difference gradient, the adaptive-rate loop with its early
    `break`, the final validity and tolerance test), called with its default `max_iter`, is the descent phase of the model -/
theorem source_gradient_descent {α : Type} [NumT α] (O : Leaf α) (t bg : RGB) (thr target : α) (large : Bool) :
    CmGen.Opt.gradient_descent_oklch O t bg thr target large 50 = gradientDescent O (descendImpl O) t bg thr target :=
  Cm.SourceOpt.source_gradient_descent O t bg thr target large

end CmProps.C04
