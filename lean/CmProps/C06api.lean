import CmModel.ApiVocab
import CmGen.Api
import CmProofs.SourceApi
/-!
# C06 — what `ColorPair.make_readable` returns, as translated from the source on this run, is the model's `makeReadable`

The image of `make_readable` (`CmGen/Api.lean`, `harness/translate/api.py`) returns a value and the list of effects; here
the value: `(None, False)` for an invalid pair, else the answer of `check_and_fix_contrast` re-read through
`Color(tuned_rgb_str)` and re-spelt by `format_color(c.rgb, self.text._format)`, keeping the raw answer when the re-read
fails (`try … except Exception: pass`). No exception is possible, the `show` / `save_report` block cannot change the
value (the translator drops a block only if nothing it binds is read later), and the value is the model's for every
carrier, oracle, environment and pair.
-/
namespace CmProps.C06
open Cm Cm.Parse Cm.SourceApi
variable {α : Type} [NumT α]
set_option linter.unusedSimpArgs false

/-- the model's `Option (value × success)` as the Python pair it stands for: `none` = `(None, False)` -/
def asPython {β : Type} (r : Option (β × Bool)) : Option β × Bool :=
  match r with | none => (none, false) | some (v, ok) => (some v, ok)

/-- `ColorPair.make_readable(mode, very_readable, show, save_report)`: the returned value -/
theorem source_make_readable_result (E : PEnv) (O : Leaf α) (d : Descend α) (cond : Nat → Bool) (p : ColorPair α)
    (mode : Int) (very show_ save : Bool) :
    Prod.fst <$> CmGen.Api.ColorPair_make_readable E O d cond p mode very show_ save =
      .ok (asPython (p.makeReadable E O d mode very)) := by
  unfold CmGen.Api.ColorPair_make_readable ColorPair.makeReadable CmGen.Api.ColorPair_is_valid CmGen.Api.Color_is_valid
    Api.checkAndFixOut
  cases p.text.rgb? with
  | none => rfl
  | some t =>
    cases p.bg.rgb? with
    | none => rfl
    | some b =>
      dsimp only [Api.withRgb]
      generalize Num.ge (O.contrast t b) (thresholds (α := α) p.large very).1 = g
      generalize checkAndFix O d t b p.large mode very = r
      cases g
      · simp only [Option.isSome_some, Bool.and_self, Bool.not_true, Bool.false_eq_true, if_false, Api.withRgb,
          Api.outTruthy, fmtRgbFn_isEmpty, Bool.not_false, if_true, CmGen.Api.Color_rgb, color_new_input, Api.ofOut,
          Api.ofVal]
        cases parseColor (α := α) E (.str (fmtRgbFn r.1)) none <;> rfl
      · simp only [Option.isSome_some, Bool.and_self, Bool.not_true, Bool.false_eq_true, if_false, Api.withRgb,
          if_true, Api.outTruthy, CmGen.Api.Color_rgb, color_new_input, Api.ofOut, Api.ofVal]
        cases parseColor (α := α) E (.tuple [.int r.1.1, .int r.1.2.1, .int r.1.2.2]) none <;> rfl

end CmProps.C06
