import CmModel.ApiVocab
import CmGen.Api
import CmProofs.SourceApi
import CmProps.C12api
/-!
# C17 — the effects of `make_readable_bulk`, as translated from the source on this run, are the model's `bulkEffects`

Separate from `C17api.lean` because it rests on the loop theorem of `C12api.lean` (the number of report rows is a
property of the whole loop), so that a change to the loop does not also take `source_make_readable_effects` down.
Same conventions as `C17api.lean`: `print` -> `Effect.stdout`, `to_html_bulk(..., output_path=LIT)` -> `Effect.write LIT`,
in program order; the report list is modelled by its length.
-/
namespace CmProps.C17
open Cm Cm.Parse Cm.SourceApi
variable {α : Type} [NumT α]
set_option linter.unusedSimpArgs false

/-- the report rows `make_readable_bulk` collects: one per valid entry, when a report was asked for -/
private theorem rows_sum (E : PEnv) (save : Bool) (items : List (BulkItem α)) :
    (save && decide (0 < (items.map (C12.rows E save)).sum)) =
      (save && decide ((items.filter fun it => (ColorPair.new E it.text it.bg it.large).isValid).length > 0)) := by
  cases save
  · rfl
  · have h : ∀ l : List (BulkItem α), (l.map (C12.rows E true)).sum =
        (l.filter fun it => (ColorPair.new E it.text it.bg it.large).isValid).length := by
      intro l
      induction l with
      | nil => rfl
      | cons it its ih =>
        simp only [List.map_cons, List.sum_cons, List.filter_cons, ih, C12.rows, Bool.true_and]
        cases (ColorPair.new E it.text it.bg it.large).isValid <;> simp <;> omega
    rw [h]

/-- `make_readable_bulk(..., save_report)`: what is printed and written — the model's `bulkEffects` with `nReported` = the
    number of valid entries -/
theorem source_bulk_effects (E : PEnv) (O : Leaf α) (d : Descend α) (cond : Nat → Bool) (mode : Int)
    (very save : Bool) (items : List (BulkItem α)) :
    Prod.snd <$> CmGen.Api.make_readable_bulk E O d cond (items.map Api.rawItem) mode very save =
      .ok (bulkEffects save (items.filter fun it => (ColorPair.new E it.text it.bg it.large).isValid).length) := by
  unfold CmGen.Api.make_readable_bulk bulkEffects
  simp only [C12.bulk_loop_state, Api.andThen, Functor.map, Except.map, Nat.zero_add, rows_sum]
  split <;> rfl

end CmProps.C17
