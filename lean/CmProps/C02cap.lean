import CmProps.C02api
import CmProps.C06api
/-!
# C02 — the property, stated about the image of the source

The API-level theorems of `C02api.lean` transferred to `make_readable` as translated from `colors.py` on this run
(`C06api.source_make_readable_result`), for any `show` / `save_report`.
-/
namespace CmProps.C02
open Cm Cm.Parse Cm.FmtRt CmProps.C01

/-- a pair that already meets the minimum comes back with success and a value denoting exactly the original colour -/
theorem source_make_readable_already_ok {α : Type} [NumT α] (hα : ByteExact α) (hH : HslExact α) (E : PEnv)
    (hf : AsciiFaithful E.cls) (hk : keysLower E.named = true) (O : Leaf α) (d : Descend α) (cond : Nat → Bool)
    (p : ColorPair α) (mode : Int) (very show_ save : Bool) (t b : RGB) (ht : p.text.rgb? = some t)
    (hb : p.bg.rgb? = some b) (hvt : validRgb t = true)
    (hok : Num.ge (O.contrast t b) (thresholds (α := α) p.large very).1 = true) (bg' : Option RGB) :
    ∃ out, Prod.fst <$> CmGen.Api.ColorPair_make_readable E O d cond p mode very show_ save = .ok (some out, true) ∧
      readBack (α := α) E bg' out = some t := by
  obtain ⟨out, h, hr⟩ := makeReadable_already_ok hα hH E hf hk O d p mode very t b ht hb hvt hok bg'
  refine ⟨out, ?_, hr⟩
  rw [CmProps.C06.source_make_readable_result, h]
  rfl

/-- in every case the colour read back from the returned value has at least the original's contrast -/
theorem source_make_readable_monotone {α : Type} [NumT α] [LawfulNumOrd α] (hα : ByteExact α) (hH : HslExact α)
    (E : PEnv) (hf : AsciiFaithful E.cls) (hk : keysLower E.named = true) (O : Leaf α) (d : Descend α)
    (cond : Nat → Bool) (p : ColorPair α) (mode : Int) (very show_ save : Bool) (t b : RGB) (ht : p.text.rgb? = some t)
    (hb : p.bg.rgb? = some b) (hv : validRgb (checkAndFix O d t b p.large mode very).1 = true) (bg' : Option RGB) :
    ∃ out ok c, Prod.fst <$> CmGen.Api.ColorPair_make_readable E O d cond p mode very show_ save = .ok (some out, ok) ∧
      readBack (α := α) E bg' out = some c ∧ Num.le (O.contrast t b) (O.contrast c b) = true := by
  obtain ⟨out, ok, c, h, hr, hm⟩ := makeReadable_monotone hα hH E hf hk O d p mode very t b ht hb hv bg'
  refine ⟨out, ok, c, ?_, hr, hm⟩
  rw [CmProps.C06.source_make_readable_result, h]
  rfl

end CmProps.C02
