import CmProps.C16
import CmProps.C01api
/-!
# C16 at the API
-/
namespace CmProps.C16
open Cm Cm.Parse Cm.FmtRt CmProps.C01

/-- whenever `make_readable(mode=1)` succeeds, `make_readable(mode=2)` returns the identical value
    with success -/
theorem makeReadable_mode2_of_mode1 {α : Type} [NumT α] (hα : ByteExact α) (E : PEnv)
    (hf : AsciiFaithful E.cls) (hk : keysLower E.named = true) (O : Leaf α) (d : Descend α)
    (p : ColorPair α) (very : Bool) (t b : RGB) (ht : p.text.rgb? = some t) (hb : p.bg.rgb? = some b)
    (hv : validRgb (checkAndFix O d t b p.large 1 very).1 = true)
    (hs : (checkAndFix O d t b p.large 1 very).2 = true) :
    p.makeReadable E O d 2 very = p.makeReadable E O d 1 very := by
  have h12 := mode2_of_mode1 O d t b p.large very hs
  have hv2 : validRgb (checkAndFix O d t b p.large 2 very).1 = true := by rw [h12]; exact hv
  rw [CmProps.C06.makeReadable_returns_formatted hα E hf hk O d p 2 very t b ht hb hv2,
    CmProps.C06.makeReadable_returns_formatted hα E hf hk O d p 1 very t b ht hb hv, h12]

/-- whenever a very_readable request succeeds through `make_readable`, so does the ordinary request
    for the same pair, mode and text size -/
theorem makeReadable_ordinary_of_very {α : Type} [NumT α] [LawfulNumOrd α] [LawfulLit α]
    (hα : ByteExact α) (E : PEnv) (hf : AsciiFaithful E.cls) (hk : keysLower E.named = true)
    (O : Leaf α) (d : Descend α) (p : ColorPair α) (mode : Int) (t b : RGB)
    (ht : p.text.rgb? = some t) (hb : p.bg.rgb? = some b)
    (hv1 : validRgb (checkAndFix O d t b p.large mode true).1 = true)
    (hv0 : validRgb (checkAndFix O d t b p.large mode false).1 = true)
    (out : OutVal α) (h : p.makeReadable E O d mode true = some (out, true)) :
    ∃ out', p.makeReadable E O d mode false = some (out', true) := by
  rw [CmProps.C06.makeReadable_returns_formatted hα E hf hk O d p mode true t b ht hb hv1] at h
  have hs : (checkAndFix O d t b p.large mode true).2 = true := by
    have := congrArg (fun o => o.map (·.2)) h; simpa using this
  have h0 := checkAndFix_ordinary_of_very_readable O d t b p.large mode hs
  exact ⟨formatColor (checkAndFix O d t b p.large mode false).1 p.text.fmt, by
    rw [CmProps.C06.makeReadable_returns_formatted hα E hf hk O d p mode false t b ht hb hv0, h0]⟩

end CmProps.C16
