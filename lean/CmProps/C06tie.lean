import CmModel.Hsl
import CmGen.Leaves
/-!
# C06 — the arithmetic of `rgb_to_hsl` and `hsl_to_rgb`, as translated from the source on this run, is the model's

Both helpers accept strings and tuples; what is translated is the numeric part after parsing and validation (the
statements from `r /= 255` to the `return` of `rgb_to_hsl`, and from `if s == 0:` to the `return` of `hsl_to_rgb`,
with its nested `f`). The format round trip `hsl_roundtrip_exact` is a theorem about exactly these functions.
-/
namespace CmProps.C06
open Cm
variable {α : Type} [NumT α]

/-- `rgb_to_hsl`: the three numbers it prints -/
theorem source_rgb_to_hsl_core (r g b : α) :
    CmGen.Leaves.rgb_to_hsl_core r g b =
      (let (h, s, l) := rgbToHsl r g b; (h, s * (100.0 : α), l * (100.0 : α))) := by
  unfold CmGen.Leaves.rgb_to_hsl_core rgbToHsl
  simp only []
  split <;> rfl

/-- … on an 8-bit colour: the model's `rgbToHslText` -/
theorem source_rgb_to_hsl_text (c : RGB) :
    CmGen.Leaves.rgb_to_hsl_core (Num.ofInt c.1 : α) (Num.ofInt c.2.1) (Num.ofInt c.2.2) = rgbToHslText c := by
  rw [source_rgb_to_hsl_core]; rfl

/-- the nested `f(p, q, t)` of `hsl_to_rgb` -/
theorem source_hsl_f (p q t : α) : CmGen.Leaves.hsl_to_rgb_core__f p q t = hslF p q t := rfl

/-- `hsl_to_rgb` from the parsed, range-checked numbers -/
theorem source_hsl_to_rgb_core (h s l : α) : CmGen.Leaves.hsl_to_rgb_core h s l = hslToRgbCore h s l := by
  unfold CmGen.Leaves.hsl_to_rgb_core hslToRgbCore
  simp only [source_hsl_f]
  split <;> rfl

end CmProps.C06
