import CmProps.C07parse
import CmProps.C14seq
/-!
# C07 — the whole of `parse_color_to_rgb`, as translated from the source on this run, is the model's `parseColor`

`CmGen.ParserSeq.parse_color_to_rgb` is the image of the function's top-level dispatch and of its tuple/list branch
(`harness/translate/parserseq.py`), with the string branch as a parameter; `CmGen.ParserSrc.parse_color_string` is the
image of the string branch (`harness/translate/parsersrc.py`). Plugging the one into the other gives the image of the
whole function, and it equals the model's `Cm.Parse.parseColor` — the function every C07 / C13 / C14 theorem about
parsing is stated for — for every carrier, every character-class oracle, every value and every background.
-/
namespace CmProps.C07
open Cm Cm.Parse
variable {α : Type} [Num α]

theorem source_parse_color_to_rgb (E : PEnv) (color : PyVal α) (background : Option RGB) :
    CmGen.ParserSeq.parse_color_to_rgb (CmGen.ParserSrc.parse_color_string (α := α) E) E color background
      = parseColor E color background := by
  have h : CmGen.ParserSrc.parse_color_string (α := α) E = parseStr (α := α) E := by
    funext s bg
    exact source_parse_color_string (α := α) E s bg
  rw [h]
  exact CmProps.C14.source_parse_color_dispatch E color background

end CmProps.C07
