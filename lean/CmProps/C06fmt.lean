import CmModel.Parser
import CmGen.ParserSrc
/-!
# C06 — `detect_color_format` and `format_color`, as translated from the source on this run, are the model's

`make_readable` hands its answer back in the notation the caller used: `detect_color_format` names that notation,
`format_color` prints the tuned colour in it. Both are translated statement by statement from
`core/color_parser.py` (`harness/translate/parsersrc.py` → `CmGen/ParserSrc.lean`) and proved equal to the model's
`detectFormat` / `formatColor`, for every carrier, every character-class oracle and every keyword table.

Abstractions of the images (see the translator's docstring): a format name is a `Fmt` (the string literal ↔ constructor
table is re-checked against `Fmt.toString` inside the generated file); the `str`-or-tuple result of `format_color` is an
`OutVal`; the callees `rgb_to_hex`, `rgbint_to_string`, `rgb_to_hsl` are the model's `fmtHex`, `fmtRgbFn`,
`rgbToHslText` by name (their own ties are `C06tie` and the format round trip).
-/
namespace CmProps.C06
open Cm Cm.Parse
variable {α : Type} [Num α]

omit [Num α] in
/-- `detect_color_format(color)`, for every Python value the model distinguishes -/
theorem source_detect_color_format (E : PEnv) (color : PyVal α) :
    CmGen.ParserSrc.detect_color_format E color = detectFormat E color := by
  unfold CmGen.ParserSrc.detect_color_format detectFormat
  cases color <;> simp only [decide_eq_true_eq] <;> rfl

/-- `format_color(rgb, format_type)`, the format name read as a `Fmt` -/
theorem source_format_color (c : RGB) (f : Fmt) :
    CmGen.ParserSrc.format_color (α := α) c f = formatColor c f := by
  unfold CmGen.ParserSrc.format_color formatColor
  cases f <;> rfl

end CmProps.C06
