import CmProps.C01
import CmProps.C06rt
/-!
# C01 at the API: `make_readable`'s flag is the verdict on the colour its result reads back as

Composes C01's skeleton theorem (`checkAndFix_flag`) with C06's formatting / read-back theorems.
-/
namespace CmProps.C01
open Cm Cm.Parse Cm.FmtRt

/-- the float carrier's hypothesis for `hsl()` output: the three printed numbers read back as the
    colour (a theorem at the exact carrier — `CmProps.C06.hsl_roundtrip_exact`; for doubles it is the
    exhaustive 2^24 sweep of the C06 check) -/
def HslExact (α : Type) [Num α] : Prop :=
  ∀ c : RGB, validRgb c = true → hslTextToRgb (rgbToHslText (α := α) c) = some c

/-- whatever format is asked for, a valid colour's formatted value reads back as that colour
    (any byte-exact carrier with exact `hsl()` text, faithful oracle, lower-case keyword table) -/
theorem format_reads_back_of {α : Type} [Num α] (hα : ByteExact α) (hH : HslExact α) {cls : CharCls}
    (hf : AsciiFaithful cls) (named : List (Str × Str)) (hk : keysLower named = true)
    (c : RGB) (hc : validRgb c = true) (f : Fmt) (bg : Option RGB) :
    readBack (α := α) ⟨cls, named⟩ bg (formatColor (α := α) c f) = some c := by
  have hhex : readBack (α := α) ⟨cls, named⟩ bg (.text (fmtHex c)) = some c := by
    show (parseColor (α := α) _ _ bg).toOption = _
    rw [parseColor_str, parseStr_fmtHex hf named hk c hc bg]; rfl
  cases f
  case rgb =>
    show (parseColor (α := α) _ _ bg).toOption = _
    rw [parseColor_str, parseStr_fmtRgbFn hα hf named hk c hc bg]; rfl
  case hsl => exact hH c hc
  case rgbTuple =>
    show (parseColor (α := α) _ _ bg).toOption = _
    rw [(seq_ints ⟨cls, named⟩ c hc bg).1]; rfl
  all_goals exact hhex

/-- **C01 at the API.** For a valid pair, `make_readable` returns `(out, ok)` where `out` reads back
    (through the library's own reader; C06/C07 tie that reader to CSS) as a colour `c` and `ok` is
    exactly `contrast(c, bg) ≥ minimum` for the chosen text size and very-readable setting — for every
    mode, every leaf oracle and descent function. -/
theorem makeReadable_flag {α : Type} [NumT α] (hα : ByteExact α) (hH : HslExact α) (E : PEnv)
    (hf : AsciiFaithful E.cls) (hk : keysLower E.named = true) (O : Leaf α) (d : Descend α)
    (p : ColorPair α) (mode : Int) (very : Bool) (t b : RGB) (ht : p.text.rgb? = some t)
    (hb : p.bg.rgb? = some b) (hv : validRgb (checkAndFix O d t b p.large mode very).1 = true)
    (bg' : Option RGB) :
    ∃ out ok c, p.makeReadable E O d mode very = some (out, ok) ∧
      readBack (α := α) E bg' out = some c ∧
      ok = Num.ge (O.contrast c b) (thresholds (α := α) p.large very).1 := by
  refine ⟨_, _, (checkAndFix O d t b p.large mode very).1,
    CmProps.C06.makeReadable_returns_formatted hα E hf hk O d p mode very t b ht hb hv, ?_, ?_⟩
  · obtain ⟨cls, named⟩ := E
    exact format_reads_back_of hα hH hf named hk _ hv _ bg'
  · exact checkAndFix_flag O d t b p.large very mode

end CmProps.C01
