import CmProps.C01api
import CmProps.C06api
/-!
# C01 — the property, stated about the image of the source

`C01api.lean` proves, for the model's `ColorPair.makeReadable`, that the returned flag is exactly the verdict on the colour a
reader recovers from the returned value; `C06api.lean` proves that the value returned by `make_readable` as translated from
`colors.py` on this run is the model's — whatever `show` / `save_report` say. Hence, about the source as it reads now (and, via
`source_check_and_fix` of `C01opt.lean`, with `check_and_fix_contrast` as translated from `optimisation.py`):
-/
namespace CmProps.C01
open Cm Cm.Parse Cm.FmtRt CmProps.C01

/-- `make_readable(mode, very_readable, show, save_report)`, as translated, returns `(out, ok)` where `out` reads back as a
    colour `c` and `ok` is exactly `contrast(c, background) ≥ the minimum for these settings` -/
theorem source_make_readable_flag {α : Type} [NumT α] (hα : ByteExact α) (hH : HslExact α) (E : PEnv)
    (hf : AsciiFaithful E.cls) (hk : keysLower E.named = true) (O : Leaf α) (d : Descend α) (cond : Nat → Bool)
    (p : ColorPair α) (mode : Int) (very show_ save : Bool) (t b : RGB) (ht : p.text.rgb? = some t)
    (hb : p.bg.rgb? = some b) (hv : validRgb (checkAndFix O d t b p.large mode very).1 = true) (bg' : Option RGB) :
    ∃ out ok c, Prod.fst <$> CmGen.Api.ColorPair_make_readable E O d cond p mode very show_ save = .ok (some out, ok) ∧
      readBack (α := α) E bg' out = some c ∧
      ok = Num.ge (O.contrast c b) (thresholds (α := α) p.large very).1 := by
  obtain ⟨out, ok, c, h, hr, hflag⟩ := makeReadable_flag hα hH E hf hk O d p mode very t b ht hb hv bg'
  refine ⟨out, ok, c, ?_, hr, hflag⟩
  rw [CmProps.C06.source_make_readable_result, h]
  rfl

end CmProps.C01
