import CmModel.Color
import CmGen.NamedColors
/-! # C07 — placeholder until the parsing theorems are merged; re-checked against the regenerated table -/
namespace CmProps.C07
/-- the regenerated keyword table has 148 entries -/
theorem namedTable_length : CmGen.namedTable.length = 148 := by decide +kernel
end CmProps.C07
