import CmProofs.ParseLemmas
import CmProofs.ParseSpec
import CmProofs.ParseHslaStr
/-!
# C07 — every in-range CSS Color 3 value is parsed to the colour CSS defines

Statements are about the model's parser (`Cm.Parse`), at the exact rational carrier `Cm.ratNum`
where numbers are involved, for every character-class oracle that agrees with ASCII below 128
(`AsciiFaithful`) where `strip`/`lower` are involved. `namedEnv` is the keyword table generated from
the Python source; `specTable` is CSS Color 3's table plus `rebeccapurple` (spec-side data).
Helpers: `CmProofs/ParseStr.lean`, `ParseTable.lean`, `ParseLemmas.lean`, `ParseSpec.lean`,
`ParseNumRe.lean`, `ParseFloatStr.lean`, `ParseRgbStr.lean`, `ParseHslStr.lean`, `ParseHslaStr.lean`.
Theorems named `…_ascii` are stated for the ASCII oracle `asciiCls` only.
-/
namespace CmProps.C07
open Cm Cm.Parse Cm.ParseSpec

/-! ## 1. keywords -/

/-- every CSS Color 3 keyword (and `rebeccapurple`) is in the generated table with a value that reads as the colour the standard lists -/
theorem named_table_spec : ∀ kv ∈ specTable, ∃ hex,
    lookupNamed ⟨asciiCls, namedEnv⟩ kv.1.toList = some hex ∧
    hexToRgb ⟨asciiCls, namedEnv⟩ hex = .ok (rgbOfNat kv.2) := fun _ h =>
  let ⟨hex, h1, _, h2⟩ := (specEntryFacts h).lookup; ⟨hex, h1, h2⟩

/-- the generated table has 148 entries with pairwise distinct keys (as has the spec table) -/
theorem named_table_size : CmGen.namedTable.length = 148 ∧
    (CmGen.namedTable.map fun kv => kv.1.toList).Nodup ∧
    specTable.length = 148 ∧ (specTable.map fun kv => kv.1.toList).Nodup :=
  ⟨namedTable_length, nodup_of_distinctB namedTable_distinctB, specTable_length,
    nodup_of_distinctB specTable_distinctB⟩

/-- the generated table denotes exactly the spec table: same (keyword, colour) pairs up to order -/
theorem named_table_perm : (specTable.map specDenote).Perm (namedEnv.map denote) := specTable_perm

section
variable {α : Type} [Num α] {cls : CharCls}

/-- a keyword parses to the colour CSS lists for it (any carrier, any faithful oracle, any background) -/
theorem named_parse (hf : AsciiFaithful cls) {kv : String × (Nat × Nat × Nat)} (hkv : kv ∈ specTable)
    (bg : Option RGB) : parseStr (α := α) ⟨cls, namedEnv⟩ kv.1.toList bg = .ok (rgbOfNat kv.2) := by
  have F := specEntryFacts hkv
  exact parseStr_named_of_lower hf hkv _ ((strip_faithful hf F.ascii).trans F.strip)
    ((lower_faithful hf F.ascii).trans F.lower) bg

/-- any spelling whose lower-casing is the keyword (any letter-case variant) parses to the same colour -/
theorem named_any_case (hf : AsciiFaithful cls) {kv : String × (Nat × Nat × Nat)}
    (hkv : kv ∈ specTable) (s : Str) (hs : Str.strip cls s = s) (hl : Str.lower cls s = kv.1.toList)
    (bg : Option RGB) : parseStr (α := α) ⟨cls, namedEnv⟩ s bg = .ok (rgbOfNat kv.2) :=
  parseStr_named_of_lower hf hkv s hs hl bg

/-- in particular the all-capitals spelling of every keyword -/
theorem named_upper_case (hf : AsciiFaithful cls) {kv : String × (Nat × Nat × Nat)}
    (hkv : kv ∈ specTable) (bg : Option RGB) :
    parseStr (α := α) ⟨cls, namedEnv⟩ (kv.1.toList.map Char.toUpper) bg = .ok (rgbOfNat kv.2) := by
  have F := specEntryFacts hkv
  exact parseStr_named_of_lower hf hkv _ ((strip_faithful hf F.upAscii).trans F.upStrip)
    ((lower_faithful hf F.upAscii).trans F.upLower) bg

/-! ## 2. hex -/

/-- `#rrggbb`, digits in any letter case: channel = 16·(first digit) + (second digit) -/
theorem hex6_any_case (hf : AsciiFaithful cls) {a b c d e f : Char}
    (ha : Str.isHexDigit a = true) (hb : Str.isHexDigit b = true) (hc : Str.isHexDigit c = true)
    (hd : Str.isHexDigit d = true) (he : Str.isHexDigit e = true) (hf' : Str.isHexDigit f = true)
    (bg : Option RGB) :
    parseStr (α := α) ⟨cls, namedEnv⟩ ['#', a, b, c, d, e, f] bg = .ok (hex6 a b c d e f) := by
  rw [parseStr_hash hf (by simp) _ bg]
  · exact hexToRgb_hash6 hf _ ha hb hc hd he hf'
  · intro x hx; simp only [List.mem_cons, List.not_mem_nil, or_false] at hx
    rcases hx with rfl | rfl | rfl | rfl | rfl | rfl <;> assumption

/-- `#rgb` is `#rrggbb` -/
theorem hex3_any_case (hf : AsciiFaithful cls) {a b c : Char}
    (ha : Str.isHexDigit a = true) (hb : Str.isHexDigit b = true) (hc : Str.isHexDigit c = true)
    (bg : Option RGB) :
    parseStr (α := α) ⟨cls, namedEnv⟩ ['#', a, b, c] bg = .ok (hex6 a a b b c c) := by
  rw [parseStr_hash hf (by simp) _ bg]
  · exact hexToRgb_hash3 hf _ ha hb hc
  · intro x hx; simp only [List.mem_cons, List.not_mem_nil, or_false] at hx
    rcases hx with rfl | rfl | rfl <;> assumption

/-- `#abc` and `#aabbcc` are the same colour -/
theorem hex3_eq_hex6 (hf : AsciiFaithful cls) {a b c : Char}
    (ha : Str.isHexDigit a = true) (hb : Str.isHexDigit b = true) (hc : Str.isHexDigit c = true)
    (bg : Option RGB) :
    parseStr (α := α) ⟨cls, namedEnv⟩ ['#', a, b, c] bg =
      parseStr (α := α) ⟨cls, namedEnv⟩ ['#', a, a, b, b, c, c] bg := by
  rw [hex3_any_case hf ha hb hc bg, hex6_any_case hf ha ha hb hb hc hc bg]

/-- the value of a hex digit does not depend on its letter case, and is below 16 -/
theorem hex_digit_case {c : Char} (hc : Str.isHexDigit c = true) :
    Str.isHexDigit (lc c) = true ∧ hv (lc c) = hv c ∧ hv c < 16 :=
  ⟨(hexCharFacts c hc).lcHex, (hexCharFacts c hc).lcVal, (hexCharFacts c hc).val_lt⟩

/-- no keyword of the generated table is itself a 3- or 6-digit hex string -/
theorem no_hex_keyword : ∀ kv ∈ namedEnv, isBareHex kv.1 = false := fun kv h => by
  have := List.all_eq_true.1 no_hex_keyword_B kv h
  simpa using this

/-- a 3- or 6-digit hex string without `#` parses as with `#` -/
theorem hex_optional_hash (hf : AsciiFaithful cls) {ds : Str} (hb : isBareHex ds = true)
    (bg : Option RGB) :
    parseStr (α := α) ⟨cls, namedEnv⟩ ds bg = parseStr (α := α) ⟨cls, namedEnv⟩ ('#' :: ds) bg := by
  rw [parseStr_bare hf hb bg, parseStr_hash hf (isBareHex_ne_nil hb) (isBareHex_all hb) bg]

/-! ## 3. sequences of three 8-bit integers -/

/-- a tuple of three integers in 0..255 parses to itself (any carrier) -/
theorem tuple_identity (E : PEnv) {r g b : Int} (hr : 0 ≤ r ∧ r ≤ 255) (hg : 0 ≤ g ∧ g ≤ 255)
    (hb : 0 ≤ b ∧ b ≤ 255) (bg : Option RGB) :
    parseColor (α := α) E (.tuple [.int r, .int g, .int b]) bg = .ok (r, g, b) := by
  simp [parseColor, rgbComponent, hr, hg, hb, clamp255, validRgb, bind, Except.bind, pure, Except.pure]

/-- … and so does a list -/
theorem list_identity (E : PEnv) {r g b : Int} (hr : 0 ≤ r ∧ r ≤ 255) (hg : 0 ≤ g ∧ g ≤ 255)
    (hb : 0 ≤ b ∧ b ≤ 255) (bg : Option RGB) :
    parseColor (α := α) E (.list [.int r, .int g, .int b]) bg = .ok (r, g, b) := by
  simp [parseColor, rgbComponent, hr, hg, hb, clamp255, validRgb, bind, Except.bind, pure, Except.pure]

/-! ## spellings CSS treats alike -/

/-- whitespace around a colour string is immaterial (any oracle, any table, any carrier) -/
theorem surrounding_whitespace (E : PEnv) (w1 s w2 : Str) (h1 : ∀ c ∈ w1, E.cls.isSpace c = true)
    (h2 : ∀ c ∈ w2, E.cls.isSpace c = true) (bg : Option RGB) :
    parseStr (α := α) E (w1 ++ s ++ w2) bg = parseStr (α := α) E s bg := by
  rw [← parseStr_strip E (w1 ++ s ++ w2), strip_ws_append E.cls w1 s w2 h1 h2, parseStr_strip]

/-- `rgb(`/`rgba(`/`hsl(`/`hsla(` notations: two spellings with the same lower-casing parse alike -/
theorem function_notation_case (E : PEnv) (s t : Str) (bg : Option RGB)
    (hs : Str.strip E.cls s = s) (ht : Str.strip E.cls t = t)
    (hl : Str.lower E.cls s = Str.lower E.cls t)
    (hfn : Str.startsWith (Str.lower E.cls s) "hsl(".toList = true ∨
           Str.startsWith (Str.lower E.cls s) "hsla(".toList = true ∨
           Str.startsWith (Str.lower E.cls s) "rgb(".toList = true ∨
           Str.startsWith (Str.lower E.cls s) "rgba(".toList = true) :
    parseStr (α := α) E s bg = parseStr (α := α) E t bg := parseStr_fn_case E s t bg hs ht hl hfn

end

/-! ## 4. rounding at the exact carrier -/

/-- Python `round` picks a nearest integer -/
theorem roundHE_near (x : ℚ) : |((@Num.roundHE ℚ ratNum x : ℤ) : ℚ) - x| ≤ 1 / 2 := roundQ_near x

/-- … and leaves integers alone -/
theorem roundHE_int (n : ℤ) : @Num.roundHE ℚ ratNum (n : ℚ) = n := roundQ_int n

/-- Python `int` drops the fractional part of a non-negative number -/
theorem trunc_near {x : ℚ} (hx : 0 ≤ x) :
    0 ≤ x - (@Num.trunc ℚ ratNum x : ℤ) ∧ x - (@Num.trunc ℚ ratNum x : ℤ) < 1 := truncQ_near hx

/-! ## 5. `rgb()` components -/

/-- a plain number is accepted as a colour component exactly when it lies in [0, 255], unchanged -/
theorem rangeToken_component_iff (v : ℚ) :
    @rangeToken ℚ ratNum v true = .ok v ↔ 0 ≤ v ∧ v ≤ 255 := rangeToken_component_ok_iff v

/-- outside [0, 255] a plain component is rejected -/
theorem rangeToken_component_reject (v : ℚ) (h : ¬ (0 ≤ v ∧ v ≤ 255)) :
    @rangeToken ℚ ratNum v true = .error .valueError := by
  rw [rangeToken_component, if_neg h]

/-- an integer component in 0..255 is read as itself -/
theorem rgb_channel_int {n : ℤ} (h0 : 0 ≤ n) (h1 : n ≤ 255) :
    (@rangeToken ℚ ratNum (n : ℚ) true).map (@Num.roundHE ℚ ratNum) = .ok n := by
  have : (0 : ℚ) ≤ n ∧ (n : ℚ) ≤ 255 := ⟨by exact_mod_cast h0, by exact_mod_cast h1⟩
  rw [(rangeToken_component_ok_iff _).2 this]
  exact congrArg Except.ok (roundQ_int n)

/-- a token `…%` whose body reads as `v` is the component `max 0 (min 255 (v·255/100))` (alpha: `max 0 (min 1 (v/100))`) -/
theorem numberToken_percent (E : PEnv) {tok body : Str} {v : ℚ} (component : Bool)
    (hs : Str.strip E.cls tok = body ++ ['%']) (hp : @PyFloat.parse E.cls ℚ ratNum body = .ok v) :
    @numberToken ℚ ratNum E tok component =
      .ok (if component then max 0 (min 255 (v * 255 / 100)) else max 0 (min 1 (v / 100))) :=
  numberToken_pct E component hs hp

/-- a token without `%` that reads as `v` is range-checked as `v` -/
theorem numberToken_number (E : PEnv) {tok : Str} {v : ℚ} (component : Bool)
    (hs : Str.endsWith (Str.strip E.cls tok) ['%'] = false)
    (hp : @PyFloat.parse E.cls ℚ ratNum (Str.strip E.cls tok) = .ok v) :
    @numberToken ℚ ratNum E tok component = @rangeToken ℚ ratNum v component :=
  numberToken_plain E component hs hp

/-- a percentage p ∈ [0, 100] becomes the nearest 8-bit value of 255·p/100 -/
theorem rgb_channel_pct {p : ℚ} (h0 : 0 ≤ p) (h1 : p ≤ 100) :
    |((@Num.roundHE ℚ ratNum (max 0 (min 255 (p * 255 / 100))) : ℤ) : ℚ) - 255 * p / 100| ≤ 1 / 2 ∧
    0 ≤ @Num.roundHE ℚ ratNum (max 0 (min 255 (p * 255 / 100))) ∧
    @Num.roundHE ℚ ratNum (max 0 (min 255 (p * 255 / 100))) ≤ 255 := by
  have e : max 0 (min 255 (p * 255 / 100)) = 255 * p / 100 := pctComponent_of_mem h0 h1
  rw [e]
  refine ⟨roundQ_near _, ?_⟩
  exact roundQ_mem_Icc (lo := 0) (hi := 255) (by push_cast; positivity) (by push_cast; linarith)

/-- percentages outside [0, 100] are clamped, not rejected -/
theorem rgb_channel_pct_clamp (p : ℚ) :
    (p ≤ 0 → max 0 (min 255 (p * 255 / 100)) = (0 : ℚ)) ∧
    (100 ≤ p → max 0 (min 255 (p * 255 / 100)) = (255 : ℚ)) := by
  constructor
  · intro h; rw [min_eq_right (by linarith), max_eq_left (by linarith)]
  · intro h; rw [min_eq_left (by linarith)]; norm_num

/-! ## 6. `hsl()` -/

/-- the model's HSL→RGB is CSS Color 3 §4.2.4 followed by rounding each channel to the nearest 8-bit value -/
theorem hsl_eq_css3 (h s l : ℚ) :
    @hslToRgbCore ℚ ratNum h s l =
      (@Num.roundHE ℚ ratNum (255 * (css3HslToRgb (h / 360) s l).1),
       @Num.roundHE ℚ ratNum (255 * (css3HslToRgb (h / 360) s l).2.1),
       @Num.roundHE ℚ ratNum (255 * (css3HslToRgb (h / 360) s l).2.2)) := hslCore_eq_css3 h s l

/-- Python's `% 360` is `x − 360·⌊x/360⌋ ∈ [0, 360)`, a whole number of turns away from `x`, and equals CSS's `((x mod 360) + 360) mod 360` for every hue -/
theorem hue_wrap (x : ℚ) :
    @Num.pmod ℚ ratNum x 360 = x - 360 * ⌊x / 360⌋ ∧
    0 ≤ @Num.pmod ℚ ratNum x 360 ∧ @Num.pmod ℚ ratNum x 360 < 360 ∧
    @Num.pmod ℚ ratNum x 360 = cssNormHue x :=
  ⟨rfl, (pmodQ_360_range x).1, (pmodQ_360_range x).2, pmodQ_eq_cssNormHue x⟩

/-- CSS's HSL colour has all channels in [0, 1] when s, l are -/
theorem css3_hsl_range (H : ℚ) {s l : ℚ} (hs0 : 0 ≤ s) (hs1 : s ≤ 1) (hl0 : 0 ≤ l) (hl1 : l ≤ 1) :
    (0 ≤ (css3Hsl H s l).1 ∧ (css3Hsl H s l).1 ≤ 1) ∧
    (0 ≤ (css3Hsl H s l).2.1 ∧ (css3Hsl H s l).2.1 ≤ 1) ∧
    (0 ≤ (css3Hsl H s l).2.2 ∧ (css3Hsl H s l).2.2 ≤ 1) :=
  css3HslToRgb_range (div_nonneg (cssNormHue_range H).1 (by norm_num)) hs0 hs1 hl0 hl1

/-- any hue (negative, beyond 360, fractional), s and l in range: a valid colour whose channels are the nearest 8-bit values of 255 × CSS's -/
theorem hsl_any_hue (E : PEnv) (H : ℚ) {s l : ℚ} (hs0 : 0 ≤ s) (hs1 : s ≤ 1) (hl0 : 0 ≤ l) (hl1 : l ≤ 1) :
    ∃ R G B : ℤ, @hslSeqToRgb ℚ ratNum E (.float H) (.float s) (.float l) = .ok (R, G, B) ∧
      validRgb (R, G, B) = true ∧
      |(R : ℚ) - 255 * (css3Hsl H s l).1| ≤ 1 / 2 ∧ |(G : ℚ) - 255 * (css3Hsl H s l).2.1| ≤ 1 / 2 ∧
      |(B : ℚ) - 255 * (css3Hsl H s l).2.2| ≤ 1 / 2 := by
  obtain ⟨R, G, B, h, hv, hn⟩ := hslOfHue_spec H hs0 hs1 hl0 hl1
  refine ⟨R, G, B, ?_, hv, hn⟩
  rw [← h]
  exact hslSeq_floats E H hs0 hs1 hl0 hl1

/-! ## 7. translucent colours -/

/-- `rgba`: each channel is the nearest integer to the source-over blend a·f + (1−a)·b -/
theorem rgba_composite {r g b : ℤ} {a : ℚ} {bg : RGB} (hv : validRgb (r, g, b) = true)
    (ha0 : 0 ≤ a) (ha1 : a ≤ 1) (hbg : validRgb bg = true) :
    ∃ R G B : ℤ, @rgbaToRgb ℚ ratNum r g b a bg = .ok (R, G, B) ∧
      |(R : ℚ) - (a * r + (1 - a) * bg.1)| ≤ 1 / 2 ∧ |(G : ℚ) - (a * g + (1 - a) * bg.2.1)| ≤ 1 / 2 ∧
      |(B : ℚ) - (a * b + (1 - a) * bg.2.2)| ≤ 1 / 2 := by
  refine ⟨_, _, _, rgbaToRgb_rat hv ha0 ha1 hbg, ?_, ?_, ?_⟩
  · have := roundQ_near (r * a + bg.1 * (1 - a)); rwa [show a * r + (1 - a) * bg.1 = r * a + bg.1 * (1 - a) by ring]
  · have := roundQ_near (g * a + bg.2.1 * (1 - a)); rwa [show a * g + (1 - a) * bg.2.1 = g * a + bg.2.1 * (1 - a) by ring]
  · have := roundQ_near (b * a + bg.2.2 * (1 - a)); rwa [show a * b + (1 - a) * bg.2.2 = b * a + bg.2.2 * (1 - a) by ring]

/-- alpha 1 gives the colour itself -/
theorem alpha_one {r g b : ℤ} {bg : RGB} (hv : validRgb (r, g, b) = true) (hbg : validRgb bg = true) :
    @rgbaToRgb ℚ ratNum r g b 1 bg = .ok (r, g, b) := by
  rw [rgbaToRgb_rat hv (by norm_num) le_rfl hbg]
  simp only [sub_self, mul_zero, add_zero, mul_one, roundQ_int]

/-- alpha 0 gives the background -/
theorem alpha_zero {r g b : ℤ} {bg : RGB} (hv : validRgb (r, g, b) = true) (hbg : validRgb bg = true) :
    @rgbaToRgb ℚ ratNum r g b 0 bg = .ok bg := by
  rw [rgbaToRgb_rat hv le_rfl (by norm_num) hbg]
  simp only [sub_zero, mul_zero, zero_add, mul_one, roundQ_int]

/-- the background of the `rgba` path: white unless one is supplied (which must be a valid colour) -/
theorem rgba_background (b : RGB) (hb : validRgb b = true) :
    bgParsed none = .ok (255, 255, 255) ∧ bgParsed (some b) = .ok b := by
  unfold bgParsed; simp [hb]

/-- `hsla`, alpha < 1: the HSL colour (8-bit) blended over the background (white by default), fraction dropped -/
theorem hsla_composite (h : ℚ) {s l a : ℚ} (bg : Option RGB) (hs0 : 0 ≤ s) (hs1 : s ≤ 1)
    (hl0 : 0 ≤ l) (hl1 : l ≤ 1) (ha0 : 0 ≤ a) (ha1 : a < 1)
    (hbg : ∀ b, bg = some b → 0 ≤ b.1 ∧ 0 ≤ b.2.1 ∧ 0 ≤ b.2.2) :
    ∃ R G B : ℤ, @hslaFinish ℚ ratNum h s l a bg = .ok (R, G, B) ∧
      let c := @hslToRgbCore ℚ ratNum (@Num.pmod ℚ ratNum h 360) s l
      let k : RGB := bg.getD (255, 255, 255)
      (0 ≤ a * c.1 + (1 - a) * k.1 - R ∧ a * c.1 + (1 - a) * k.1 - R < 1) ∧
      (0 ≤ a * c.2.1 + (1 - a) * k.2.1 - G ∧ a * c.2.1 + (1 - a) * k.2.1 - G < 1) ∧
      (0 ≤ a * c.2.2 + (1 - a) * k.2.2 - B ∧ a * c.2.2 + (1 - a) * k.2.2 - B < 1) :=
  hslaFinish_blend h bg hs0 hs1 hl0 hl1 ha0 ha1 hbg

/-- `hsla`, alpha 1: the HSL colour itself -/
theorem hsla_opaque (h : ℚ) {s l : ℚ} (bg : Option RGB) (hs0 : 0 ≤ s) (hs1 : s ≤ 1)
    (hl0 : 0 ≤ l) (hl1 : l ≤ 1) :
    @hslaFinish ℚ ratNum h s l 1 bg = .ok (@hslToRgbCore ℚ ratNum (@Num.pmod ℚ ratNum h 360) s l) := by
  rw [hslaFinish_rat bg hs0 hs1 hl0 hl1 (by norm_num) le_rfl]
  simp

/-- `hsla` end to end: every channel within 1.5 of a·255·(CSS's HSL channel) + (1−a)·background -/
theorem hsla_within (H : ℚ) {s l a : ℚ} (bg : Option RGB) (hs0 : 0 ≤ s) (hs1 : s ≤ 1)
    (hl0 : 0 ≤ l) (hl1 : l ≤ 1) (ha0 : 0 ≤ a) (ha1 : a ≤ 1)
    (hbg : ∀ b, bg = some b → 0 ≤ b.1 ∧ 0 ≤ b.2.1 ∧ 0 ≤ b.2.2) :
    ∃ R G B : ℤ, @hslaFinish ℚ ratNum H s l a bg = .ok (R, G, B) ∧
      let k : RGB := bg.getD (255, 255, 255)
      |(R : ℚ) - (a * (255 * (css3Hsl H s l).1) + (1 - a) * k.1)| < 3 / 2 ∧
      |(G : ℚ) - (a * (255 * (css3Hsl H s l).2.1) + (1 - a) * k.2.1)| < 3 / 2 ∧
      |(B : ℚ) - (a * (255 * (css3Hsl H s l).2.2) + (1 - a) * k.2.2)| < 3 / 2 :=
  hslaFinish_within H bg hs0 hs1 hl0 hl1 ha0 ha1 hbg

/-! ## 8. whole function-notation strings (ASCII oracle, exact carrier)

Vocabulary (from the helper files): `Numeral b v` — `b` is `ddd` or `[ddd].ddd` with value `v`;
`NumTok t v p` — `t` is a numeral (`p = false`) or a numeral followed by `%` (`p = true`);
`SignOf sgn neg` — `sgn` is empty, `-` or `+`; `AllSep j` — `j` consists of blanks and commas;
`AllSp w` — `w` consists of blanks; `compOf v p` — `v`, or for a percentage `max 0 (min 255 (v·255/100))`;
`alphaOf v p` — `v`, or for a percentage `max 0 (min 1 (v/100))`. -/

/-- the text `rgb(r, g, b)` the library itself writes for a valid colour parses back to that colour -/
theorem rgb_int_canonical_ascii {r g b : ℤ} (hr : 0 ≤ r ∧ r ≤ 255) (hg : 0 ≤ g ∧ g ≤ 255)
    (hb : 0 ≤ b ∧ b ≤ 255) (bg : Option RGB) :
    @parseStr ℚ ratNum ⟨asciiCls, namedEnv⟩ (fmtRgbFn (r, g, b)) bg = .ok (r, g, b) :=
  parseStr_fmtRgbFn hr hg hb bg

/-- the decimal text of a natural number is a numeral with that value -/
theorem decimal_numeral (n : ℕ) : Numeral (toString n).toList (n : ℚ) := numeral_nat n

/-- `rgb(t0 t1 t2)`, tokens numbers ≤ 255 or percentages, separated (and optionally surrounded) by blanks/commas: each channel is Python-`round` of the token's value -/
theorem rgb_string_ascii {pre j0 j1 j2 j3 t0 t1 t2 : Str} {v0 v1 v2 : ℚ} {p0 p1 p2 : Bool}
    (hpre : pre = "rgb(".toList ∨ pre = "rgba(".toList)
    (h0 : AllSep j0) (h1 : AllSep j1) (hne1 : j1 ≠ []) (h2 : AllSep j2) (hne2 : j2 ≠ [])
    (h3 : AllSep j3) (ht0 : NumTok t0 v0 p0) (ht1 : NumTok t1 v1 p1) (ht2 : NumTok t2 v2 p2)
    (hr0 : p0 = false → v0 ≤ 255) (hr1 : p1 = false → v1 ≤ 255) (hr2 : p2 = false → v2 ≤ 255)
    (bg : Option RGB) :
    @parseStr ℚ ratNum ⟨asciiCls, namedEnv⟩
        (pre ++ (j0 ++ (t0 ++ (j1 ++ (t1 ++ (j2 ++ (t2 ++ j3)))))) ++ [')']) bg =
      .ok (@Num.roundHE ℚ ratNum (compOf v0 p0), @Num.roundHE ℚ ratNum (compOf v1 p1),
           @Num.roundHE ℚ ratNum (compOf v2 p2)) :=
  rgb_string hpre h0 h1 hne1 h2 hne2 h3 ht0 ht1 ht2 hr0 hr1 hr2 bg

/-- `rgba(t0 t1 t2 t3)`: a valid colour, each channel within 1 of a·c + (1−a)·k, where c is the component token's exact value, a the alpha token's, k the background (white by default) -/
theorem rgba_string_ascii {pre j0 j1 j2 j3 j4 t0 t1 t2 t3 : Str} {v0 v1 v2 v3 : ℚ} {p0 p1 p2 p3 : Bool}
    (hpre : pre = "rgb(".toList ∨ pre = "rgba(".toList)
    (h0 : AllSep j0) (h1 : AllSep j1) (hne1 : j1 ≠ []) (h2 : AllSep j2) (hne2 : j2 ≠ [])
    (h3 : AllSep j3) (hne3 : j3 ≠ []) (h4 : AllSep j4)
    (ht0 : NumTok t0 v0 p0) (ht1 : NumTok t1 v1 p1) (ht2 : NumTok t2 v2 p2) (ht3 : NumTok t3 v3 p3)
    (hr0 : p0 = false → v0 ≤ 255) (hr1 : p1 = false → v1 ≤ 255) (hr2 : p2 = false → v2 ≤ 255)
    (hr3 : p3 = false → v3 ≤ 1)
    (bg : Option RGB) (hbg : ∀ b, bg = some b → validRgb b = true) :
    ∃ R G B : ℤ, @parseStr ℚ ratNum ⟨asciiCls, namedEnv⟩
        (pre ++ (j0 ++ (t0 ++ (j1 ++ (t1 ++ (j2 ++ (t2 ++ (j3 ++ (t3 ++ j4)))))))) ++ [')']) bg =
          .ok (R, G, B) ∧
      let k : RGB := bg.getD (255, 255, 255)
      let a := alphaOf v3 p3
      |(R : ℚ) - (a * compOf v0 p0 + (1 - a) * k.1)| ≤ 1 ∧
      |(G : ℚ) - (a * compOf v1 p1 + (1 - a) * k.2.1)| ≤ 1 ∧
      |(B : ℚ) - (a * compOf v2 p2 + (1 - a) * k.2.2)| ≤ 1 := by
  obtain ⟨a0, a1⟩ := alphaOf_mem ht3.nonneg hr3
  refine ⟨_, _, _, rgba_string hpre h0 h1 hne1 h2 hne2 h3 hne3 h4 ht0 ht1 ht2 ht3 hr0 hr1 hr2 hr3 bg hbg,
    ?_, ?_, ?_⟩ <;>
  exact blend_aux a0 a1 (roundQ_near _) (roundQ_near _)

/-- `hsl(H, S%, L%)`, H with optional sign and fraction (any size), S, L ≤ 100: a valid colour whose channels are the nearest 8-bit values of 255 × CSS Color 3's HSL colour -/
theorem hsl_string_ascii {j0 j1 j2 j3 sgn hb sb lb : Str} {neg : Bool} {vh vs vl : ℚ}
    (hs : SignOf sgn neg) (hH : Numeral hb vh) (hS : Numeral sb vs) (hL : Numeral lb vl)
    (h0 : AllSep j0) (h1 : AllSep j1) (hne1 : j1 ≠ []) (h2 : AllSep j2) (h3 : AllSep j3)
    (hvs : vs ≤ 100) (hvl : vl ≤ 100) (bg : Option RGB) :
    ∃ R G B : ℤ, @parseStr ℚ ratNum ⟨asciiCls, namedEnv⟩
        ("hsl(".toList ++ (j0 ++ (((sgn ++ hb) ++ (j1 ++ ((sb ++ ['%']) ++ (j2 ++ (lb ++ ['%']))))) ++ j3))
          ++ [')']) bg = .ok (R, G, B) ∧
      validRgb (R, G, B) = true ∧
      let c := css3Hsl (if neg then -vh else vh) (vs / 100) (vl / 100)
      |(R : ℚ) - 255 * c.1| ≤ 1 / 2 ∧ |(G : ℚ) - 255 * c.2.1| ≤ 1 / 2 ∧ |(B : ℚ) - 255 * c.2.2| ≤ 1 / 2 := by
  have hsr := unit_of_pct hS.nonneg hvs
  have hlr := unit_of_pct hL.nonneg hvl
  obtain ⟨R, G, B, hc, hv, hn⟩ :=
    hslOfHue_spec (if neg then -vh else vh) hsr.1 hsr.2 hlr.1 hlr.2
  refine ⟨R, G, B, ?_, hv, hn⟩
  rw [hsl_string hs hH hS hL h0 h1 hne1 h2 h3 hvs hvl bg, hc]

/-- `hsla(H, S%, L%, A)`: a colour whose channels are within 1.5 of a·255·(CSS's HSL channel) + (1−a)·background (white by default); a = A, or A/100 when A > 1 -/
theorem hsla_string_ascii {w0 w1 w2 w3 w4 w5 w6 w7 sgn hb sb lb t3 : Str} {neg p3 : Bool}
    {vh vs vl va : ℚ}
    (hs : SignOf sgn neg) (hH : Numeral hb vh) (hS : Numeral sb vs) (hL : Numeral lb vl)
    (hA : NumTok t3 va p3)
    (s0 : AllSp w0) (s1 : AllSp w1) (s2 : AllSp w2) (s3 : AllSp w3) (s4 : AllSp w4) (s5 : AllSp w5)
    (s6 : AllSp w6) (s7 : AllSp w7) (hvs : vs ≤ 100) (hvl : vl ≤ 100) (hva : va ≤ 100)
    (bg : Option RGB) (hbg : ∀ b, bg = some b → 0 ≤ b.1 ∧ 0 ≤ b.2.1 ∧ 0 ≤ b.2.2) :
    ∃ R G B : ℤ, @parseStr ℚ ratNum ⟨asciiCls, namedEnv⟩
        ("hsla(".toList ++
          (w0 ++ ((((sgn ++ hb) ++ w1) ++ ',' :: ((w2 ++ ((sb ++ ['%']) ++ w3)) ++ ',' ::
            ((w4 ++ ((lb ++ ['%']) ++ w5)) ++ ',' :: (w6 ++ t3)))) ++ w7)) ++ [')']) bg = .ok (R, G, B) ∧
      let k : RGB := bg.getD (255, 255, 255)
      let a : ℚ := if va ≤ 1 then va else va / 100
      let c := css3Hsl (if neg then -vh else vh) (vs / 100) (vl / 100)
      |(R : ℚ) - (a * (255 * c.1) + (1 - a) * k.1)| < 3 / 2 ∧
      |(G : ℚ) - (a * (255 * c.2.1) + (1 - a) * k.2.1)| < 3 / 2 ∧
      |(B : ℚ) - (a * (255 * c.2.2) + (1 - a) * k.2.2)| < 3 / 2 := by
  have hsr := unit_of_pct hS.nonneg hvs
  have hlr := unit_of_pct hL.nonneg hvl
  have har := alpha_of_value hA.nonneg hva
  obtain ⟨R, G, B, hfin, hb⟩ := hslaFinish_within (pmodQ (if neg then -vh else vh) 360) bg hsr.1 hsr.2
    hlr.1 hlr.2 har.1 har.2 hbg
  rw [css3Hsl_pmod] at hb
  refine ⟨R, G, B, ?_, hb⟩
  rw [hsla_string hs hH hS hL hA s0 s1 s2 s3 s4 s5 s6 s7 bg]
  exact hfin

/-! ## examples: the hypotheses are satisfiable, the conclusions are the expected colours -/

-- group 1: a keyword in mixed case
example : @parseStr ℚ ratNum ⟨asciiCls, namedEnv⟩ "RebeccaPurple".toList none = .ok (102, 51, 153) :=
  @named_any_case ℚ ratNum _ asciiFaithful_ascii CssSpec.rebeccapurple (by simp [specTable]) _
    (by decide +kernel) (by decide +kernel) none

example : @parseStr ℚ ratNum ⟨asciiCls, namedEnv⟩ ['#', 'F', 'f', 'A', '5', '0', '0'] none =
    .ok (hex6 'F' 'f' 'A' '5' '0' '0') ∧ hex6 'F' 'f' 'A' '5' '0' '0' = (255, 165, 0) :=
  ⟨@hex6_any_case ℚ ratNum _ asciiFaithful_ascii _ _ _ _ _ _ (by decide) (by decide) (by decide) (by decide) (by decide)
    (by decide) none, by decide +kernel⟩

example : isBareHex "c0ffee".toList = true := by decide +kernel

example : @parseColor ℚ ratNum ⟨asciiCls, namedEnv⟩ (.tuple [.int 12, .int 0, .int 255]) none = .ok (12, 0, 255) :=
  @tuple_identity ℚ ratNum _ _ _ _ (by decide) (by decide) (by decide) none

example : @Num.roundHE ℚ ratNum (5 / 2) = 2 ∧ @Num.roundHE ℚ ratNum (7 / 2) = 4 ∧
    @Num.trunc ℚ ratNum (7 / 2) = 3 := by decide +kernel

example : |((@Num.roundHE ℚ ratNum (max 0 (min 255 ((50 : ℚ) * 255 / 100))) : ℤ) : ℚ) - 255 * 50 / 100| ≤ 1 / 2 :=
  (rgb_channel_pct (p := 50) (by norm_num) (by norm_num)).1

example : @parseStr ℚ ratNum ⟨asciiCls, namedEnv⟩ "rgb(50%, 0%, 100%)".toList none = .ok (128, 0, 255) := by
  decide +kernel

example : ∃ R G B : ℤ, @hslSeqToRgb ℚ ratNum ⟨asciiCls, []⟩ (.float (-120)) (.float 1) (.float (1 / 2)) = .ok (R, G, B) ∧
    validRgb (R, G, B) = true :=
  let ⟨R, G, B, h, hv, _⟩ := hsl_any_hue ⟨asciiCls, []⟩ (-120) (s := 1) (l := 1 / 2) (by norm_num) (by norm_num) (by norm_num) (by norm_num)
  ⟨R, G, B, h, hv⟩

example : @parseStr ℚ ratNum ⟨asciiCls, namedEnv⟩ "hsl(-120, 100%, 50%)".toList none = .ok (0, 0, 255) ∧
    @parseStr ℚ ratNum ⟨asciiCls, namedEnv⟩ "hsl(600, 100%, 50%)".toList none = .ok (0, 0, 255) := by
  decide +kernel

example : @parseStr ℚ ratNum ⟨asciiCls, namedEnv⟩ "rgba(255, 0, 0, 0.5)".toList none = .ok (255, 128, 128) ∧
    @parseStr ℚ ratNum ⟨asciiCls, namedEnv⟩ "rgba(255, 0, 0, 0.5)".toList (some (0, 0, 0)) = .ok (128, 0, 0) ∧
    @parseStr ℚ ratNum ⟨asciiCls, namedEnv⟩ "hsla(0, 100%, 50%, 0.5)".toList none = .ok (255, 127, 127) := by
  decide +kernel


-- group 8: `rgb( 12 ,5,255 )` through the general theorem, and by evaluation
example : @parseStr ℚ ratNum ⟨asciiCls, namedEnv⟩
    ("rgb(".toList ++ ([' '] ++ ((toString 12).toList ++ ([' ', ','] ++ ((toString 5).toList ++
      ([','] ++ ((toString 255).toList ++ [' '])))))) ++ [')']) none =
    .ok (@Num.roundHE ℚ ratNum (compOf (12 : ℕ) false), @Num.roundHE ℚ ratNum (compOf (5 : ℕ) false),
         @Num.roundHE ℚ ratNum (compOf (255 : ℕ) false)) :=
  rgb_string_ascii (Or.inl rfl) (allSep_sp allSep_nil) (allSep_sp (allSep_comma allSep_nil)) (by simp)
    (allSep_comma allSep_nil) (by simp) (allSep_sp allSep_nil)
    (NumTok.plain (decimal_numeral 12)) (NumTok.plain (decimal_numeral 5))
    (NumTok.plain (decimal_numeral 255)) (fun _ => by norm_num) (fun _ => by norm_num)
    (fun _ => by norm_num) none

example : "rgb(".toList ++ ([' '] ++ ((toString 12).toList ++ ([' ', ','] ++ ((toString 5).toList ++
      ([','] ++ ((toString 255).toList ++ [' '])))))) ++ [')'] = "rgb( 12 ,5,255 )".toList ∧
    @parseStr ℚ ratNum ⟨asciiCls, namedEnv⟩ "rgb( 12 ,5,255 )".toList none = .ok (12, 5, 255) ∧
    @parseStr ℚ ratNum ⟨asciiCls, namedEnv⟩ "RGB(12, 5, 255)".toList none = .ok (12, 5, 255) := by
  decide +kernel

-- group 8: `hsl(-120, 100%, 50%)` and `hsla(480,100%,50%,0.5)` through the general theorems
example : ∃ R G B : ℤ, @parseStr ℚ ratNum ⟨asciiCls, namedEnv⟩
    ("hsl(".toList ++ ([] ++ (((['-'] ++ (toString 120).toList) ++ ([',', ' '] ++
      (((toString 100).toList ++ ['%']) ++ ([',', ' '] ++ ((toString 50).toList ++ ['%']))))) ++ []))
      ++ [')']) none = .ok (R, G, B) ∧ validRgb (R, G, B) = true :=
  let ⟨R, G, B, h, hv, _⟩ := hsl_string_ascii SignOf.minus (decimal_numeral 120) (decimal_numeral 100)
    (decimal_numeral 50) allSep_nil (allSep_comma (allSep_sp allSep_nil)) (by simp)
    (allSep_comma (allSep_sp allSep_nil)) allSep_nil (by norm_num) (by norm_num) none
  ⟨R, G, B, h, hv⟩

example : ∃ R G B : ℤ, @parseStr ℚ ratNum ⟨asciiCls, namedEnv⟩
    ("hsla(".toList ++ ([] ++ (((([] ++ (toString 480).toList) ++ []) ++ ',' ::
      (([] ++ (((toString 100).toList ++ ['%']) ++ [])) ++ ',' ::
      (([] ++ (((toString 50).toList ++ ['%']) ++ [])) ++ ',' ::
      ([] ++ ((toString 0).toList ++ '.' :: (toString 5).toList))))) ++ [])) ++ [')']) none = .ok (R, G, B) :=
  let ⟨R, G, B, h, _⟩ := hsla_string_ascii SignOf.none (decimal_numeral 480) (decimal_numeral 100)
    (decimal_numeral 50)
    (NumTok.plain (numeral_dec 0 5))
    allSp_nil allSp_nil allSp_nil allSp_nil allSp_nil allSp_nil allSp_nil allSp_nil
    (by norm_num) (by norm_num)
    (by rw [show (toString 5).toList.length = 1 from by decide]; norm_num) none (fun _ h => by cases h)
  ⟨R, G, B, h⟩

end CmProps.C07
