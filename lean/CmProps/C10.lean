import CmProofs.ColorReal
/-!
# C10 — OKLCH

* ranges of `rgbToOklch` at the real-number carrier (`L ∈ [0,1]`, `C ≥ 0`, `H ∈ [0,360)`), hence
  `validOklch (rgbToOklch c)` at ℝ;
* for **any** carrier (no laws): `oklchToRgb` / `oklchToRgbSafe` return valid 8-bit triples and the
  `_safe` wrappers agree with the plain functions on valid data;
* rows of the inverse matrix sum to one, so at ℝ an achromatic OKLCH colour (`C = 0`) has three equal
  linear-light channels `L³` and maps to a grey; black and white are exact.
-/
namespace CmProps.C10
open Cm Real

/-! ## 1. ranges of `rgbToOklch` at ℝ -/
section real
theorem oklch_L_range (c : RGB) :
    0 ≤ (@rgbToOklch ℝ realNum c).1 ∧ (@rgbToOklch ℝ realNum c).1 ≤ 1 := by
  unfold rgbToOklch
  rcases h : @rgbToOklab ℝ realNum c with ⟨L, a, b⟩
  simp only [real_pmax, real_pmin, real_sci]
  constructor
  · exact le_trans (by norm_num) (le_max_left _ _)
  · exact max_le (by norm_num) (le_trans (min_le_left _ _) (by norm_num))

theorem oklch_C_nonneg (c : RGB) : 0 ≤ (@rgbToOklch ℝ realNum c).2.1 := by
  unfold rgbToOklch
  rcases h : @rgbToOklab ℝ realNum c with ⟨L, a, b⟩
  exact Real.sqrt_nonneg _

theorem oklch_H_range (c : RGB) :
    0 ≤ (@rgbToOklch ℝ realNum c).2.2 ∧ (@rgbToOklch ℝ realNum c).2.2 < 360 := by
  unfold rgbToOklch
  rcases h : @rgbToOklab ℝ realNum c with ⟨L, a, b⟩
  simp only [hueAngle_real, real_sci]
  split_ifs
  · norm_num
  · exact hueR_range a b

theorem oklch_valid (c : RGB) : @validOklch ℝ realNum (@rgbToOklch ℝ realNum c) = true := by
  have hL := oklch_L_range c
  have hC := oklch_C_nonneg c
  have hH := oklch_H_range c
  rcases h : @rgbToOklch ℝ realNum c with ⟨L, C, H⟩
  rw [h] at hL hC hH
  unfold validOklch
  simp only [Bool.and_eq_true, real_le, real_sci, Bool.not_eq_true', real_lt_false]
  norm_num
  exact ⟨⟨hL, hC⟩, hH.1, hH.2.le⟩
end real

/-! ## 2. 8-bit validity and the `_safe` wrappers — any carrier, no laws -/
section anyCarrier
variable {α : Type} [NumT α]

theorem ofOklch_valid (t : α × α × α) : validRgb (oklchToRgb t) = true := by
  rw [oklchToRgb_eq, validRgb_iff]
  exact ⟨quant8_range _, quant8_range _, quant8_range _⟩

theorem ofOklchSafe_valid (t : α × α × α) : validRgb (oklchToRgbSafe t) = true := by
  unfold oklchToRgbSafe
  have hf : ∀ n : Int, validRgb (max 0 (min 255 n), max 0 (min 255 n), max 0 (min 255 n)) = true := by
    intro n
    rw [validRgb_iff]
    have : 0 ≤ max 0 (min 255 n) ∧ max 0 (min 255 n) ≤ 255 :=
      ⟨le_max_left _ _, max_le (by decide) (min_le_left _ _)⟩
    exact ⟨this, this, this⟩
  simp only
  split_ifs
  · exact hf _
  · exact hf _
  · exact ofOklch_valid t

theorem safe_eq_plain_on_valid (t : α × α × α) (h : validOklch t = true) :
    oklchToRgbSafe t = oklchToRgb t := by
  unfold oklchToRgbSafe
  simp only [h, ofOklch_valid t, Bool.not_true, Bool.false_eq_true, if_false]

theorem safe_eq_plain_on_valid_rgb (c : RGB) (hc : validRgb c = true)
    (h : validOklch (rgbToOklch (α := α) c) = true) :
    rgbToOklchSafe (α := α) c = rgbToOklch c := by
  unfold rgbToOklchSafe
  simp only [hc, h, Bool.not_true, Bool.false_eq_true, if_false]
end anyCarrier

/-! ## 3. inverse matrix rows, achromatic colours, black and white (ℝ) -/
theorem inv_rows_sum_one :
    (4.0767416621 - 3.3077115913 + 0.2309699292 : ℝ) = 1 ∧
    (-1.2684380046 + 2.6097574011 - 0.3413193965 : ℝ) = 1 ∧
    (-0.0041960863 - 0.7034186147 + 1.7076147010 : ℝ) = 1 := by
  norm_num

theorem safeCube_real (x : ℝ) : @safeCube ℝ realNum x = x ^ 3 := by
  unfold safeCube
  simp only [real_mul, real_neg]
  split_ifs <;> ring

theorem achromatic_linear (L H : ℝ) :
    @oklchToLinear ℝ realNum (L, 0, H) = (L ^ 3, L ^ 3, L ^ 3) := by
  unfold oklchToLinear
  simp only [safeCube_real, real_sci, real_add, real_sub, real_mul, real_div, real_neg, real_cos,
    real_sin, real_pi, zero_mul, mul_zero, add_zero, sub_zero]
  refine Prod.ext ?_ (Prod.ext ?_ ?_) <;> simp only <;> ring

theorem achromatic_grey (L H : ℝ) :
    let c := @oklchToRgb ℝ realNum (L, 0, H)
    c.1 = c.2.1 ∧ c.2.1 = c.2.2 := by
  intro c
  simp only [c, oklchToRgb_eq, achromatic_linear, and_self]

theorem roundHE_real_int (n : ℤ) : @Num.roundHE ℝ realNum.toNum (n : ℝ) = n := by
  unfold Num.roundHE
  simp only [real_floor, Int.floor_intCast, real_ofInt, sub_self, real_sci]
  rw [if_pos]
  rw [real_lt]; norm_num

theorem quant8_real_zero : @quant8 ℝ realNum 0 = 0 := by
  unfold quant8
  simp only [zero_mul]
  have := roundHE_real_int 0
  rw [Int.cast_zero] at this
  rw [this]; rfl

theorem quant8_real_one : @quant8 ℝ realNum 1 = 255 := by
  unfold quant8
  simp only [one_mul, real_sci]
  have := roundHE_real_int 255
  rw [show ((255 : ℤ) : ℝ) = (255.0 : ℝ) by norm_num] at this
  rw [this]; rfl

theorem linearToSrgb_real_zero : @linearToSrgb ℝ realNum 0 = 0 := by
  unfold linearToSrgb
  rw [if_pos]
  · simp only [mul_zero]
  · rw [real_le, real_sci]; norm_num

theorem linearToSrgb_real_one : @linearToSrgb ℝ realNum 1 = 1 := by
  unfold linearToSrgb
  rw [if_neg]
  · simp only [real_mul, real_sub, real_rpow, real_sci, Real.one_rpow]; norm_num
  · rw [real_le, real_sci]; norm_num

theorem clamp01_real (x : ℝ) : @clamp01 ℝ realNum x = max 0 (min 1 x) := by
  unfold clamp01
  simp only [real_pmax, real_pmin, real_sci]
  norm_num

theorem black (H : ℝ) : @oklchToRgb ℝ realNum (0, 0, H) = (0, 0, 0) := by
  rw [@oklchToRgb_eq ℝ realNum, achromatic_linear]
  simp only [clamp01_real]
  norm_num
  rw [linearToSrgb_real_zero, quant8_real_zero]

theorem white (H : ℝ) : @oklchToRgb ℝ realNum (1, 0, H) = (255, 255, 255) := by
  rw [@oklchToRgb_eq ℝ realNum, achromatic_linear]
  simp only [clamp01_real]
  norm_num
  rw [linearToSrgb_real_one, quant8_real_one]

/-- the returned channels of an achromatic colour, explicitly -/
theorem achromatic_channels (L H : ℝ) :
    @oklchToRgb ℝ realNum (L, 0, H) =
      (@quant8 ℝ realNum (@linearToSrgb ℝ realNum (max 0 (min 1 (L ^ 3)))),
       @quant8 ℝ realNum (@linearToSrgb ℝ realNum (max 0 (min 1 (L ^ 3)))),
       @quant8 ℝ realNum (@linearToSrgb ℝ realNum (max 0 (min 1 (L ^ 3))))) := by
  rw [@oklchToRgb_eq ℝ realNum, achromatic_linear]
  simp only [clamp01_real]

/-- at ℝ the second hypothesis of `safe_eq_plain_on_valid_rgb` always holds -/
theorem rgbToOklchSafe_real (c : RGB) (hc : validRgb c = true) :
    @rgbToOklchSafe ℝ realNum c = @rgbToOklch ℝ realNum c :=
  @safe_eq_plain_on_valid_rgb ℝ realNum c hc (oklch_valid c)

/-! ## satisfiability of the hypotheses -/

/-- `validOklch t = true` is satisfiable (ℝ carrier) -/
example : @validOklch ℝ realNum (0.5, 0.1, 30) = true := by
  unfold validOklch
  simp only [Bool.and_eq_true, real_le, real_sci, Bool.not_eq_true', real_lt_false]
  norm_num

/-- both hypotheses of `safe_eq_plain_on_valid_rgb` hold together (ℝ carrier) -/
example : validRgb (12, 200, 255) = true ∧
    @validOklch ℝ realNum (@rgbToOklch ℝ realNum (12, 200, 255)) = true :=
  ⟨by decide, oklch_valid _⟩

end CmProps.C10
