import CmModel.Lab
/-! # C10 — placeholder until the real-number theorems are merged -/
namespace CmProps.C10
open Cm
theorem validRgb_def (c : RGB) : validRgb c = ((0 ≤ c.1 && c.1 ≤ 255) && (0 ≤ c.2.1 && c.2.1 ≤ 255) && (0 ≤ c.2.2 && c.2.2 ≤ 255)) := rfl
end CmProps.C10
