import CmGen.EscapeSig
/-!
# C19 — what is interpolated into the HTML reports, and how (regenerated from the source on this run)

`harness/translate/escapesig.py` lists every `{…}` placeholder of every markup-building f-string in `cli/html_report.py` and
`core/visualiser.py` together with a classification from a data-flow analysis inside the function: `escaped` (the value is
`html.escape(…)`, or a name only ever bound to that, or an f-string of such values), `badge:` (a label / CSS class that
`_get_level_badge` picks — library text, never caller text), `html:` (markup returned by another listed function), `raw:`
(anything else). The theorems pin the table and state that nothing is `raw` and that every placeholder carrying caller text
is `escaped`. This complements the behaviour-extracted templates (`C19.lean`): it also covers markup that is only rendered
for inputs the template extraction never feeds (a card for unparseable entries, an "unchanged" card), and an escape that has
become conditional.
-/
namespace CmProps.C19

theorem source_placeholders : CmGen.EscapeSig.placeholders =
    [("html_report.py", "generate_report", "bg", "escaped"),
     ("html_report.py", "generate_report", "original_text", "escaped"),
     ("html_report.py", "generate_report", "tuned_text", "escaped"),
     ("html_report.py", "generate_report", "selector", "escaped"),
     ("html_report.py", "generate_report", "file_path", "escaped"),
     ("html_report.py", "generate_report", "bg_style", "escaped"),
     ("html_report.py", "generate_report", "orig_text_style", "escaped"),
     ("html_report.py", "generate_report", "original_text", "escaped"),
     ("html_report.py", "generate_report", "original_level", "escaped"),
     ("html_report.py", "generate_report", "bg_style", "escaped"),
     ("html_report.py", "generate_report", "tuned_text_style", "escaped"),
     ("html_report.py", "generate_report", "tuned_text", "escaped"),
     ("html_report.py", "generate_report", "new_level", "escaped"),
     ("visualiser.py", "to_html", "bg", "escaped"),
     ("visualiser.py", "to_html", "fg", "escaped"),
     ("visualiser.py", "to_html", "tuned_fg", "escaped"),
     ("visualiser.py", "to_html", "html.escape(str(selector))", "escaped"),
     ("visualiser.py", "to_html", "html.escape(str(file_path))", "escaped"),
     ("visualiser.py", "to_html", "bg_style", "escaped"),
     ("visualiser.py", "to_html", "orig_text_style", "escaped"),
     ("visualiser.py", "to_html", "fg", "escaped"),
     ("visualiser.py", "to_html", "orig_class", "badge:_get_level_badge"),
     ("visualiser.py", "to_html", "orig_label", "badge:_get_level_badge"),
     ("visualiser.py", "to_html", "bg_style", "escaped"),
     ("visualiser.py", "to_html", "tuned_text_style", "escaped"),
     ("visualiser.py", "to_html", "tuned_fg", "escaped"),
     ("visualiser.py", "to_html", "new_class", "badge:_get_level_badge"),
     ("visualiser.py", "to_html", "new_label", "badge:_get_level_badge"),
     ("visualiser.py", "to_html_bulk", "cards_html", "html:to_html")] := rfl

/-- no placeholder of a report is raw: each is escaped, a badge chosen by the library, or markup from `to_html` -/
theorem source_no_raw_placeholder (m f e c : String) (h : (m, f, e, c) ∈ CmGen.EscapeSig.placeholders) :
    c = "escaped" ∨ c = "badge:_get_level_badge" ∨ c = "html:to_html" := by
  rw [source_placeholders] at h
  simp only [List.mem_cons, Prod.mk.injEq, List.mem_nil_iff, or_false] at h
  rcases h with h | h | h | h | h | h | h | h | h | h | h | h | h | h | h | h | h | h | h | h | h | h | h | h | h | h | h | h | h <;>
    simp [h.2.2.2]

end CmProps.C19
