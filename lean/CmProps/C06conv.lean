import CmModel.Parser
import CmGen.ConvStr
/-!
# C06 — the two output formatters, as translated from the source on this run, are the model's

`harness/translate/convstr.py` translates `conversions.rgbint_to_string` (validation by `is_valid_rgb`, then the f-string
`f"rgb({rgb[0]}, {rgb[1]}, {rgb[2]})"`) and the tuple path of `conversions.rgb_to_hex` (the `isinstance` dispatch decided
by typing: the parameter is a *tuple* of three ints; the range validation; `"#{:02x}{:02x}{:02x}".format(r, g, b)`),
rule F of the translator for the two kinds of formatting. The model's `fmtRgbFn` / `fmtHex` are the texts for a valid
colour; the images also carry the validation, so the theorems say: valid ↦ `.ok` of the model's text, otherwise
`ValueError`. (`hex_to_rgb` is not translated: see the translator's docstring.)
-/
namespace CmProps.C06
open Cm Cm.Parse

/-- `rgbint_to_string(rgb)` -/
theorem source_rgbint_to_string (c : RGB) :
    CmGen.ConvStr.rgbint_to_string c = if validRgb c then .ok (fmtRgbFn c) else vErr := by
  unfold CmGen.ConvStr.rgbint_to_string fmtRgbFn
  cases validRgb c <;> rfl

/-- … so for a valid colour it is the model's `fmtRgbFn` -/
theorem source_rgbint_to_string_valid (c : RGB) (h : validRgb c = true) :
    CmGen.ConvStr.rgbint_to_string c = .ok (fmtRgbFn c) := by
  rw [source_rgbint_to_string, h]; rfl

/-- `rgb_to_hex((r, g, b))` for a tuple argument -/
theorem source_rgb_to_hex (c : RGB) :
    CmGen.ConvStr.rgb_to_hex_tuple c = if validRgb c then .ok (fmtHex c) else vErr := by
  obtain ⟨r, g, b⟩ := c
  unfold CmGen.ConvStr.rgb_to_hex_tuple fmtHex validRgb
  simp only [Bool.true_and, decide_true, if_true]
  generalize decide (0 ≤ r) = c1
  generalize decide (r ≤ 255) = c2
  generalize decide (0 ≤ g) = c3
  generalize decide (g ≤ 255) = c4
  generalize decide (0 ≤ b) = c5
  generalize decide (b ≤ 255) = c6
  cases c1 <;> cases c2 <;> cases c3 <;> cases c4 <;> cases c5 <;> cases c6 <;> rfl

/-- … so for a valid colour it is the model's `fmtHex` -/
theorem source_rgb_to_hex_valid (c : RGB) (h : validRgb c = true) :
    CmGen.ConvStr.rgb_to_hex_tuple c = .ok (fmtHex c) := by
  rw [source_rgb_to_hex, h]; rfl

end CmProps.C06
