import CmModel.Lab
import CmGen.Leaves
/-!
# C11 — CIE Lab and CIEDE2000 of `conversions.py` / `color_metrics.py`, as translated on this run, are the model's
-/
namespace CmProps.C11
open Cm
variable {α : Type} [NumT α]

theorem source_rgb_to_xyz (c : RGB) : CmGen.Leaves.rgb_to_xyz (α := α) c = rgbToXyz c := rfl
theorem source_lab_transform (t : α) : CmGen.Leaves.xyz_to_lab__lab_transform t = labF t := rfl
theorem source_xyz_to_lab (p : α × α × α) : CmGen.Leaves.xyz_to_lab p = xyzToLab p := rfl
theorem source_rgb_to_lab (c : RGB) : CmGen.Leaves.rgb_to_lab (α := α) c = rgbToLab c := rfl

/-- `calculate_delta_e_2000`: all 40-odd assignments of the source, in order, are the model's formula -/
theorem source_delta_e_2000 (c d : RGB) : CmGen.Leaves.calculate_delta_e_2000 (α := α) c d = deltaE2000 c d := by
  unfold CmGen.Leaves.calculate_delta_e_2000 deltaE2000
  split
  · rfl
  · rw [source_rgb_to_lab, source_rgb_to_lab]
    unfold deltaE2000Lab
    rcases rgbToLab (α := α) c with ⟨L1, a1, b1⟩
    rcases rgbToLab (α := α) d with ⟨L2, a2, b2⟩
    simp only []
    rfl

end CmProps.C11
