import CmGen.EffectSig
/-!
# C17 — where the core modules can print, log, warn or touch the file system (regenerated from the source on this run)

`harness/translate/effectsig.py` scans every module of `cm_colors.core` for calls that write to stdout / stderr (print, the
logging and warnings modules, `rich` consoles and progress bars, `click.echo`, `sys.stdout.write` …) or create, change or
remove a file, and lists them with the function they sit in. The theorem pins that table: output can only come from
`ColorPair.make_readable` and `make_readable_bulk` — the three `print`s and the two visualiser calls whose guards
(`show` / `save_report`) and order `C17api.lean` / `C17bulk.lean` prove to be the model's `mrEffects` / `bulkEffects` — and
from the two visualisers themselves (`to_console` prints twice; `to_html_bulk` opens `output_path` for writing, nothing else).
No other function of the library — the parser, the converters, the optimiser — contains an output or file-system call.
-/
namespace CmProps.C17

theorem source_effect_sites : CmGen.EffectSig.effect_sites =
    [("cm_colors.py", "make_readable_bulk", "visualiser:to_html_bulk"),
     ("cm_colors.py", "make_readable_bulk", "print"),
     ("colors.py", "ColorPair.make_readable", "print"),
     ("colors.py", "ColorPair.make_readable", "visualiser:to_console"),
     ("colors.py", "ColorPair.make_readable", "visualiser:to_html_bulk"),
     ("colors.py", "ColorPair.make_readable", "print"),
     ("visualiser.py", "to_console", "console.print"),
     ("visualiser.py", "to_console", "console.print"),
     ("visualiser.py", "to_html_bulk", "open:w:output_path")] := rfl

/-- in particular: nothing outside the two API entry points and the two visualisers -/
theorem source_effects_confined (m f k : String) (h : (m, f, k) ∈ CmGen.EffectSig.effect_sites) :
    f = "make_readable_bulk" ∨ f = "ColorPair.make_readable" ∨ f = "to_console" ∨ f = "to_html_bulk" := by
  rw [source_effect_sites] at h
  simp only [List.mem_cons, Prod.mk.injEq, List.mem_nil_iff, or_false] at h
  rcases h with h | h | h | h | h | h | h | h | h <;> simp [h.2.1]

end CmProps.C17
