import CmProofs.WcagReal
import CmProps.C05cert
/-!
# C05 — WCAG relative luminance, contrast ratio and levels (model at ℝ)

All statements are about the generic model of `CmModel/Wcag.lean` instantiated at the real-number
carrier `Cm.realNum`; helper lemmas live in `CmProofs/WcagReal.lean`.
-/
namespace CmProps.C05
open Cm

local notation "lumR" => @Cm.luminance ℝ Cm.realNum
local notation "ratioR" => @Cm.contrastRatio ℝ Cm.realNum
local notation "levelR" => @Cm.contrastLevel ℝ Cm.realNum.toNum

/-- the hypotheses used below are satisfiable: a concrete valid colour -/
example : validRgb (18, 52, 86) = true := by decide

/-- black and white are valid, so the extremal statements are not vacuous -/
example : validRgb (0, 0, 0) = true ∧ validRgb (255, 255, 255) = true := by decide

/-- out-of-range triples are rejected (validity is a real restriction) -/
example : validRgb (256, 0, 0) = false ∧ validRgb (0, -1, 0) = false := by decide

/-- the relative luminance of a valid colour lies in `[0, 1]` -/
theorem lum_range (c : RGB) (h : validRgb c = true) : 0 ≤ lumR c ∧ lumR c ≤ 1 :=
  ⟨luminance_nonneg h, luminance_le_one h⟩

/-- black has luminance `0` -/
theorem lum_black : lumR (0, 0, 0) = 0 := (luminance_eq_zero_iff (by decide)).2 rfl

/-- white has luminance `1` -/
theorem lum_white : lumR (255, 255, 255) = 1 := (luminance_eq_one_iff (by decide)).2 rfl

/-- among valid colours only black has luminance `0` -/
theorem lum_eq_zero_iff (c : RGB) (h : validRgb c = true) : lumR c = 0 ↔ c = (0, 0, 0) :=
  luminance_eq_zero_iff h

/-- among valid colours only white has luminance `1` -/
theorem lum_eq_one_iff (c : RGB) (h : validRgb c = true) : lumR c = 1 ↔ c = (255, 255, 255) :=
  luminance_eq_one_iff h

/-- strictly increasing the red channel strictly increases the luminance -/
theorem lum_strictMono_r (r r' g b : Int) (_h : validRgb (r, g, b) = true)
    (_h' : validRgb (r', g, b) = true) (hlt : r < r') : lumR (r, g, b) < lumR (r', g, b) := by
  rw [luminance_real, luminance_real]
  have := lin_lt_iff.2 (chanR_lt_iff.2 hlt)
  norm_num
  linarith

/-- strictly increasing the green channel strictly increases the luminance -/
theorem lum_strictMono_g (r g g' b : Int) (_h : validRgb (r, g, b) = true)
    (_h' : validRgb (r, g', b) = true) (hlt : g < g') : lumR (r, g, b) < lumR (r, g', b) := by
  rw [luminance_real, luminance_real]
  have := lin_lt_iff.2 (chanR_lt_iff.2 hlt)
  norm_num
  linarith

/-- strictly increasing the blue channel strictly increases the luminance -/
theorem lum_strictMono_b (r g b b' : Int) (_h : validRgb (r, g, b) = true)
    (_h' : validRgb (r, g, b') = true) (hlt : b < b') : lumR (r, g, b) < lumR (r, g, b') := by
  rw [luminance_real, luminance_real]
  have := lin_lt_iff.2 (chanR_lt_iff.2 hlt)
  norm_num
  linarith

/-- the hypotheses of `lum_strictMono_r` are jointly satisfiable -/
example : lumR (10, 20, 30) < lumR (11, 20, 30) :=
  lum_strictMono_r 10 11 20 30 (by decide) (by decide) (by decide)

/-- the contrast ratio does not depend on which colour is text and which is background -/
theorem ratio_symm (a b : RGB) : ratioR a b = ratioR b a := by
  rw [contrastRatio_real, contrastRatio_real, max_comm, min_comm]

/-- the contrast ratio of two valid colours lies in `[1, 21]` -/
theorem ratio_range (a b : RGB) (ha : validRgb a = true) (hb : validRgb b = true) :
    1 ≤ ratioR a b ∧ ratioR a b ≤ 21 := by
  rw [contrastRatio_real]
  exact ratio_bounds (le_min (luminance_nonneg ha) (luminance_nonneg hb)) min_le_max
    (max_le (luminance_le_one ha) (luminance_le_one hb))

/-- a valid colour has contrast ratio `1` against itself -/
theorem ratio_self (a : RGB) (ha : validRgb a = true) : ratioR a a = 1 := by
  rw [contrastRatio_real, max_self, min_self]
  have := luminance_nonneg ha
  exact div_self (by norm_num; linarith)

/-- the maximal ratio `21` is attained exactly by black on white and white on black -/
theorem ratio_eq_21_iff (a b : RGB) (ha : validRgb a = true) (hb : validRgb b = true) :
    ratioR a b = 21 ↔
      (a = (0, 0, 0) ∧ b = (255, 255, 255)) ∨ (a = (255, 255, 255) ∧ b = (0, 0, 0)) := by
  have a0 := luminance_nonneg ha
  have a1 := luminance_le_one ha
  have b0 := luminance_nonneg hb
  have b1 := luminance_le_one hb
  rw [contrastRatio_real, ratio_eq_21 (le_min a0 b0) (max_le a1 b1),
    ← luminance_eq_zero_iff ha, ← luminance_eq_zero_iff hb,
    ← luminance_eq_one_iff ha, ← luminance_eq_one_iff hb]
  constructor
  · rintro ⟨hmin, hmax⟩
    rcases le_total (lumR a) (lumR b) with hab | hab
    · rw [min_eq_left hab] at hmin; rw [max_eq_right hab] at hmax
      exact Or.inl ⟨hmin, hmax⟩
    · rw [min_eq_right hab] at hmin; rw [max_eq_left hab] at hmax
      exact Or.inr ⟨hmax, hmin⟩
  · rintro (⟨h0, h1⟩ | ⟨h1, h0⟩)
    · rw [h0, h1]; norm_num
    · rw [h0, h1]; norm_num

/-- WCAG's `0.03928` and sRGB's `0.04045` select the same branch on every 8-bit channel value -/
theorem lin_threshold_immaterial : ∀ v : Int, 0 ≤ v → v ≤ 255 →
    (((v : ℝ) / 255 ≤ 0.03928) ↔ ((v : ℝ) / 255 ≤ 0.04045)) := by
  intro v _ _
  have key : ∀ t : ℝ, 10 ≤ t → t < 11 → ((v : ℝ) ≤ t ↔ v ≤ 10) := by
    intro t h10 h11
    constructor
    · intro h
      by_contra hc
      have : (11 : ℤ) ≤ v := by omega
      have : (11 : ℝ) ≤ (v : ℝ) := by exact_mod_cast this
      linarith
    · intro h
      have : (v : ℝ) ≤ 10 := by exact_mod_cast h
      linarith
  rw [div_le_iff₀ (by norm_num), div_le_iff₀ (by norm_num),
    key _ (by norm_num) (by norm_num), key _ (by norm_num) (by norm_num)]

/-- both thresholds cut the 8-bit channel values between `10` and `11` -/
theorem lin_threshold_cut (v : Int) : ((v : ℝ) / 255 ≤ 0.04045) ↔ v ≤ 10 := by
  rw [div_le_iff₀ (by norm_num)]
  constructor
  · intro h
    by_contra hc
    have : (11 : ℤ) ≤ v := by omega
    have : (11 : ℝ) ≤ (v : ℝ) := by exact_mod_cast this
    norm_num at h
    linarith
  · intro h
    have : (v : ℝ) ≤ 10 := by exact_mod_cast h
    norm_num
    linarith

/-- `AAA` exactly when the ratio reaches `7` (`4.5` for large text), inclusive -/
theorem level_AAA_iff (r : ℝ) (large : Bool) :
    levelR r large = .AAA ↔ (if large then (4.5 : ℝ) else 7) ≤ r := by
  rw [contrastLevel_real]
  cases large <;> norm_num <;> split_ifs <;> simp_all

/-- `AA` exactly when the ratio reaches `4.5` (`3` for large text) but not the `AAA` threshold -/
theorem level_AA_iff (r : ℝ) (large : Bool) :
    levelR r large = .AA ↔
      (if large then (3 : ℝ) else 4.5) ≤ r ∧ r < (if large then (4.5 : ℝ) else 7) := by
  rw [contrastLevel_real]
  cases large <;> norm_num <;> split_ifs <;> simp_all

/-- `FAIL` exactly when the ratio is below `4.5` (`3` for large text) -/
theorem level_FAIL_iff (r : ℝ) (large : Bool) :
    levelR r large = .FAIL ↔ r < (if large then (3 : ℝ) else 4.5) := by
  rw [contrastLevel_real]
  cases large <;> norm_num <;> split_ifs <;> simp_all <;> linarith

/-- complete characterisation of `get_contrast_level` at ℝ (thresholds inclusive) -/
theorem level_iff (r : ℝ) (large : Bool) :
    (levelR r large = .AAA ↔ (if large then (4.5 : ℝ) else 7) ≤ r) ∧
    (levelR r large = .AA ↔
      (if large then (3 : ℝ) else 4.5) ≤ r ∧ r < (if large then (4.5 : ℝ) else 7)) ∧
    (levelR r large = .FAIL ↔ r < (if large then (3 : ℝ) else 4.5)) :=
  ⟨level_AAA_iff r large, level_AA_iff r large, level_FAIL_iff r large⟩

/-- the thresholds themselves are included: exactly `7` is `AAA`, exactly `4.5` is `AA` -/
example : levelR 7 false = .AAA ∧ levelR 4.5 false = .AA ∧ levelR 4.5 true = .AAA ∧
    levelR 3 true = .AA := by
  refine ⟨(level_AAA_iff _ _).2 ?_, (level_AA_iff _ _).2 ?_, (level_AAA_iff _ _).2 ?_,
    (level_AA_iff _ _).2 ?_⟩ <;> norm_num

/-- the user-facing labels of the three levels -/
theorem label_of_level : Level.label .AAA = "Very Readable" ∧ Level.label .AA = "Readable" ∧
    Level.label .FAIL = "Not Readable" := ⟨rfl, rfl, rfl⟩

end CmProps.C05
