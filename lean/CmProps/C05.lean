import CmModel.Wcag
/-! # C05 (carrier-independent part; the real-number theorems live beside it) -/
namespace CmProps.C05
open Cm

/-- label of each level, as `ColorPair.is_readable` shows it -/
theorem label_of_level :
    Level.label .AAA = "Very Readable" ∧ Level.label .AA = "Readable" ∧ Level.label .FAIL = "Not Readable" :=
  ⟨rfl, rfl, rfl⟩

end CmProps.C05
