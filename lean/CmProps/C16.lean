import CmProofs.SearchSim
import CmProofs.Schedules
/-!
# C16 — asking for less never fails

(a) whenever mode 1 succeeds, mode 2 returns the identical colour with success;
(b) whenever a very_readable request succeeds, the ordinary request for the same pair, mode and
    text size succeeds.
Every carrier with a lawful order, every leaf oracle, every descent function.
-/
set_option linter.unusedSectionVars false
set_option linter.unusedSimpArgs false
namespace CmProps.C16
open Cm
variable {α : Type} [Num α]

/-- (a) at strategy level: mode 2 runs mode 1 first and returns its result on success (no law needed) -/
theorem relaxed_of_recursive (O : Leaf α) (d : Descend α) (t bg : RGB) (target minC : α)
    (h : (strategyRecursive O d t bg target minC).2 = true) :
    strategyRelaxed O d t bg target minC = strategyRecursive O d t bg target minC := by
  simp only [strategyRelaxed, h, if_true]
  exact Prod.ext rfl h.symm

/-- (a) at `check_and_fix_contrast` level -/
theorem mode2_of_mode1 (O : Leaf α) (d : Descend α) (t bg : RGB) (large premium : Bool)
    (h : (checkAndFix O d t bg large 1 premium).2 = true) :
    checkAndFix O d t bg large 2 premium = checkAndFix O d t bg large 1 premium := by
  simp only [checkAndFix] at *
  split
  · rfl
  · rename_i hc
    simp only [hc] at h
    have e1 : ((1 : Int) = 0) = False := by decide
    have e2 : ((1 : Int) = 2) = False := by decide
    have e3 : ((2 : Int) = 0) = False := by decide
    simp only [e1, e2, e3, if_false, if_true] at *
    exact relaxed_of_recursive O d t bg _ _ h

variable [LawfulNumOrd α]

/-- (b) for one multi-phase search: if the stricter request's result meets the stricter minimum,
    the weaker request's result meets the weaker minimum -/
theorem gen_weaker_min (O : Leaf α) (d : Descend α) (t bg : RGB) (target m1 m2 : α) (sched : List α)
    (h21 : Num.le m2 m1 = true)
    (h1 : Num.ge (O.contrast (genAccessible O d t bg target m1 sched) bg) m1 = true) :
    Num.ge (O.contrast (genAccessible O d t bg target m2 sched) bg) m2 = true := by
  rcases genAccessible_sim O d t bg target m1 m2 sched h21 with h | h
  · rw [h]; exact le_trans' h21 h1
  · exact h

theorem strict_weaker_min (O : Leaf α) (d : Descend α) (t bg : RGB) (target m1 m2 : α)
    (h21 : Num.le m2 m1 = true) (h1 : (strategyStrict O d t bg target m1).2 = true) :
    (strategyStrict O d t bg target m2).2 = true :=
  gen_weaker_min O d t bg target m1 m2 defaultSchedule h21 h1

private theorem ge_weaken {m1 m2 x : α} (h21 : Num.le m2 m1 = true) (h : Num.ge x m1 = true) :
    Num.ge x m2 = true := le_trans' h21 h

theorem recursiveLoop_weaker_min (O : Leaf α) (d : Descend α) (bg : RGB) (target m1 m2 : α)
    (h21 : Num.le m2 m1 = true) (n : Nat) (cur : RGB)
    (h1 : (recursiveLoop O d bg target m1 n cur).2 = true) :
    (recursiveLoop O d bg target m2 n cur).2 = true := by
  induction n generalizing cur with
  | zero => simp [recursiveLoop] at h1
  | succ n ih =>
    simp only [recursiveLoop] at h1 ⊢
    by_cases hc2 : Num.ge (O.contrast cur bg) m2 = true
    · simp [hc2]
    · have hc1 : ¬ Num.ge (O.contrast cur bg) m1 = true := fun h => hc2 (ge_weaken h21 h)
      simp only [hc1, hc2, if_false] at h1 ⊢
      rcases genAccessible_sim O d cur bg target m1 m2 stepSchedule h21 with heq | hpass
      · rw [heq]
        generalize genAccessible O d cur bg target m1 stepSchedule = next at h1 ⊢
        by_cases hn : next = cur
        · simp only [hn, if_true] at h1 ⊢
          by_cases hx : Num.ge (O.contrast cur bg) m1 = true
          · exact absurd hx hc1
          · simp [hx] at h1
        · simp only [hn, if_false] at h1 ⊢
          by_cases hx2 : Num.ge (O.contrast next bg) m2 = true
          · simp [hx2]
          · have hx1 : ¬ Num.ge (O.contrast next bg) m1 = true := fun h => hx2 (ge_weaken h21 h)
            simp only [hx1, hx2, if_false] at h1 ⊢
            exact ih next h1
      · generalize genAccessible O d cur bg target m2 stepSchedule = next2 at hpass ⊢
        by_cases hn : next2 = cur
        · subst hn; exact absurd hpass hc2
        · simp [hn, hpass]

theorem recursive_weaker_min (O : Leaf α) (d : Descend α) (t bg : RGB) (target m1 m2 : α)
    (h21 : Num.le m2 m1 = true) (h1 : (strategyRecursive O d t bg target m1).2 = true) :
    (strategyRecursive O d t bg target m2).2 = true :=
  recursiveLoop_weaker_min O d bg target m1 m2 h21 10 t h1

theorem optALoop_weaker_min (O : Leaf α) (d : Descend α) (bg : RGB) (target m1 m2 : α)
    (h21 : Num.le m2 m1 = true) (n : Nat) (cur : RGB)
    (h1 : (optALoop O d bg target m1 n cur).2 = true) :
    (optALoop O d bg target m2 n cur).2 = true := by
  induction n generalizing cur with
  | zero => simp [optALoop] at h1
  | succ n ih =>
    simp only [optALoop] at h1 ⊢
    by_cases hc2 : Num.ge (O.contrast cur bg) m2 = true
    · simp [hc2]
    · have hc1 : ¬ Num.ge (O.contrast cur bg) m1 = true := fun h => hc2 (ge_weaken h21 h)
      simp only [hc1, hc2, if_false] at h1 ⊢
      rcases genAccessible_sim O d cur bg target m1 m2 stepSchedule h21 with heq | hpass
      · rw [heq]
        generalize genAccessible O d cur bg target m1 stepSchedule = next at h1 ⊢
        by_cases hn : next = cur
        · simp only [hn, if_true] at h1 ⊢
          exact absurd h1 hc1
        · simp only [hn, if_false] at h1 ⊢
          by_cases hx2 : Num.ge (O.contrast next bg) m2 = true
          · simp [hx2]
          · have hx1 : ¬ Num.ge (O.contrast next bg) m1 = true := fun h => hx2 (ge_weaken h21 h)
            simp only [hx1, hx2, if_false] at h1 ⊢
            exact ih next h1
      · generalize genAccessible O d cur bg target m2 stepSchedule = next2 at hpass ⊢
        by_cases hn : next2 = cur
        · subst hn; exact absurd hpass hc2
        · simp [hn, hpass]

theorem relaxed_weaker_min (O : Leaf α) (d : Descend α) (t bg : RGB) (target m1 m2 : α)
    (h21 : Num.le m2 m1 = true) (h1 : (strategyRelaxed O d t bg target m1).2 = true) :
    (strategyRelaxed O d t bg target m2).2 = true := by
  have hr := recursive_weaker_min O d t bg target m1 m2 h21
  have ha := optALoop_weaker_min O d bg target m1 m2 h21 15 t
  have hb := gen_weaker_min O d t bg target m1 m2 relaxedSchedule h21
  simp only [strategyRelaxed] at h1 ⊢
  grind

/-- very_readable raises only the minimum: the target is the same -/
theorem target_same (large : Bool) :
    (thresholds (α := α) large true).2 = (thresholds (α := α) large false).2 := by
  cases large <;> rfl

variable [LawfulLit α]

/-- … and the ordinary minimum is the lower one -/
theorem min_le (large : Bool) :
    Num.le (thresholds (α := α) large false).1 (thresholds (α := α) large true).1 = true := by
  cases large
  · exact LawfulLit.lit_le 45 1 70 1 (by decide)
  · exact LawfulLit.lit_le 30 1 45 1 (by decide)

/-- (b) whenever the very_readable request succeeds, the ordinary request for the same pair, mode
    (any integer) and text size succeeds -/
theorem checkAndFix_ordinary_of_very_readable (O : Leaf α) (d : Descend α) (t bg : RGB) (large : Bool) (mode : Int)
    (h : (checkAndFix O d t bg large mode true).2 = true) :
    (checkAndFix O d t bg large mode false).2 = true := by
  have hle := min_le (α := α) large
  have htg := target_same (α := α) large
  simp only [checkAndFix] at h ⊢
  by_cases hc2 : Num.ge (O.contrast t bg) (thresholds (α := α) large false).1 = true
  · simp [hc2]
  · have hc1 : ¬ Num.ge (O.contrast t bg) (thresholds (α := α) large true).1 = true :=
      fun hh => hc2 (ge_weaken hle hh)
    simp only [hc1, hc2, if_false] at h ⊢
    rw [htg] at h
    by_cases hm0 : mode = 0
    · simp only [hm0, if_true] at h ⊢
      exact strict_weaker_min O d t bg _ _ _ hle h
    · by_cases hm2 : mode = 2
      · simp only [hm0, hm2, if_false, if_true] at h ⊢
        exact relaxed_weaker_min O d t bg _ _ _ hle h
      · simp only [hm0, hm2, if_false] at h ⊢
        exact recursive_weaker_min O d t bg _ _ _ hle h

end CmProps.C16
