import CmProps.C02
import CmProps.C01api
/-!
# C02 at the API: a pair that already meets the minimum comes back as exactly the original colour
-/
namespace CmProps.C02
open Cm Cm.Parse Cm.FmtRt CmProps.C01

/-- already readable ⇒ `make_readable` reports success and returns a value that reads back as
    exactly the original (composited) text colour, in the input's format -/
theorem makeReadable_already_ok {α : Type} [NumT α] (hα : ByteExact α) (hH : HslExact α) (E : PEnv)
    (hf : AsciiFaithful E.cls) (hk : keysLower E.named = true) (O : Leaf α) (d : Descend α)
    (p : ColorPair α) (mode : Int) (very : Bool) (t b : RGB) (ht : p.text.rgb? = some t)
    (hb : p.bg.rgb? = some b) (hvt : validRgb t = true)
    (hok : Num.ge (O.contrast t b) (thresholds (α := α) p.large very).1 = true) (bg' : Option RGB) :
    ∃ out, p.makeReadable E O d mode very = some (out, true) ∧ readBack (α := α) E bg' out = some t := by
  have hcf := already_ok_identity O d t b p.large very mode hok
  have hv : validRgb (checkAndFix O d t b p.large mode very).1 = true := by rw [hcf]; exact hvt
  have hm := CmProps.C06.makeReadable_returns_formatted hα E hf hk O d p mode very t b ht hb hv
  rw [hcf] at hm
  refine ⟨_, hm, ?_⟩
  obtain ⟨cls, named⟩ := E
  exact format_reads_back_of hα hH hf named hk t hvt _ bg'

/-- otherwise the colour the result reads back as never has lower contrast than the original
    (ordered carrier) -/
theorem makeReadable_monotone {α : Type} [NumT α] [LawfulNumOrd α] (hα : ByteExact α) (hH : HslExact α)
    (E : PEnv) (hf : AsciiFaithful E.cls) (hk : keysLower E.named = true) (O : Leaf α) (d : Descend α)
    (p : ColorPair α) (mode : Int) (very : Bool) (t b : RGB) (ht : p.text.rgb? = some t)
    (hb : p.bg.rgb? = some b) (hv : validRgb (checkAndFix O d t b p.large mode very).1 = true)
    (bg' : Option RGB) :
    ∃ out ok c, p.makeReadable E O d mode very = some (out, ok) ∧ readBack (α := α) E bg' out = some c ∧
      Num.le (O.contrast t b) (O.contrast c b) = true := by
  refine ⟨_, _, (checkAndFix O d t b p.large mode very).1,
    CmProps.C06.makeReadable_returns_formatted hα E hf hk O d p mode very t b ht hb hv, ?_,
    checkAndFix_monotone O d t b p.large very mode⟩
  obtain ⟨cls, named⟩ := E
  exact format_reads_back_of hα hH hf named hk _ hv _ bg'

end CmProps.C02
