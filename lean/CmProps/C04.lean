import CmProofs.SearchWithin
import CmProofs.Schedules
/-!
# C04 — change is bounded

For every carrier with a lawful order, every leaf oracle, every descent function.
"Within `thr`" is `d ≤ thr` (`Num.le d thr = true`).
-/
set_option linter.unusedSectionVars false
namespace CmProps.C04
open Cm
variable {α : Type} [Num α] [LawfulNumOrd α]

/-- `d ≤ thr` from the form the lightness search tests (`not (d > thr)`) -/
theorem le_of_notBeyond {d thr : α} (h : NotBeyond d thr) : Num.le d thr = true :=
  le_of_not_lt h

/-- lightness search: `None`, or a valid colour within the tolerance — for any tolerance and target -/
theorem binarySearch_within (O : Leaf α) (t bg : RGB) (thr target : α) (r : RGB)
    (h : binarySearch O t bg thr target = some r) :
    O.validRgb r = true ∧ Num.le (O.deltaE t r) thr = true :=
  let ⟨hv, hd⟩ := binarySearch_inTol O t bg thr target r h
  ⟨hv, le_of_notBeyond hd⟩

/-- lightness-and-chroma descent: `None`, or a valid colour within the tolerance, whatever the
    numeric loop computed -/
theorem gradient_within (O : Leaf α) (d : Descend α) (t bg : RGB) (thr target : α) (r : RGB)
    (h : gradientDescent O d t bg thr target = some r) :
    O.validRgb r = true ∧ Num.le (O.deltaE t r) thr = true :=
  let ⟨hv, hd⟩ := gradient_inTol O d t bg thr target r h
  ⟨hv, le_of_notBeyond hd⟩

/-- multi-phase search, **any** schedule (unsorted, repeated, single-entry, empty): the result is the
    input itself or a valid colour within one of the tolerances given -/
theorem gen_within (O : Leaf α) (d : Descend α) (t bg : RGB) (target minC : α) (sched : List α) :
    let r := genAccessible O d t bg target minC sched
    r = t ∨ (O.validRgb r = true ∧ ∃ thr ∈ sched, Num.le (O.deltaE t r) thr = true) := by
  intro r
  rcases genAccessible_within O d t bg target minC sched with h | ⟨thr, hm, hv, hd⟩
  · exact Or.inl h
  · exact Or.inr ⟨hv, thr, hm, le_of_notBeyond hd⟩

/-- … hence within any common bound of the schedule (its largest entry) -/
theorem gen_within_bound (O : Leaf α) (d : Descend α) (t bg : RGB) (target minC : α) (sched : List α)
    (B : α) (hB : ∀ thr ∈ sched, Num.le thr B = true) :
    let r := genAccessible O d t bg target minC sched
    r = t ∨ (O.validRgb r = true ∧ Num.le (O.deltaE t r) B = true) := by
  intro r
  rcases gen_within O d t bg target minC sched with h | ⟨hv, thr, hm, hd⟩
  · exact Or.inl h
  · exact Or.inr ⟨hv, le_trans' hd (hB thr hm)⟩

/-- the empty schedule returns the input -/
theorem gen_empty (O : Leaf α) (d : Descend α) (t bg : RGB) (target minC : α) :
    genAccessible O d t bg target minC [] = t := by
  simp only [genAccessible, genLoop]; split <;> rfl

/-- one bounded step: `b` is `a` itself or a valid colour within `B` of `a` -/
def Step (O : Leaf α) (B : α) (a b : RGB) : Prop :=
  b = a ∨ (O.validRgb b = true ∧ Num.le (O.deltaE a b) B = true)

/-- a chain of at most `n` bounded steps -/
inductive Chain (O : Leaf α) (B : α) : Nat → RGB → RGB → Prop
  | nil (n : Nat) (a : RGB) : Chain O B n a a
  | cons {n : Nat} {a b c : RGB} : Step O B a b → Chain O B n b c → Chain O B (n + 1) a c

variable [LawfulLit α]

/-- mode 0: the returned colour is the text itself or within CIEDE2000 5.0 of it -/
theorem strict_le_5 (O : Leaf α) (d : Descend α) (t bg : RGB) (target minC : α) :
    Step O (5.0 : α) t (strategyStrict O d t bg target minC).1 :=
  gen_within_bound O d t bg target minC defaultSchedule (5.0 : α) defaultSchedule_le

theorem recursiveLoop_chain (O : Leaf α) (d : Descend α) (bg : RGB) (target minC : α) (n : Nat) (cur : RGB) :
    Chain O (3.0 : α) n cur (recursiveLoop O d bg target minC n cur).1 := by
  induction n generalizing cur with
  | zero => exact Chain.nil 0 cur
  | succ n ih =>
    have hstep : Step O (3.0 : α) cur (genAccessible O d cur bg target minC stepSchedule) :=
      gen_within_bound O d cur bg target minC stepSchedule (3.0 : α) stepSchedule_le
    simp only [recursiveLoop]
    split
    · exact Chain.nil _ cur
    · split
      · split <;> exact Chain.cons hstep (Chain.nil n _)
      · split
        · exact Chain.cons hstep (Chain.nil n _)
        · exact Chain.cons hstep (ih _)

/-- mode 1: the result is the end of a chain of at most 10 steps of ≤ 3.0 starting at the text -/
theorem recursive_chain (O : Leaf α) (d : Descend α) (t bg : RGB) (target minC : α) :
    Chain O (3.0 : α) 10 t (strategyRecursive O d t bg target minC).1 :=
  recursiveLoop_chain O d bg target minC 10 t

theorem optALoop_chain (O : Leaf α) (d : Descend α) (bg : RGB) (target minC : α) (n : Nat) (cur : RGB) :
    Chain O (3.0 : α) n cur (optALoop O d bg target minC n cur).1 := by
  induction n generalizing cur with
  | zero => exact Chain.nil 0 cur
  | succ n ih =>
    have hstep : Step O (3.0 : α) cur (genAccessible O d cur bg target minC stepSchedule) :=
      gen_within_bound O d cur bg target minC stepSchedule (3.0 : α) stepSchedule_le
    simp only [optALoop]
    split
    · exact Chain.nil _ cur
    · split
      · exact Chain.nil _ cur
      · split
        · exact Chain.cons hstep (Chain.nil n _)
        · exact Chain.cons hstep (ih _)

/-- mode 2: the result is a ≤10-step chain of ≤ 3.0 steps, or a ≤15-step such chain, or one step
    of ≤ 15.0 — always starting from the original colour -/
theorem relaxed_chain (O : Leaf α) (d : Descend α) (t bg : RGB) (target minC : α) :
    let r := (strategyRelaxed O d t bg target minC).1
    Chain O (3.0 : α) 10 t r ∨ Chain O (3.0 : α) 15 t r ∨ Step O (15.0 : α) t r := by
  have hr := recursive_chain O d t bg target minC
  have ha := optALoop_chain O d bg target minC 15 t
  have hb : Step O (15.0 : α) t (genAccessible O d t bg target minC relaxedSchedule) :=
    gen_within_bound O d t bg target minC relaxedSchedule (15.0 : α) relaxedSchedule_le
  show Chain O (3.0 : α) 10 t (strategyRelaxed O d t bg target minC).1 ∨
    Chain O (3.0 : α) 15 t (strategyRelaxed O d t bg target minC).1 ∨
    Step O (15.0 : α) t (strategyRelaxed O d t bg target minC).1
  simp only [strategyRelaxed]
  repeat' split
  all_goals first
    | exact Or.inl hr
    | exact Or.inr (Or.inl ha)
    | exact Or.inr (Or.inr hb)

/-- `check_and_fix_contrast`, mode 0, every setting: the text itself or within 5.0 of it -/
theorem checkAndFix_strict_le_5 (O : Leaf α) (d : Descend α) (t bg : RGB) (large premium : Bool) :
    Step O (5.0 : α) t (checkAndFix O d t bg large 0 premium).1 := by
  simp only [checkAndFix]
  split
  · exact Or.inl rfl
  · simp only [if_true]; exact strict_le_5 O d t bg _ _

/-- non-vacuity: a concrete chain -/
example (O : Leaf α) (a : RGB) : Chain O (3.0 : α) 2 a a := Chain.cons (Or.inl rfl) (Chain.nil 1 a)

end CmProps.C04
