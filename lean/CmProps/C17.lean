import CmModel.Effects
/-!
# C17 — no output or files unless asked; previews and reports never change the result
-/
namespace CmProps.C17
open Cm Cm.Parse
variable {α : Type} [NumT α]

/-- without `show` and `save_report` nothing is printed and no file is written -/
theorem silent_default (valid : Bool) : mrEffects valid false false = [] := by
  cases valid <;> rfl

/-- an invalid pair produces no effects whatever the flags -/
theorem silent_invalid (s r : Bool) : mrEffects false s r = [] := rfl

/-- the bulk API is silent unless a report is requested (and there is something to report) -/
theorem bulk_silent_default (n : Nat) : bulkEffects false n = [] := rfl
theorem bulk_silent_empty (s : Bool) : bulkEffects s 0 = [] := by cases s <;> rfl

/-- the returned `(colour, success)` does not depend on `show` / `save_report` -/
theorem result_indep (E : PEnv) (O : Leaf α) (d : Descend α) (p : ColorPair α) (mode : Int) (very : Bool)
    (s r s' r' : Bool) :
    (makeReadableFull E O d p mode very s r).1 = (makeReadableFull E O d p mode very s' r').1 := rfl

/-- … and equals the plain call's -/
theorem result_plain (E : PEnv) (O : Leaf α) (d : Descend α) (p : ColorPair α) (mode : Int) (very : Bool)
    (s r : Bool) : (makeReadableFull E O d p mode very s r).1 = p.makeReadable E O d mode very := rfl

/-- the only file ever written by `make_readable` is the documented quick report -/
theorem writes_documented (valid s r : Bool) (f : String)
    (h : Effect.write f ∈ mrEffects valid s r) : f = "cm_colors_quick_report.html" := by
  cases valid <;> cases s <;> cases r <;> simp [mrEffects] at h <;> exact h

/-- … and by the bulk API the documented bulk report -/
theorem bulk_writes_documented (s : Bool) (n : Nat) (f : String)
    (h : Effect.write f ∈ bulkEffects s n) : f = "cm_colors_bulk_report.html" := by
  unfold bulkEffects at h
  split at h <;> simp at h
  exact h

/-- a file is written only when `save_report` was passed -/
theorem write_only_if_asked (valid s : Bool) (f : String) : Effect.write f ∉ mrEffects valid s false := by
  cases valid <;> cases s <;> simp [mrEffects]

/-- the preview is handed `#rrggbb` strings for the original text and background colours, and for the
    tuned colour whenever the returned value can be re-read (which C06's round-trip theorems give) -/
theorem preview_args_hex (E : PEnv) (t b : RGB) (out : OutVal α) :
    (previewArgs E t b out).1 = fmtHex t ∧ (previewArgs E t b out).2.1 = fmtHex b ∧
    (∀ s, (previewArgs E t b out).2.2 = some s → ∃ c : RGB, s = fmtHex c) := by
  refine ⟨rfl, rfl, ?_⟩
  intro s hs
  unfold previewArgs at hs
  cases out with
  | tuple c => simp at hs; exact ⟨c, hs.symm⟩
  | text str =>
    simp only at hs
    split at hs
    · rename_i c _; simp at hs; exact ⟨c, hs.symm⟩
    · simp at hs
  | hsl h s' l =>
    simp only [Option.map_eq_some_iff] at hs
    obtain ⟨c, _, hc⟩ := hs
    exact ⟨c, hc.symm⟩

end CmProps.C17
