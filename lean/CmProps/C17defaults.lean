import CmGen.Defaults
/-!
# C17 / C12 / C13 — what a caller gets when he leaves an argument out (regenerated from the `def` lines on this run)

The statement-level translators use parameter defaults only to resolve calls *between* translated functions. The defaults
of the public entry points themselves are read by `harness/translate/defaults.py` and pinned here: `show` and `save_report`
are off unless asked (C17); the single-pair and the bulk API agree on `mode = 1`, `very_readable = False` (C12: the bulk
call with defaults is the map of the single-pair call with defaults) and text is not large unless said; a colour has no
background context and the parser no background unless given (C13: white is used only then).
-/
namespace CmProps.C17

theorem source_api_defaults : CmGen.Defaults.api_defaults =
    [("Color.__init__", "color_input", "<required>"),
     ("Color.__init__", "background_context", "None"),
     ("ColorPair.__init__", "text_color", "<required>"),
     ("ColorPair.__init__", "bg_color", "<required>"),
     ("ColorPair.__init__", "large_text", "False"),
     ("ColorPair.make_readable", "mode", "1"),
     ("ColorPair.make_readable", "very_readable", "False"),
     ("ColorPair.make_readable", "show", "False"),
     ("ColorPair.make_readable", "save_report", "False"),
     ("make_readable_bulk", "pairs", "<required>"),
     ("make_readable_bulk", "mode", "1"),
     ("make_readable_bulk", "very_readable", "False"),
     ("make_readable_bulk", "save_report", "False"),
     ("parse_color_to_rgb", "color", "<required>"),
     ("parse_color_to_rgb", "background", "None"),
     ("check_and_fix_contrast", "text", "<required>"),
     ("check_and_fix_contrast", "bg", "<required>"),
     ("check_and_fix_contrast", "large", "False"),
     ("check_and_fix_contrast", "mode", "1"),
     ("check_and_fix_contrast", "premium", "False"),
     ("get_wcag_level", "text_rgb", "<required>"),
     ("get_wcag_level", "bg_rgb", "<required>"),
     ("get_wcag_level", "large", "False"),
     ("get_contrast_level", "contrast_ratio", "<required>"),
     ("get_contrast_level", "large", "False")] := rfl

/-- the switches that produce output or files are off by default, in both APIs -/
theorem source_switches_default_off (f p : String) (hp : p = "show" ∨ p = "save_report") (d : String)
    (h : (f, p, d) ∈ CmGen.Defaults.api_defaults) : d = "False" := by
  rw [source_api_defaults] at h
  simp only [List.mem_cons, Prod.mk.injEq, List.mem_nil_iff, or_false] at h
  rcases hp with rfl | rfl
  · simp at h
    exact h.2
  · simp at h
    rcases h with h | h <;> exact h.2

end CmProps.C17
