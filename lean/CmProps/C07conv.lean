import CmModel.Parser
import CmGen.ConvStr
/-!
# C07 — the input parsing of `hsl_to_rgb`, as translated from the source on this run, is the model's

`harness/translate/convstr.py` translates `conversions.hsl_to_rgb` twice, once per kind of argument the parser passes
(the `isinstance` dispatch is decided by the image type of the parameter, rules T1/T2 of the translator's docstring):
* `hsl_to_rgb_string`   — `hsl_color : Str`: lower/strip, the `hsl(` … `)` test, the two `replace`, the
  `re.split(r"\s+", …)` + drop-empties pair, `len(parts) < 3`, the three helper calls, the range check;
* `hsl_to_rgb_sequence` — `hsl_color : PyVal α × PyVal α × PyVal α` (a tuple or list of three arbitrary Python values):
  `_parse_hue(str(raw_h))` and `_parse_hsl_percentage_or_decimal(str(raw_s|raw_l))` become a match on `PyVal.strOf`,
  whose number case is a *generated* image of the helper's body on the repr of a float (`parse_hue__of_repr`, …).
The arithmetic after the range check (from `if s == 0:` on) is the leaf `hslToRgbCore h s l`: that part of the
function is translated by `translate/leaves.py` and tied by `C06tie.source_hsl_to_rgb_core`.
The helpers `_parse_hue` / `_parse_hsl_percentage_or_decimal` on a `str` appear as the model's `parseHue` / `pctOrDec`
(tied to their source by `C07tie`). The final `else: raise TypeError` of the dispatch is reached by neither kind of
argument, hence by neither image (the model's `parseColor` never calls `hsl_to_rgb` with anything else).
-/
namespace CmProps.C07
open Cm Cm.Parse
variable {α : Type} [Num α]

private theorem ite_bnot {β : Type} (c : Bool) (a b : β) : (if (!c) = true then a else b) = if c = true then b else a := by
  cases c <;> rfl

/-- `hsl_to_rgb((h, s, l))` for a 3-sequence of arbitrary Python values -/
theorem source_hsl_to_rgb_sequence (E : PEnv) (h s l : PyVal α) :
    CmGen.ConvStr.hsl_to_rgb_sequence E (h, s, l) = hslSeqToRgb E h s l := by
  unfold CmGen.ConvStr.hsl_to_rgb_sequence hslSeqToRgb hslFinish hslInRange
    CmGen.ConvStr.parse_hue__of_repr CmGen.ConvStr.parse_hsl_percentage_or_decimal__of_repr
  simp only [ne_eq, not_true_eq_false, decide_false, Bool.false_eq_true, if_false, ite_bnot]
  cases h.strOf <;> rfl

set_option maxHeartbeats 40000 in -- (a mismatch is then reported quickly instead of after a long unfolding of string functions)
/-- `hsl_to_rgb("hsl(…)")` -/
theorem source_hsl_to_rgb_string (E : PEnv) (s : Str) :
    CmGen.ConvStr.hsl_to_rgb_string (α := α) E s = hslStrToRgb (α := α) E s := by
  unfold CmGen.ConvStr.hsl_to_rgb_string hslStrToRgb hslFinish hslInRange
  simp only [ite_bnot]
  split
  · rfl
  · generalize Str.splitWs _ _ = parts
    rcases parts with _ | ⟨p0, _ | ⟨p1, _ | ⟨p2, t⟩⟩⟩ <;> rfl

end CmProps.C07
