import CmModel.Wcag
import CmModel.Strategy
import CmGen.Leaves
/-!
# C05 — the WCAG functions of the source, as translated on this run, are the model's

`CmGen/Leaves.lean` is regenerated from `/repo`'s `contrast.py` / `conversions.py` on every run by
`harness/translate/leaves.py` (a mechanical image of each function's syntax tree over the abstract
carrier). The theorems below identify those images with the hand-written definitions every other C05
theorem is about — for every carrier, by unfolding alone. A changed coefficient, threshold, operator or
operation order in the source makes one of them fail to check.
-/
namespace CmProps.C05
open Cm
variable {α : Type} [NumT α]

/-- `conversions.srgb_to_linear` -/
theorem source_srgb_to_linear (c : α) : CmGen.Leaves.srgb_to_linear c = srgbToLinear c := rfl

/-- `contrast.calculate_relative_luminance` -/
theorem source_relative_luminance (c : RGB) : CmGen.Leaves.calculate_relative_luminance (α := α) c = luminance c := rfl

/-- `contrast.calculate_contrast_ratio` -/
theorem source_contrast_ratio (t bg : RGB) : CmGen.Leaves.calculate_contrast_ratio (α := α) t bg = contrastRatio t bg := rfl

/-- `contrast.get_contrast_level` (the model's `Level` printed) -/
theorem source_contrast_level (r : α) (large : Bool) :
    CmGen.Leaves.get_contrast_level r large = (contrastLevel r large).toString := by
  unfold CmGen.Leaves.get_contrast_level contrastLevel
  split <;> split <;> (try split) <;> rfl

/-- `contrast.get_wcag_level` -/
theorem source_wcag_level (t bg : RGB) (large : Bool) :
    CmGen.Leaves.get_wcag_level (α := α) t bg large = (wcagLevel (α := α) t bg large).toString := by
  show CmGen.Leaves.get_contrast_level (CmGen.Leaves.calculate_contrast_ratio (α := α) t bg) large = _
  rw [source_contrast_level, source_contrast_ratio]; rfl

/-- the images are not degenerate: at the rationals-free `Float` carrier the translated luminance of white
    is the model's (a closed instance of the equation above) -/
example : CmGen.Leaves.get_contrast_level (7.0 : Float) false = (contrastLevel (7.0 : Float) false).toString :=
  source_contrast_level _ _

end CmProps.C05
