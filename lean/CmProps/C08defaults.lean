import CmGen.Defaults
/-!
# C08 — the command-line options and their defaults (regenerated from the `click` decorators of `main` on this run)

"… against the rule's background (its own background-color, otherwise --default-bg, white if not given) … 4.5, or 7.0 with
--premium … --mode {0,1,2}": the option names, that `--default-bg` defaults to `"white"`, `--mode` to `1` (an `int`), and that
`--premium` is a flag that is off unless given.
-/
namespace CmProps.C08

theorem source_cli_options : CmGen.Defaults.cli_options =
    [("argument", "path", "\".\"", "False", "click.Path(exists=True)"),
     ("option", "--default-bg", "\"white\"", "False", "<none>"),
     ("option", "--mode", "1", "False", "int"),
     ("option", "--premium", "False", "True", "<none>")] := rfl

end CmProps.C08
