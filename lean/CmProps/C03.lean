import CmProofs.SearchWithin
/-! # C03 — placeholder import; theorems are added below as they are proved. -/
namespace CmProps.C03
open Cm
variable {α : Type} [Num α]

/-- the lightness search only ever records candidates on the text's own chroma/hue line -/
theorem bsStep_on_line (O : Leaf α) (t bg : RGB) (thr target c h : α) (up : Bool) (s : BS α)
    (hs : ∀ r, s.best = some r → ∃ L, r = O.ofOklch (L, c, h)) :
    ∀ r, (bsStep O t bg thr target c h up s).best = some r → ∃ L, r = O.ofOklch (L, c, h) := by
  unfold bsStep
  grind

end CmProps.C03
