import CmProofs.CliMainLemmas
import CmProps.C08resolve
import CmProps.C18cli
import CmGen.CliMain
/-!
# C18 — the per-file loop of `main()` in `cli/main.py`, as translated from the source on this run, is the model's

`harness/translate/climain.py` reads the syntax tree of `main()` and writes `CmGen/CliMain.lean`:
the order of the effect steps of the `try` body (`per_file_steps`), where the objects handed to `process_nodes_recursive`
are created (`binding_scopes`: `stats` once per run, `variables` / `rule_declarations_map` anew for every file), how it is
called (`process_call`), the post-pass loop (`postpass_rules`), one iteration with its `except Exception` handler (`per_file`),
the loop (`main_loop`) and `main` up to the report section (`main_run`).  Here they are proved equal to the model:
`Cm.Cli.processFile` (pre-pass, `processTop`, post-pass, final serialisability), `Cm.Fs.runFiles`, `Cm.Fs.run` — for every
character-class oracle `env`, every `cfg` (every `pairEval`), every file name, every stylesheet, every incoming state.

Abstraction (documented in the translator, the trusted part): tinycss2 nodes are the model's `Node` / `Item`, `id(rule)` is the
rule's position in the stylesheet, a path is its final component, the three Python objects `stats`, `variables`,
`rule_declarations_map` are one model `St` (`stats` = the `St` with empty `vars` / `rootDecls`), what an iteration leaves in the
file system is `Option (Str × List Node)` (opening for writing leaves an empty stylesheet until `write`), `FileIn.unreadable` =
opening / reading / decoding raised.  The pre-pass is the image tied in `CmProps/C08resolve.lean` (`source_prepass`);
`processTop` stands for `process_nodes_recursive` (its own tie is not part of this file).

The Python post-pass walks the stylesheet and looks each rule up in the map, the model checks every entry of the map: equal
because the keys are distinct positions of the stylesheet (`CmProofs/CliMainLemmas.lean`).
-/
namespace CmProps.C18
open Cm Cm.Cli Cm.Fs

/-! ## the shape of the `try` body -/

/-- the effect steps of the `try` body, in program order -/
theorem source_per_file_steps :
    CmGen.CliMain.per_file_steps = ["read", "parse", "prepass", "process", "postpass", "serialize", "open_w", "write"] := by decide

/-- every step that can raise comes before the output file is opened: a failing file leaves no (empty) output behind -/
theorem source_open_after_raising_steps :
    ∀ s ∈ ["read", "process", "postpass", "serialize"],
      CmGen.CliMain.per_file_steps.idxOf s < CmGen.CliMain.per_file_steps.idxOf "open_w" := by decide

/-- the input is opened for reading, the only file opened for writing is the path beside the input, with mode `"w"` -/
theorem source_per_file_io :
    CmGen.CliMain.per_file_io = [("read", "input", "r", "utf-8"), ("open_w", "beside_input", "w", "utf-8")] := by decide

/-- the counters are created once per run; the custom-property table and the pre-parsed blocks anew for every file -/
theorem source_binding_scopes :
    CmGen.CliMain.binding_scopes = [("stats", "run"), ("variables", "file"), ("rule_declarations", "file")] := by decide

/-- `process_nodes_recursive` receives the parsed stylesheet, the run's counters, the file, the per-file table and map, and the
    command-line settings unchanged -/
theorem source_process_call :
    CmGen.CliMain.process_call =
      [("node_list", "stylesheet"), ("default_bg", "param default_bg"), ("stats", "stats"), ("file_path", "input"),
       ("variables", "variables"), ("mode", "param mode"), ("premium", "param premium"),
       ("rule_declarations", "declaration_lists")] := by decide

/-! ## the post-pass -/

/-- `for rule in rules: if id(rule) in rule_declarations_map: …` — from any position: it fails iff some looked-up block is
    unserialisable, otherwise every pre-parsed rule gets its shared block (the model's `postNode`) -/
theorem source_postpass_rules (st' : St) : (ns : List Node) → (i : Nat) →
    CmGen.CliMain.postpass_rules st'.rootDecls ns i =
      if postOk st'.rootDecls ns i then .ok (ns.mapIdx fun j n => postNode st' (j + i) n) else .error ()
  | [], i => rfl
  | n :: r, i => by
    unfold CmGen.CliMain.postpass_rules
    rw [source_postpass_rules st' r (i + 1)]
    have e : (fun j n => postNode st' (j + 1 + i) n) = (fun j n => postNode st' (j + (i + 1)) n) := by
      funext j n; congr 1; omega
    simp only [postOk, List.mapIdx_cons, Nat.zero_add, e]
    have hg : (List.find? (fun x => decide (x.1 = i)) st'.rootDecls).map (·.2) = findRoot st'.rootDecls i := rfl
    have hp : postNode st' i n = match n, findRoot st'.rootDecls i with
        | .rule sel _, some its => .rule sel its
        | n, _ => n := rfl
    rw [hg, hp]
    cases findRoot st'.rootDecls i with
    | none =>
      simp only [Bool.true_and]
      cases n <;> cases postOk st'.rootDecls r (i + 1) <;> rfl
    | some its =>
      simp only
      by_cases hs : itemsSerialisable its = true
      · simp only [hs, Bool.true_and, if_true]
        cases n <;> cases postOk st'.rootDecls r (i + 1) <;> rfl
      · have hs' : itemsSerialisable its = false := by simpa using hs
        simp only [hs', Bool.false_and, Bool.false_eq_true, if_false]

/-! ## one file -/

/-- an unreadable input: the handler runs, nothing is written, the counters stay -/
theorem source_per_file_unreadable (env : CliEnv) (cfg : Cfg) (name : Str) (st0 : St) :
    CmGen.CliMain.per_file env cfg name .unreadable st0 = (none, true, st0) := rfl

/-- the `try` body on a parsed file is the model's `processFile`, followed by writing `outName name`; on failure nothing is
    written and the handler runs; either way the counters are what `processFile` leaves -/
theorem source_process_file (env : CliEnv) (cfg : Cfg) (name : Str) (nodes : List Node) (st0 : St) :
    CmGen.CliMain.per_file env cfg name (.css nodes) st0 =
      match processFile env cfg nodes st0 with
      | (.written out, st') => (some (outName name, out), false, resetSt st')
      | (.error, st') => (none, true, resetSt st') := by
  have hpre : ({ st0 with vars := (CmGen.CliResolve.prepass env nodes).1,
                          rootDecls := (CmGen.CliResolve.prepass env nodes).2 } : St) = fileSt env nodes st0 := by
    unfold fileSt; rw [CmProps.C08.source_prepass]
  have hout : (stemSuffix name).1 ++ "_cm".toList ++ (stemSuffix name).2 = outName name := by
    unfold outName; cases stemSuffix name; rfl
  rw [processFile_eq]
  unfold CmGen.CliMain.per_file
  simp only [hpre, hout]
  cases hres : processTop env cfg nodes 0 (fileSt env nodes st0) with
  | error e => rfl
  | ok p =>
    obtain ⟨nodes', st'⟩ := p
    simp only
    rw [source_postpass_rules st' nodes' 0, postOk_eq_rootsSerialisable st' nodes' (keysBelow_after env cfg nodes st0 nodes' st' hres)]
    simp only [Nat.add_zero]
    cases rootsSerialisable st' with
    | false => rfl
    | true =>
      simp only [if_true, Bool.true_and]
      split
      · next h =>
        have h' : nodesSerialisable (nodes'.mapIdx (postNode st')) = true := h
        rw [if_pos h']; rfl
      · next h =>
        have h' : ¬ nodesSerialisable (nodes'.mapIdx (postNode st')) = true := h
        rw [if_neg h']; rfl

/-- when the handler runs, the iteration has written nothing (no partial or empty output file) -/
theorem source_no_output_on_error (env : CliEnv) (cfg : Cfg) (name : Str) (fi : FileIn) (st0 : St)
    (h : (CmGen.CliMain.per_file env cfg name fi st0).2.1 = true) : (CmGen.CliMain.per_file env cfg name fi st0).1 = none := by
  cases fi with
  | unreadable => rfl
  | css nodes =>
    rw [source_process_file] at h ⊢
    cases hp : processFile env cfg nodes st0 with
    | mk o st' => cases o <;> simp_all

/-! ## the loop -/

/-- `for file_path in files: try … except Exception …` is the model's `runFiles`, from any state of the run -/
theorem source_run_files (env : CliEnv) (cfg : Cfg) : (files : List (Str × FileIn)) → (r : RunResult) →
    CmGen.CliMain.main_loop env cfg files r = runFiles env cfg files r
  | [], r => by simp only [CmGen.CliMain.main_loop, runFiles]
  | (name, .unreadable) :: rest, r => by
    unfold CmGen.CliMain.main_loop
    rw [runFiles_unreadable, source_per_file_unreadable]
    simp only [Option.toList_none, List.append_nil, if_true]
    exact source_run_files env cfg rest _
  | (name, .css nodes) :: rest, r => by
    unfold CmGen.CliMain.main_loop
    rw [runFiles_css, source_process_file]
    cases hp : processFile env cfg nodes r.st with
    | mk o st' =>
      cases o with
      | written out =>
        simp only [Option.toList_some, Bool.false_eq_true, if_false, List.append_nil]
        exact source_run_files env cfg rest _
      | error =>
        simp only [Option.toList_none, List.append_nil, if_true]
        exact source_run_files env cfg rest _

/-- the counters `main` starts from are the model's empty state -/
theorem source_main_stats : CmGen.CliMain.main_stats = ({} : St) := rfl

/-- `main` up to the report section is the model's `run` -/
theorem source_run (env : CliEnv) (cfg : Cfg) (files : List (Str × FileIn)) :
    CmGen.CliMain.main_run env cfg files = run env cfg files := by
  unfold CmGen.CliMain.main_run run
  rw [source_run_files, source_main_stats]

/-- hence the files the source writes are, file by file and in order, what each file yields on its own … -/
theorem source_run_writes (env : CliEnv) (cfg : Cfg) (files : List (Str × FileIn)) :
    (CmGen.CliMain.main_run env cfg files).writes = files.filterMap (fileWrite env cfg) := by
  rw [source_run]; exact run_writes_eq env cfg files

/-- … and the files it reports are the unreadable ones and those that fail on their own -/
theorem source_run_errors (env : CliEnv) (cfg : Cfg) (files : List (Str × FileIn)) :
    (CmGen.CliMain.main_run env cfg files).errors = files.filterMap (fileError env cfg) := by
  rw [source_run]; exact run_errors_eq env cfg files

end CmProps.C18
