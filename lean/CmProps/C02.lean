import CmProofs.SearchMono
/-!
# C02 — fixing never harms

Readable pairs are returned unchanged with success; otherwise the returned colour's contrast is
never lower than the original's — every mode, every setting, success or not. Every carrier with a
lawful order, every leaf oracle, every descent function.
-/
set_option linter.unusedSectionVars false
namespace CmProps.C02
open Cm
variable {α : Type} [Num α]

/-- already meets the minimum for the chosen setting ⇒ exactly the input, reported as success
    (no law needed) -/
theorem already_ok_identity (O : Leaf α) (d : Descend α) (t bg : RGB) (large premium : Bool) (mode : Int)
    (h : Num.ge (O.contrast t bg) (thresholds (α := α) large premium).1 = true) :
    checkAndFix O d t bg large mode premium = (t, true) := by
  simp only [checkAndFix, h, if_true]

variable [LawfulNumOrd α]

/-- the multi-phase search never lowers the contrast — any schedule, target, minimum -/
theorem gen_monotone (O : Leaf α) (d : Descend α) (t bg : RGB) (target minC : α) (sched : List α) :
    Num.le (O.contrast t bg) (O.contrast (genAccessible O d t bg target minC sched) bg) = true :=
  genAccessible_mono O d t bg target minC sched

theorem strict_monotone (O : Leaf α) (d : Descend α) (t bg : RGB) (target minC : α) :
    Num.le (O.contrast t bg) (O.contrast (strategyStrict O d t bg target minC).1 bg) = true :=
  gen_monotone O d t bg target minC defaultSchedule

theorem recursiveLoop_monotone (O : Leaf α) (d : Descend α) (bg : RGB) (target minC : α) (n : Nat) (cur : RGB) :
    Num.le (O.contrast cur bg) (O.contrast (recursiveLoop O d bg target minC n cur).1 bg) = true := by
  induction n generalizing cur with
  | zero => exact le_rfl' _
  | succ n ih =>
    have hstep := gen_monotone O d cur bg target minC stepSchedule
    simp only [recursiveLoop]
    split
    · exact le_rfl' _
    · split
      · split <;> exact hstep
      · split
        · exact hstep
        · exact le_trans' hstep (ih _)

theorem recursive_monotone (O : Leaf α) (d : Descend α) (t bg : RGB) (target minC : α) :
    Num.le (O.contrast t bg) (O.contrast (strategyRecursive O d t bg target minC).1 bg) = true :=
  recursiveLoop_monotone O d bg target minC 10 t

theorem optALoop_monotone (O : Leaf α) (d : Descend α) (bg : RGB) (target minC : α) (n : Nat) (cur : RGB) :
    Num.le (O.contrast cur bg) (O.contrast (optALoop O d bg target minC n cur).1 bg) = true := by
  induction n generalizing cur with
  | zero => exact le_rfl' _
  | succ n ih =>
    have hstep := gen_monotone O d cur bg target minC stepSchedule
    simp only [optALoop]
    split
    · exact le_rfl' _
    · split
      · exact le_rfl' _
      · split
        · exact hstep
        · exact le_trans' hstep (ih _)

theorem relaxed_monotone (O : Leaf α) (d : Descend α) (t bg : RGB) (target minC : α) :
    Num.le (O.contrast t bg) (O.contrast (strategyRelaxed O d t bg target minC).1 bg) = true := by
  have hr := recursive_monotone O d t bg target minC
  have ha := optALoop_monotone O d bg target minC 15 t
  have hb := gen_monotone O d t bg target minC relaxedSchedule
  simp only [strategyRelaxed]
  repeat' split
  all_goals first | exact hr | exact ha | exact hb

/-- `check_and_fix_contrast`: the returned colour's contrast is never lower than the original's,
    for every mode (any integer), text size and very-readable setting, whether or not it succeeded -/
theorem checkAndFix_monotone (O : Leaf α) (d : Descend α) (t bg : RGB) (large premium : Bool) (mode : Int) :
    Num.le (O.contrast t bg) (O.contrast (checkAndFix O d t bg large mode premium).1 bg) = true := by
  simp only [checkAndFix]
  repeat' split
  all_goals first
    | exact le_rfl' _
    | exact strict_monotone O d t bg _ _
    | exact relaxed_monotone O d t bg _ _
    | exact recursive_monotone O d t bg _ _

end CmProps.C02
