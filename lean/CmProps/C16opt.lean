import CmProofs.SourceOpt
/-!
# C16 — the optimiser functions this property's theorems are about are the source's, as translated on this run

`CmGen/Optimiser.lean` is regenerated from `/repo`'s `optimisation.py` on every run (statement by statement:
`harness/translate/optimiser.py`); `CmProofs/SourceOpt.lean` proves each image equal to the hand-written model
function (loop bodies step by step, loops by induction). `gdOf O d` is the descent phase as the source calls it
(`gradient_descent_oklch` itself is not translated: list mutation and closures); the equations hold for every
carrier, every leaf record `O` and every descent function `d`.
-/
namespace CmProps.C16
open Cm Cm.SourceOpt
variable {α : Type} [Num α]

/-- `_strategy_strict`, `_strategy_recursive`, `_strategy_relaxed` are the model's three strategies -/
theorem source_strategies (O : Leaf α) (d : Descend α) (t bg : RGB) (large : Bool) (target minC : α) :
    CmGen.Opt.strategy_strict O (gdOf O d) t bg large target minC = strategyStrict O d t bg target minC ∧
    CmGen.Opt.strategy_recursive O (gdOf O d) t bg large target minC = strategyRecursive O d t bg target minC ∧
    CmGen.Opt.strategy_relaxed O (gdOf O d) t bg large target minC = strategyRelaxed O d t bg target minC :=
  ⟨source_strategy_strict O d t bg large target minC, source_strategy_recursive O d t bg large target minC,
   source_strategy_relaxed O d t bg large target minC⟩

/-- `check_and_fix_contrast`, from the point where both colours are parsed to its `return` (threshold table, the shortcut
    for pairs that already pass, the dispatch on `mode`, what is returned), is the model's `checkAndFix` -/
theorem source_check_and_fix (O : Leaf α) (d : Descend α) (t bg : RGB) (large : Bool) (mode : Int) (premium : Bool) :
    CmGen.Opt.check_and_fix_contrast_core O (gdOf O d) t bg large mode premium = checkAndFix O d t bg large mode premium :=
  Cm.SourceOpt.source_check_and_fix O d t bg large mode premium

end CmProps.C16
