import CmProofs.CliLemmas
import CmModel.Strategy
import CmGen.CliSrc
/-!
# C08 — target ratio and dispatch literals of `cli/main.py`, as translated from the source on this run

`harness/translate/clisrc.py` regenerates `CmGen/CliSrc.lean` from the syntax tree of `cli/main.py` on every run. Here:
the CLI's target ratio is the minimum the API itself requires for normal text at the same `very_readable` setting (so
"meets the target" in the CLI and "success" in `make_readable` are the same judgement, C01), and the string literals the
rewriter dispatches on — which attribute of a declaration is compared with which property name, which selectors carry
custom properties, which at-rules are descended into, the two `var()` patterns — are the ones the model `Cm.Cli` uses.
-/
namespace CmProps.C08
open Cm Cm.Cli

/-- `target_ratio = 7.0 if premium else 4.5` is the API's minimum for normal-size text -/
theorem source_target_ratio {α : Type} [Num α] (premium : Bool) :
    CmGen.CliSrc.target_ratio (α := α) premium = (thresholds (α := α) false premium).1 := by
  cases premium <;> rfl

/-- … in the form the executed CLI model (`pairEvalImpl`) spells it -/
theorem source_target_ratio_cli (premium : Bool) :
    CmGen.CliSrc.target_ratio (α := Float) premium = (if premium then 7.0 else 4.5 : Float) := rfl

/-- the comparisons the rewriter dispatches on, in source order: `var(` containment, the lower-cased declaration name
    against `color` and `background-color`, the lower-cased at-keyword against `media` / `supports`, the selector against
    `:root` / `html`, custom properties by the `--` prefix of the declaration's name -/
theorem source_dispatch_tests : CmGen.CliSrc.dispatch_tests =
    [("resolve_variable", "value_str", "lacks", ["var("]),
     ("process_nodes_recursive", ".lower_name", "==", ["color"]),
     ("process_nodes_recursive", ".lower_name", "==", ["background-color"]),
     ("process_nodes_recursive", "raw_text_color", "contains", ["var("]),
     ("process_nodes_recursive", ".lower_at_keyword", "in", ["media", "supports"]),
     ("main", "selector", "in", [":root", "html"]),
     ("main", ".name", "startswith", ["--"])] := rfl

/-- the two `var()` patterns are the ones `Cm.Cli.searchVarFull` / `searchVarSimple` implement -/
theorem source_regex_literals : CmGen.CliSrc.regex_literals =
    [("resolve_variable", "re.compile", "var\\((--[\\w-]+)(?:\\s*,\\s*(.*))?\\)"),
     ("process_nodes_recursive", "re.search", "var\\((--[\\w-]+)\\)")] := rfl

/-- what `main` prints after the per-file loop (fixed-wording lines aside): each of the three counters under its own label and only
    when positive, the rules needing attention listed by file and selector from `failed_details`, and the HTML report generated from
    `fixed_details` exactly when something was adjusted -/
theorem source_report_section : CmGen.CliSrc.report_section =
    [("stats[\"accessible\"] > 0", "click.secho", "f\"✓ {stats['accessible']} color pairs already readable\""),
     ("stats[\"tuned\"] > 0", "click.secho", "f\"✓ {stats['tuned']} color pairs adjusted for better readability\""),
     ("stats[\"failed\"] > 0", "click.secho", "f\"✗ {stats['failed']} color pairs need your attention\""),
     ("stats[\"failed\"] > 0", "click.echo", "f\"Could not tune {stats['failed']} color pairs:\""),
     ("stats[\"failed\"] > 0 and for fail in stats[\"failed_details\"]", "click.echo", "f\" {fail['file']} -> {fail['selector']}\""),
     ("stats[\"failed\"] > 0 and for fail in stats[\"failed_details\"] and reason", "click.echo", "f\" Reason: {reason}\""),
     ("stats[\"tuned\"] > 0", "generate_report", "stats[\"fixed_details\"]"),
     ("stats[\"tuned\"] > 0", "click.echo", "f\"Report generated: {report_path}\"")] := rfl

/-! The model dispatches on exactly these literals. -/

/-- custom properties live in rules whose selector is `:root` or `html` -/
theorem model_root_selectors (sel : Str) :
    isRootSel sel = true ↔ sel = ":root".toList ∨ sel = "html".toList := by
  unfold isRootSel
  simp

/-- an at-rule other than `@media` / `@supports` is carried through untouched and uncounted -/
theorem model_other_at_rules (env : CliEnv) (cfg : Cfg) (top : Option Nat) (st : St) (kw prelude : Str) (body : List Node)
    (h1 : kw ≠ "media".toList) (h2 : kw ≠ "supports".toList) :
    processNode env cfg top st (.at kw prelude body) = .ok (.at kw prelude body, st) := by
  rw [processNode]
  rw [if_neg]
  · rfl
  · simp only [Bool.or_eq_true, decide_eq_true_eq]
    rintro (h | h)
    · exact h1 h
    · exact h2 h

/-- a rule is classified by its last `color` declaration (lower-cased name): without one it is left alone and not counted -/
theorem model_text_property (env : CliEnv) (cfg : Cfg) (sel : Str) (items : List Item) (st : St)
    (h : lastDecl items "color".toList = none) :
    processRule env cfg none sel items st = .ok (items, st) := by
  unfold processRule
  simp only []
  rw [h]

end CmProps.C08
