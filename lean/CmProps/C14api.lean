import CmModel.ApiVocab
import CmGen.Api
/-!
# C14 — `Color.__init__`/`_parse`, `ColorPair.__init__`, `is_valid`, as translated from the source on this run, are the model's

`harness/translate/api.py` reads `core/colors.py` and writes `CmGen/Api.lean`; here the images are proved equal to
`Color.new`, `ColorPair.new`, `Color.isValid`, `Color.rgb?`, `ColorPair.isValid` for every carrier, parser environment and
input. The list of exception kinds `_parse` records (instead of letting them escape) is generated from the `except`
clause, so narrowing or widening it changes the generated text and `source_color_parse` stops building.

Abstraction (documented in the translator): a colour argument is a `ColorInput` — how `detect_color_format` and
`parse_color_to_rgb` respond to it; a caller's Python value `v` is `Api.ofVal E v`. An exception escaping the constructor
is kept in the colour's state (`ColorState.raised`), as the model does.
-/
namespace CmProps.C14
open Cm Cm.Parse
variable {α : Type} [NumT α]
set_option linter.unusedSectionVars false

/-- `Color.is_valid` -/
theorem source_color_is_valid (c : Color α) : CmGen.Api.Color_is_valid c = c.isValid := rfl

/-- `Color.rgb` -/
theorem source_color_rgb (c : Color α) : CmGen.Api.Color_rgb c = c.rgb? := rfl

private theorem ctx_rgb (c : Color α) :
    (if CmGen.Api.Color_is_valid c = true then CmGen.Api.Color_rgb c else none) = c.rgb? := by
  unfold CmGen.Api.Color_is_valid CmGen.Api.Color_rgb
  generalize c.rgb? = o; cases o <;> rfl

/-- `Color.__init__` with `_parse` inlined, on any colour argument: the general form -/
theorem source_color_parse_input (x : ColorInput) (ctx : Option (Color α)) :
    CmGen.Api.Color_new (α := α) x ctx =
      (match x.parse (match ctx with | some c => c.rgb? | none => none) with
       | .ok rgb => { fmt := x.detect, state := .valid rgb }
       | .error .valueError => { fmt := x.detect, state := .invalid }
       | .error .typeError => { fmt := x.detect, state := .invalid }
       | .error .overflowError => { fmt := x.detect, state := .invalid }) := by
  unfold CmGen.Api.Color_new
  cases ctx with
  | none =>
    simp only [Bool.false_eq_true, if_false]
    generalize x.parse none = r
    cases r with
    | ok rgb => rfl
    | error e => cases e <;> rfl
  | some c =>
    simp only [Bool.false_eq_true, if_false, ctx_rgb]
    generalize x.parse c.rgb? = r
    cases r with
    | ok rgb => rfl
    | error e => cases e <;> rfl

/-- `Color(color_input, background_context)` = the model's `Color.new` -/
theorem source_color_parse (E : PEnv) (v : PyVal α) (ctx : Option (Color α)) :
    CmGen.Api.Color_new (Api.ofVal E v) ctx = Color.new E v ctx := by
  rw [source_color_parse_input]; rfl

/-- `ColorPair(text_color, bg_color, large_text)` = the model's `ColorPair.new` (background first, then the text with the
    background as compositing context) -/
theorem source_color_pair_init (E : PEnv) (text bg : PyVal α) (large : Bool) :
    CmGen.Api.ColorPair_new (Api.ofVal E text) (Api.ofVal E bg) large = ColorPair.new E text bg large := by
  unfold CmGen.Api.ColorPair_new ColorPair.new
  simp only [source_color_parse]

/-- `ColorPair.is_valid` -/
theorem source_pair_is_valid (p : ColorPair α) : CmGen.Api.ColorPair_is_valid p = p.isValid := rfl

end CmProps.C14
