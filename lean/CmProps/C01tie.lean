import CmModel.Strategy
import CmGen.Leaves
/-!
# C01 — the threshold table of `check_and_fix_contrast`, as read from the source on this run

(the table decides which ratio the success flag is judged against)
-/
namespace CmProps.C01
open Cm
variable {α : Type} [NumT α]

/-- the `(min_contrast, target_contrast)` table of `check_and_fix_contrast` is the model's `thresholds` -/
theorem source_thresholds (large premium : Bool) :
    (CmGen.Leaves.thresholds large premium : α × α) = Cm.thresholds large premium := by
  cases large <;> cases premium <;> rfl

end CmProps.C01
