import CmProofs.CliVarLemmas
import CmProps.C08cli
/-!
# C08, the custom-property case at file level

"Each rule the tool reports as adjusted is, in the written file, set — directly or through its custom
property — to the reported colour." `CmProps.C08cli` proves the direct case at file level and the
custom-property case right after the rule. Here:

* the invariant that was missing (`VarsPointAtDefs`): every entry `(--x, d)` of the custom-property table
  points at a declaration named `--x`, whose value agrees with the entry's; the pre-pass establishes it,
  every rule keeps it;
* `var_definition_holds_reported_colour`: the written file defines each custom property with the value the
  table ends with — which, by `reported_is_written_var_partial`, is the colour reported for the *last* rule
  adjusted through it;
* `reported_is_written_var_of_no_readjust`: for a rule adjusted through `--x` such that no later rule
  changes the table entry of `--x`, the written definition of `--x` holds the colour reported for that rule.
  Without the hypothesis the claim is false (finding K1: a custom property shared by two adjusted rules).

Vocabulary (defined in `CmProofs.CliVarLemmas`, characterised by the `*_def` theorems): `DefAgrees`,
`VarsPointAtDefs`, `RuleVisit`, `fileTrace`, `Chained`.

A proviso made explicit: the model keeps a declaration's `name` and `lower_name` as independent fields. A
definition `--x` whose `lower_name` were `color` would be taken for the rule's text colour and rewritten
directly, without the table noticing; the value statements therefore carry the premise
`dd.lowerName ≠ "color"` (always true for tinycss2, where `lower_name` is the lower-cased `name`).
-/
namespace CmProps.C08
open Cm Cm.Cli Cm.Fs

/-! ## vocabulary -/

/-- `VarsPointAtDefs`: every entry `(name, d)` the table answers with points at item `d.item` of the shared
    block of rule `d.rule`, that item is a declaration named `name`, and — unless the tool takes it for a
    `color` declaration — the entry holds the declaration's stripped value (as collected) or the
    declaration holds the entry's value followed by its kept comments (as rewritten) -/
theorem varsPointAtDefs_def (env : CliEnv) (st : St) :
    VarsPointAtDefs env st ↔ ∀ name d, lookupVar st.vars name = some d →
      ∃ its dd, getRoot st d.rule = some its ∧ its[d.item]? = some (.decl dd) ∧ dd.name = name ∧
        (dd.lowerName = "color".toList ∨ d.value = strip env dd.value ∨ dd.value = d.value ++ dd.comments) := Iff.rfl

/-- the trace of a node: one visit per successfully processed rule, `@media` / `@supports` bodies in order -/
theorem traceNode_def (env : CliEnv) (cfg : Cfg) (top : Option Nat) (st : St) :
    (∀ sel items, traceNode env cfg top st (.rule sel items) =
      match processRule env cfg top sel items st with
      | .ok (_, st') => [{ top := top, sel := sel, items0 := items, before := st, after := st' }]
      | .error _ => []) ∧
    (∀ kw pre body, traceNode env cfg top st (.at kw pre body) = if isNested kw then traceNodes env cfg st body else []) ∧
    (∀ t ok, traceNode env cfg top st (.other t ok) = []) :=
  ⟨fun _ _ => by simp only [traceNode]; rfl, fun _ _ _ => by simp only [traceNode], fun _ _ => by simp only [traceNode]⟩

/-- the trace of a nested list: the nodes' traces, each started from the state the previous node left -/
theorem traceNodes_def (env : CliEnv) (cfg : Cfg) (st : St) :
    traceNodes env cfg st [] = [] ∧
    ∀ n ns, traceNodes env cfg st (n :: ns) = traceNode env cfg none st n ++
      (match processNode env cfg none st n with
       | .ok (_, st1) => traceNodes env cfg st1 ns
       | .error _ => []) :=
  ⟨by simp only [traceNodes], fun _ _ => by simp only [traceNodes]; rfl⟩

/-- the trace of a file: the top-level nodes' traces from the pre-pass state on, `:root` / `html` rules
    visited with their index -/
theorem fileTrace_def (env : CliEnv) (cfg : Cfg) (nodes : List Node) (st0 : St) :
    fileTrace env cfg nodes st0 = traceTop env cfg nodes 0 (fileSt env nodes st0) ∧
    (∀ i st, traceTop env cfg [] i st = []) ∧
    ∀ n ns i st, traceTop env cfg (n :: ns) i st = traceNode env cfg (topOf n i) st n ++
      (match processNode env cfg (topOf n i) st n with
       | .ok (_, st1) => traceTop env cfg ns (i + 1) st1
       | .error _ => []) :=
  ⟨rfl, fun _ _ => by simp only [traceTop], fun _ _ _ _ => by simp only [traceTop]; rfl⟩

/-- in a written file the visits are exactly chained: the first starts from the pre-pass state, each next
    one from the state the previous one left, the last one leaves the final state; each is a successful
    `processRule` call -/
theorem fileTrace_chained (env : CliEnv) (cfg : Cfg) (nodes : List Node) (st0 : St) (out : List Node) (st' : St)
    (h : processFile env cfg nodes st0 = (.written out, st')) :
    Chained env cfg (fileSt env nodes st0) (fileTrace env cfg nodes st0) st' ∧
    (∀ st v r st2, Chained env cfg st (v :: r) st2 ↔
      v.before = st ∧ (∃ items', processRule env cfg v.top v.sel v.items0 v.before = .ok (items', v.after)) ∧
        Chained env cfg v.after r st2) ∧
    (∀ st st2, Chained env cfg st [] st2 ↔ st = st2) :=
  ⟨processFile_chained env cfg nodes st0 out st' h, fun _ _ _ _ => by simp only [Chained, IsVisit],
    fun _ _ => by simp only [Chained]⟩

/-! ## the table points at the definitions -/

/-- the pre-pass leaves a table whose entries point at the `--x` declarations they were collected from,
    with the stripped value of that declaration (a later definition of the same name replaces an earlier one) -/
theorem prePass_points_at_defs (env : CliEnv) (nodes : List Node) : VarsPointAtDefs env (prePass env nodes) :=
  prePass_varsInv env (defAgrees_init env) nodes

/-- … so does the state a file is processed from -/
theorem fileSt_points_at_defs (env : CliEnv) (nodes : List Node) (st0 : St) : VarsPointAtDefs env (fileSt env nodes st0) :=
  fileSt_varsInv env (defAgrees_init env) nodes st0

/-- every rule keeps the table pointing at the definitions, whatever branch it takes — counters only, a
    direct rewrite (also of a shared block), a rewrite of a custom property — and also when re-serialising
    fails (`setDeclValue` changes one value and no name) -/
theorem processRule_keeps_pointing (env : CliEnv) (cfg : Cfg) (top : Option Nat) (sel : Str) (items0 : List Item) (st : St)
    (hi : VarsPointAtDefs env st) : VarsPointAtDefs env (resSt (processRule env cfg top sel items0 st)) :=
  processRule_varsInv (defAgrees_rel env) env cfg top sel items0 st hi

/-- … hence so does a node, -/
theorem processNode_keeps_pointing (env : CliEnv) (cfg : Cfg) (top : Option Nat) (st : St) (n : Node)
    (hi : VarsPointAtDefs env st) : VarsPointAtDefs env (resSt (processNode env cfg top st n)) :=
  processNode_varsInv (defAgrees_rel env) env cfg top st hi n

/-- … a nested rule list, -/
theorem processNodes_keeps_pointing (env : CliEnv) (cfg : Cfg) (st : St) (ns : List Node)
    (hi : VarsPointAtDefs env st) : VarsPointAtDefs env (resSt (processNodes env cfg st ns)) :=
  processNodes_varsInv (defAgrees_rel env) env cfg st hi ns

/-- … and the top-level loop -/
theorem processTop_keeps_pointing (env : CliEnv) (cfg : Cfg) (ns : List Node) (i : Nat) (st : St)
    (hi : VarsPointAtDefs env st) : VarsPointAtDefs env (resSt (processTop env cfg ns i st)) :=
  processTop_varsInv (defAgrees_rel env) env cfg ns i st hi

/-- whatever the outcome of a file, the table it leaves points at the definitions in the blocks it leaves -/
theorem processFile_points_at_defs (env : CliEnv) (cfg : Cfg) (nodes : List Node) (st0 : St) :
    VarsPointAtDefs env (processFile env cfg nodes st0).2 :=
  processFile_varsInv (defAgrees_rel env) env cfg (defAgrees_init env) nodes st0

/-! ## the written file -/

/-- `var_definition_holds_reported_colour`: the written file defines each custom property with the value
    the table ends with. For every entry `(name, d)` the final table answers with, the written top-level
    rule number `d.rule` is a `:root` / `html` rule whose item `d.item` is a declaration named `name`; and —
    unless that declaration's `lower_name` is `color` — either the entry still holds the declaration's
    stripped value (as collected: never rewritten since) or the declaration's value is the entry's value
    followed by the comments its old value contained (as rewritten). By `reported_is_written_var_partial`
    the entry's value after the last rewrite of `name` is the colour reported for that rule. -/
theorem var_definition_holds_reported_colour (env : CliEnv) (cfg : Cfg) (nodes : List Node) (st0 : St) (out : List Node)
    (st' : St) (h : processFile env cfg nodes st0 = (.written out, st'))
    (name : Str) (d : VarDef) (hl : lookupVar st'.vars name = some d) :
    ∃ sel its dd, out[d.rule]? = some (.rule sel its) ∧ isRootSel sel = true ∧
      its[d.item]? = some (.decl dd) ∧ dd.name = name ∧
      (dd.lowerName ≠ "color".toList → d.value = strip env dd.value ∨ dd.value = d.value ++ dd.comments) := by
  have hinv := processFile_points_at_defs env cfg nodes st0
  rw [h] at hinv
  obtain ⟨its, dd, hg, hit, hn, hq⟩ := hinv name d hl
  obtain ⟨sel, hout, hroot⟩ := processFile_written_root env cfg nodes st0 out st' h d.rule its hg
  refine ⟨sel, its, dd, hout, hroot, hit, hn, fun hne => ?_⟩
  rcases hq with hq | hq
  · exact (hne hq).elim
  · exact hq

/-- `reported_is_written_var_of_no_readjust`: let `v` be a visit of the file's trace in which a rule is
    adjusted through `var(--x)` (its last `color` declaration `cd` gets the verdict "tuned" and names the
    known custom property `name`, table entry `d`), and suppose no later visit changes the table entry of
    `name` (`--x` is not adjusted again: K1 excluded). Then the visit pushed a `Fixed` record `f` with the
    rule's selector and `pairEval`'s tuned colour, `f` is still in the final report, the final table maps
    `name` to `f.tunedText`, and in the written file item `d.item` of the `:root` / `html` rule `d.rule` is
    the declaration named `name`, whose value is `f.tunedText` followed by the comments its old value
    contained (unless its `lower_name` is `color`). -/
theorem reported_is_written_var_of_no_readjust (env : CliEnv) (cfg : Cfg) (nodes : List Node) (st0 : St) (out : List Node)
    (st' : St) (h : processFile env cfg nodes st0 = (.written out, st'))
    (l1 l2 : List RuleVisit) (v : RuleVisit) (htrace : fileTrace env cfg nodes st0 = l1 ++ v :: l2)
    (ci : Nat) (cd : Decl) (hl : lastDecl (seenItems v.top v.items0 v.before) "color".toList = some (ci, cd))
    (hv : verdict (evalOf env cfg v.before (seenItems v.top v.items0 v.before) cd) = .tuned)
    (name : Str) (d : VarDef) (hvar : viaVarOf env v.before (strip env cd.value) = some (name, d))
    (hlater : ∀ w ∈ l2, lookupVar w.after.vars name = lookupVar w.before.vars name) :
    ∃ f : Fixed, v.after.fixedDetails = f :: v.before.fixedDetails ∧ f.selector = v.sel ∧
      f.tunedText = (cfg.pairEval f.originalText f.bg).tuned ∧ f ∈ st'.fixedDetails ∧
      lookupVar st'.vars name = some { d with value := f.tunedText } ∧
      ∃ sel its dd, out[d.rule]? = some (.rule sel its) ∧ isRootSel sel = true ∧
        its[d.item]? = some (.decl dd) ∧ dd.name = name ∧
        (dd.lowerName ≠ "color".toList → dd.value = f.tunedText ++ dd.comments) := by
  have hch := processFile_chained env cfg nodes st0 out st' h
  rw [htrace] at hch
  obtain ⟨a, hch1, hch2⟩ := hch.split l1
  simp only [Chained] at hch2
  obtain ⟨hbefore, ⟨items', hstep⟩, hch3⟩ := hch2
  -- the invariant at the state the rule is visited in
  have hinv : VarsInv (DefAgrees env) v.before := by
    rw [hbefore]; exact hch1.varsInv (defAgrees_rel env) (fileSt_points_at_defs env nodes st0)
  -- the visit itself
  have heq := processRule_viaVar_eq env cfg v.top v.sel v.items0 v.before ci cd hl hv name d hvar
  rw [hstep] at heq
  have hafter : v.after = rewriteVar (tuneSt v.before (fixedOf env cfg v.before v.sel (seenItems v.top v.items0 v.before) cd))
      name d (evalOf env cfg v.before (seenItems v.top v.items0 v.before) cd).tuned := by
    exact (Prod.mk.inj (Except.ok.inj heq)).2
  have hlook : lookupVar v.before.vars name = some d := (viaVarOf_some hvar).2.2
  have htight : VarsInv (TightFor name) v.after := by
    rw [hafter]; exact rewriteVar_tight (defAgrees_rel env) _ name d _ (hinv.congr ⟨rfl, rfl⟩) hlook
  have hfix : v.after.fixedDetails =
      fixedOf env cfg v.before v.sel (seenItems v.top v.items0 v.before) cd :: v.before.fixedDetails := by
    rw [hafter]; exact (rewriteVar_sameCounts _ _ _ _).2.2.2.2
  have hlook' : lookupVar v.after.vars name =
      some { d with value := (evalOf env cfg v.before (seenItems v.top v.items0 v.before) cd).tuned } := by
    rw [hafter, rewriteVar_vars, lookupVar_map_set]
    show Option.map _ (lookupVar v.before.vars name) = _
    rw [hlook]; rfl
  -- the rest of the run
  have hfinal := hch3.varsInv (tightFor_rel name) htight
  have hkeep := hch3.lookup_unchanged name hlater
  rw [hlook'] at hkeep
  obtain ⟨its, dd, hg, hit, hn, hq⟩ := hfinal name _ hkeep
  obtain ⟨sel, hout, hroot⟩ := processFile_written_root env cfg nodes st0 out st' h _ its hg
  refine ⟨_, hfix, rfl, rfl, ?_, hkeep, sel, its, dd, hout, hroot, hit, hn, fun hne => ?_⟩
  · exact hch3.fixedSuffix.subset (by rw [hfix]; exact List.mem_cons_self ..)
  · rcases hq rfl with hq | hq
    · exact (hne hq).elim
    · exact hq

/-! ## the hypotheses are satisfiable -/
section Examples
open Cm.Cli.Demo

/-- `:root { --c: #777 } p { color: var(--c) } b { color: #888 }` with an oracle that tunes everything to
    `#111`: the file is written; three rules are visited; the second visit adjusts `p` through `--c`, defined
    at item 0 of rule 0; the later visit (`b`, rewritten directly) leaves the entry of `--c` alone; the written
    definition of `--c` is `#111`, the colour reported for `p` -/
example :
    isWritten (processFile asciiEnv cfgTune sheetVarOnce {}).1 = true ∧
    (fileTrace asciiEnv cfgTune sheetVarOnce {}).map (·.sel) = [":root".toList, "p".toList, "b".toList] ∧
    (fileTrace asciiEnv cfgTune sheetVarOnce {})[1]?.bind (visitVia asciiEnv cfgTune) = some ("--c".toList, 0, 0) ∧
    ((fileTrace asciiEnv cfgTune sheetVarOnce {}).drop 2).all
      (fun w => entryOf w.after "--c".toList == entryOf w.before "--c".toList) = true ∧
    writtenDecl (processFile asciiEnv cfgTune sheetVarOnce {}).1 0 0 = some ("--c".toList, "#111".toList) ∧
    (processFile asciiEnv cfgTune sheetVarOnce {}).2.fixedDetails.map (fun f => (f.selector, f.tunedText)) =
      [("b".toList, "#111".toList), ("p".toList, "#111".toList)] :=
  ⟨by decide +kernel, by decide +kernel, by decide +kernel, by decide +kernel, by decide +kernel, by decide +kernel⟩

/-- … and `reported_is_written_var_of_no_readjust` applies to it: the record reported for `p` is in the final
    report and the written `:root` block defines `--c` as its colour -/
example (out : List Node) (st' : St) (h : processFile asciiEnv cfgTune sheetVarOnce {} = (.written out, st')) :
    ∃ f ∈ st'.fixedDetails, f.selector = "p".toList ∧ ∃ sel its dd, out[0]? = some (.rule sel its) ∧
      its[0]? = some (.decl dd) ∧ dd.name = "--c".toList ∧
      (dd.lowerName ≠ "color".toList → dd.value = f.tunedText ++ dd.comments) := by
  have hs : (fileTrace asciiEnv cfgTune sheetVarOnce {}).map (·.sel) = [":root".toList, "p".toList, "b".toList] := by
    decide +kernel
  have h1 : (fileTrace asciiEnv cfgTune sheetVarOnce {})[1]?.bind (visitVia asciiEnv cfgTune) = some ("--c".toList, 0, 0) := by
    decide +kernel
  have h2 : ((fileTrace asciiEnv cfgTune sheetVarOnce {}).drop 2).all
      (fun w => entryOf w.after "--c".toList == entryOf w.before "--c".toList) = true := by decide +kernel
  have hthm := reported_is_written_var_of_no_readjust asciiEnv cfgTune sheetVarOnce {} out st' h
  generalize fileTrace asciiEnv cfgTune sheetVarOnce {} = tr at hs h1 h2 hthm
  obtain ⟨a, b, c, rfl⟩ : ∃ a b c, tr = [a, b, c] := by
    have hlen : tr.length = 3 := by have := congrArg List.length hs; simpa using this
    match tr, hlen with
    | [a, b, c], _ => exact ⟨a, b, c, rfl⟩
  · simp only [List.map_cons, List.map_nil, List.cons.injEq, and_true] at hs
    obtain ⟨ci, cd, d, hl, hv, hvar, hr, hi⟩ := visitVia_spec (by simpa using h1 : visitVia asciiEnv cfgTune b = _)
    have hlater : ∀ w ∈ [c], lookupVar w.after.vars "--c".toList = lookupVar w.before.vars "--c".toList := by
      intro w hw
      simp only [List.mem_singleton] at hw; subst hw
      exact lookupVar_eq_of_entryOf (by simpa using h2)
    obtain ⟨f, _, hsel, _, hmem, _, sel, its, dd, ho, _, hit, hn, hval⟩ :=
      hthm [a] [c] b rfl ci cd hl hv _ d hvar hlater
    rw [hr] at ho; rw [hi] at hit
    exact ⟨f, hmem, hsel.trans hs.2.1, sel, its, dd, ho, hit, hn, hval⟩

end Examples

end CmProps.C08
