import CmProofs.CliLemmas
/-!
# C09 — the output is the input with only text-colour values changed, written beside the input

Statements over the CLI model (`Cm.Cli`, `Cm.Fs`), for every `env`, every `cfg` (every `pairEval`) and
every stylesheet. `sameShape` / `sameShapeNode(s)` (defined in `CmProofs.CliLemmas`) are characterised
by the `*_iff` theorems below: same length and nesting, same selectors, at-keywords, preludes and opaque
nodes, declarations equal in `name`, `lowerName` and `important` — only declaration *values* may differ.
The model's only effect on the file system is the list `RunResult.writes`; input files occur in it
nowhere (`writes_beside_inputs`, `writes_not_inputs`).
-/
namespace CmProps.C09
open Cm Cm.Cli Cm.Fs

/-! ## vocabulary -/

/-- two items agree up to a declaration's value - and of the value, the comments written inside it agree too -/
theorem sameItem_iff (a b : Item) : sameItem a b ↔
    (∃ d e, a = .decl d ∧ b = .decl e ∧ d.name = e.name ∧ d.lowerName = e.lowerName ∧ d.important = e.important ∧
      d.comments = e.comments) ∨
    (∃ t ok, a = .other t ok ∧ b = .other t ok) := by
  cases a <;> cases b <;> simp [sameItem]

/-- `sameShape`: same length and position-wise `sameItem` -/
theorem sameShape_iff (a b : List Item) : sameShape a b ↔
    a.length = b.length ∧ ∀ (i : Nat) (x y : Item), a[i]? = some x → b[i]? = some y → sameItem x y := by
  constructor
  · intro h
    refine ⟨sameShape_length h, ?_⟩
    intro i x y hx hy
    obtain ⟨y', hy', hs⟩ := sameShape_getElem? h i x hx
    rw [hy] at hy'; cases hy'; exact hs
  · rintro ⟨hl, h⟩; exact sameShape_of_getElem? a b hl h

/-- `sameShapeNode` / `sameShapeNodes`, constructor by constructor -/
theorem sameShapeNode_iff :
    (∀ s s' a b, sameShapeNode (.rule s a) (.rule s' b) ↔ s = s' ∧ sameShape a b) ∧
    (∀ k p k' p' b b', sameShapeNode (.at k p b) (.at k' p' b') ↔ k = k' ∧ p = p' ∧ sameShapeNodes b b') ∧
    (∀ t ok t' ok', sameShapeNode (.other t ok) (.other t' ok') ↔ t = t' ∧ ok = ok') ∧
    (∀ s a k p b, ¬ sameShapeNode (.rule s a) (.at k p b)) ∧ (∀ s a t ok, ¬ sameShapeNode (.rule s a) (.other t ok)) ∧
    (∀ s a k p b, ¬ sameShapeNode (.at k p b) (.rule s a)) ∧ (∀ k p b t ok, ¬ sameShapeNode (.at k p b) (.other t ok)) ∧
    (∀ s a t ok, ¬ sameShapeNode (.other t ok) (.rule s a)) ∧ (∀ k p b t ok, ¬ sameShapeNode (.other t ok) (.at k p b)) ∧
    sameShapeNodes [] [] ∧
    (∀ a b as bs, sameShapeNodes (a :: as) (b :: bs) ↔ sameShapeNode a b ∧ sameShapeNodes as bs) ∧
    (∀ b bs, ¬ sameShapeNodes [] (b :: bs)) ∧ (∀ a as, ¬ sameShapeNodes (a :: as) []) := by
  refine ⟨fun _ _ _ _ => sameShapeNode_rule, fun _ _ _ _ _ _ => sameShapeNode_at, fun _ _ _ _ => sameShapeNode_other,
    ?_, ?_, ?_, ?_, ?_, ?_, sameShapeNodes_nil, fun _ _ _ _ => sameShapeNodes_cons, ?_, ?_⟩ <;>
  intros <;> simp only [sameShapeNode, sameShapeNodes, not_false_eq_true]

/-- the relation is reflexive: an untouched tree has the same shape -/
theorem sameShapeNodes_refl (ns : List Node) : sameShapeNodes ns ns := Cm.Cli.sameShapeNodes_refl ns

/-! ## `only_values_change` -/

/-- rewriting one declaration's value changes nothing else in the list -/
theorem setDeclValue_sameShape (items : List Item) (i : Nat) (v : Str) : sameShape items (setDeclValue items i v) :=
  Cm.Cli.setDeclValue_sameShape items i v

/-- … and it touches at most position `i`, where at most the value changes -/
theorem setDeclValue_getElem? (items : List Item) (k : Nat) (v : Str) (i : Nat) :
    (setDeclValue items k v)[i]? = (items[i]?).map fun it => if i = k then setVal v it else it :=
  Cm.Cli.setDeclValue_getElem? items k v i

/-- `comments_in_values_kept`: the rewritten value is the new colour followed by the comments the old value
    contained, and the declaration's record of those comments is untouched (so a second rewrite keeps them too) -/
theorem comments_in_values_kept (d : Decl) (v : Str) :
    setVal v (.decl d) = .decl { d with value := v ++ d.comments } ∧
    ∀ w, setVal w (setVal v (.decl d)) = .decl { d with value := w ++ d.comments } := ⟨rfl, fun _ => rfl⟩

/-- `color: rgb(50%, 50%, 50%) /* brand */` rewritten to `#757575` reads `#757575/* brand */` -/
example :
    setDeclValue [.decl { name := "color".toList, lowerName := "color".toList, value := " rgb(50%, 50%, 50%) /* brand */".toList,
                          important := false, comments := "/* brand */".toList }] 0 "#757575".toList =
      [.decl { name := "color".toList, lowerName := "color".toList, value := "#757575/* brand */".toList,
               important := false, comments := "/* brand */".toList }] := by decide

/-- one rule: the returned declaration list has the shape of the list the tool looked at -/
theorem processRule_sameShape (env : CliEnv) (cfg : Cfg) (top : Option Nat) (sel : Str) (items0 : List Item) (st : St)
    (items' : List Item) (st' : St) (h : processRule env cfg top sel items0 st = .ok (items', st')) :
    sameShape (seenItems top items0 st) items' := processRule_shape env cfg top sel items0 st items' st' h

/-- a nested rule list comes back with the same rules, selectors, at-rules, comments and declarations in
    the same order, differing at most in declaration values -/
theorem processNodes_sameShape (env : CliEnv) (cfg : Cfg) (st : St) (nodes nodes' : List Node) (st' : St)
    (h : processNodes env cfg st nodes = .ok (nodes', st')) : sameShapeNodes nodes nodes' := by
  have hs := processNodes_spec env cfg st nodes
  rw [h] at hs
  exact hs.1

/-- `only_values_change`: a written file has the same rules, selectors, at-rules, comments and declarations
    in the same order as its input, differing at most in declaration values -/
theorem only_values_change (env : CliEnv) (cfg : Cfg) (nodes : List Node) (st0 : St) (out : List Node) (st' : St)
    (h : processFile env cfg nodes st0 = (.written out, st')) : sameShapeNodes nodes out := by
  have hs := processFile_spec env cfg nodes st0
  rw [h] at hs
  exact hs.1

/-- which values: a visited rule outside the pre-parsed blocks is either literally unchanged or has exactly
    the value of its last `color` declaration replaced -/
def OnlyColour (_sel : Str) (a b : List Item) : Prop :=
  b = a ∨ ∃ (ci : Nat) (cd : Decl) (v : Str), lastDecl a "color".toList = some (ci, cd) ∧ b = setDeclValue a ci v

/-- one non-shared rule: unchanged unless reported as adjusted, and then only its text-colour value changes -/
theorem processRule_only_colour (env : CliEnv) (cfg : Cfg) (sel : Str) (items0 : List Item) (st : St)
    (items' : List Item) (st' : St) (h : processRule env cfg none sel items0 st = .ok (items', st')) :
    (st'.tuned = st.tuned → items' = items0) ∧ OnlyColour sel items0 items' := by
  refine ⟨fun hnt => (processRule_unchanged env cfg none sel items0 st items' st' h hnt).1, ?_⟩
  by_cases hnt : st'.tuned = st.tuned
  · exact .inl (processRule_unchanged env cfg none sel items0 st items' st' h hnt).1
  · have hs := processRule_step env cfg none sel items0 st
    rw [h] at hs
    generalize hr : (Except.ok (items', st') : Except St (List Item × St)) = res at hs
    cases hs with
    | noColor _ => cases hr; exact .inl rfl
    | failed ci cd inv _ _ => cases hr; exact .inl rfl
    | accessible ci cd _ _ => cases hr; exact .inl rfl
    | tuned ci cd hl _ =>
      obtain ⟨_, _, _, _, _, hcase⟩ := tunedStep_ok env cfg none sel items0 st ci cd hl items' st' hr.symm
      rcases hcase with ⟨_, h2, _⟩ | ⟨_, _, _, _, _, h4⟩
      · exact .inr ⟨ci, cd, _, hl, h2⟩
      · exact .inl h4

/-- `only_adjusted_values_change`: in a written file every node other than a top-level `:root` / `html` rule
    is the input node with each visited rule either literally unchanged or changed in exactly the value of
    its text-colour declaration (top-level `:root` / `html` rules are covered by `only_values_change`: their
    custom-property values may change too) -/
theorem only_adjusted_values_change (env : CliEnv) (cfg : Cfg) (nodes : List Node) (st0 : St) (out : List Node)
    (st' : St) (h : processFile env cfg nodes st0 = (.written out, st')) (i : Nat) (n : Node)
    (hn : nodes[i]? = some n) (hnr : ∀ sel items, n = .rule sel items → isRootSel sel = false) :
    ∃ n', out[i]? = some n' ∧ relNode OnlyColour n n' := by
  obtain ⟨n', hn', hrel⟩ := processFile_stepped env cfg nodes st0 out st' h i n hn hnr
  refine ⟨n', hn', relNode_mono ?_ n n' hrel⟩
  intro sel a b ⟨st, st1, hstep⟩
  exact (processRule_only_colour env cfg sel a st b st1 hstep).2

/-- `@`-rules other than `@media` / `@supports`, comments and every other top-level node are copied verbatim -/
theorem opaque_nodes_verbatim (env : CliEnv) (cfg : Cfg) (top : Option Nat) (st : St) :
    (∀ t ok, processNode env cfg top st (.other t ok) = .ok (.other t ok, st)) ∧
    (∀ kw pre body, (kw = "media".toList || kw = "supports".toList) = false →
      processNode env cfg top st (.at kw pre body) = .ok (.at kw pre body, st)) := by
  refine ⟨fun t ok => processNode_other env cfg top st t ok, fun kw pre body hk => ?_⟩
  rw [processNode_at]
  have : isNested kw = false := hk
  simp [this]

/-! ## where the output goes -/

/-- the output name differs from the input name: the tool never writes over its input -/
theorem outName_ne (name : Str) : outName name ≠ name := Cm.Fs.outName_ne name

/-- the output name is three characters longer (`_cm` is inserted) -/
theorem outName_length (name : Str) : (outName name).length = name.length + 3 := Cm.Fs.outName_length name

/-- `outName_of_css`: for `x.css` (with a non-empty `x`) the output is `x_cm.css` -/
theorem outName_of_css (name : Str) (h : isCssName name = true) (hl : name.length > 4) :
    outName name = name.take (name.length - 4) ++ "_cm.css".toList := Cm.Fs.outName_of_css name h hl

/-- … hence it ends in `_cm.css` -/
theorem isCmName_outName (name : Str) (h : isCssName name = true) (hl : name.length > 4) :
    isCmName (outName name) = true := Cm.Fs.isCmName_outName name h hl

/-- the dot-file edge: the only `*.css` name of length ≤ 4 is `.css`, which `pathlib` gives an empty suffix,
    so the output is `.css_cm` — not a `.css` file at all -/
theorem outName_dotfile (name : Str) (h : isCssName name = true) (hl : ¬ name.length > 4) :
    name = ".css".toList ∧ outName name = ".css_cm".toList ∧ isCssName (outName name) = false := by
  have := css_short name h hl
  subst this
  exact ⟨rfl, by decide, by decide⟩

/-- distinct stylesheets are written to distinct outputs -/
theorem outName_injective (a b : Str) (ha : isCssName a = true) (hb : isCssName b = true)
    (h : outName a = outName b) : a = b := outName_inj_css a b ha hb h

/-- `writes_beside_inputs`: everything a run writes is `outName` of one of its readable inputs, with the
    content `processFile` computes for that file alone — results go to the sibling `<name>_cm.css` and
    nowhere else -/
theorem writes_beside_inputs (env : CliEnv) (cfg : Cfg) (files : List (Str × FileIn)) (w : Str × List Node)
    (hw : w ∈ (run env cfg files).writes) :
    ∃ name nodes, (name, FileIn.css nodes) ∈ files ∧ w.1 = outName name ∧
      (processFile env cfg nodes {}).1 = .written w.2 := by
  have h := runFiles_writes env cfg files { writes := [], errors := [], st := {} }
  simp only [run] at hw
  rw [h] at hw
  simp only [List.nil_append, List.mem_filterMap] at hw
  obtain ⟨⟨name, fi⟩, hmem, hf⟩ := hw
  cases fi with
  | unreadable => simp [fileWrite] at hf
  | css nodes =>
    simp only [fileWrite] at hf
    cases hp : (processFile env cfg nodes {}).1 with
    | error => rw [hp] at hf; simp at hf
    | written out =>
      rw [hp] at hf
      simp at hf
      subst hf
      exact ⟨name, nodes, hmem, rfl, hp⟩

/-- `writes_not_inputs`: when the inputs are what discovery yields for a directory, no written name is one of
    that directory's inputs: running the tool never modifies its input files -/
theorem writes_not_inputs (env : CliEnv) (cfg : Cfg) (dir : List Str) (files : List (Str × FileIn))
    (hfiles : ∀ f ∈ files, f.1 ∈ discovered dir) (w : Str × List Node) (hw : w ∈ (run env cfg files).writes) :
    w.1 ∉ discovered dir ∧ ∀ f ∈ files, w.1 ≠ f.1 := by
  obtain ⟨name, nodes, hmem, hname, _⟩ := writes_beside_inputs env cfg files w hw
  have hcss := ((discovered_spec dir name).1 (hfiles _ hmem)).2.1
  have hno : w.1 ∉ discovered dir := by
    intro hin
    have h2 := (discovered_spec dir w.1).1 hin
    have h3 := outName_not_input name hcss
    rw [← hname, h2.2.1, h2.2.2] at h3
    simp at h3
  exact ⟨hno, fun f hf e => hno (e ▸ hfiles f hf)⟩

/-! ## the hypotheses are satisfiable -/
section Examples
open Cm.Cli.Demo

/-- a written file whose only difference from the input is the value of `p`'s `color` declaration; the
    comment, the `@media` block and the rule without a text colour are copied -/
example : processFile asciiEnv cfgTune sheet {} = (.written sheetOut, (processFile asciiEnv cfgTune sheet {}).2) ∧
    sameShapeNodes sheet sheetOut :=
  ⟨rfl, only_values_change asciiEnv cfgTune sheet {} sheetOut _ rfl⟩

/-- `style.css` is written to `style_cm.css`; `.css` to `.css_cm` -/
example : outName "style.css".toList = "style_cm.css".toList ∧ outName ".css".toList = ".css_cm".toList ∧
    isCssName "style.css".toList = true ∧ "style.css".toList.length > 4 := by decide

/-- a run over a discovered directory writes one sibling and touches no input -/
example : (run asciiEnv cfgTune [("a.css".toList, .css sheet), ("b.css".toList, .unreadable)]).writes.map (·.1) =
    ["a_cm.css".toList] ∧
    discovered ["a.css".toList, "b.css".toList, "old_cm.css".toList, "x.txt".toList] = ["a.css".toList, "b.css".toList] := by
  decide +kernel

end Examples

end CmProps.C09
