import CmModel.Hsl
import CmModel.Parser
import CmGen.HexSrc
/-!
# C06 — the tuple/list entry of `rgb_to_hsl`, as translated from the source on this run, is "validate, then the model's arithmetic"

What `format_color(rgb, "hsl")` executes: `rgb_to_hsl(rgb_color)` with an RGB triple. `harness/translate/hexsrc.py` translates
the function for a parameter that is a tuple/list of three ints: the `isinstance(rgb_color, str)` branch is dead and the
`isinstance(rgb_color, (tuple, list))` branch live by typing (rules T1/T2 of translate/convstr.py; widening or narrowing
either class list is outside the subset), `len(rgb_color) < 3` is `3 < 3`, `r, g, b = rgb_color[:3]` (rule H1), the loop
`for c in (r, g, b): if not (0 <= c <= 255): raise ValueError` is unrolled (rule H2), and the statements from `r /= 255`
to the f-string are the leaf `rgbToHslText (r, g, b)` (rule H3): that fragment is translated by translate/leaves.py
(`CmGen.Leaves.rgb_to_hsl_core`) and tied to the model by `C06tie.source_rgb_to_hsl_core` / `source_rgb_to_hsl_text`;
the translator checks that it reads nothing but `r`, `g`, `b`.

The image returns the three numbers the f-string `hsl({h}, {s*100}%, {l*100}%)` prints (how a float is printed is the
model's `fmtFloat` oracle, not part of this tie). Components that are floats or bools, and sequences longer than three,
are outside the image type (the model's `formatColor` only ever passes a parsed 8-bit triple).
-/
namespace CmProps.C06
open Cm Cm.Parse
variable {α : Type} [Num α]

/-- `rgb_to_hsl((r, g, b))`: `ValueError` unless every channel is in 0..255, else the model's `rgbToHslText` -/
theorem source_rgb_to_hsl_tuple (c : RGB) :
    CmGen.HexSrc.rgb_to_hsl_tuple (α := α) c = if validRgb c then .ok (rgbToHslText c) else vErr := by
  obtain ⟨r, g, b⟩ := c
  unfold CmGen.HexSrc.rgb_to_hsl_tuple validRgb
  simp only [Nat.lt_irrefl, decide_false, Bool.false_eq_true, if_false]
  generalize decide (0 ≤ r) = c1
  generalize decide (r ≤ 255) = c2
  generalize decide (0 ≤ g) = c3
  generalize decide (g ≤ 255) = c4
  generalize decide (0 ≤ b) = c5
  generalize decide (b ≤ 255) = c6
  cases c1 <;> cases c2 <;> cases c3 <;> cases c4 <;> cases c5 <;> cases c6 <;> rfl

/-- … so for a valid colour it is the model's `rgbToHslText` -/
theorem source_rgb_to_hsl_tuple_valid (c : RGB) (h : validRgb c = true) :
    CmGen.HexSrc.rgb_to_hsl_tuple (α := α) c = .ok (rgbToHslText c) := by
  rw [source_rgb_to_hsl_tuple, h]; rfl

end CmProps.C06
