import CmModel.Strategy
/-!
# C01 — the success flag is exactly the WCAG verdict on the returned colour

All theorems here hold for **every** carrier `α` and **every** leaf oracle `O` and descent
function — no order or arithmetic law is used — hence for the `Float` instance that the
correspondence harness executes against the Python code.
-/
namespace CmProps.C01
open Cm
variable {α : Type} [Num α]

/-- the four-entry table: (minimum, target) -/
theorem minContrast_table :
    (thresholds (α := α) false false = ((4.5 : α), (7.0 : α))) ∧
    (thresholds (α := α) true  false = ((3.0 : α), (4.5 : α))) ∧
    (thresholds (α := α) false true  = ((7.0 : α), (7.0 : α))) ∧
    (thresholds (α := α) true  true  = ((4.5 : α), (4.5 : α))) := ⟨rfl, rfl, rfl, rfl⟩

/-- mode 0: the flag is the verdict on the returned colour -/
theorem strict_flag (O : Leaf α) (d : Descend α) (t bg : RGB) (target minC : α) :
    (strategyStrict O d t bg target minC).2 =
      Num.ge (O.contrast (strategyStrict O d t bg target minC).1 bg) minC := rfl

theorem recursiveLoop_flag (O : Leaf α) (d : Descend α) (bg : RGB) (target minC : α) (n : Nat) (cur : RGB)
    (hcur : n = 0 → Num.ge (O.contrast cur bg) minC = false) :
    (recursiveLoop O d bg target minC n cur).2 =
      Num.ge (O.contrast (recursiveLoop O d bg target minC n cur).1 bg) minC := by
  induction n generalizing cur with
  | zero => simp [recursiveLoop, hcur rfl]
  | succ n ih =>
    have ih' := fun c h => ih c (fun _ => h)
    simp only [recursiveLoop]
    grind

/-- mode 1: every way out of the loop reports exactly the verdict on the colour it returns -/
theorem recursive_flag (O : Leaf α) (d : Descend α) (t bg : RGB) (target minC : α) :
    (strategyRecursive O d t bg target minC).2 =
      Num.ge (O.contrast (strategyRecursive O d t bg target minC).1 bg) minC :=
  recursiveLoop_flag O d bg target minC 10 t (by simp)

theorem optALoop_flag (O : Leaf α) (d : Descend α) (bg : RGB) (target minC : α) (n : Nat) (cur : RGB)
    (hcur : n = 0 → Num.ge (O.contrast cur bg) minC = false) :
    (optALoop O d bg target minC n cur).2 =
      Num.ge (O.contrast (optALoop O d bg target minC n cur).1 bg) minC := by
  induction n generalizing cur with
  | zero => simp [optALoop, hcur rfl]
  | succ n ih =>
    have ih' := fun c h => ih c (fun _ => h)
    simp only [optALoop]
    grind

/-- mode 2 -/
theorem relaxed_flag (O : Leaf α) (d : Descend α) (t bg : RGB) (target minC : α) :
    (strategyRelaxed O d t bg target minC).2 =
      Num.ge (O.contrast (strategyRelaxed O d t bg target minC).1 bg) minC := by
  have hr := recursive_flag O d t bg target minC
  have ha := optALoop_flag O d bg target minC 15 t (by simp)
  simp only [strategyRelaxed]
  grind

/-- `check_and_fix_contrast`: for every mode (any integer), text size and very-readable setting,
    the flag is the verdict of the returned colour against the table's minimum -/
theorem checkAndFix_flag (O : Leaf α) (d : Descend α) (t bg : RGB) (large premium : Bool) (mode : Int) :
    (checkAndFix O d t bg large mode premium).2 =
      Num.ge (O.contrast (checkAndFix O d t bg large mode premium).1 bg)
        (thresholds (α := α) large premium).1 := by
  have h0 := strict_flag O d t bg (thresholds (α := α) large premium).2 (thresholds (α := α) large premium).1
  have h1 := recursive_flag O d t bg (thresholds (α := α) large premium).2 (thresholds (α := α) large premium).1
  have h2 := relaxed_flag O d t bg (thresholds (α := α) large premium).2 (thresholds (α := α) large premium).1
  simp only [checkAndFix]
  grind

/-- never "fixed while failing", never "failed while passing" — the two directions spelled out -/
theorem checkAndFix_flag_iff (O : Leaf α) (d : Descend α) (t bg : RGB) (large premium : Bool) (mode : Int) :
    (checkAndFix O d t bg large mode premium).2 = true ↔
      Num.le (thresholds (α := α) large premium).1
        (O.contrast (checkAndFix O d t bg large mode premium).1 bg) = true := by
  rw [checkAndFix_flag]; rfl

end CmProps.C01
