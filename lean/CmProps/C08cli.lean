import CmProofs.CliLemmas
/-!
# C08 — every rule with a text colour is classified exactly once; what is reported is what is written

Statements over the CLI model (`Cm.Cli`), for every character-class oracle `env`, every configuration
`cfg` (hence every `pairEval`) and every stylesheet.

Vocabulary (defined in `CmProofs.CliLemmas`, characterised by the `*_def`/`*_iff` theorems below):
`seenItems top items0 st` is the declaration list the tool looks at for a rule (the shared pre-parsed
block for a top-level `:root` / `html` rule, the rule's own list otherwise); `hasColor items` says the
list has a `color` declaration; `countNodes` counts the rules with a text colour the tool visits;
`colourSelsNodes` lists their selectors; `verdict` is the three-way classification of `pairEval`'s
answer; `resSt` is the state a result carries (also when serialisation failed).

Known finding K1 (a custom property adjusted for several rules): when a rule is adjusted through
`var(--x)`, the value written is the *definition* of `--x`, and a later rule using `--x` may rewrite it
again; `adjusted_written` therefore states "reported = written" at the moment the rule is processed,
`written_in_file_direct` carries it to the written file for directly rewritten rules, and
`reported_is_written_var_partial` says what is missing for the custom-property branch.
-/
namespace CmProps.C08
open Cm Cm.Cli Cm.Fs

/-! ## vocabulary -/

/-- a rule "has a text colour" iff the tool finds a last `color` declaration -/
theorem hasColor_iff (items : List Item) : hasColor items = true ↔ lastDecl items "color".toList ≠ none := by
  unfold hasColor; cases lastDecl items "color".toList <;> simp

/-- nested rules are looked at through their own declaration list -/
theorem seenItems_nested (items0 : List Item) (st : St) : seenItems none items0 st = items0 := rfl

/-- a top-level `:root` / `html` rule is looked at through its shared pre-parsed block -/
theorem seenItems_top (i : Nat) (items0 : List Item) (st : St) :
    seenItems (some i) items0 st = (getRoot st i).getD items0 := Cm.Cli.seenItems_some i items0 st

/-- `countNodes` of the empty list -/
theorem countNodes_nil : countNodes [] = 0 := by simp only [countNodes]

/-- `countNodes` adds up the nodes -/
theorem countNodes_cons (n : Node) (ns : List Node) : countNodes (n :: ns) = countNode n + countNodes ns := by
  simp only [countNodes]

/-- a qualified rule counts iff it has a text colour -/
theorem countNode_rule (sel : Str) (items : List Item) :
    countNode (.rule sel items) = if hasColor items then 1 else 0 := by simp only [countNode, countItems]

/-- at-rules count their body only for `@media` / `@supports` -/
theorem countNode_at (kw pre : Str) (body : List Node) :
    countNode (.at kw pre body) = if kw = "media".toList || kw = "supports".toList then countNodes body else 0 := by
  simp only [countNode]; rfl

/-- anything else counts for nothing -/
theorem countNode_other (t : Str) (ok : Bool) : countNode (.other t ok) = 0 := by simp only [countNode]

/-- the three-way classification of `pairEval`'s answer, as `cli/main.py` reads it -/
theorem verdict_def (r : PairResult) :
    verdict r = if r.raised then .failed false else if !r.valid then .failed true else if r.meets then .accessible
      else if !r.ok then .failed false else .tuned := rfl

/-! ## rewriting a value does not change which rules have a text colour -/

/-- `setDeclValue` keeps the length, and position-wise the names, lower-cased names and `!important` flags -/
theorem setDeclValue_sameShape (items : List Item) (k : Nat) (v : Str) : sameShape items (setDeclValue items k v) :=
  Cm.Cli.setDeclValue_sameShape items k v

/-- lists of the same shape have their last declaration of a given name at the same position -/
theorem lastDecl_sameShape (n : Str) {a b : List Item} (h : sameShape a b) :
    (lastDecl a n).map (·.1) = (lastDecl b n).map (·.1) := Cm.Cli.lastDecl_sameShape n h

/-- `setDeclValue` preserves whether a declaration of a given name exists -/
theorem setDeclValue_lastDecl_none (items : List Item) (k : Nat) (v n : Str) :
    lastDecl (setDeclValue items k v) n = none ↔ lastDecl items n = none := by
  have h := Cm.Cli.lastDecl_isSome_sameShape n (Cm.Cli.setDeclValue_sameShape items k v)
  cases h1 : lastDecl items n <;> cases h2 : lastDecl (setDeclValue items k v) n <;> simp [h1, h2] at h ⊢

/-- hence a rewritten (shared) block has a text colour iff the original had -/
theorem hasColor_setDeclValue (items : List Item) (k : Nat) (v : Str) :
    hasColor (setDeclValue items k v) = hasColor items :=
  (Cm.Cli.hasColor_sameShape (Cm.Cli.setDeclValue_sameShape items k v)).symm

/-! ## one rule -/

/-- a rule without a text colour is returned as seen and changes nothing -/
theorem rule_without_colour (env : CliEnv) (cfg : Cfg) (top : Option Nat) (sel : Str) (items0 : List Item) (st : St)
    (h : hasColor (seenItems top items0 st) = false) :
    processRule env cfg top sel items0 st = .ok (seenItems top items0 st, st) := by
  have hs := processRule_step env cfg top sel items0 st
  generalize processRule env cfg top sel items0 st = res at hs ⊢
  cases hs with
  | noColor _ => rfl
  | failed ci cd inv h' _ => rw [hasColor_of_some h'] at h; cases h
  | accessible ci cd h' _ => rw [hasColor_of_some h'] at h; cases h
  | tuned ci cd h' _ => rw [hasColor_of_some h'] at h; cases h

/-- `processRule_counts`: the three counters grow in total by 1 if the rule has a text colour and by 0
    otherwise, none decreases, and each detail list grows exactly with its counter — also when
    re-serialising the rewritten rule fails -/
theorem processRule_counts (env : CliEnv) (cfg : Cfg) (top : Option Nat) (sel : Str) (items0 : List Item) (st : St) :
    let st' := resSt (processRule env cfg top sel items0 st)
    st'.accessible + st'.tuned + st'.failed =
      st.accessible + st.tuned + st.failed + (if hasColor (seenItems top items0 st) then 1 else 0) ∧
    st.accessible ≤ st'.accessible ∧ st.tuned ≤ st'.tuned ∧ st.failed ≤ st'.failed ∧
    st'.failedDetails.length + st.failed = st.failedDetails.length + st'.failed ∧
    st'.fixedDetails.length + st.tuned = st.fixedDetails.length + st'.tuned := by
  have h := processRule_grew env cfg top sel items0 st
  exact ⟨h.total, h.acc, h.tuned, h.failed, h.failedLen, h.fixedLen⟩

/-- a rule with a text colour bumps exactly one of the three counters, by exactly one: "already
    readable" leaves both lists alone, "adjusted" pushes one `Fixed` record and "needs attention" one
    `Failed` record, each carrying the rule's selector -/
theorem rule_counted_once (env : CliEnv) (cfg : Cfg) (top : Option Nat) (sel : Str) (items0 : List Item) (st : St)
    (h : hasColor (seenItems top items0 st) = true) :
    let st' := resSt (processRule env cfg top sel items0 st)
    (st'.accessible = st.accessible + 1 ∧ st'.tuned = st.tuned ∧ st'.failed = st.failed ∧
        st'.failedDetails = st.failedDetails ∧ st'.fixedDetails = st.fixedDetails) ∨
    (st'.accessible = st.accessible ∧ st'.tuned = st.tuned + 1 ∧ st'.failed = st.failed ∧
        st'.failedDetails = st.failedDetails ∧ ∃ f : Fixed, st'.fixedDetails = f :: st.fixedDetails ∧ f.selector = sel) ∨
    (st'.accessible = st.accessible ∧ st'.tuned = st.tuned ∧ st'.failed = st.failed + 1 ∧
        st'.fixedDetails = st.fixedDetails ∧ ∃ f : Failed, st'.failedDetails = f :: st.failedDetails ∧ f.selector = sel) := by
  have hs := processRule_step env cfg top sel items0 st
  generalize processRule env cfg top sel items0 st = res at hs ⊢
  cases hs with
  | noColor h' => rw [hasColor_of_none h'] at h; cases h
  | failed ci cd inv _ _ => exact .inr (.inr ⟨rfl, rfl, rfl, rfl, _, rfl, rfl⟩)
  | accessible ci cd _ _ => exact .inl ⟨rfl, rfl, rfl, rfl, rfl⟩
  | tuned ci cd _ _ =>
    refine .inr (.inl ?_)
    have ht := tunedStep_step env cfg top sel items0 st ci cd
    generalize tunedStep env cfg top sel items0 st ci cd = res at ht ⊢
    cases ht with
    | viaVar name d _ =>
      have hc := rewriteVar_sameCounts (tuneSt st (fixedOf env cfg st sel (seenItems top items0 st) cd)) name d
        (evalOf env cfg st (seenItems top items0 st) cd).tuned
      exact ⟨hc.1, hc.2.1, hc.2.2.1, hc.2.2.2.1, _, hc.2.2.2.2, rfl⟩
    | unserialisable _ _ => exact ⟨rfl, rfl, rfl, rfl, _, rfl, rfl⟩
    | direct _ _ =>
      have hc := shareBack_sameCounts top st (tuneSt st (fixedOf env cfg st sel (seenItems top items0 st) cd))
        (setDeclValue (seenItems top items0 st) ci (evalOf env cfg st (seenItems top items0 st) cd).tuned)
      exact ⟨hc.1, hc.2.1, hc.2.2.1, hc.2.2.2.1, _, hc.2.2.2.2, rfl⟩

/-- which counter moves is decided by `pairEval`'s verdict on the resolved pair: readable rules and rules
    needing attention are returned exactly as seen, with the `Failed` record naming selector and pair -/
theorem rule_by_verdict (env : CliEnv) (cfg : Cfg) (top : Option Nat) (sel : Str) (items0 : List Item) (st : St)
    (ci : Nat) (cd : Decl) (hl : lastDecl (seenItems top items0 st) "color".toList = some (ci, cd)) :
    match verdict (evalOf env cfg st (seenItems top items0 st) cd) with
    | .accessible => processRule env cfg top sel items0 st =
        .ok (seenItems top items0 st, { st with accessible := st.accessible + 1 })
    | .failed inv => processRule env cfg top sel items0 st = .ok (seenItems top items0 st,
        { st with failed := st.failed + 1,
                  failedDetails := { selector := sel, text := textOf env st cd,
                                     bg := bgOf env cfg st (seenItems top items0 st), invalid := inv } :: st.failedDetails })
    | .tuned => (resSt (processRule env cfg top sel items0 st)).tuned = st.tuned + 1 := by
  have h := processRule_verdict env cfg top sel items0 st ci cd hl
  cases hv : verdict (evalOf env cfg st (seenItems top items0 st) cd) with
  | accessible => rw [hv] at h; exact h
  | failed inv => rw [hv] at h; exact h
  | tuned =>
    rw [hv] at h
    simp only
    rw [h]
    have ht := tunedStep_step env cfg top sel items0 st ci cd
    generalize tunedStep env cfg top sel items0 st ci cd = res at ht ⊢
    cases ht with
    | viaVar name d _ => exact (rewriteVar_sameCounts _ _ _ _).2.1
    | unserialisable _ _ => rfl
    | direct _ _ => exact (shareBack_sameCounts _ _ _ _).2.1

/-! ## `attention_unchanged` -/

/-- a rule that is not reported as adjusted (readable, needing attention, or without a text colour) is
    returned exactly as the tool saw it — for a nested or ordinary rule: literally its input — and
    neither the custom-property table nor any shared block changes -/
theorem attention_unchanged (env : CliEnv) (cfg : Cfg) (top : Option Nat) (sel : Str) (items0 : List Item) (st : St)
    (items' : List Item) (st' : St) (hok : processRule env cfg top sel items0 st = .ok (items', st'))
    (hnt : st'.tuned = st.tuned) :
    items' = seenItems top items0 st ∧ st'.vars = st.vars ∧ st'.rootDecls = st.rootDecls :=
  processRule_unchanged env cfg top sel items0 st items' st' hok hnt

/-- … in particular a non-shared rule that is not adjusted comes back literally unchanged -/
theorem attention_unchanged_nested (env : CliEnv) (cfg : Cfg) (sel : Str) (items0 : List Item) (st : St)
    (items' : List Item) (st' : St) (hok : processRule env cfg none sel items0 st = .ok (items', st'))
    (hnt : st'.tuned = st.tuned) : items' = items0 :=
  (processRule_unchanged env cfg none sel items0 st items' st' hok hnt).1

/-! ## `partition` -/

/-- `partition` over a nested rule list: on success the three counters grew, in total, by exactly the
    number of rules with a text colour; none decreased; the detail lists grew with their counters -/
theorem partition_nodes (env : CliEnv) (cfg : Cfg) (st : St) (nodes nodes' : List Node) (st' : St)
    (h : processNodes env cfg st nodes = .ok (nodes', st')) :
    st'.accessible + st'.tuned + st'.failed = st.accessible + st.tuned + st.failed + countNodes nodes ∧
    st.accessible ≤ st'.accessible ∧ st.tuned ≤ st'.tuned ∧ st.failed ≤ st'.failed ∧
    st'.failedDetails.length + st.failed = st.failedDetails.length + st'.failed ∧
    st'.fixedDetails.length + st.tuned = st.fixedDetails.length + st'.tuned := by
  have hs := processNodes_spec env cfg st nodes
  rw [h] at hs
  obtain ⟨_, g, _⟩ := hs
  exact ⟨g.total, g.acc, g.tuned, g.failed, g.failedLen, g.fixedLen⟩

/-- … and when serialisation fails part-way the total has grown by at most that number -/
theorem partition_nodes_error (env : CliEnv) (cfg : Cfg) (st : St) (nodes : List Node) (st' : St)
    (h : processNodes env cfg st nodes = .error st') :
    st'.accessible + st'.tuned + st'.failed ≤ st.accessible + st.tuned + st.failed + countNodes nodes ∧
    st.accessible ≤ st'.accessible ∧ st.tuned ≤ st'.tuned ∧ st.failed ≤ st'.failed ∧
    st'.failedDetails.length + st.failed = st.failedDetails.length + st'.failed ∧
    st'.fixedDetails.length + st.tuned = st.fixedDetails.length + st'.tuned := by
  have hs := processNodes_spec env cfg st nodes
  rw [h] at hs
  obtain ⟨⟨k, hk, g⟩, _⟩ := hs
  have := g.total
  simp only [total] at this
  exact ⟨by omega, g.acc, g.tuned, g.failed, g.failedLen, g.fixedLen⟩

/-- `partition` for the top-level loop, started (as `processFile` does) from the pre-pass tables: a
    top-level `:root` / `html` rule is judged on its shared block, which has a text colour iff the rule has -/
theorem partition_top (env : CliEnv) (cfg : Cfg) (st0 : St) (nodes nodes' : List Node) (st' : St)
    (h : processTop env cfg nodes 0 (fileSt env nodes st0) = .ok (nodes', st')) :
    st'.accessible + st'.tuned + st'.failed = st0.accessible + st0.tuned + st0.failed + countNodes nodes := by
  have hs := processTop_spec env cfg nodes 0 (fileSt env nodes st0) (prePass_rootInv env nodes)
  rw [h] at hs
  exact hs.2.1.total

/-- `partition`: when a file is written, every rule with a text colour has been counted in exactly one
    of the three categories: the counters grew in total by `countNodes nodes`, none decreased -/
theorem partition (env : CliEnv) (cfg : Cfg) (nodes : List Node) (st0 : St) (out : List Node) (st' : St)
    (h : processFile env cfg nodes st0 = (.written out, st')) :
    st'.accessible + st'.tuned + st'.failed = st0.accessible + st0.tuned + st0.failed + countNodes nodes ∧
    st0.accessible ≤ st'.accessible ∧ st0.tuned ≤ st'.tuned ∧ st0.failed ≤ st'.failed := by
  have hs := processFile_spec env cfg nodes st0
  rw [h] at hs
  exact ⟨hs.2.total, hs.2.acc, hs.2.tuned, hs.2.failed⟩

/-- … a skipped file leaves partial counts: at most `countNodes nodes` more -/
theorem partition_skipped (env : CliEnv) (cfg : Cfg) (nodes : List Node) (st0 : St) (st' : St)
    (h : processFile env cfg nodes st0 = (.error, st')) :
    st'.accessible + st'.tuned + st'.failed ≤ st0.accessible + st0.tuned + st0.failed + countNodes nodes ∧
    st0.accessible ≤ st'.accessible ∧ st0.tuned ≤ st'.tuned ∧ st0.failed ≤ st'.failed := by
  have hs := processFile_spec env cfg nodes st0
  rw [h] at hs
  obtain ⟨k, hk, g⟩ := hs
  have := g.total
  simp only [total] at this
  exact ⟨by omega, g.acc, g.tuned, g.failed⟩

/-- lists and counters agree: whatever the outcome of a file, `failedDetails` grew (at the front) by
    exactly as many entries as `failed`, and `fixedDetails` by exactly as many as `tuned` -/
theorem details_agree (env : CliEnv) (cfg : Cfg) (nodes : List Node) (st0 : St) :
    let st' := (processFile env cfg nodes st0).2
    st'.failedDetails.length + st0.failed = st0.failedDetails.length + st'.failed ∧
    st'.fixedDetails.length + st0.tuned = st0.fixedDetails.length + st'.tuned ∧
    st0.failedDetails <:+ st'.failedDetails ∧ st0.fixedDetails <:+ st'.fixedDetails := by
  have hs := processFile_spec env cfg nodes st0
  cases hp : processFile env cfg nodes st0 with
  | mk o st' =>
    rw [hp] at hs
    cases o with
    | written out => exact ⟨hs.2.failedLen, hs.2.fixedLen, hs.2.failedSuffix, hs.2.fixedSuffix⟩
    | error => obtain ⟨k, _, g⟩ := hs; exact ⟨g.failedLen, g.fixedLen, g.failedSuffix, g.fixedSuffix⟩

/-- rules needing attention (and adjusted rules) are listed by selector: the entries a file adds to the
    two detail lists name, oldest first, a subsequence of the selectors of its rules with a text colour -/
theorem listed_by_selector (env : CliEnv) (cfg : Cfg) (nodes : List Node) (st0 : St) :
    let st' := (processFile env cfg nodes st0).2
    (∃ l : List Failed, st'.failedDetails = l ++ st0.failedDetails ∧
        (l.reverse.map (·.selector)).Sublist (colourSelsNodes nodes)) ∧
    (∃ l : List Fixed, st'.fixedDetails = l ++ st0.fixedDetails ∧
        (l.reverse.map (·.selector)).Sublist (colourSelsNodes nodes)) := by
  have h := processFile_listed env cfg nodes st0
  exact ⟨h.failed, h.fixed⟩

/-- `colourSelsNodes` lists exactly the rules `countNodes` counts -/
theorem colourSels_length (nodes : List Node) : (colourSelsNodes nodes).length = countNodes nodes :=
  colourSelsNodes_length nodes

/-- over a whole run, started from zero: the lists have exactly as many entries as their counters say, and
    the counters add up to at most the number of rules with a text colour in the readable files —
    exactly that number when no file was reported as failing -/
theorem run_partition (env : CliEnv) (cfg : Cfg) (files : List (Str × FileIn)) :
    let r := run env cfg files
    r.st.failedDetails.length = r.st.failed ∧ r.st.fixedDetails.length = r.st.tuned ∧
    r.st.accessible + r.st.tuned + r.st.failed ≤ (files.map fileCount).sum ∧
    (r.errors = [] → r.st.accessible + r.st.tuned + r.st.failed = (files.map fileCount).sum) := by
  obtain ⟨k, hk, g, he⟩ := runFiles_grew env cfg files { writes := [], errors := [], st := {} }
  have ht := g.total
  have h1 := g.failedLen
  have h2 := g.fixedLen
  simp only [total] at ht
  simp only [run]
  refine ⟨by simpa using h1, by simpa using h2, by simp at ht; omega, ?_⟩
  intro hnil
  have : files.filterMap (fileError env cfg) = [] := by
    have := runFiles_errors env cfg files { writes := [], errors := [], st := {} }
    rw [hnil] at this
    simpa using this.symm
  have := he this
  simp at ht; omega

/-! ## reported = written -/

/-- `written_value_direct` / `adjusted_written`: when a rule is reported as adjusted, a `Fixed` record with
    the rule's selector is pushed, its `tunedText` is `pairEval`'s tuned colour for the reported pair, and
    *either* (direct rewrite) the returned declaration list is the seen one with exactly the last `color`
    declaration set to `tunedText`, the custom-property table is untouched and a shared block is updated to
    the returned list, *or* (the value is `var(--x)` for a known `--x`) the table entry of `--x` and its
    defining declaration in the shared block now hold `tunedText` and the rule's own text is unchanged -/
theorem adjusted_written (env : CliEnv) (cfg : Cfg) (top : Option Nat) (sel : Str) (items0 : List Item) (st : St)
    (items' : List Item) (st' : St) (hok : processRule env cfg top sel items0 st = .ok (items', st'))
    (ht : st'.tuned ≠ st.tuned) :
    ∃ (ci : Nat) (cd : Decl) (f : Fixed),
      lastDecl (seenItems top items0 st) "color".toList = some (ci, cd) ∧
      st'.fixedDetails = f :: st.fixedDetails ∧ f.selector = sel ∧
      f.tunedText = (cfg.pairEval f.originalText f.bg).tuned ∧
      ((viaVarOf env st (strip env cd.value) = none ∧
          items' = setDeclValue (seenItems top items0 st) ci f.tunedText ∧
          lastDecl items' "color".toList = some (ci, { cd with value := f.tunedText ++ cd.comments }) ∧
          st'.vars = st.vars ∧
          (∀ i, top = some i → getRoot st i ≠ none → getRoot st' i = some items') ∧
          (top = none → st'.rootDecls = st.rootDecls)) ∨
       (∃ name d, viaVarOf env st (strip env cd.value) = some (name, d) ∧
          lookupVar st'.vars name = some { d with value := f.tunedText } ∧
          (∀ its, getRoot st d.rule = some its → getRoot st' d.rule = some (setDeclValue its d.item f.tunedText)) ∧
          items' = seenItems top items0 st')) := by
  have hs := processRule_step env cfg top sel items0 st
  rw [hok] at hs
  generalize hr : (Except.ok (items', st') : Except St (List Item × St)) = res at hs
  cases hs with
  | noColor h => cases hr; exact (ht rfl).elim
  | failed ci cd inv h hv => cases hr; exact (ht rfl).elim
  | accessible ci cd h hv => cases hr; exact (ht rfl).elim
  | tuned ci cd h hv =>
    obtain ⟨_, _, _, _, hf, hcase⟩ := tunedStep_ok env cfg top sel items0 st ci cd h items' st' hr.symm
    refine ⟨ci, cd, fixedOf env cfg st sel (seenItems top items0 st) cd, h, hf, rfl, rfl, ?_⟩
    rcases hcase with ⟨h1, h2, h3, h4, h5, h6⟩ | ⟨name, d, h1, h2, h3, h4⟩
    · exact .inl ⟨h1, h2, h3, h4, h5, fun h0 => h6 (by subst h0; rfl)⟩
    · exact .inr ⟨name, d, h1, h2, h3, h4⟩

/-- `written_value_direct`, as asked: on the adjusted branch with a direct rewrite the returned list's last
    `color` declaration carries the reported colour, and the pushed record carries selector and colour -/
theorem written_value_direct (env : CliEnv) (cfg : Cfg) (top : Option Nat) (sel : Str) (items0 : List Item) (st : St)
    (ci : Nat) (cd : Decl) (hl : lastDecl (seenItems top items0 st) "color".toList = some (ci, cd))
    (hv : verdict (evalOf env cfg st (seenItems top items0 st) cd) = .tuned)
    (hdirect : viaVarOf env st (strip env cd.value) = none)
    (items' : List Item) (st' : St) (hok : processRule env cfg top sel items0 st = .ok (items', st')) :
    let v := (evalOf env cfg st (seenItems top items0 st) cd).tuned
    lastDecl items' "color".toList = some (ci, { cd with value := v ++ cd.comments }) ∧
    items' = setDeclValue (seenItems top items0 st) ci v ∧
    ∃ f : Fixed, st'.fixedDetails = f :: st.fixedDetails ∧ f.tunedText = v ∧ f.selector = sel := by
  have h := processRule_verdict env cfg top sel items0 st ci cd hl
  rw [hv] at h
  simp only at h
  rw [h] at hok
  obtain ⟨_, _, _, _, hf, hcase⟩ := tunedStep_ok env cfg top sel items0 st ci cd hl items' st' hok
  rcases hcase with ⟨_, h2, h3, _⟩ | ⟨name, d, h1, _⟩
  · exact ⟨h3, h2, _, hf, rfl, rfl⟩
  · rw [hdirect] at h1; cases h1

/-- what a visited rule outside the pre-parsed blocks looks like afterwards: unchanged, or — reported as
    adjusted with a `Fixed` record of its selector — with exactly its last `color` declaration set to the
    reported colour -/
def DirectOutcome (env : CliEnv) (cfg : Cfg) (sel : Str) (a b : List Item) : Prop :=
  b = a ∨ ∃ (st st' : St) (ci : Nat) (cd : Decl) (f : Fixed),
    processRule env cfg none sel a st = .ok (b, st') ∧ st'.fixedDetails = f :: st.fixedDetails ∧ f.selector = sel ∧
    lastDecl a "color".toList = some (ci, cd) ∧ b = setDeclValue a ci f.tunedText ∧
    lastDecl b "color".toList = some (ci, { cd with value := f.tunedText ++ cd.comments })

/-- `written_in_file_direct`: in a written file, every node other than a top-level `:root` / `html` rule is
    the input node in which each visited rule is either unchanged or has exactly its text-colour declaration
    set to the colour reported for it: nothing processed later touches it -/
theorem written_in_file_direct (env : CliEnv) (cfg : Cfg) (nodes : List Node) (st0 : St) (out : List Node) (st' : St)
    (h : processFile env cfg nodes st0 = (.written out, st')) (i : Nat) (n : Node) (hn : nodes[i]? = some n)
    (hnr : ∀ sel items, n = .rule sel items → isRootSel sel = false) :
    ∃ n', out[i]? = some n' ∧ relNode (DirectOutcome env cfg) n n' := by
  obtain ⟨n', hn', hrel⟩ := processFile_stepped env cfg nodes st0 out st' h i n hn hnr
  refine ⟨n', hn', relNode_mono ?_ n n' hrel⟩
  intro sel a b ⟨st, st1, hstep⟩
  by_cases ht : st1.tuned = st.tuned
  · exact .inl (processRule_unchanged env cfg none sel a st b st1 hstep ht).1
  · obtain ⟨ci, cd, f, h1, h2, h3, _, hcase⟩ := adjusted_written env cfg none sel a st b st1 hstep ht
    rcases hcase with ⟨_, h5, h6, _⟩ | ⟨name, d, _, _, _, h8⟩
    · exact .inr ⟨st, st1, ci, cd, f, hstep, h2, h3, h1, h5, h6⟩
    · exact .inl h8

/-- how `relNode` reads: rules are related by the given relation on their declaration lists (same selector),
    `@media` / `@supports` bodies node by node, all other nodes are equal -/
theorem relNode_def (P : Str → List Item → List Item → Prop) :
    (∀ s s' a b, relNode P (.rule s a) (.rule s' b) ↔ s = s' ∧ P s a b) ∧
    (∀ k p k' p' b b', relNode P (.at k p b) (.at k' p' b') ↔
      k = k' ∧ p = p' ∧ ((isNested k = true ∧ relNodes P b b') ∨ (isNested k = false ∧ b = b'))) ∧
    (∀ t ok t' ok', relNode P (.other t ok) (.other t' ok') ↔ t = t' ∧ ok = ok') ∧
    relNodes P [] [] ∧
    (∀ a b as bs, relNodes P (a :: as) (b :: bs) ↔ relNode P a b ∧ relNodes P as bs) :=
  ⟨fun _ _ _ _ => relNode_rule, fun _ _ _ _ _ _ => relNode_at, fun _ _ _ _ => relNode_other, relNodes_nil,
    fun _ _ _ _ => relNodes_cons⟩

/- Full-strength statement that is NOT proved (finding K1):

   theorem reported_is_written_var (… h : processFile env cfg nodes st0 = (.written out, st')) :
     for every `Fixed` record `f` the file pushed through a custom property `--x` defined at declaration
     `d.item` of the top-level rule `d.rule`, the declaration `d.item` of `out[d.rule]` has value `f.tunedText`.

   It is false in general: two rules `p { color: var(--c) }`, `b { color: var(--c) }` both push a record, and
   the second rewrite overwrites the first (see the example at the end: both records happen to agree there only
   because the oracle is constant). What is proved is the statement at the moment the rule is processed: -/

/-- `reported_is_written_var_partial`: when a rule is adjusted through `var(--x)`, right after that rule the
    custom-property table maps `--x` to the reported colour and the defining declaration in the shared
    `:root` / `html` block holds it (the post-pass re-serialises the rule from that block). Missing for the
    file-level claim: that no later rule rewrites `--x` again (K1) and that the table entry `d` still points at
    the declaration of `--x` (an invariant of `collectVars` not established here). -/
theorem reported_is_written_var_partial (env : CliEnv) (cfg : Cfg) (top : Option Nat) (sel : Str) (items0 : List Item)
    (st : St) (ci : Nat) (cd : Decl) (hl : lastDecl (seenItems top items0 st) "color".toList = some (ci, cd))
    (hv : verdict (evalOf env cfg st (seenItems top items0 st) cd) = .tuned)
    (name : Str) (d : VarDef) (hvar : viaVarOf env st (strip env cd.value) = some (name, d)) :
    let v := (evalOf env cfg st (seenItems top items0 st) cd).tuned
    ∃ items' st', processRule env cfg top sel items0 st = .ok (items', st') ∧
      (∃ f : Fixed, st'.fixedDetails = f :: st.fixedDetails ∧ f.tunedText = v ∧ f.selector = sel) ∧
      lookupVar st'.vars name = some { d with value := v } ∧
      (∀ its, getRoot st d.rule = some its →
        getRoot st' d.rule = some (setDeclValue its d.item v) ∧
        (setDeclValue its d.item v)[d.item]? = (its[d.item]?).map (setVal v)) := by
  have h := processRule_verdict env cfg top sel items0 st ci cd hl
  rw [hv] at h
  simp only at h
  have ht := tunedStep_step env cfg top sel items0 st ci cd
  generalize hres : tunedStep env cfg top sel items0 st ci cd = res at ht
  cases ht with
  | unserialisable h1 _ => rw [hvar] at h1; cases h1
  | direct h1 _ => rw [hvar] at h1; cases h1
  | viaVar name' d' h1 =>
    rw [hvar] at h1; cases h1
    obtain ⟨_, _, _, _, hf, hcase⟩ := tunedStep_ok env cfg top sel items0 st ci cd hl _ _ hres
    refine ⟨_, _, h.trans hres, ⟨_, hf, rfl, rfl⟩, ?_⟩
    rcases hcase with ⟨h2, _⟩ | ⟨name2, d2, h2, h3, h4, _⟩
    · rw [hvar] at h2; cases h2
    · rw [hvar] at h2; cases h2
      refine ⟨h3, fun its hg => ⟨h4 its hg, ?_⟩⟩
      rw [setDeclValue_getElem?]
      cases its[d.item]? <;> simp

/-! ## the hypotheses are satisfiable -/
section Examples
open Cm.Cli.Demo

/-- `p { color: #777; } /* c */ @media print { a { margin: 0 } }` with an oracle that tunes everything
    to `#111`: written, one rule with a text colour, counted once (adjusted), `color` now `#111` -/
example : processFile asciiEnv cfgTune sheet {} =
    (.written sheetOut, (processFile asciiEnv cfgTune sheet {}).2) ∧
    countNodes sheet = 1 ∧ (processFile asciiEnv cfgTune sheet {}).2.tuned = 1 ∧
    (processFile asciiEnv cfgTune sheet {}).2.accessible = 0 ∧ (processFile asciiEnv cfgTune sheet {}).2.failed = 0 ∧
    (processFile asciiEnv cfgTune sheet {}).2.fixedDetails.map (·.selector) = ["p".toList] :=
  ⟨rfl, by decide +kernel, by decide +kernel, by decide +kernel, by decide +kernel, by decide +kernel⟩

/-- with an oracle that cannot tune anything both colour rules need attention and the file is written unchanged -/
example : (processFile asciiEnv cfgFail sheetVar {}).1 = .written sheetVar ∧
    (processFile asciiEnv cfgFail sheetVar {}).2.failed = 2 ∧
    (processFile asciiEnv cfgFail sheetVar {}).2.failedDetails.map (·.selector) = ["b".toList, "p".toList] :=
  ⟨rfl, by decide +kernel, by decide +kernel⟩

/-- K1 in action: `:root { --c: #777 } p { color: var(--c) } b { color: var(--c) }` — two rules are
    reported as adjusted, one declaration (`--c`) is written -/
example : (processFile asciiEnv cfgTune sheetVar {}).2.tuned = 2 ∧ countNodes sheetVar = 2 ∧
    (processFile asciiEnv cfgTune sheetVar {}).2.fixedDetails.map (·.selector) = ["b".toList, "p".toList] :=
  ⟨by decide +kernel, by decide +kernel, by decide +kernel⟩

end Examples

end CmProps.C08
