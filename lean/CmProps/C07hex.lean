import CmModel.Parser
import CmModel.HexVocab
import CmGen.HexSrc
import CmProofs.SourceHex
/-!
# C07 — `hex_to_rgb` and the number-token regex, as translated from the source on this run, are the model's

`harness/translate/hexsrc.py` translates
* `conversions.hex_to_rgb(hex_str, string=False)` with `string` fixed to its default (rule P1; the `if string:` branch is
  dead under that and dropped by T2): `strip().lstrip("#")`, the doubling `"".join([c * 2 for c in hex_str])` of a
  three-digit value, the test `len(hex_str) != 6 or not all(c in "0123456789abcdefABCDEF" for c in hex_str)`, the three
  `int(hex_str[i:j], 16)` (rule S5: `Str.intBase16`, `CmModel/HexVocab.lean`) and the returned triple.
  The model's `hexToRgb` matches on the six characters and uses `Str.hexVal` instead; `source_hex_to_rgb` proves the two
  equal for every string and every character-class oracle;
* `color_parser._NUM_RE` / `_extract_number_tokens`: the pattern text, and `_NUM_RE.findall(s)` as the model's
  `NumRe.findAll` (rule R1: only for exactly this pattern text; `CmProofs/ParseNumRe.lean` proves what `NumRe` matches).
-/
namespace CmProps.C07
open Cm Cm.Parse Cm.SourceHex

/-- `hex_to_rgb(hex_str)` (tuple result) -/
theorem source_hex_to_rgb (E : PEnv) (s : Str) : CmGen.HexSrc.hex_to_rgb E s = hexToRgb E s := by
  unfold CmGen.HexSrc.hex_to_rgb hexToRgb
  generalize Str.lstripHash (Str.strip E.cls s) = t
  simp only [alphabet_contains_hexVal]
  rcases t with _ | ⟨a, _ | ⟨b, _ | ⟨c, _ | ⟨d, _ | ⟨e, _ | ⟨f, _ | ⟨g, t⟩⟩⟩⟩⟩⟩⟩
  all_goals simp [intBase16_pair, vErr]
  · generalize Str.hexVal a = oa; generalize Str.hexVal b = ob; generalize Str.hexVal c = oc
    cases oa <;> cases ob <;> cases oc <;> rfl
  · generalize Str.hexVal a = oa; generalize Str.hexVal b = ob; generalize Str.hexVal c = oc
    generalize Str.hexVal d = od; generalize Str.hexVal e = oe; generalize Str.hexVal f = of
    cases oa <;> cases ob <;> cases oc <;> cases od <;> cases oe <;> cases of <;> rfl

/-- the text `_NUM_RE` is compiled from is the expression `Cm.NumRe` implements -/
theorem source_num_re_pattern : CmGen.HexSrc.num_re_pattern = "[-+]?\\d*\\.?\\d+%?" := by decide

/-- `_extract_number_tokens(s)` = `_NUM_RE.findall(s)` is the model's `NumRe.findAll` (which `parseStr` calls) -/
theorem source_extract_number_tokens (E : PEnv) (s : Str) :
    CmGen.HexSrc.extract_number_tokens E s = NumRe.findAll E.cls s := rfl

end CmProps.C07
