import CmProofs.SourceOpt
import CmProofs.SourceDescent
import CmProps.C05tie
import CmProps.C10tie
import CmProps.C11tie
/-!
# C01 — the optimiser functions this property's theorems are about are the source's, as translated on this run

`CmGen/Optimiser.lean` is regenerated from `/repo`'s `optimisation.py` on every run (statement by statement:
`harness/translate/optimiser.py`); `CmProofs/SourceOpt.lean` proves each image equal to the hand-written model
function (loop bodies step by step, loops by induction). `gdOf O d` is the descent phase as the source calls it
(`gradient_descent_oklch` itself is not translated: list mutation and closures); the equations hold for every
carrier, every leaf record `O` and every descent function `d`.
-/
namespace CmProps.C01
open Cm Cm.SourceOpt
variable {α : Type} [Num α]

/-- `_strategy_strict`, `_strategy_recursive`, `_strategy_relaxed` are the model's three strategies -/
theorem source_strategies (O : Leaf α) (d : Descend α) (t bg : RGB) (large : Bool) (target minC : α) :
    CmGen.Opt.strategy_strict O (gdOf O d) t bg large target minC = strategyStrict O d t bg target minC ∧
    CmGen.Opt.strategy_recursive O (gdOf O d) t bg large target minC = strategyRecursive O d t bg target minC ∧
    CmGen.Opt.strategy_relaxed O (gdOf O d) t bg large target minC = strategyRelaxed O d t bg target minC :=
  ⟨source_strategy_strict O d t bg large target minC, source_strategy_recursive O d t bg large target minC,
   source_strategy_relaxed O d t bg large target minC⟩

/-- `check_and_fix_contrast`, from the point where both colours are parsed to its `return` (threshold table, the shortcut
    for pairs that already pass, the dispatch on `mode`, what is returned), is the model's `checkAndFix` -/
theorem source_check_and_fix (O : Leaf α) (d : Descend α) (t bg : RGB) (large : Bool) (mode : Int) (premium : Bool) :
    CmGen.Opt.check_and_fix_contrast_core O (gdOf O d) t bg large mode premium = checkAndFix O d t bg large mode premium :=
  Cm.SourceOpt.source_check_and_fix O d t bg large mode premium

/-- the whole of `optimisation.py` after parsing, with the source's own `gradient_descent_oklch` (default `max_iter`) as
    the descent phase, is the model's `checkAndFix` with the model's descent: nothing between the parsed pair and the
    returned `(colour, success)` is left to correspondence alone -/
theorem source_pipeline {α : Type} [NumT α] (O : Leaf α) (t bg : RGB) (large : Bool) (mode : Int) (premium : Bool) :
    CmGen.Opt.check_and_fix_contrast_core O (fun t bg thr target lg => CmGen.Opt.gradient_descent_oklch O t bg thr target lg 50)
        t bg large mode premium = checkAndFix O (descendImpl O) t bg large mode premium := by
  have h : (fun t bg thr target lg => CmGen.Opt.gradient_descent_oklch O t bg thr target lg 50) = gdOf O (descendImpl O) := by
    funext t bg thr target lg; exact Cm.SourceOpt.source_gradient_descent O t bg thr target lg
  rw [h]; exact Cm.SourceOpt.source_check_and_fix O (descendImpl O) t bg large mode premium

/-- the leaf record `optimisation.py` actually imports, assembled from the translated numeric functions -/
def sourceLeaf {α : Type} [NumT α] (inf : α) : Leaf α :=
  { contrast := CmGen.Leaves.calculate_contrast_ratio, deltaE := CmGen.Leaves.calculate_delta_e_2000,
    toOklch := CmGen.Leaves.rgb_to_oklch_safe, ofOklch := CmGen.Leaves.oklch_to_rgb_safe,
    validRgb := CmGen.Leaves.is_valid_rgb, inf := inf }

/-- … is the model's library leaf record -/
theorem source_leaf {α : Type} [NumT α] (inf : α) : sourceLeaf inf = libLeaf inf := by
  have h1 : (CmGen.Leaves.calculate_contrast_ratio : RGB → RGB → α) = contrastRatio := by
    funext t b; exact CmProps.C05.source_contrast_ratio t b
  have h2 : (CmGen.Leaves.calculate_delta_e_2000 : RGB → RGB → α) = deltaE2000 := by
    funext c d; exact CmProps.C11.source_delta_e_2000 c d
  have h3 : (CmGen.Leaves.rgb_to_oklch_safe : RGB → α × α × α) = rgbToOklchSafe := by
    funext c; exact CmProps.C10.source_rgb_to_oklch_safe c
  have h4 : (CmGen.Leaves.oklch_to_rgb_safe : α × α × α → RGB) = oklchToRgbSafe := by
    funext t; exact CmProps.C10.source_oklch_to_rgb_safe t
  have h5 : CmGen.Leaves.is_valid_rgb = validRgb := by
    funext c; exact CmProps.C10.source_is_valid_rgb c
  simp only [sourceLeaf, libLeaf, h1, h2, h3, h4, h5]

/-- `source_is_executed_model`: the function the correspondence harness runs bit-for-bit against CPython
    (`checkAndFixF`: Float carrier, library leaves, the real descent loop) is, definition by definition, the image of
    the source as translated on this run - numeric leaves, `_safe` wrappers, searches, strategies and dispatch -/
theorem source_is_executed_model (t bg : RGB) (large : Bool) (mode : Int) (premium : Bool) :
    CmGen.Opt.check_and_fix_contrast_core (sourceLeaf floatInf)
        (fun t bg thr target lg => CmGen.Opt.gradient_descent_oklch (sourceLeaf floatInf) t bg thr target lg 50)
        t bg large mode premium = checkAndFixF t bg large mode premium := by
  rw [source_leaf]; exact source_pipeline floatLeaf t bg large mode premium

end CmProps.C01
