import CmModel.ApiVocab
import CmGen.Api
/-!
# C05 — `ColorPair.is_readable`, as translated from the source on this run, is the model's `isReadable`

The image (`CmGen/Api.lean`, `harness/translate/api.py`) passes the two optional `rgb`s to `get_wcag_level` (a `None` would
raise `TypeError`) and walks the `if level == "AAA" … elif level == "AA" or level == "AA Large" …` chain on the level's
string; the theorem says no exception is possible and the answer is the model's `Level.label` of `wcagLevel`
(`get_wcag_level` itself is tied by `C05tie.source_get_wcag_level`). The string literals of the chain and of the three
answers are generated from the source.
-/
namespace CmProps.C05
open Cm Cm.Parse
variable {α : Type} [NumT α]
set_option linter.unusedSimpArgs false

/-- the chain of string comparisons is `Level.label` -/
private theorem label_chain (l : Level) :
    (if (l.toString == "AAA") = true then (Except.ok "Very Readable" : Except PyErr String)
     else if (l.toString == "AA" || l.toString == "AA Large") = true then Except.ok "Readable"
     else Except.ok "Not Readable") = Except.ok l.label := by
  cases l <;> simp (decide := true) only [Level.toString, Level.label, if_true, if_false, Bool.or_self, Bool.or_false, Bool.or_true, Bool.true_or, Bool.false_eq_true, String.reduceBEq]

/-- `ColorPair.is_readable`: never raises, and returns the model's label -/
theorem source_is_readable (p : ColorPair α) :
    CmGen.Api.ColorPair_is_readable p = .ok p.isReadable := by
  unfold CmGen.Api.ColorPair_is_readable ColorPair.isReadable CmGen.Api.ColorPair_is_valid CmGen.Api.Color_is_valid
    CmGen.Api.Color_rgb
  cases p.text.rgb? with
  | none => rfl
  | some t =>
    cases p.bg.rgb? with
    | none => rfl
    | some b => simp only [Option.isSome_some, Bool.and_self, Bool.not_true, Bool.false_eq_true, if_false, Api.withRgb,
        label_chain]

end CmProps.C05
