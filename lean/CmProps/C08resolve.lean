import CmModel.Cli
import CmGen.CliResolve
/-!
# C08 — `var()` resolution of the CSS rewriter, as translated from `cli/main.py` on this run, is the model's

`resolve_variable` (cycle detection through the shared `visited` set, fallbacks, the exact regular expression) and its two
call sites in `process_nodes_recursive` (`resolve_variable(raw, variables) or raw`) are translated from the syntax tree by
`harness/translate/cliresolve.py` into `CmGen/CliResolve.lean`; here they are proved equal to `Cm.Cli.resolveVar` /
`Cm.Cli.resolveOr`, for every character-class oracle `env`, every dictionary, every recursion bound and every input.
(`fuel` is the model's recursion bound: Python has none. The call-site theorems instantiate it with the model's expression.)

The pre-pass loop of `main()` (which fills `variables` and `rule_declarations_map`) is translated too and proved to be the
model's `prePass` (`source_prepass`), through the documented abstraction: tinycss2 nodes are the model's `Node` / `Item` /
`Decl`; `id(rule)` is the rule's index in the stylesheet; a stored `{"decl": decl, "rule": rule, "value": v}` is the
position `(rule index, item index)` of that declaration object plus `v`; `variables[k] = …` is "replace or insert"
(`(k, v) :: variables.filter (·.1 ≠ k)`, read only through `lookupVar`; Python keeps a replaced key at its old position
in the dict's iteration order, which nothing in `cli/main.py` observes).
The translation rules (the trusted part) are in the docstring of `harness/translate/cliresolve.py`.
-/
namespace CmProps.C08
open Cm Cm.Cli

/-- the pattern `resolve_variable` compiles is the one `searchVarFull` is the semantics of -/
theorem source_resolve_pattern :
    CmGen.CliResolve.resolve_pattern = "var\\((--[\\w-]+)(?:\\s*,\\s*(.*))?\\)" := by decide

/-- `resolve_variable(value_str, variables, visited)` -/
theorem source_resolve_variable (env : CliEnv) (vars : Vars) (fuel : Nat) (s : Str) (visited : List Str) :
    CmGen.CliResolve.resolve_variable env vars fuel s visited = resolveVar env vars fuel s visited := by
  induction fuel generalizing s visited with
  | zero => rfl
  | succ n ih =>
    unfold CmGen.CliResolve.resolve_variable resolveVar
    simp only [ih]
    split
    · rfl
    · cases searchVarFull env s with
      | none => rfl
      | some m =>
        obtain ⟨name, fb⟩ := m
        simp only []
        split
        · rfl
        · cases lookupVar vars name with
          | none => cases fb <;> rfl
          | some d =>
            simp only []
            generalize resolveVar env vars n d.value (name :: visited) = r
            obtain ⟨r1, v1⟩ := r
            cases r1 <;> cases fb <;> rfl

/-- `text_color_str = resolve_variable(raw_text_color, variables) or raw_text_color` -/
theorem source_resolve_or (env : CliEnv) (vars : Vars) (raw : Str) :
    CmGen.CliResolve.resolve_call_1 env vars
      (raw.length + (vars.foldl (fun n kv => n + kv.2.value.length + 1) 0) + vars.length + 2) raw
      = resolveOr env vars raw := by
  unfold CmGen.CliResolve.resolve_call_1 resolveOr
  rw [source_resolve_variable]
  rfl

/-- `bg_color_str = resolve_variable(raw_bg_color, variables) or raw_bg_color` -/
theorem source_resolve_or_bg (env : CliEnv) (vars : Vars) (raw : Str) :
    CmGen.CliResolve.resolve_call_2 env vars
      (raw.length + (vars.foldl (fun n kv => n + kv.2.value.length + 1) 0) + vars.length + 2) raw
      = resolveOr env vars raw := by
  unfold CmGen.CliResolve.resolve_call_2 resolveOr
  rw [source_resolve_variable]
  rfl

/-- `process_nodes_recursive` resolves exactly twice (text and background) -/
theorem source_resolve_call_sites : CmGen.CliResolve.resolve_call_sites = 2 := rfl

/-! ## the pre-pass of `main()` -/

/-- `for decl in decls:` — the inner loop is the model's `collectVars` (from any position, any dictionary) -/
theorem source_prepass_decls (env : CliEnv) (i : Nat) (items : List Item) (j : Nat) (vars : Vars) :
    CmGen.CliResolve.prepass_decls env i items j vars = collectVars.go env i items j vars := by
  induction items generalizing j vars with
  | nil => rfl
  | cons it rest ih =>
    unfold CmGen.CliResolve.prepass_decls collectVars.go
    cases it with
    | decl d =>
      have e : ("--".toList : Str) = ['-', '-'] := rfl
      simp only [ih, e]
      split <;> rfl
    | other t ok => simp only [ih]

/-- `for rule in rules:` — the outer loop, from any position and any state, is the model's `prePass.go` -/
theorem source_prepass_rules (env : CliEnv) (nodes : List Node) (i : Nat) (st : St) :
    prePass.go env nodes i st =
      { st with vars := (CmGen.CliResolve.prepass_rules env nodes i (st.vars, st.rootDecls)).1,
                rootDecls := (CmGen.CliResolve.prepass_rules env nodes i (st.vars, st.rootDecls)).2 } := by
  induction nodes generalizing i st with
  | nil => rfl
  | cons n rest ih =>
    unfold prePass.go CmGen.CliResolve.prepass_rules
    cases n with
    | rule sel items =>
      simp only [isRootSel, source_prepass_decls, collectVars]
      split <;> simp_all
    | «at» kw prelude body => simp only [ih]
    | other t ok => simp only [ih]

/-- the pre-pass of `main` (the loop that fills `variables` and `rule_declarations_map`): the two dictionaries it hands to
    `process_nodes_recursive` are the model's `prePass`, and the model's `prePass` contains nothing else -/
theorem source_prepass (env : CliEnv) (nodes : List Node) :
    prePass env nodes = { vars := (CmGen.CliResolve.prepass env nodes).1, rootDecls := (CmGen.CliResolve.prepass env nodes).2 } := by
  unfold prePass CmGen.CliResolve.prepass
  rw [source_prepass_rules]

end CmProps.C08
