import CmModel.Cli
/-! # C09 — first theorems (extended below) -/
namespace CmProps.C09
open Cm Cm.Cli

/-- rewriting a declaration's value changes nothing else: same length, same names, same flags -/
theorem setDeclValue_length (items : List Item) (i : Nat) (v : Str) :
    (setDeclValue items i v).length = items.length := by
  unfold setDeclValue; simp

end CmProps.C09
