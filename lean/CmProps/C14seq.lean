import CmModel.Parser
import CmModel.PyValInt
import CmGen.ParserSeq
/-!
# C14 — the tuple/list branch and the type dispatch of `parse_color_to_rgb`, as translated from the source on this run, are the model's

`harness/translate/parserseq.py` reads `parse_color_to_rgb` in `core/color_parser.py` on every run and writes
`CmGen/ParserSeq.lean`: the body of `if isinstance(color, (tuple, list)):` (`parse_color_seq`, with the body of its
`for c in color:` loop as `parse_color_seq__for1`) and the top-level dispatch on the dynamic type of `color`
(`parse_color_to_rgb`, whose string branch is a parameter — it is translated separately). The theorems below prove
them equal to the model's `parseColor` (`CmModel/Parser.lean`), for every carrier `α`, every environment `E` and every
Python value: what C14 (and C07/C13 through it) prove about `parseColor` on sequences is about this code.

**Background abstraction.** `Color._parse` calls `parse_color_to_rgb(value, background=…)` with `None` or the already
parsed 3-tuple of ints of the background colour. In the image, as in the model, `background : Option RGB`;
`background is None` is a match, `isinstance(background, (tuple, list)) and len(background) == 3` is `true && 3 = 3`
on `some _`, `tuple(background)` is the triple, and the recursive call `parse_color_to_rgb(background)` is the model's
`bgParsed (some _)`. The last rule is not only assumed: `source_background_reparse` proves that the generated sequence
branch, run on a triple of ints, is `bgParsed`.
-/
set_option linter.unusedSimpArgs false
namespace CmProps.C14
open Cm Cm.Parse
variable {α : Type} [Num α]

/-- the body of `for c in color:` on the default (RGB) path is the model's `rgbComponent`
    (`True`/`False` are the ints 1/0: they pass `isinstance(c, int) and 0 <= c <= 255`) -/
theorem source_parse_color_seq_component (E : PEnv) (c : PyVal α) :
    CmGen.ParserSeq.parse_color_seq__for1 E c = rgbComponent E c := by
  unfold CmGen.ParserSeq.parse_color_seq__for1 rgbComponent
  cases c <;> simp only [PyVal.numValue, PyVal.intValue]
  all_goals first
    | rfl
    | (cases ‹Bool› <;> rfl)
    | (simp only [Bool.and_eq_true, decide_eq_true_eq]; rfl)

private theorem fin_eq (a b c : Int) :
    (if (!validRgb (max 0 (min 255 a), max 0 (min 255 b), max 0 (min 255 c))) = true then
        (Except.error PyErr.valueError : Except PyErr RGB)
      else pure (max 0 (min 255 a), max 0 (min 255 b), max 0 (min 255 c)))
      = (if validRgb (clamp255 a, clamp255 b, clamp255 c) = true then pure (clamp255 a, clamp255 b, clamp255 c)
         else vErr) := by
  show (if (!validRgb (clamp255 a, clamp255 b, clamp255 c)) = true then _ else _) = _
  cases validRgb (clamp255 a, clamp255 b, clamp255 c) <;> rfl

private theorem ite_congr3 {β : Type} {c1 c2 : Bool} {a a' b b' : β} (hc : c1 = c2) (ha : a = a') (hb : b = b') :
    (if c1 = true then a else b) = (if c2 = true then a' else b') := by
  subst hc ha hb; rfl

/-- `ln == 3`: the HSL-looking heuristic, `hsl_to_rgb(color)`, the component loop and the clamp / validity tail -/
private theorem seq3 (E : PEnv) (r g b : PyVal α) (bg : Option RGB) :
    CmGen.ParserSeq.parse_color_seq E [r, g, b] bg = parseColor E (.tuple [r, g, b]) bg := by
  unfold CmGen.ParserSeq.parse_color_seq parseColor
  simp only [source_parse_color_seq_component, List.length, Nat.zero_add, Nat.reduceAdd, decide_true, if_true, fin_eq]
  cases r <;> simp only [PyVal.numValue, PyVal.isNumber, PyVal.isInt, PyVal.isFloat, Bool.or_false, Bool.or_true,
    Bool.true_and, Bool.false_and, Bool.false_eq_true, if_false]
  all_goals (cases g <;> try simp only [PyVal.isInt, Bool.and_false, Bool.false_and, Bool.false_eq_true, if_false])
  all_goals (cases b <;> try simp only [PyVal.isInt, Bool.and_false, Bool.false_and, Bool.false_eq_true, if_false,
    Bool.not_false, Bool.and_true, Bool.and_self, Bool.and_assoc])

/-- `ln == 4`: the `looks_like_rgb` heuristic, RGBA through `_parse_number_token(str(x), …)` and `rgba_to_rgb` over the
    resolved background, else `hsla_to_rgb(color, bg_rgb)` -/
private theorem seq4 (E : PEnv) (r g b a : PyVal α) (bg : Option RGB) :
    CmGen.ParserSeq.parse_color_seq E [r, g, b, a] bg = parseColor E (.tuple [r, g, b, a]) bg := by
  unfold CmGen.ParserSeq.parse_color_seq parseColor
  simp only [List.length, Nat.zero_add, Nat.reduceAdd, Nat.reduceEqDiff, decide_false, decide_true, if_true,
    Bool.false_eq_true, if_false]
  refine ite_congr3 ?_ ?_ ?_
  · congr 1
    congr 1
    congr 1
    all_goals first | rfl | (cases r <;> rfl) | (cases g <;> rfl) | (cases b <;> rfl)
  · cases bg <;> rfl
  · cases bg <;> rfl

/-- **the tuple/list branch of `parse_color_to_rgb`** (the body of `if isinstance(color, (tuple, list)):` as it reads
    now) is the model's `parseColor` on a tuple with these elements, for every length, every element type and either
    kind of background (`None` / parsed triple — the background abstraction of the file header) -/
theorem source_parse_color_sequence (E : PEnv) (xs : List (PyVal α)) (bg : Option RGB) :
    CmGen.ParserSeq.parse_color_seq E xs bg = parseColor E (.tuple xs) bg := by
  match xs with
  | [] => rfl
  | [_] => rfl
  | [_, _] => rfl
  | [r, g, b] => exact seq3 E r g b bg
  | [r, g, b, a] => exact seq4 E r g b a bg
  | _ :: _ :: _ :: _ :: _ :: _ =>
    unfold CmGen.ParserSeq.parse_color_seq parseColor
    simp [List.length, vErr]

/-- … and on a list with these elements (the code does not distinguish the two) -/
theorem source_parse_color_sequence_list (E : PEnv) (xs : List (PyVal α)) (bg : Option RGB) :
    CmGen.ParserSeq.parse_color_seq E xs bg = parseColor E (.list xs) bg :=
  (source_parse_color_sequence E xs bg).trans rfl

/-- **the top level of `parse_color_to_rgb`**: `isinstance(color, (tuple, list))` → the sequence branch,
    `isinstance(color, str)` → the string branch (here the model's `parseStr`; the code's string branch is tied to it
    separately), anything else (`None`, numbers, bools, …) → `ValueError` -/
theorem source_parse_color_dispatch (E : PEnv) (color : PyVal α) (bg : Option RGB) :
    CmGen.ParserSeq.parse_color_to_rgb (parseStr (α := α) E) E color bg = parseColor E color bg := by
  unfold CmGen.ParserSeq.parse_color_to_rgb
  cases color
  case tuple xs => exact source_parse_color_sequence E xs bg
  case list xs => exact source_parse_color_sequence_list E xs bg
  all_goals rfl

/-- the dispatch with an arbitrary string branch: it is consulted on strings only, and then decides alone -/
theorem source_parse_color_dispatch_str (sb : Str → Option RGB → Except PyErr RGB) (E : PEnv) (s : Str)
    (bg : Option RGB) :
    CmGen.ParserSeq.parse_color_to_rgb (α := α) sb E (.str s) bg = sb s bg := rfl

/-- the rule "`parse_color_to_rgb(background)` on an already parsed triple is `bgParsed`" is a theorem about the
    translated code: the sequence branch on three ints (no background of its own) re-validates the triple -/
theorem source_background_reparse (E : PEnv) (r g b : Int) :
    CmGen.ParserSeq.parse_color_seq (α := α) E [.int r, .int g, .int b] none = bgParsed (some (r, g, b)) := by
  rw [source_parse_color_sequence]
  unfold parseColor bgParsed
  simp only [rgbComponent, PyVal.numValue, PyVal.isNumber, PyVal.isInt, PyVal.isFloat, Bool.and_false,
    Bool.false_eq_true, if_false]
  have cl : ∀ n : Int, 0 ≤ n ∧ n ≤ 255 → clamp255 n = n := by
    intro n h; unfold clamp255; omega
  by_cases hr : 0 ≤ r ∧ r ≤ 255 <;> by_cases hg : 0 ≤ g ∧ g ≤ 255 <;> by_cases hb : 0 ≤ b ∧ b ≤ 255
  all_goals simp only [hr, hg, hb, if_true, if_false, bind, Except.bind, vErr]
  · simp [cl, hr, hg, hb, validRgb, pure, Except.pure]
  all_goals (simp only [validRgb]; simp [hr, hg, hb]; try omega)

end CmProps.C14
