import CmProofs.FormatRoundtrip
import CmProofs.HslRoundtrip
/-!
# C06 — every format `make_readable` can answer in is read back as exactly the colour it shows

For each of the 16 777 216 colours (`validRgb c = true`) and each output format {hex, `rgb()`, `hsl()`,
tuple} the value `format_color` produces is parsed back to the same colour. The text formats depend on
the Unicode classes: the theorems hold for every oracle that gives ASCII characters their ASCII
classes (`AsciiFaithful`, true of `asciiCls`), and for every keyword table whose keys are lower-case
letters (`keysLower`, true of the generated `CmGen.namedTable` by kernel evaluation). Hex and tuple
never touch the numeric carrier and are proved for every carrier; `rgb()` needs the carrier to read the
decimal text of a byte exactly (`ByteExact`, proved for `ℚ`); `hsl()` is proved at the exact carrier `ℚ`.
-/
namespace CmProps.C06
open Cm Cm.Parse Cm.FmtRt

/-- the ASCII oracle (the driver's default) is ASCII-faithful -/
theorem ascii_faithful : AsciiFaithful asciiCls := asciiFaithful_ascii

/-- every keyword of the generated `CSS_NAMED_COLORS` table consists of lower-case ASCII letters -/
theorem named_keys_lower : keysLower namedEnv = true := keysLower_namedEnv

/-- the exact rational carrier reads the decimal text of a byte exactly -/
theorem rat_byteExact : @ByteExact ℚ ratNum := byteExact_rat

/-! ## hex -/

/-- `rgb_to_hex` writes `#` followed by six characters from `0123456789abcdef` -/
theorem hex_shape (c : RGB) (hc : validRgb c = true) :
    ∃ a b c' d e f : Char, fmtHex c = ['#', a, b, c', d, e, f] ∧
      ∀ x ∈ [a, b, c', d, e, f], x ∈ "0123456789abcdef".toList :=
  fmtHex_shape c hc

/-- any carrier, any faithful oracle, any lower-case keyword table: `#rrggbb` is read back as `c` -/
theorem hex_roundtrip {α : Type} [Num α] {cls : CharCls} (hf : AsciiFaithful cls)
    (named : List (Str × Str)) (hk : keysLower named = true) (c : RGB) (hc : validRgb c = true)
    (bg : Option RGB) :
    parseColor (α := α) ⟨cls, named⟩ (.str (fmtHex c)) bg = .ok c :=
  parseStr_fmtHex hf named hk c hc bg

/-- `#rrggbb` is read back as `c` with the real keyword table -/
theorem hex_roundtrip_real {α : Type} [Num α] {cls : CharCls} (hf : AsciiFaithful cls) (c : RGB)
    (hc : validRgb c = true) (bg : Option RGB) :
    parseColor (α := α) ⟨cls, namedEnv⟩ (.str (fmtHex c)) bg = .ok c :=
  hex_roundtrip hf namedEnv keysLower_namedEnv c hc bg

/-- `#rrggbb` is detected as `hex` -/
theorem detect_hex {α : Type} [Num α] {cls : CharCls} (hf : AsciiFaithful cls)
    (named : List (Str × Str)) (hk : keysLower named = true) (c : RGB) (hc : validRgb c = true) :
    detectFormat (α := α) ⟨cls, named⟩ (.str (fmtHex c)) = .hex :=
  detect_fmtHex hf named hk c hc

/-! ## tuple -/

/-- any carrier, any environment: the tuple `(r, g, b)` of a valid colour is read back as itself -/
theorem tuple_roundtrip {α : Type} [Num α] (E : PEnv) (c : RGB) (hc : validRgb c = true)
    (bg : Option RGB) :
    parseColor (α := α) E (.tuple [.int c.1, .int c.2.1, .int c.2.2]) bg = .ok c :=
  (seq_ints E c hc bg).1

/-- the same for a list `[r, g, b]` -/
theorem list_roundtrip {α : Type} [Num α] (E : PEnv) (c : RGB) (hc : validRgb c = true)
    (bg : Option RGB) :
    parseColor (α := α) E (.list [.int c.1, .int c.2.1, .int c.2.2]) bg = .ok c :=
  (seq_ints E c hc bg).2

/-- a 3-tuple or 3-list is detected as `rgb_tuple` -/
theorem detect_tuple {α : Type} [Num α] (E : PEnv) (x y z : PyVal α) :
    detectFormat E (.tuple [x, y, z]) = .rgbTuple ∧ detectFormat E (.list [x, y, z]) = .rgbTuple :=
  ⟨rfl, rfl⟩

/-! ## `rgb(r, g, b)` -/

/-- `str(n)` of a byte is a non-empty string of ASCII digits whose decimal value is `n` -/
theorem intStr_byte_digits (n : Nat) (h : n < 256) :
    (∀ ch ∈ intStr (n : Int), ch ∈ "0123456789".toList) ∧ intStr (n : Int) ≠ [] ∧
      decFrom 0 (intStr (n : Int)) = n :=
  intStr_digits n h

/-- `_NUM_RE.findall("rgb(r, g, b)")` is the three decimal strings, for every faithful oracle -/
theorem rgbfn_tokens {cls : CharCls} (hf : AsciiFaithful cls) (c : RGB) (hc : validRgb c = true) :
    NumRe.findAll cls (fmtRgbFn c) = [intStr c.1, intStr c.2.1, intStr c.2.2] := by
  obtain ⟨r, g, b, hr, hg, hb, rfl⟩ := validRgb_nat c hc
  rw [fmtRgbFn_eq]
  exact findAll_rgbText hf _ _ _ (intStr_digits r hr).1 (intStr_digits g hg).1 (intStr_digits b hb).1
    (intStr_digits r hr).2.1 (intStr_digits g hg).2.1 (intStr_digits b hb).2.1

/-- `float()` of a digit string is its decimal value, for every carrier and faithful oracle -/
theorem float_of_digits {α : Type} [Num α] {cls : CharCls} (hf : AsciiFaithful cls) (D : Str)
    (hD : ∀ ch ∈ D, ch ∈ "0123456789".toList) (hne : D ≠ []) :
    PyFloat.parse (α := α) cls D = .ok (Num.ofDecimal false (decFrom 0 D) 0) :=
  parse_digits hf D hD hne

/-- every byte-exact carrier, faithful oracle, lower-case keyword table: `rgb(r, g, b)` is read back
    as `c` -/
theorem rgbfn_roundtrip_of_byteExact {α : Type} [Num α] (hα : ByteExact α) {cls : CharCls}
    (hf : AsciiFaithful cls) (named : List (Str × Str)) (hk : keysLower named = true) (c : RGB)
    (hc : validRgb c = true) (bg : Option RGB) :
    parseColor (α := α) ⟨cls, named⟩ (.str (fmtRgbFn c)) bg = .ok c :=
  parseStr_fmtRgbFn hα hf named hk c hc bg

/-- exact carrier, faithful oracle, real keyword table: `rgb(r, g, b)` is read back as `c` -/
theorem rgbfn_roundtrip {cls : CharCls} (hf : AsciiFaithful cls) (c : RGB) (hc : validRgb c = true)
    (bg : Option RGB) :
    @parseColor ℚ ratNum ⟨cls, namedEnv⟩ (.str (fmtRgbFn c)) bg = .ok c :=
  @parseStr_fmtRgbFn ℚ ratNum byteExact_rat cls hf namedEnv keysLower_namedEnv c hc bg

/-- `rgb(r, g, b)` is detected as `rgb` -/
theorem detect_rgbfn {α : Type} [Num α] {cls : CharCls} (hf : AsciiFaithful cls)
    (named : List (Str × Str)) (hk : keysLower named = true) (c : RGB) (hc : validRgb c = true) :
    detectFormat (α := α) ⟨cls, named⟩ (.str (fmtRgbFn c)) = .rgb :=
  detect_fmtRgbFn hf named hk c hc

/-! ## `hsl(h, s%, l%)` at the exact carrier -/

/-- the reader's `q`, `p` are the maximum and minimum channel, and the saturation is in `(0, 1]` -/
theorem hsl_pq (mx mn : ℚ) (h0 : 0 ≤ mn) (h1 : mx ≤ 1) (hlt : mn < mx) :
    let l := (mx + mn) / 2
    let s := (mx - mn) / (1 - |2 * l - 1|)
    let q := if l < 1/2 then l * (1 + s) else l + s - l * s
    q = mx ∧ 2 * l - q = mn ∧ 0 < s ∧ s ≤ 1 :=
  HslRt.hsl_pq mx mn h0 h1 hlt

/-- all 2^24 colours: the three numbers `rgb_to_hsl` prints, computed exactly, are read back by
    `hsl_to_rgb`, computed exactly, as the same colour -/
theorem hsl_roundtrip_exact (c : RGB) (hc : validRgb c = true) :
    @hslTextToRgb ℚ ratNum (@rgbToHslText ℚ ratNum c) = some c :=
  HslRt.hslText_roundtrip c hc

/-- the printed numbers satisfy `0 ≤ h < 360`, `0 ≤ s% ≤ 100`, `0 ≤ l% ≤ 100` -/
theorem hsl_text_range (c : RGB) (hc : validRgb c = true) :
    0 ≤ (@rgbToHslText ℚ ratNum c).1 ∧ (@rgbToHslText ℚ ratNum c).1 < 360 ∧
    0 ≤ (@rgbToHslText ℚ ratNum c).2.1 ∧ (@rgbToHslText ℚ ratNum c).2.1 ≤ 100 ∧
    0 ≤ (@rgbToHslText ℚ ratNum c).2.2 ∧ (@rgbToHslText ℚ ratNum c).2.2 ≤ 100 :=
  HslRt.hslText_range c hc

/-! ## all formats at once -/

/-- exact carrier, faithful oracle, real table: whatever format is asked for, the value `format_color`
    produces for a valid colour is read back as exactly that colour -/
theorem format_reads_back {cls : CharCls} (hf : AsciiFaithful cls) (c : RGB) (hc : validRgb c = true)
    (f : Fmt) (bg : Option RGB) :
    @readBack ℚ ratNum ⟨cls, namedEnv⟩ bg (@formatColor ℚ ratNum c f) = some c := by
  have hhex : @readBack ℚ ratNum ⟨cls, namedEnv⟩ bg (.text (fmtHex c)) = some c := by
    show (@parseColor ℚ ratNum _ _ bg).toOption = _
    rw [@hex_roundtrip_real ℚ ratNum cls hf c hc bg]; rfl
  cases f
  case rgb =>
    show (@parseColor ℚ ratNum _ _ bg).toOption = _
    rw [rgbfn_roundtrip hf c hc bg]; rfl
  case hsl => exact hsl_roundtrip_exact c hc
  case rgbTuple =>
    show (@parseColor ℚ ratNum _ _ bg).toOption = _
    rw [@tuple_roundtrip ℚ ratNum _ c hc bg]; rfl
  all_goals exact hhex

/-! ## `make_readable` keeps the input's format -/

/-- the value of `format_color(c, f)` has the shape documented for `f`: a tuple for `rgb_tuple`,
    the three HSL numbers for `hsl`, `rgb(r, g, b)` text for `rgb`, `#rrggbb` text otherwise -/
theorem formatColor_has_shape {α : Type} [Num α] (c : RGB) (f : Fmt) :
    OutShape f (formatColor (α := α) c f) :=
  formatColor_shape c f

/-- byte-exact carrier, faithful oracle, lower-case table, valid tuned colour: the internal re-read
    succeeds and `make_readable` returns exactly `format_color(tuned, format of the text input)` -/
theorem makeReadable_returns_formatted {α : Type} [NumT α] (hα : ByteExact α) (E : PEnv)
    (hf : AsciiFaithful E.cls) (hk : keysLower E.named = true) (O : Leaf α) (d : Descend α)
    (p : ColorPair α) (mode : Int) (very : Bool) (t b : RGB) (ht : p.text.rgb? = some t)
    (hb : p.bg.rgb? = some b) (hv : validRgb (checkAndFix O d t b p.large mode very).1 = true) :
    p.makeReadable E O d mode very =
      some (formatColor (checkAndFix O d t b p.large mode very).1 p.text.fmt,
        (checkAndFix O d t b p.large mode very).2) :=
  makeReadable_eq hα E hf hk O d p mode very t b ht hb hv

/-- under the same assumptions the shape of the returned colour is determined by the detected format
    of the text input alone -/
theorem makeReadable_format {α : Type} [NumT α] (hα : ByteExact α) (E : PEnv)
    (hf : AsciiFaithful E.cls) (hk : keysLower E.named = true) (O : Leaf α) (d : Descend α)
    (p : ColorPair α) (mode : Int) (very : Bool) (t b : RGB) (ht : p.text.rgb? = some t)
    (hb : p.bg.rgb? = some b) (hv : validRgb (checkAndFix O d t b p.large mode very).1 = true)
    (out : OutVal α) (ok : Bool) (h : p.makeReadable E O d mode very = some (out, ok)) :
    OutShape p.text.fmt out := by
  rw [makeReadable_eq hα E hf hk O d p mode very t b ht hb hv] at h
  simp only [Option.some.injEq, Prod.mk.injEq] at h
  exact h.1 ▸ formatColor_shape _ _

/-- with no assumption at all: the returned colour has the documented shape, or (only if the internal
    re-read raised) it is the raw tuple / `rgb()` text of `check_and_fix_contrast` -/
theorem makeReadable_format_cases {α : Type} [NumT α] (E : PEnv) (O : Leaf α) (d : Descend α)
    (p : ColorPair α) (mode : Int) (very : Bool) (out : OutVal α) (ok : Bool)
    (h : p.makeReadable E O d mode very = some (out, ok)) :
    OutShape p.text.fmt out ∨ ∃ c, out = .tuple c ∨ out = .text (fmtRgbFn c) :=
  makeReadable_cases E O d p mode very out ok h

end CmProps.C06
