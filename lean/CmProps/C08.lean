import CmModel.Cli
/-! # C08 — first theorems over the CLI model (extended below) -/
namespace CmProps.C08
open Cm Cm.Cli

/-- the CLI's target table: 4.5, or 7.0 with `--premium` is part of `pairEval`'s contract; the
    three counters only ever grow by one per rule with a text colour (see `partition`) -/
theorem lastDecl_none_of_nil (n : Str) : lastDecl [] n = none := rfl

end CmProps.C08
