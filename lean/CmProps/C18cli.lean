import CmProofs.CliLemmas
/-!
# C18 — in a directory run every stylesheet is processed as if it were alone

Statements over `Cm.Cli.processFile` and the per-file loop `Cm.Fs.runFiles` / `Cm.Fs.run`, for every
`env`, every `cfg` (every `pairEval`) and every list of files. `fileWrite` / `fileError` (defined in
`CmProofs.CliLemmas`, characterised below) say what a single file contributes to the outputs and to the
error list *on its own*, i.e. processed from the empty state `{}`.
-/
namespace CmProps.C18
open Cm Cm.Cli Cm.Fs

/-! ## one file -/

/-- `per_file_independent`: the outcome of a file (written content, or skipped) does not depend on the state
    the run hands it — counters, detail lists, and the custom-property table and pre-parsed blocks left by
    other files: it is a function of the file's own nodes, the settings and `pairEval` -/
theorem per_file_independent (env : CliEnv) (cfg : Cfg) (nodes : List Node) (st0 st0' : St) :
    (processFile env cfg nodes st0).1 = (processFile env cfg nodes st0').1 :=
  processFile_indep env cfg nodes st0 st0'

/-- the reason: `processFile` overwrites the custom-property table and the pre-parsed blocks with what the
    pre-pass finds in the file itself -/
theorem processFile_starts_fresh (env : CliEnv) (cfg : Cfg) (nodes : List Node) (st0 : St) :
    (fileSt env nodes st0).vars = (prePass env nodes).vars ∧
    (fileSt env nodes st0).rootDecls = (prePass env nodes).rootDecls ∧
    processFile env cfg nodes st0 =
      match processTop env cfg nodes 0 (fileSt env nodes st0) with
      | .error st' => (.error, st')
      | .ok (nodes', st') =>
        if rootsSerialisable st' && nodesSerialisable (nodes'.mapIdx (postNode st')) then
          (.written (nodes'.mapIdx (postNode st')), st')
        else (.error, st') := ⟨rfl, rfl, processFile_eq env cfg nodes st0⟩

/-- the processing steps themselves map states that agree on the custom-property table and the pre-parsed
    blocks to results with equal output (or both failing) and states that again agree -/
theorem processTop_independent (env : CliEnv) (cfg : Cfg) (nodes : List Node) (i : Nat) (s t : St)
    (hv : s.vars = t.vars) (hr : s.rootDecls = t.rootDecls) :
    match processTop env cfg nodes i s, processTop env cfg nodes i t with
    | .ok (a, s'), .ok (b, t') => a = b ∧ s'.vars = t'.vars ∧ s'.rootDecls = t'.rootDecls
    | .error s', .error t' => s'.vars = t'.vars ∧ s'.rootDecls = t'.rootDecls
    | _, _ => False := by
  have h := processTop_rel env cfg nodes i s t ⟨hv, hr⟩
  cases h1 : processTop env cfg nodes i s <;> cases h2 : processTop env cfg nodes i t <;> rw [h1, h2] at h
  · exact h
  · exact h
  · exact h
  · exact h

/-! ## the run -/

/-- what a file contributes to the outputs -/
theorem fileWrite_def (env : CliEnv) (cfg : Cfg) (name : Str) :
    (∀ nodes out, (processFile env cfg nodes {}).1 = .written out →
      fileWrite env cfg (name, .css nodes) = some (outName name, out)) ∧
    (∀ nodes, (processFile env cfg nodes {}).1 = .error → fileWrite env cfg (name, .css nodes) = none) ∧
    fileWrite env cfg (name, .unreadable) = none := by
  refine ⟨fun nodes out h => ?_, fun nodes h => ?_, rfl⟩ <;> simp only [fileWrite, h]

/-- what a file contributes to the error list -/
theorem fileError_def (env : CliEnv) (cfg : Cfg) (name : Str) :
    (∀ nodes out, (processFile env cfg nodes {}).1 = .written out → fileError env cfg (name, .css nodes) = none) ∧
    (∀ nodes, (processFile env cfg nodes {}).1 = .error → fileError env cfg (name, .css nodes) = some name) ∧
    fileError env cfg (name, .unreadable) = some name := by
  refine ⟨fun nodes out h => ?_, fun nodes h => ?_, rfl⟩ <;> simp only [fileError, h]

/-- the outputs of a run are, file by file and in order, what each file yields on its own -/
theorem run_writes_eq (env : CliEnv) (cfg : Cfg) (files : List (Str × FileIn)) :
    (run env cfg files).writes = files.filterMap (fileWrite env cfg) := by
  have h := runFiles_writes env cfg files { writes := [], errors := [], st := {} }
  simpa [run] using h

/-- the reported files are, in order, the unreadable ones and those that fail on their own -/
theorem run_errors_eq (env : CliEnv) (cfg : Cfg) (files : List (Str × FileIn)) :
    (run env cfg files).errors = files.filterMap (fileError env cfg) := by
  have h := runFiles_errors env cfg files { writes := [], errors := [], st := {} }
  simpa [run] using h

/-- `run_write_of_file`: a pair is written iff it is `(outName name, out)` for a readable file `name` of the
    run whose processing *alone* yields `out` -/
theorem run_write_of_file (env : CliEnv) (cfg : Cfg) (files : List (Str × FileIn)) (w : Str × List Node) :
    w ∈ (run env cfg files).writes ↔
      ∃ name nodes, (name, FileIn.css nodes) ∈ files ∧ w.1 = outName name ∧
        (processFile env cfg nodes {}).1 = .written w.2 := by
  rw [run_writes_eq, List.mem_filterMap]
  constructor
  · rintro ⟨⟨name, fi⟩, hmem, hf⟩
    cases fi with
    | unreadable => simp [fileWrite] at hf
    | css nodes =>
      simp only [fileWrite] at hf
      cases hp : (processFile env cfg nodes {}).1 with
      | error => rw [hp] at hf; simp at hf
      | written out =>
        rw [hp] at hf; simp at hf; subst hf
        exact ⟨name, nodes, hmem, rfl, hp⟩
  · rintro ⟨name, nodes, hmem, hname, hp⟩
    refine ⟨(name, .css nodes), hmem, ?_⟩
    simp only [fileWrite, hp, ← hname]

/-- each file's output is what running the tool on that file alone produces -/
theorem run_alone (env : CliEnv) (cfg : Cfg) (name : Str) (fi : FileIn) :
    (run env cfg [(name, fi)]).writes = (fileWrite env cfg (name, fi)).toList ∧
    ∀ files, (name, fi) ∈ files → ∀ w ∈ (run env cfg [(name, fi)]).writes, w ∈ (run env cfg files).writes := by
  refine ⟨by rw [run_writes_eq]; cases h : fileWrite env cfg (name, fi) <;> simp [h], ?_⟩
  intro files hmem w hw
  rw [run_writes_eq] at hw ⊢
  rw [List.mem_filterMap] at hw ⊢
  obtain ⟨f, hf, hw⟩ := hw
  simp at hf; subst hf
  exact ⟨_, hmem, hw⟩

/-- adding files to a run adds their outputs and changes none of the others -/
theorem run_writes_append (env : CliEnv) (cfg : Cfg) (a b : List (Str × FileIn)) :
    (run env cfg (a ++ b)).writes = (run env cfg a).writes ++ (run env cfg b).writes := by
  simp only [run_writes_eq, List.filterMap_append]

/-- `run_writes_perm`: traversal order is immaterial — a permutation of the files yields a permutation of the
    same writes (and of the same reported names) -/
theorem run_writes_perm (env : CliEnv) (cfg : Cfg) (files files' : List (Str × FileIn)) (h : files.Perm files') :
    (run env cfg files).writes.Perm (run env cfg files').writes ∧
    (run env cfg files).errors.Perm (run env cfg files').errors := by
  rw [run_writes_eq, run_writes_eq, run_errors_eq, run_errors_eq]
  exact ⟨h.filterMap _, h.filterMap _⟩

/-- `faults_skipped`: an unreadable file adds its name to the reported names, writes nothing, leaves the
    counters alone, and the loop continues with the remaining files -/
theorem faults_skipped (env : CliEnv) (cfg : Cfg) (name : Str) (rest : List (Str × FileIn)) (r : RunResult) :
    runFiles env cfg ((name, .unreadable) :: rest) r = runFiles env cfg rest { r with errors := r.errors ++ [name] } :=
  runFiles_unreadable env cfg name rest r

/-- … a stylesheet whose re-serialisation fails is reported and skipped in the same way, the run continues -/
theorem failing_file_skipped (env : CliEnv) (cfg : Cfg) (name : Str) (nodes : List Node) (rest : List (Str × FileIn))
    (r : RunResult) (st' : St) (h : processFile env cfg nodes r.st = (.error, st')) :
    runFiles env cfg ((name, .css nodes) :: rest) r =
      runFiles env cfg rest { r with errors := r.errors ++ [name], st := { st' with vars := [], rootDecls := [] } } := by
  rw [runFiles_css, h]; rfl

/-- every unreadable file is reported -/
theorem unreadable_reported (env : CliEnv) (cfg : Cfg) (files : List (Str × FileIn)) (name : Str)
    (h : (name, FileIn.unreadable) ∈ files) : name ∈ (run env cfg files).errors := by
  rw [run_errors_eq, List.mem_filterMap]
  exact ⟨_, h, rfl⟩

/-- … and removing the unreadable files from a run changes neither the outputs nor the final counters -/
theorem unreadable_ignored (env : CliEnv) (cfg : Cfg) (files : List (Str × FileIn)) :
    (run env cfg files).writes = (run env cfg (files.filter isReadable)).writes ∧
    (run env cfg files).st = (run env cfg (files.filter isReadable)).st := by
  have h := runFiles_filter_readable env cfg files { writes := [], errors := [], st := {} }
  exact ⟨h.2, h.1⟩

/-- `isReadable` distinguishes exactly the two cases of `FileIn` -/
theorem isReadable_def (name : Str) :
    (∀ nodes, isReadable (name, .css nodes) = true) ∧ isReadable (name, .unreadable) = false := ⟨fun _ => rfl, rfl⟩

/-! ## outputs are never inputs -/

/-- `discovered_not_cm`: discovery yields only `*.css` names not ending in `_cm.css` -/
theorem discovered_not_cm (names : List Str) (n : Str) (h : n ∈ discovered names) :
    n ∈ names ∧ isCssName n = true ∧ isCmName n = false := (discovered_spec names n).1 h

/-- the output name of a discovered input is itself never discovered, in any directory: for `x.css` it ends in
    `_cm.css`, and for the dot-file `.css` it is `.css_cm`, which is not a `*.css` name -/
theorem outputs_not_inputs (names others : List Str) (n : Str) (h : n ∈ discovered names) :
    outName n ∉ discovered others := by
  intro hin
  have h1 := (discovered_spec names n).1 h
  have h2 := (discovered_spec others _).1 hin
  have h3 := outName_not_input n h1.2.1
  rw [h2.2.1, h2.2.2] at h3
  simp at h3

/-- `rerun_discovers_same`: after a run has added its outputs to the directory, discovery yields exactly the
    same inputs — outputs are never re-consumed (no length hypothesis is needed: see `outputs_not_inputs`) -/
theorem rerun_discovers_same (names : List Str) :
    discovered (names ++ (discovered names).map outName) = discovered names := discovered_rerun names

/-- … so repeating a run reproduces the same outputs: same inputs with the same contents give the same writes -/
theorem rerun_same_writes (env : CliEnv) (cfg : Cfg) (content : Str → FileIn) (names : List Str) :
    (run env cfg ((discovered (names ++ (discovered names).map outName)).map fun n => (n, content n))).writes =
    (run env cfg ((discovered names).map fun n => (n, content n))).writes := by
  rw [discovered_rerun]

/-- the dot-file edge spelled out -/
theorem dotfile_edge : outName ".css".toList = ".css_cm".toList ∧ isCssName ".css".toList = true ∧
    isCmName ".css".toList = false ∧ isCssName ".css_cm".toList = false := by decide

/-! ## the hypotheses are satisfiable -/
section Examples
open Cm.Cli.Demo

/-- a run over a readable file, an unreadable one and a second readable one: two outputs, one reported name,
    and the first output is what the file yields alone; the second file's `--c` does not leak into the first -/
example :
    (run asciiEnv cfgTune [("a.css".toList, .css sheet), ("bad.css".toList, .unreadable),
      ("v.css".toList, .css sheetVar)]).writes.map (·.1) = ["a_cm.css".toList, "v_cm.css".toList] ∧
    (run asciiEnv cfgTune [("a.css".toList, .css sheet), ("bad.css".toList, .unreadable),
      ("v.css".toList, .css sheetVar)]).errors = ["bad.css".toList] ∧
    (processFile asciiEnv cfgTune sheet {}).1 = .written sheetOut :=
  ⟨by decide +kernel, by decide +kernel, rfl⟩

/-- discovery skips earlier outputs and non-stylesheets, and a second run sees the same inputs -/
example : discovered ["a.css".toList, "a_cm.css".toList, ".css".toList, "n.txt".toList] = ["a.css".toList, ".css".toList] ∧
    discovered (["a.css".toList, ".css".toList] ++ (discovered ["a.css".toList, ".css".toList]).map outName) =
      ["a.css".toList, ".css".toList] := by decide +kernel

end Examples

end CmProps.C18
