import CmModel.Html
import CmGen.Templates
/-!
# C19 — reports are injection-safe: user text appears only HTML-escaped

The templates and the per-slot substitution tables are regenerated from the behaviour of the two
report generators on every run (`CmGen/Templates.lean`); the theorems below that mention them are
re-checked by `lake build`.
-/
namespace CmProps.C19
open Cm.Html

/-- characters with a meaning in markup -/
def isMeta (c : Nat) : Bool := c = 60 || c = 62 || c = 34 || c = 39

theorem escapeChar_no_meta (c : Nat) : ∀ x ∈ escapeChar c, isMeta x = false := by
  unfold escapeChar
  split
  · decide
  · split
    · decide
    · split
      · decide
      · split
        · decide
        · split
          · decide
          · intro x hx
            simp only [List.mem_singleton] at hx
            subst hx
            simp_all [isMeta]

/-- no `<`, `>`, `"`, `'` survives escaping -/
theorem escape_no_meta (s : Str) : ∀ x ∈ escape s, isMeta x = false := by
  intro x hx
  unfold escape at hx
  rw [List.mem_flatMap] at hx
  obtain ⟨c, _, hc⟩ := hx
  exact escapeChar_no_meta c x hc

theorem unescape_cons_ne (c : Nat) (h : c ≠ 38) (r : Str) : unescape (c :: r) = c :: unescape r := by
  conv => lhs; unfold unescape
  split <;> rename_i heq <;>
    first
      | (injection heq with h1 _; exact absurd h1 h)
      | (injection heq with h1 h2; subst h1; subst h2; rfl)
      | (cases heq)

theorem unescape_escapeChar (c : Nat) (r : Str) : unescape (escapeChar c ++ r) = c :: unescape r := by
  unfold escapeChar
  split
  · next h => subst h; rfl
  · split
    · next h => subst h; rfl
    · split
      · next h => subst h; rfl
      · split
        · next h => subst h; rfl
        · split
          · next h => subst h; rfl
          · next h1 _ _ _ _ => exact unescape_cons_ne c h1 r

/-- the escaped text displays verbatim: an HTML reader decodes it back to the given string -/
theorem unescape_escape (s : Str) : unescape (escape s) = s := by
  induction s with
  | nil => rfl
  | cons c s ih =>
    show unescape (escapeChar c ++ escape s) = c :: s
    rw [unescape_escapeChar, ih]

/-- a string without metacharacters does not move the tokenizer out of element text or out of a
    double-quoted attribute value, and contributes nothing to the markup -/
theorem run_safe_data (s : Str) (h : ∀ x ∈ s, isMeta x = false) :
    run .data s = .data ∧ skeletonFrom .data s = [] ∧ ∀ r, skeletonFrom .data (s ++ r) = skeletonFrom .data r := by
  induction s with
  | nil => exact ⟨rfl, rfl, fun _ => rfl⟩
  | cons c s ih =>
    have hc : isMeta c = false := h c (by simp)
    have hlt : c ≠ 60 := by intro e; subst e; simp [isMeta] at hc
    have hs := ih (fun x hx => h x (by simp [hx]))
    have hstep : step .data c = .data := by simp [step, hlt]
    have hm : isMarkup .data c = false := by simp [isMarkup, hlt]
    refine ⟨?_, ?_, ?_⟩
    · rw [run_cons, hstep]; exact hs.1
    · show (if isMarkup .data c then _ else skeletonFrom (step .data c) s) = []
      rw [hm, hstep]; exact hs.2.1
    · intro r
      show (if isMarkup .data c then _ else skeletonFrom (step .data c) (s ++ r)) = _
      rw [hm, hstep]; exact hs.2.2 r

theorem run_safe_dq (s : Str) (h : ∀ x ∈ s, isMeta x = false) :
    run .dq s = .dq ∧ ∀ r, skeletonFrom .dq (s ++ r) = skeletonFrom .dq r := by
  induction s with
  | nil => exact ⟨rfl, fun _ => rfl⟩
  | cons c s ih =>
    have hc : isMeta c = false := h c (by simp)
    have hq : c ≠ 34 := by intro e; subst e; simp [isMeta] at hc
    have hs := ih (fun x hx => h x (by simp [hx]))
    have hstep : step .dq c = .dq := by simp [step, hq]
    have hm : isMarkup .dq c = false := by simp [isMarkup, hq]
    refine ⟨?_, ?_⟩
    · rw [run_cons, hstep]; exact hs.1
    · intro r
      show (if isMarkup .dq c then _ else skeletonFrom (step .dq c) (s ++ r)) = _
      rw [hm, hstep]; exact hs.2 r

theorem skeletonFrom_append (st : HState) (a b : Str) :
    skeletonFrom st (a ++ b) = skeletonFrom st a ++ skeletonFrom (run st a) b := by
  induction a generalizing st with
  | nil => rfl
  | cons c a ih =>
    show (if isMarkup st c then c :: skeletonFrom (step st c) (a ++ b) else skeletonFrom (step st c) (a ++ b)) =
      (if isMarkup st c then c :: skeletonFrom (step st c) a else skeletonFrom (step st c) a) ++ skeletonFrom (run st (c :: a)) b
    rw [ih, run_cons]; split <;> simp

theorem run_append (st : HState) (a b : Str) : run st (a ++ b) = run (run st a) b := by
  induction a generalizing st with
  | nil => rfl
  | cons c a ih => show run st (c :: (a ++ b)) = run (run st (c :: a)) b; rw [run_cons, run_cons, ih]

/-- all slots of the remaining template sit in text or in a double-quoted attribute value -/
def safeFrom (st : HState) (t : List Seg) : Bool :=
  (slotStates st t).all fun p => p.2 = .data || p.2 = .dq

/-- **structure theorem**: if every slot of a template sits in element text or inside a double-quoted
    attribute value, then for *any* strings put into the slots — once escaped — the markup of the
    rendered document is the markup of the template alone: no element, attribute or quote of its own. -/
theorem render_structure_from (t : List Seg) (st : HState) (hsafe : safeFrom st t = true)
    (f : String → Str) :
    skeletonFrom st (render t (fun n => escape (f n))) = skeletonFrom st (render t (fun _ => [])) ∧
    run st (render t (fun n => escape (f n))) = run st (render t (fun _ => [])) := by
  induction t generalizing st with
  | nil => exact ⟨rfl, rfl⟩
  | cons seg t ih =>
    cases seg with
    | lit s =>
      have hs : safeFrom (run st s) t = true := by simpa [safeFrom, slotStates_lit] using hsafe
      have := ih (run st s) hs
      show skeletonFrom st (s ++ render t _) = skeletonFrom st (s ++ render t _) ∧
        run st (s ++ render t _) = run st (s ++ render t _)
      rw [skeletonFrom_append, skeletonFrom_append, run_append, run_append]
      exact ⟨by rw [this.1], this.2⟩
    | slot n =>
      have h1 : (st = .data ∨ st = .dq) ∧ safeFrom st t = true := by
        simp only [safeFrom, slotStates, List.all_cons, Bool.and_eq_true, Bool.or_eq_true, decide_eq_true_eq] at hsafe
        exact ⟨hsafe.1, by simpa [safeFrom] using hsafe.2⟩
      have hesc := escape_no_meta (f n)
      have := ih st h1.2
      show skeletonFrom st (escape (f n) ++ render t _) = skeletonFrom st ([] ++ render t _) ∧
        run st (escape (f n) ++ render t _) = run st ([] ++ render t _)
      rcases h1.1 with hd | hq
      · subst hd
        have hr := run_safe_data (escape (f n)) hesc
        rw [hr.2.2, run_append, hr.1]
        exact ⟨this.1, this.2⟩
      · subst hq
        have hr := run_safe_dq (escape (f n)) hesc
        rw [hr.2, run_append, hr.1]
        exact ⟨this.1, this.2⟩

theorem render_structure (t : List Seg) (hsafe : slotsSafe t = true) (f : String → Str) :
    skeleton (render t (fun n => escape (f n))) = skeleton (render t (fun _ => [])) :=
  (render_structure_from t .data hsafe f).1

/-! ### the regenerated templates -/

/-- every user slot of the CLI report sits in element text or a double-quoted attribute value -/
theorem templates_ok_cli : slotsSafe CmGen.cliReport = true := by decide +kernel

/-- … and of the API report (`save_report`) -/
theorem templates_ok_api : slotsSafe CmGen.apiReport = true := by decide +kernel

/-- the substitution observed for a slot and metacharacter is exactly `html.escape`'s -/
def escapesOk (tbl : List (String × Nat × List (List Nat))) (slots : List String) : Bool :=
  slots.all fun s => [38, 60, 62, 34, 39].all fun m =>
    tbl.any fun e => e.1 = s && e.2.1 = m && e.2.2 = [escapeChar m]

/-- every user-controlled slot of the CLI report is escaped (all five metacharacters, every occurrence) -/
theorem slots_escaped_cli : escapesOk CmGen.cliReportEscapes CmGen.cliReportSlots = true := by decide +kernel

/-- … and of the API report -/
theorem slots_escaped_api : escapesOk CmGen.apiReportEscapes CmGen.apiReportSlots = true := by decide +kernel

/-- hence, for both generators and any user strings, the report has the template's markup only -/
theorem cli_report_structure (f : String → Str) :
    skeleton (render CmGen.cliReport (fun n => escape (f n))) = skeleton (render CmGen.cliReport (fun _ => [])) :=
  render_structure _ templates_ok_cli f

theorem api_report_structure (f : String → Str) :
    skeleton (render CmGen.apiReport (fun n => escape (f n))) = skeleton (render CmGen.apiReport (fun _ => [])) :=
  render_structure _ templates_ok_api f

/-- non-vacuity: a hostile selector -/
example : escape (ofString "</div><script>alert('x')</script>") =
    ofString "&lt;/div&gt;&lt;script&gt;alert(&#x27;x&#x27;)&lt;/script&gt;" := by decide +kernel

end CmProps.C19
