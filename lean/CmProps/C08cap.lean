import CmProps.C08cli
import CmProps.C18main
/-!
# C08 — the accounting property, stated about the image of the source

`C08cli.lean` proves `run_partition` for the model's `Cm.Fs.run`; `C18main.lean` proves that the per-file loop of `main`, as
translated from `cli/main.py` on this run, is `Cm.Fs.run` (and `C08rulestop.lean` that the rewriter it calls,
`process_nodes_recursive` as translated, is the model's `processTop`). Hence, about the source as it reads now: the detail
lists have exactly as many entries as the counters say, and the three counters add up to the number of rules that have a
text colour — every such rule is counted in exactly one of the three categories — whenever no file was reported as failing.
-/
namespace CmProps.C08
open Cm Cm.Cli Cm.Fs

theorem source_run_partition (env : CliEnv) (cfg : Cfg) (files : List (Str × FileIn)) :
    let r := CmGen.CliMain.main_run env cfg files
    r.st.failedDetails.length = r.st.failed ∧ r.st.fixedDetails.length = r.st.tuned ∧
    r.st.accessible + r.st.tuned + r.st.failed ≤ (files.map fileCount).sum ∧
    (r.errors = [] → r.st.accessible + r.st.tuned + r.st.failed = (files.map fileCount).sum) := by
  rw [CmProps.C18.source_run]
  exact run_partition env cfg files

end CmProps.C08
