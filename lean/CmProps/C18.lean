import CmModel.Cli
/-! # C18 — first theorems (extended below) -/
namespace CmProps.C18
open Cm Cm.Cli

/-- the pre-pass (custom-property table, pre-parsed blocks) is a function of the file's own nodes -/
theorem prePass_local (env : CliEnv) (nodes : List Node) :
    (prePass env nodes).accessible = 0 ∧ (prePass env nodes).tuned = 0 ∧ (prePass env nodes).failed = 0 := by
  unfold prePass
  suffices h : ∀ (ns : List Node) (i : Nat) (st : St),
      (prePass.go env ns i st).accessible = st.accessible ∧ (prePass.go env ns i st).tuned = st.tuned ∧
      (prePass.go env ns i st).failed = st.failed from h nodes 0 {}
  intro ns
  induction ns with
  | nil => intro i st; simp [prePass.go]
  | cons n ns ih =>
    intro i st
    cases n with
    | rule sel items =>
      simp only [prePass.go]
      split
      · have := ih (i + 1) { st with rootDecls := st.rootDecls ++ [(i, items)], vars := collectVars env i items st.vars }
        simpa using this
      · exact ih (i + 1) st
    | «at» kw pre body => simp only [prePass.go]; exact ih (i + 1) st
    | other t ok => simp only [prePass.go]; exact ih (i + 1) st

end CmProps.C18
