import CmModel.Cli
import CmModel.CliErr
import CmGen.CliRules
/-!
# C08 — the per-rule body and the recursion of `process_nodes_recursive`, as translated from `cli/main.py` on this run, are the model's

`harness/translate/clirules.py` translates, from the syntax tree, `update_decl_value`, the declaration-selection loop, the whole
`isinstance(node, QualifiedRule)` branch (extraction of the raw colours, `var()` resolution, the `try` block with the
classification, the counters and detail records, the write-back to the declaration or to the custom property's definition, the
re-serialisation) and the loop with its `isinstance(node, AtRule)` branch and the nested call, into `CmGen/CliRules.lean`.
Here the images are proved equal to `Cm.Cli.lastDecl`, `Cm.Cli.processRule`, `Cm.Cli.processNode` / `Cm.Cli.processNodes`,
for every character-class oracle `env`, every configuration `cfg` (default background, pair oracle), every state and input.

Abstractions through which the theorems are stated (the translation rules — the trusted part — are in the translator's docstring):
* tinycss2 objects are the model's `Node` / `Item` / `Decl`; a Declaration *object* is its index in the list it was taken from;
  `stats`, `variables`, `rule_declarations` are the fields of one threaded `St`; `top = some i` says the node is the
  stylesheet's i-th top-level node (`rule_declarations.get(id(node))` ↦ `getRoot st i`), `none` a node parsed out of an at-rule.
* Everything `ColorPair(..)`, `.is_valid`, `calculate_contrast_ratio(..) >= (7.0 if premium else 4.5)`, `get_wcag_level(..)`,
  `pair.make_readable(mode=mode, very_readable=premium)` say is the oracle `cfg.pairEval text bg` (C01/C05/C14's subject).
* **`late`**: the code calls `ColorPair(tuned_rgb, bg)` and `get_wcag_level(new_pair…)` *after* `stats["tuned"] += 1` and the
  write-back. Were one of them to raise, the handler would count the rule as failed *too* (tuned + 1, failed + 1, the
  declaration rewritten, no report card). `PairResult` cannot express that (`raised` ⇒ failed only), so the generated
  definitions take a second oracle `late text bg` for "a late pair-logic call raised" and the theorems are stated for
  `late = fun _ _ => false`. `source_late_calls` pins which calls are late.
* An `.error` state is compared through `Cm.Cli.onError` (its `stats` part): when re-serialising raises, the code has already
  written the tuned value through to the shared `:root`/`html` list, the model's `.error st1` has not; nothing reads those
  components after an error. With `top = none` (every nested rule) the equality is plain.
-/
namespace CmProps.C08
open Cm Cm.Cli CmGen.CliRules

local macro "bsimp" : tactic =>
  `(tactic| simp only [↓reduceIte, Bool.false_eq_true, Bool.not_false, Bool.not_true, eq_self, Option.map_none, Option.map_some])

/-- `update_decl_value(decl, v)`: the new value, then the comments the old value contained -/
theorem source_update_decl_value (d : Decl) (v : Str) :
    update_decl_value d v = { d with value := v ++ d.comments } := rfl

/-- the model's `setDeclValue` applies `update_decl_value` (as translated) to the declaration at an index -/
theorem source_update_decl_value_at (items : List Item) (idx : Nat) (v : Str) :
    setDeclValue items idx v =
      items.mapIdx fun i it => if i = idx then (match it with | .decl d => .decl (update_decl_value d v) | o => o) else it := rfl

/-- the loop `for decl in valid_decls:` from any position with any carried pair: two independent "last one wins" scans -/
theorem source_select_loop (items : List Item) (i : Nat) (a b : Option (Nat × Decl)) :
    select_loop items i (a, b) = (lastDecl.go "color".toList items i a, lastDecl.go "background-color".toList items i b) := by
  induction items generalizing i a b with
  | nil => rfl
  | cons it rest ih =>
    cases it with
    | decl d =>
      unfold select_loop lastDecl.go
      have ne1 : ¬ (("color".toList : Str) = "background-color".toList) := by decide
      by_cases h : d.lowerName = "color".toList
      · have h2 : ¬ d.lowerName = "background-color".toList := fun e => ne1 (h.symm.trans e)
        simp only [if_pos h, if_neg h2, ih]
      · by_cases h2 : d.lowerName = "background-color".toList
        · simp only [if_neg h, if_pos h2, ih]
        · simp only [if_neg h, if_neg h2, ih]
    | other t ok =>
      unfold select_loop lastDecl.go
      simp only [ih]

/-- `valid_decls` + the `if decl.lower_name == "color": … elif decl.lower_name == "background-color": …` loop select the last
    declaration of either (lower-cased) name, with its position -/
theorem source_last_declaration (items : List Item) :
    select_loop items 0 (none, none) = (lastDecl items "color".toList, lastDecl items "background-color".toList) := by
  rw [source_select_loop]; rfl

/-- the calls guarded by `late` are the construction of the tuned pair and its WCAG level, nothing else -/
theorem source_late_calls : late_calls = ["ColorPair(tuned, bg)", "get_wcag_level(tuned, bg)"] := by decide

set_option hygiene false in
local macro "rule_script" X:term : tactic => `(tactic| (
  cases h : lastDecl $X "color".toList with
  | none => rfl
  | some p =>
    obtain ⟨ci, cd⟩ := p
    rcases hb : lastDecl $X "background-color".toList with _ | ⟨bi, bd⟩
    all_goals
      simp only []
      generalize cfg.pairEval _ _ = r
      rcases r with ⟨valid, raised, meets, tuned, ok, ol, nl⟩
      cases raised <;> cases valid <;> cases meets <;> cases ok <;> (try bsimp) <;> (try rfl)
      cases hser : itemsSerialisable (setDeclValue $X ci tuned)
      all_goals
        cases hc : containsVar (strip env cd.value)
        · bsimp; try rfl
        · bsimp
          cases hs : searchVarSimple env (strip env cd.value) with
          | none => bsimp; try rfl
          | some name =>
            simp only []
            cases hl : lookupVar st.vars name with
            | none => bsimp; try rfl
            | some d =>
              simp only [Option.map_some]
              unfold setRoot
              simp only []
              cases hg2 : List.find? (fun x => decide (x.1 = d.rule)) st.rootDecls <;> rfl))

/-- the per-rule body on a rule that is not a top-level node (every nested rule): exactly `processRule … none` -/
theorem source_process_rule_nested (env : CliEnv) (cfg : Cfg) (sel : Str) (items : List Item) (st : St) :
    rule_body env cfg (fun _ _ => false) none sel items st = processRule env cfg none sel items st := by
  unfold rule_body processRule
  simp only [source_last_declaration, getRoot]
  rule_script items

/-- the per-rule body, any `top`: the same result and state as `processRule`; when re-serialising raises, the same `stats` -/
theorem source_process_rule (env : CliEnv) (cfg : Cfg) (top : Option Nat) (sel : Str) (items : List Item) (st : St) :
    onError (rule_body env cfg (fun _ _ => false) top sel items st) = onError (processRule env cfg top sel items st) := by
  cases top with
  | none => rw [source_process_rule_nested]
  | some i =>
    unfold rule_body processRule
    rcases hg : getRoot st i with _ | its
    all_goals
      have hg' := hg
      simp only [getRoot] at hg'
      simp only [source_last_declaration, getRoot, hg', Option.map_none, Option.map_some]
    · rule_script items
    · rule_script its

mutual
/-- the loop body on a nested node (`@media` / `@supports` descend, everything else is left alone) is `processNode … none` -/
theorem source_process_node (env : CliEnv) (cfg : Cfg) : (n : Node) → (st : St) →
    process_node env cfg (fun _ _ => false) none st n = processNode env cfg none st n
  | .rule sel items, st => by
    simp only [process_node, processNode, source_process_rule_nested, bind, Except.bind, pure, Except.pure]
    cases processRule env cfg none sel items st <;> rfl
  | .at kw prelude body, st => by
    simp only [process_node, processNode, source_process_nodes env cfg body st, bind, Except.bind, pure, Except.pure, throw, throwThe,
      MonadExceptOf.throw]
    split
    · cases processNodes env cfg st body with
      | error e => rfl
      | ok p =>
        simp only [if_true]
        cases hall : p.1.all (fun n => match n with | .other _ ok => ok | _ => true)
        · bsimp
        · bsimp
    · rfl
  | .other t ok, st => by
    simp only [process_node, processNode, pure, Except.pure]
/-- `process_nodes_recursive` on a nested rule list is `processNodes` -/
theorem source_process_nodes (env : CliEnv) (cfg : Cfg) : (ns : List Node) → (st : St) →
    process_nodes env cfg (fun _ _ => false) st ns = processNodes env cfg st ns
  | [], st => by simp only [process_nodes, processNodes, pure, Except.pure]
  | n :: ns, st => by
    simp only [process_nodes, processNodes, source_process_node env cfg n st, bind, Except.bind, pure, Except.pure]
    cases h : processNode env cfg none st n with
    | error e => rfl
    | ok p =>
      simp only [source_process_nodes env cfg ns p.2]
      cases processNodes env cfg p.2 ns <;> rfl
end

/-- the loop body on a top-level node (`top` = its index when it is one): `processNode`, error states by their `stats` -/
theorem source_process_node_top (env : CliEnv) (cfg : Cfg) (top : Option Nat) (st : St) (n : Node) :
    onError (process_node env cfg (fun _ _ => false) top st n) = onError (processNode env cfg top st n) := by
  cases n with
  | rule sel items =>
    have h := source_process_rule env cfg top sel items st
    simp only [process_node, processNode, bind, Except.bind, pure, Except.pure]
    cases h1 : rule_body env cfg (fun _ _ => false) top sel items st <;>
      cases h2 : processRule env cfg top sel items st <;> simp only [h1, h2, onError] at h ⊢
    · injection h with h; rw [h]
    · cases h
    · cases h
    · injection h with h; rw [h]
  | «at» kw prelude body =>
    have h := source_process_node env cfg (.at kw prelude body) st
    simp only [process_node, processNode] at h ⊢
    rw [h]
  | other t ok => simp only [process_node, processNode, pure, Except.pure]

end CmProps.C08
