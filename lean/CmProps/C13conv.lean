import CmModel.Parser
import CmGen.ConvStr
import CmProps.C07conv
/-!
# C13 — `rgba_to_rgb` and `hsla_to_rgb`, as translated from the source on this run, are the model's

`harness/translate/convstr.py` translates the whole body of `conversions.rgba_to_rgb` (validation of the components, of
the alpha, of the background, then the three blend lines) statement by statement into `CmGen.ConvStr.rgba_to_rgb`.
The model's `rgbaToRgb` takes the already typed arguments `(r g b : Int) (a : α) (bg : RGB)`; the image is over the
4-tuple `(r, g, b, a)` of those and the triple `bg` (the `isinstance` tests of the Python function are decided by this
typing, rule T1 of the translator: an abstraction stated in its docstring). (`C13tie.source_rgba_blend` covers only the
three blend lines, under hypotheses; `source_rgba_to_rgb` here covers the whole function unconditionally.)

`conversions.hsla_to_rgb` is translated twice, once per kind of argument (`hsla_color : Str`, and a 4-sequence of
arbitrary Python values `PyVal α × PyVal α × PyVal α × PyVal α`); `background` is `Option RGB` (`None` or a triple of
ints: the parser passes nothing else). Both images contain the common tail (range check, `hsl_to_rgb((h, s, l))`,
compositing by truncation). The inner call `hsl_to_rgb((h, s, l))` is the *generated* image
`CmGen.ConvStr.hsl_to_rgb_sequence E (.float h, .float s, .float l)` — `C07conv.source_hsl_to_rgb_sequence` turns it into
the model's `hslSeqToRgb`, which on three floats is `hslFinish (h % 360) s l` (`hsl_seq_of_floats`), the form the model's
`hslaFinish` uses. Not reached by either image, hence not covered: the final `else: raise TypeError` of the dispatch and
the `else: raise ValueError` for a background that is not a 3-sequence.
-/
set_option linter.unusedSimpArgs false
namespace CmProps.C13
open Cm Cm.Parse
variable {α : Type} [Num α]

/-- `rgba_to_rgb((r, g, b, a), background)`: the whole function -/
theorem source_rgba_to_rgb (r g b : Int) (a : α) (bg : RGB) :
    CmGen.ConvStr.rgba_to_rgb (r, g, b, a) bg = rgbaToRgb r g b a bg := by
  obtain ⟨x, y, z⟩ := bg
  unfold CmGen.ConvStr.rgba_to_rgb rgbaToRgb validRgb
  simp only [Bool.true_and, Bool.false_or, decide_true, Bool.not_true, Bool.false_eq_true, if_false]
  generalize decide (0 ≤ r) = c1
  generalize decide (r ≤ 255) = c2
  generalize decide (0 ≤ g) = c3
  generalize decide (g ≤ 255) = c4
  generalize decide (0 ≤ b) = c5
  generalize decide (b ≤ 255) = c6
  cases c1 <;> cases c2 <;> cases c3 <;> cases c4 <;> cases c5 <;> cases c6 <;> rfl

private theorem ite_bnot {β : Type} (c : Bool) (a b : β) : (if (!c) = true then a else b) = if c = true then b else a := by
  cases c <;> rfl

private theorem ok_ite {β : Type} (c : Prop) [Decidable c] (a b : β) :
    (if c then (Except.ok a : Except PyErr β) else Except.ok b) = Except.ok (if c then a else b) := by
  split <;> rfl

/-- `hsl_to_rgb((h, s, l))` on three floats, as `hsla_to_rgb` calls it: the hue is reduced, `s` and `l` are validated
    (twice: by `_parse_hsl_percentage_or_decimal(str(·))` and by the range check) and converted -/
private theorem hsl_seq_of_floats (E : PEnv) (h s l : α) :
    hslSeqToRgb E (.float h) (.float s) (.float l) = hslFinish (Num.pmod h (360.0 : α)) s l := by
  unfold hslSeqToRgb hslFinish hslInRange
  simp only [PyVal.strOf, bind, Except.bind, pure, Except.pure, vErr]
  cases hs : (Num.le (0.0 : α) s && Num.le s (1.0 : α)) <;> cases hl : (Num.le (0.0 : α) l && Num.le l (1.0 : α)) <;> simp [hs, hl]

/-- `hsla_to_rgb((h, s, l, a), background)` for a 4-sequence of arbitrary Python values -/
theorem source_hsla_to_rgb_sequence (E : PEnv) (h s l a : PyVal α) (bg : Option RGB) :
    CmGen.ConvStr.hsla_to_rgb_sequence E (h, s, l, a) bg = hslaSeqToRgb E h s l a bg := by
  unfold CmGen.ConvStr.hsla_to_rgb_sequence hslaSeqToRgb hslaFinish
  simp only [CmProps.C07.source_hsl_to_rgb_sequence, hsl_seq_of_floats, decide_true, if_true, ite_bnot, Bool.true_and]
  cases bg <;> rfl

set_option maxHeartbeats 40000 in -- (a mismatch is then reported quickly instead of after a long unfolding of string functions)
/-- `hsla_to_rgb("hsla(…)", background)` -/
theorem source_hsla_to_rgb_string (E : PEnv) (s : Str) (bg : Option RGB) :
    CmGen.ConvStr.hsla_to_rgb_string (α := α) E s bg = hslaStrToRgb (α := α) E s bg := by
  unfold CmGen.ConvStr.hsla_to_rgb_string hslaStrToRgb hslaFinish
  simp only [CmProps.C07.source_hsl_to_rgb_sequence, hsl_seq_of_floats, decide_true, if_true, ite_bnot, Bool.true_and]
  split
  · generalize List.map _ _ = parts
    rcases parts with _ | ⟨p0, _ | ⟨p1, _ | ⟨p2, _ | ⟨p3, _ | ⟨p4, t⟩⟩⟩⟩⟩ <;> try rfl
    simp only []
    cases h0 : PyFloat.parse (α := α) E.cls p0 <;> simp only [bind, Except.bind, pure, Except.pure] <;> try rfl
    cases h3 : PyFloat.parse (α := α) E.cls p3 <;> cases h1 : PyFloat.parse (α := α) E.cls p1 <;> cases h2 : PyFloat.parse (α := α) E.cls p2 <;>
      cases p1.isEmpty <;> cases p2.isEmpty <;> cases bg <;> simp only [h1, h2, h3, if_true, if_false, Bool.false_eq_true, ok_ite] <;> try rfl
  · rfl

end CmProps.C13
