import CmModel.Color
/-!
# C13 — translucent text is judged as it will be seen over its own background
-/
namespace CmProps.C13
open Cm Cm.Parse
variable {α : Type} [NumT α]

/-- `ColorPair` parses the background first and hands *its* colour to the text colour as the
    compositing context — not white, not nothing -/
theorem pair_uses_own_bg (E : PEnv) (text bg : PyVal α) (large : Bool) :
    (ColorPair.new E text bg large).text =
      Color.new E text (some (Color.new E bg none)) ∧
    (ColorPair.new E text bg large).bg = Color.new E bg none := ⟨rfl, rfl⟩

/-- a background is itself parsed without context: a translucent background is composited over
    the default (white) -/
theorem bg_over_white (E : PEnv) (bg : PyVal α) :
    (Color.new E bg none).state =
      (match parseColor E bg none with
       | .ok rgb => ColorState.valid rgb
       | .error .valueError => .invalid
       | .error .typeError => .invalid
       | .error .overflowError => .invalid) := by
  unfold Color.new
  simp only
  split <;> simp_all

/-- a colour built with a valid context colour `c` is parsed against `c`'s rgb -/
theorem color_new_with_ctx (E : PEnv) (v : PyVal α) (c : Color α) (b t : RGB)
    (hb : c.state = .valid b) (ht : parseColor E v (some b) = .ok t) :
    (Color.new E v (some c)).state = .valid t := by
  have hr : c.rgb? = some b := by unfold Color.rgb?; rw [hb]
  unfold Color.new
  simp only [hr, ht]

/-- the text colour's parse receives exactly the background's parsed rgb -/
theorem text_composited_over_bg (E : PEnv) (text bg : PyVal α) (large : Bool) (b : RGB)
    (hb : (Color.new E bg none).state = .valid b) (t : RGB)
    (ht : parseColor E text (some b) = .ok t) :
    (ColorPair.new E text bg large).text.state = .valid t :=
  color_new_with_ctx E text (Color.new E bg none) b t hb ht

/-- the readability query and the fix both receive the composite -/
theorem judged_is_composite (p : ColorPair α) (t b : RGB)
    (ht : p.text.state = .valid t) (hb : p.bg.state = .valid b) :
    p.isReadable = (wcagLevel (α := α) t b p.large).label := by
  unfold ColorPair.isReadable Color.rgb?
  rw [ht, hb]

end CmProps.C13
