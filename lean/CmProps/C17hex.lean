import CmModel.Color
import CmModel.Effects
import CmGen.HexSrc
/-!
# C17 — `Color.to_hex`, as translated from the source on this run, is the model's `fmtHex` on a valid colour

`harness/translate/hexsrc.py` translates the method `Color.to_hex` of `core/colors.py` together with the two properties it
reads (`is_valid`: `self._rgb is not None`; `rgb`: `self._rgb`; rule O1), the guard `if not self.is_valid: return None`,
the unpacking `r, g, b = self.rgb` (rule O2: unpacking `None` would raise `TypeError`) and the f-string
`f"#{r:02x}{g:02x}{b:02x}"` (rule F of translate/convstr.py: `{:02x}` of an int `v` is
`[hexDigit (v.toNat / 16), hexDigit (v.toNat % 16)]`, Python's output for `0 ≤ v ≤ 255`).

The object is abstracted as in translate/api.py: a finished `Color` is the model's `Cm.Color α`, whose `rgb?` is `_rgb`
(`none` = `None`). The strings `to_hex` produces are what `make_readable(show=True)` hands to the console preview
(`previewArgs` in `CmModel/Effects.lean` uses `fmtHex` for them).

`source_color_to_hex` holds for every colour state: the `TypeError` of the unpacking is never reached, an invalid (or
raised) colour gives `None`, a valid one `fmtHex` of its channels. Rule F is Python's `{:02x}` only for channels in
0..255; that every *valid* colour has such channels is the parser's range theorem (`CmProofs/ParseTotal.lean`), so the
corollary `source_color_to_hex_valid` carries `validRgb` as a hypothesis to make the scope of the claim explicit.
-/
namespace CmProps.C17
open Cm Cm.Parse
variable {α : Type}

/-- the property `Color.is_valid` -/
theorem source_color_is_valid_prop (c : Color α) : CmGen.HexSrc.Color_is_valid c = c.isValid := rfl

/-- the property `Color.rgb` -/
theorem source_color_rgb_prop (c : Color α) : CmGen.HexSrc.Color_rgb c = c.rgb? := rfl

/-- `Color.to_hex()`: never raises; `None` for an invalid colour, the model's `fmtHex` otherwise -/
theorem source_color_to_hex (c : Color α) : CmGen.HexSrc.Color_to_hex c = .ok (c.rgb?.map fmtHex) := by
  unfold CmGen.HexSrc.Color_to_hex CmGen.HexSrc.Color_is_valid CmGen.HexSrc.Color_rgb
  cases c.rgb? <;> rfl

/-- a valid colour (channels 0..255, the range on which rule F is Python's `{:02x}`) -/
theorem source_color_to_hex_valid (c : Color α) (rgb : RGB) (h : c.state = .valid rgb) (_hv : validRgb rgb = true) :
    CmGen.HexSrc.Color_to_hex c = .ok (some (fmtHex rgb)) := by
  rw [source_color_to_hex]; unfold Color.rgb?; rw [h]; rfl

/-- an invalid colour (or one whose constructor raised) -/
theorem source_color_to_hex_invalid (c : Color α) (h : c.isValid = false) :
    CmGen.HexSrc.Color_to_hex c = .ok none := by
  rw [source_color_to_hex]
  unfold Color.isValid at h
  cases hr : c.rgb? with
  | none => rfl
  | some r => rw [hr] at h; cases h

end CmProps.C17
