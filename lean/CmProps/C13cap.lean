import CmProps.C13
import CmProps.C14api
import CmProps.C05api
/-!
# C13 — the property, stated about the image of the source

`C13.lean` proves the data flow of the compositing context for the model's `ColorPair.new`; `C14api.lean` proves that the
constructor generated from `colors.py` on this run is that function, `C05api.lean` the same for `is_readable`. Hence, about
the source as it reads now: the pair parses its background first and without context (a translucent background goes over
white), parses the text against that background's colour, and the readability query judges the composite.
-/
namespace CmProps.C13
open Cm Cm.Parse
variable {α : Type} [NumT α]

/-- `ColorPair(text, bg, large)` as translated: the text colour is parsed with the pair's own background as context, the
    background with none -/
theorem source_pair_uses_own_bg (E : PEnv) (text bg : PyVal α) (large : Bool) :
    (CmGen.Api.ColorPair_new (α := α) (Api.ofVal E text) (Api.ofVal E bg) large).text =
      Color.new E text (some (Color.new E bg none)) ∧
    (CmGen.Api.ColorPair_new (α := α) (Api.ofVal E text) (Api.ofVal E bg) large).bg = Color.new E bg none := by
  rw [CmProps.C14.source_color_pair_init]
  exact pair_uses_own_bg E text bg large

/-- … so when the background parses to `b` and the text, composited over `b`, to `t`, the pair's text colour is `t` -/
theorem source_text_composited_over_bg (E : PEnv) (text bg : PyVal α) (large : Bool) (b t : RGB)
    (hb : (Color.new E bg none).state = .valid b) (ht : parseColor E text (some b) = .ok t) :
    (CmGen.Api.ColorPair_new (α := α) (Api.ofVal E text) (Api.ofVal E bg) large).text.state = .valid t := by
  rw [CmProps.C14.source_color_pair_init]
  exact text_composited_over_bg E text bg large b hb t ht

/-- and `is_readable`, as translated, is the label of the WCAG level of that composite against the background -/
theorem source_judged_is_composite (p : ColorPair α) (t b : RGB)
    (ht : p.text.state = .valid t) (hb : p.bg.state = .valid b) :
    CmGen.Api.ColorPair_is_readable p = .ok (wcagLevel (α := α) t b p.large).label := by
  rw [CmProps.C05.source_is_readable, judged_is_composite p t b ht hb]

end CmProps.C13
