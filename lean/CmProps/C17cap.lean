import CmProps.C17
import CmProps.C17api
import CmProps.C17bulk
/-!
# C17 — the property, stated about the image of the source

`C17.lean` proves the effect theorems for the model's `mrEffects` / `bulkEffects`; `C17api.lean` / `C17bulk.lean` prove that
the effect lists generated from `colors.py` / `cm_colors.py` on this run are those functions. Hence, about the source as
it reads now: without `show` and `save_report` nothing is printed or written; a file is written only when `save_report` is
set, and then it is the documented report.
-/
namespace CmProps.C17
open Cm Cm.Parse
variable {α : Type} [NumT α]

/-- `make_readable(mode, very_readable)` without the switches: no effect at all -/
theorem source_silent_default (E : PEnv) (O : Leaf α) (d : Descend α) (cond : Nat → Bool) (p : ColorPair α)
    (mode : Int) (very : Bool) :
    Prod.snd <$> CmGen.Api.ColorPair_make_readable E O d cond p mode very false false = .ok [] := by
  rw [source_make_readable_effects, silent_default]

/-- whatever the switches, the only file `make_readable` writes is the documented quick report -/
theorem source_writes_documented (E : PEnv) (O : Leaf α) (d : Descend α) (cond : Nat → Bool) (p : ColorPair α)
    (mode : Int) (very s r : Bool) (fx : List Effect) (f : String)
    (h : Prod.snd <$> CmGen.Api.ColorPair_make_readable E O d cond p mode very s r = .ok fx)
    (hf : Effect.write f ∈ fx) : f = "cm_colors_quick_report.html" := by
  rw [source_make_readable_effects] at h
  cases h
  exact writes_documented _ s r f hf

/-- and nothing is written unless `save_report` is set -/
theorem source_write_only_if_asked (E : PEnv) (O : Leaf α) (d : Descend α) (cond : Nat → Bool) (p : ColorPair α)
    (mode : Int) (very s : Bool) (fx : List Effect) (f : String)
    (h : Prod.snd <$> CmGen.Api.ColorPair_make_readable E O d cond p mode very s false = .ok fx) :
    Effect.write f ∉ fx := by
  rw [source_make_readable_effects] at h
  cases h
  exact write_only_if_asked _ s f

end CmProps.C17
