import CmModel.ApiVocab
import CmGen.Api
import CmProofs.SourceApi
/-!
# C17 — the effects of `make_readable` (for `make_readable_bulk` see `C17bulk.lean`), as translated from the source on this run, are the model's

In the images (`CmGen/Api.lean`, `harness/translate/api.py`) every `print(...)` / `to_console(...)` appends `Effect.stdout`
and every `to_html_bulk(..., output_path=LIT)` appends `Effect.write LIT` to a list, in program order, under the tests
that guard them in the source. A test that only chooses *between* effects and looks at data (the "colours are already
accessible" comparison) is the uninterpreted `cond k`; the theorems hold for every `cond`: both of its branches print
exactly once, which is the model's single `stdout`. The file names are generated from the string literals.
-/
namespace CmProps.C17
open Cm Cm.Parse Cm.SourceApi
variable {α : Type} [NumT α]
set_option linter.unusedSimpArgs false

/-- `ColorPair.make_readable(mode, very_readable, show, save_report)`: what is printed and written, in order -/
theorem source_make_readable_effects (E : PEnv) (O : Leaf α) (d : Descend α) (cond : Nat → Bool) (p : ColorPair α)
    (mode : Int) (very show_ save : Bool) :
    Prod.snd <$> CmGen.Api.ColorPair_make_readable E O d cond p mode very show_ save =
      .ok (mrEffects p.isValid show_ save) := by
  unfold CmGen.Api.ColorPair_make_readable ColorPair.isValid Color.isValid CmGen.Api.ColorPair_is_valid
    CmGen.Api.Color_is_valid
  cases p.text.rgb? with
  | none => rfl
  | some t =>
    cases p.bg.rgb? with
    | none => rfl
    | some b =>
      dsimp only [Api.withRgb]
      cases show_ <;> cases save <;> simp [mrEffects, Functor.map, Except.map]

end CmProps.C17
