import CmProps.C14
import CmProps.C12
import CmProofs.ParseTotal
/-!
# C14 — invalid colour input is reported, never raised (totality theorems)

"Constructing `Color` or `ColorPair` from any string, or from any list or tuple (of any length) of
numbers, numeric or arbitrary strings, `None` or booleans, never raises: the object is either valid
with an rgb of three ints in 0..255, or invalid with a non-empty error message and rgb `None`. On an
invalid pair `is_readable` is 'Not Readable', `make_readable` returns `(None, False)`, and the bulk
API reports that entry as invalid and carries on with the rest."

* §1–§2, §4–§5 hold for **every** carrier (`[Num α]` / `[NumT α]`, no laws), every environment
  `E : PEnv` (any Unicode oracle, any keyword table), every `PyVal α` (nested lists/tuples of any
  length included) and every background.
* §3 (the valid state carries 8-bit channels): for every carrier the explicitly validated branches
  (`parseColor_ok_cases`, `seq3_valid_or_hsl`, `parseStr_valid_or_kernel`, `hex_valid`); for the
  exact rational carrier `ratNum` all branches (`parse_ok_valid`). At an abstract carrier
  `Num.roundHE` / `Num.trunc` / `Num.floor` may return any integer, so validity of the HSL and
  compositing outputs is not a theorem there; at `Float` it rests on the trusted-base assumption that
  floating-point rounding of a value in `[0, 255]` stays in `[0, 255]`.
* the model's `.invalid` state *is* "`_error` set to a non-empty message, `rgb` is `None`"
  (`CmModel/Color.lean`); the message text itself is not modelled.
-/
namespace CmProps.C14
open Cm Cm.Parse Cm.ParseTotal

/-! ## 1. the parser raises `ValueError` or `TypeError` only -/
section errors
variable {α : Type} [Num α]

/-- `parse_color_to_rgb` raises `ValueError` or `TypeError` only, whatever it is given.
    No model function produces `OverflowError`: in CPython it arises from `float(n)` for an `int`
    beyond the double range, and such integers are outside the modelled input domain. -/
theorem parseColor_errors (E : PEnv) (v : PyVal α) (bg : Option RGB) (e : PyErr)
    (h : parseColor E v bg = .error e) : e = .valueError ∨ e = .typeError :=
  Cm.ParseTotal.parseColor_errors E v bg e h

/-! the per-function lemmas, in plain form -/

theorem hexToRgb_errors (E : PEnv) (s : Str) (e : PyErr) (h : hexToRgb E s = .error e) :
    e = .valueError := Cm.ParseTotal.hexToRgb_errors E s e h
theorem rangeToken_errors (v : α) (c : Bool) (e : PyErr) (h : rangeToken v c = .error e) :
    e = .valueError := Cm.ParseTotal.rangeToken_errors v c e h
theorem numberToken_errors (E : PEnv) (t : Str) (c : Bool) (e : PyErr)
    (h : numberToken (α := α) E t c = .error e) : e = .valueError :=
  Cm.ParseTotal.numberToken_errors E t c e h
theorem numberTokenOfVal_errors (E : PEnv) (v : PyVal α) (c : Bool) (e : PyErr)
    (h : numberTokenOfVal E v c = .error e) : e = .valueError :=
  Cm.ParseTotal.numberTokenOfVal_errors E v c e h
theorem pctOrDec_errors (E : PEnv) (s : Str) (e : PyErr) (h : pctOrDec (α := α) E s = .error e) :
    e = .valueError := Cm.ParseTotal.pctOrDec_errors E s e h
theorem parseHue_errors (E : PEnv) (s : Str) (e : PyErr) (h : parseHue (α := α) E s = .error e) :
    e = .valueError := Cm.ParseTotal.parseHue_errors E s e h
theorem hslFinish_errors (h s l : α) (e : PyErr) (he : hslFinish h s l = .error e) :
    e = .valueError := Cm.ParseTotal.hslFinish_errors h s l e he
theorem hslStrToRgb_errors (E : PEnv) (s : Str) (e : PyErr)
    (h : hslStrToRgb (α := α) E s = .error e) : e = .valueError :=
  Cm.ParseTotal.hslStrToRgb_errors E s e h
theorem hslSeqToRgb_errors (E : PEnv) (h s l : PyVal α) (e : PyErr)
    (he : hslSeqToRgb E h s l = .error e) : e = .valueError :=
  Cm.ParseTotal.hslSeqToRgb_errors E h s l e he
theorem hslaFinish_errors (h s l a : α) (bg : Option RGB) (e : PyErr)
    (he : hslaFinish h s l a bg = .error e) : e = .valueError :=
  Cm.ParseTotal.hslaFinish_errors h s l a bg e he
theorem hslaStrToRgb_errors (E : PEnv) (s : Str) (bg : Option RGB) (e : PyErr)
    (h : hslaStrToRgb (α := α) E s bg = .error e) : e = .valueError :=
  Cm.ParseTotal.hslaStrToRgb_errors E s bg e h
/-- `float(v)`: `TypeError` for `None` and containers, `ValueError` for text `float()` rejects -/
theorem toFloat_errors (cls : CharCls) (v : PyVal α) (e : PyErr) (h : v.toFloat cls = .error e) :
    e = .valueError ∨ e = .typeError := Cm.ParseTotal.toFloat_errors cls v e h
/-- the only source of `TypeError`: `hsla_to_rgb` applied to a 4-sequence calls `float()` on each
    element -/
theorem hslaSeqToRgb_errors (E : PEnv) (h s l a : PyVal α) (bg : Option RGB) (e : PyErr)
    (he : hslaSeqToRgb E h s l a bg = .error e) : e = .valueError ∨ e = .typeError :=
  Cm.ParseTotal.hslaSeqToRgb_errors E h s l a bg e he
theorem rgbaToRgb_errors (r g b : Int) (a : α) (bg : RGB) (e : PyErr)
    (h : rgbaToRgb r g b a bg = .error e) : e = .valueError :=
  Cm.ParseTotal.rgbaToRgb_errors r g b a bg e h
theorem rgbComponent_errors (E : PEnv) (c : PyVal α) (e : PyErr)
    (h : rgbComponent E c = .error e) : e = .valueError :=
  Cm.ParseTotal.rgbComponent_errors E c e h
theorem bgParsed_errors (bg : Option RGB) (e : PyErr) (h : bgParsed bg = .error e) :
    e = .valueError := Cm.ParseTotal.bgParsed_errors bg e h
theorem parseStr_errors (E : PEnv) (s : Str) (bg : Option RGB) (e : PyErr)
    (h : parseStr (α := α) E s bg = .error e) : e = .valueError :=
  Cm.ParseTotal.parseStr_errors E s bg e h

/-! ## 2. `Color(...)` never raises -/

/-- the background triple `Color.__init__` hands to the parser: the context colour's `rgb` -/
def ctxBg (ctx : Option (Color α)) : Option RGB :=
  match ctx with | some c => c.rgb? | none => none

theorem new_of_ok (E : PEnv) (v : PyVal α) (ctx : Option (Color α)) (c : RGB)
    (h : parseColor E v (ctxBg ctx) = .ok c) :
    Color.new E v ctx = { fmt := detectFormat E v, state := .valid c } := by
  cases ctx <;> (unfold Color.new; simp only [ctxBg] at h ⊢; rw [h])

theorem new_of_error (E : PEnv) (v : PyVal α) (ctx : Option (Color α)) (e : PyErr)
    (h : parseColor E v (ctxBg ctx) = .error e) :
    Color.new E v ctx = { fmt := detectFormat E v, state := .invalid } := by
  rcases parseColor_errors _ _ _ _ h with rfl | rfl <;>
    cases ctx <;> (unfold Color.new; simp only [ctxBg] at h ⊢; rw [h])

/-- the constructor never lets an exception escape -/
theorem color_total (E : PEnv) (v : PyVal α) (ctx : Option (Color α)) (e : PyErr) :
    (Color.new E v ctx).state ≠ .raised e := by
  cases hq : parseColor E v (ctxBg ctx) with
  | ok c => rw [new_of_ok E v ctx c hq]; simp
  | error e' => rw [new_of_error E v ctx e' hq]; simp

/-! ## 4. the two states -/

/-- a constructed `Color` is valid with `rgb = c` (the parser's result), or invalid with
    `rgb = None` (the parser raised) -/
theorem color_states (E : PEnv) (v : PyVal α) (ctx : Option (Color α)) :
    (∃ c, (Color.new E v ctx).state = .valid c ∧ (Color.new E v ctx).rgb? = some c ∧
        (Color.new E v ctx).isValid = true ∧ parseColor E v (ctxBg ctx) = .ok c) ∨
    ((Color.new E v ctx).state = .invalid ∧ (Color.new E v ctx).rgb? = none ∧
        (Color.new E v ctx).isValid = false ∧ ∃ e, parseColor E v (ctxBg ctx) = .error e) := by
  cases hq : parseColor E v (ctxBg ctx) with
  | ok c => rw [new_of_ok E v ctx c hq]; exact Or.inl ⟨c, rfl, rfl, rfl, rfl⟩
  | error e' => rw [new_of_error E v ctx e' hq]; exact Or.inr ⟨rfl, rfl, rfl, _, rfl⟩

omit [Num α] in
/-- `is_valid` ⇔ the state is `valid` (for any `Color` object) -/
theorem isValid_iff (c : Color α) : c.isValid = true ↔ ∃ rgb, c.state = .valid rgb := by
  unfold Color.isValid Color.rgb?
  cases c.state <;> simp

omit [Num α] in
/-- `rgb` is a triple exactly on valid objects, `None` otherwise -/
theorem rgb_none_iff (c : Color α) : c.rgb? = none ↔ c.isValid = false := by
  unfold Color.isValid
  cases c.rgb? <;> simp

end errors

/-! ## 3. a valid object carries 8-bit channels -/
section valid
variable {α : Type} [Num α]

/-- **every carrier**: a successful parse was validated explicitly (first disjunct: keywords, hex
    notations, 3-sequences and three-number strings, all through `is_valid_rgb`), or is the output
    of `hsl_to_rgb` on a hue reduced mod 360, of `hsla_to_rgb`, or of `rgba_to_rgb` -/
theorem parseColor_ok_cases (E : PEnv) (v : PyVal α) (bg : Option RGB) (c : RGB)
    (h : parseColor E v bg = .ok c) :
    validRgb c = true ∨
    (∃ x s l : α, hslFinish (Num.pmod x (360.0 : α)) s l = .ok c) ∨
    (∃ h s l a : α, hslaFinish h s l a bg = .ok c) ∨
    (∃ (r g b : Int) (a : α) (k : RGB), rgbaToRgb r g b a k = .ok c) :=
  Cm.ParseTotal.parseColor_ok_cases E v bg c h

/-- **every carrier**: `hex_to_rgb` yields 8-bit channels -/
theorem hex_valid (E : PEnv) (s : Str) (c : RGB) (h : hexToRgb E s = .ok c) : validRgb c = true :=
  hexToRgb_valid E s c h

/-- **every carrier**: a 3-tuple / 3-list result is valid unless it came from `hsl_to_rgb` -/
theorem seq3_valid_or_hsl (E : PEnv) (r g b : PyVal α) (bg : Option RGB) (c : RGB) :
    (parseColor E (.tuple [r, g, b]) bg = .ok c → validRgb c = true ∨ hslSeqToRgb E r g b = .ok c) ∧
    (parseColor E (.list [r, g, b]) bg = .ok c → validRgb c = true ∨ hslSeqToRgb E r g b = .ok c) :=
  ⟨(seq3_ok_cases E r g b bg).1 c, (seq3_ok_cases E r g b bg).2 c⟩

/-- **every carrier**: a parsed string is valid (keyword, hex, three numeric tokens — e.g. every
    `rgb(r, g, b)`) unless it starts with `hsla(` / `hsl(` or carries four or more numeric tokens -/
theorem parseStr_valid_or_kernel (E : PEnv) (s : Str) (bg : Option RGB) (c : RGB)
    (h : parseStr (α := α) E s bg = .ok c) :
    validRgb c = true ∨
    (Str.startsWith (Str.lower E.cls (Str.strip E.cls s)) "hsla(".toList = true ∧
      hslaStrToRgb (α := α) E (Str.strip E.cls s) bg = .ok c) ∨
    (Str.startsWith (Str.lower E.cls (Str.strip E.cls s)) "hsl(".toList = true ∧
      hslStrToRgb (α := α) E (Str.strip E.cls s) = .ok c) ∨
    (4 ≤ (NumRe.findAll E.cls (Str.lower E.cls (Str.strip E.cls s))).length ∧
      ∃ (r g b : Int) (a : α) (k : RGB), rgbaToRgb r g b a k = .ok c) :=
  parseStr_ok_cases E s bg c h

/-- **every carrier**: a string with fewer than four numeric tokens that is not an `hsl(`/`hsla(`
    function parses to a valid colour or not at all -/
theorem parseStr_valid_of_few_tokens (E : PEnv) (s : Str) (bg : Option RGB) (c : RGB)
    (h : parseStr (α := α) E s bg = .ok c)
    (hh : Str.startsWith (Str.lower E.cls (Str.strip E.cls s)) "hsl".toList = false)
    (hn : (NumRe.findAll E.cls (Str.lower E.cls (Str.strip E.cls s))).length < 4) :
    validRgb c = true := by
  have pre : ∀ (t p q : Str), Str.startsWith t (p ++ q) = true → Str.startsWith t p = true := by
    intro t p q hpq
    unfold Str.startsWith at *
    rw [List.isPrefixOf_iff_prefix] at *
    exact (List.prefix_append p q).trans hpq
  rcases parseStr_valid_or_kernel E s bg c h with h | ⟨h, -⟩ | ⟨h, -⟩ | ⟨h, -⟩
  · exact h
  · have := pre _ "hsl".toList "a(".toList h; rw [hh] at this; cases this
  · have := pre _ "hsl".toList "(".toList h; rw [hh] at this; cases this
  · omega

/-- **exact carrier**: every successful parse over a valid (or absent) background is a valid
    colour: three integers in `0..255` -/
theorem parse_ok_valid (E : PEnv) (v : PyVal ℚ) (bg : Option RGB)
    (hbg : ∀ b, bg = some b → validRgb b = true) (c : RGB)
    (h : @parseColor ℚ ratNum E v bg = .ok c) : validRgb c = true :=
  kernel_valid_Q bg hbg c (@Cm.ParseTotal.parseColor_ok_cases ℚ ratNum E v bg c h)

/-- **exact carrier**: a valid `Color` built without context, or in the context of a `Color` with
    valid channels, has valid channels -/
theorem color_valid_rgb (E : PEnv) (v : PyVal ℚ) (ctx : Option (Color ℚ))
    (hctx : ∀ k b, ctx = some k → k.rgb? = some b → validRgb b = true) (c : RGB)
    (h : (@Color.new ℚ ratNum E v ctx).rgb? = some c) : validRgb c = true := by
  rcases @color_states ℚ ratNum E v ctx with ⟨c', -, h2, -, hp⟩ | ⟨-, h2, -⟩
  · rw [h2] at h
    cases h
    refine parse_ok_valid E v _ ?_ c hp
    intro b hb
    cases ctx with
    | none => cases hb
    | some k => exact hctx k b rfl hb
  · rw [h2] at h; cases h

/-- **exact carrier**: both colours of a `ColorPair(text, bg)` (background parsed first and handed
    to the text colour as compositing context) have valid channels whenever they are valid -/
theorem pair_valid_rgb (E : PEnv) (t b : PyVal ℚ) (c : RGB) :
    ((@Color.new ℚ ratNum E b none).rgb? = some c → validRgb c = true) ∧
    ((@Color.new ℚ ratNum E t (some (@Color.new ℚ ratNum E b none))).rgb? = some c →
      validRgb c = true) := by
  have hb : ∀ c, (@Color.new ℚ ratNum E b none).rgb? = some c → validRgb c = true :=
    fun c => color_valid_rgb E b none (fun _ _ h => by cases h) c
  refine ⟨hb c, color_valid_rgb E t _ ?_ c⟩
  intro k b' hk hb'
  cases hk
  exact hb b' hb'

end valid

/-! ## 5. invalid pairs, and the bulk API -/
section pair
variable {α : Type} [NumT α]

/-- `ColorPair(...)` never raises -/
theorem pair_total (E : PEnv) (t b : PyVal α) (large : Bool) (e : PyErr) :
    (ColorPair.new E t b large).text.state ≠ .raised e ∧
    (ColorPair.new E t b large).bg.state ≠ .raised e := by
  simp only [ColorPair.new]
  exact ⟨color_total E t _ e, color_total E b none e⟩

/-- on an invalid pair (any `ColorPair` object, in particular a constructed one) `is_readable` is
    'Not Readable' and `make_readable` returns `(None, False)`, whatever the oracle, descent, mode
    and setting -/
theorem pair_invalid_behaviour (p : ColorPair α) (h : p.isValid = false) :
    p.isReadable = "Not Readable" ∧
    ∀ (E : PEnv) (O : Leaf α) (d : Descend α) (mode : Int) (very : Bool),
      p.makeReadable E O d mode very = none := by
  unfold ColorPair.isValid Color.isValid at h
  unfold ColorPair.isReadable ColorPair.makeReadable
  cases ht : p.text.rgb? with
  | none => exact ⟨rfl, fun _ _ _ _ _ => rfl⟩
  | some t =>
    cases hb : p.bg.rgb? with
    | none => exact ⟨rfl, fun _ _ _ _ _ => rfl⟩
    | some b => rw [ht, hb] at h; cases h

/-- the same, spelled for a constructed pair -/
theorem pair_new_invalid_behaviour (E : PEnv) (t b : PyVal α) (large : Bool)
    (h : (ColorPair.new E t b large).isValid = false) :
    (ColorPair.new E t b large).isReadable = "Not Readable" ∧
    ∀ (O : Leaf α) (d : Descend α) (mode : Int) (very : Bool),
      (ColorPair.new E t b large).makeReadable E O d mode very = none :=
  ⟨(pair_invalid_behaviour _ h).1, fun O d mode very => (pair_invalid_behaviour _ h).2 E O d mode very⟩

/-- a pair is invalid as soon as one of its two inputs fails to parse -/
theorem pair_invalid_iff (E : PEnv) (t b : PyVal α) (large : Bool) :
    (ColorPair.new E t b large).isValid = false ↔
      (ColorPair.new E t b large).text.state = .invalid ∨
      (ColorPair.new E t b large).bg.state = .invalid := by
  unfold ColorPair.isValid
  rw [Bool.and_eq_false_iff]
  have key : ∀ (v : PyVal α) (ctx : Option (Color α)),
      (Color.new E v ctx).isValid = false ↔ (Color.new E v ctx).state = .invalid := by
    intro v ctx
    rcases color_states E v ctx with ⟨c, h1, -, h3, -⟩ | ⟨h1, -, h3, -⟩
    · rw [h1, h3]; simp
    · rw [h1, h3]; simp
  unfold ColorPair.new
  simp only [key]

/-- the bulk loop body on an entry whose pair is invalid: the entry's own colour, status
    `"invalid color"` -/
theorem bulk_entry_invalid (E : PEnv) (O : Leaf α) (d : Descend α) (mode : Int) (very : Bool)
    (it : BulkItem α) (h : (ColorPair.new E it.text it.bg it.large).isValid = false) :
    Bulk.entry E O d mode very it = { colour := .original, status := "invalid color" } := by
  unfold Bulk.entry
  simp [h]

/-- the bulk API reports an invalid entry as such and carries on with the rest: the entries before
    and after it are processed exactly as they would be on their own -/
theorem bulk_carries_on (E : PEnv) (O : Leaf α) (d : Descend α) (mode : Int) (very : Bool)
    (xs ys : List (BulkItem α)) (bad : BulkItem α)
    (h : (ColorPair.new E bad.text bad.bg bad.large).isValid = false) :
    Bulk.run E O d mode very (xs ++ [bad] ++ ys) =
      Bulk.run E O d mode very xs ++ [{ colour := .original, status := "invalid color" }] ++
        Bulk.run E O d mode very ys := by
  simp only [CmProps.C12.bulk_eq_map, List.map_append, List.map_cons, List.map_nil,
    bulk_entry_invalid E O d mode very bad h]

/-- … and never stops early: one result per entry, however many entries are invalid -/
theorem bulk_total (E : PEnv) (O : Leaf α) (d : Descend α) (mode : Int) (very : Bool)
    (items : List (BulkItem α)) :
    (Bulk.run E O d mode very items).length = items.length :=
  CmProps.C12.bulk_length E O d mode very items

end pair

/-! ## 6. non-vacuity: both error classes occur, and end up as `invalid` -/
section examples

/-- the environment of the examples: ASCII classes, no keywords -/
def exEnv : PEnv := ⟨asciiCls, []⟩

/-- `(0.5, 0.5, 0.5, None)`: routed to `hsla_to_rgb`, whose `float(None)` raises `TypeError` … -/
theorem ex_none_typeError : @parseColor ℚ ratNum exEnv
    (.tuple [.float (1/2 : ℚ), .float (1/2 : ℚ), .float (1/2 : ℚ), .none]) none = .error .typeError := by
  decide +kernel

/-- … which `Color(...)` records as an invalid colour -/
theorem ex_none_invalid : (@Color.new ℚ ratNum exEnv
    (.tuple [.float (1/2 : ℚ), .float (1/2 : ℚ), .float (1/2 : ℚ), .none]) none).state = .invalid := by
  decide +kernel

/-- a 5-tuple: `ValueError` … -/
theorem ex_five_valueError : @parseColor ℚ ratNum exEnv
    (.tuple [.int 1, .int 2, .int 3, .int 4, .int 5]) none = .error .valueError := by
  decide +kernel

/-- … likewise invalid -/
theorem ex_five_invalid : (@Color.new ℚ ratNum exEnv
    (.tuple [.int 1, .int 2, .int 3, .int 4, .int 5]) none).state = .invalid := by
  decide +kernel

/-- arbitrary text, and a string where a number is expected: invalid, not raised -/
theorem ex_text_invalid :
    (@Color.new ℚ ratNum exEnv (.str "no such colour".toList) none).state = .invalid ∧
    (@Color.new ℚ ratNum exEnv (.tuple [.str "x".toList, .int 0, .bool true]) none).state = .invalid := by
  decide +kernel

/-- the valid side is inhabited too -/
theorem ex_valid :
    (@Color.new ℚ ratNum exEnv (.tuple [.int 255, .str "50%".toList, .bool true]) none).state =
      .valid (255, 128, 1) := by
  decide +kernel

/-- the hypothesis of `parse_ok_valid` on the background is needed: `hsla_to_rgb` composites over
    whatever triple it is handed without validating it (the RGBA paths do validate, `bgParsed`).
    `Color` only ever passes the `rgb` of an already constructed `Color`, which is valid
    (`pair_valid_rgb`). -/
theorem ex_bg_hypothesis_needed : @parseColor ℚ ratNum exEnv
    (.tuple [.float (0 : ℚ), .float (0 : ℚ), .float (0 : ℚ), .float (1/2 : ℚ)]) (some (1000, 0, 0)) =
      .ok (500, 0, 0) := by
  decide +kernel

end examples

end CmProps.C14
