import CmModel.Parser
import CmGen.ParserSrc
import CmProofs.ParseTotal
/-!
# C07 — the string branch of `parse_color_to_rgb`, as translated from the source on this run, is the model's `parseStr`

The body of the top-level `if isinstance(color, str):` statement of `parse_color_to_rgb` (named colours, hex with and
without `#`, `hsl()`/`hsla()`, `rgb()`/`rgba()` and the informal comma / blank separated forms) is translated statement
by statement (`harness/translate/parsersrc.py` → `CmGen.ParserSrc.parse_color_string`) and proved equal to
`Cm.Parse.parseStr`, for every carrier, every character-class oracle and every keyword table. So the order of the
dispatch tests, the prefixes, the two regular expressions, which of `s` / `s_lower` each test and each callee reads, the
token-count tests, the clamping and the handling of the background cannot change without this theorem failing to build.

**Background abstraction.** `Color._parse` calls `parse_color_to_rgb(value, background=…)` with `background` either
`None` or the already parsed `(r, g, b)` of the background colour; in the image `background : Option RGB`. The
translator turns `background is None` into `background.isNone`, `isinstance(background, (tuple, list))` into
`background.isSome`, `len(background)` into `3`, `tuple(background)` into `background`, and the recursive call
`parse_color_to_rgb(background)` into the model's `bgParsed background` (re-validation of the triple; white for `None`).
Backgrounds of any other Python type (a string, a list of floats, …) are not covered by this theorem.

The callees (`hex_to_rgb`, `hsl_to_rgb`, `hsla_to_rgb`, `rgba_to_rgb`, `is_valid_rgb`, `_extract_number_tokens`,
`_parse_number_token`) are the model's functions by name; `_parse_number_token` is tied in `C07tie`.
The handler `except ValueError` is translated as written (it catches `ValueError` and nothing else); the model maps every
error of the component block to `ValueError`, which is the same because `numberToken` raises nothing else
(`Cm.ParseTotal.numberToken_errors`). Subscripts `tokens[i]` and `CSS_NAMED_COLORS[s_lower]` are translated to total
look-ups only under a dominating length / membership test (checked by the translator).
-/
namespace CmProps.C07
open Cm Cm.Parse Cm.ParseTotal
variable {α : Type} [Num α]

/-- `parse_color_to_rgb(color, background)` for a `str` colour and a background that is `None` or a parsed triple -/
theorem source_parse_color_string (E : PEnv) (color : Str) (background : Option RGB) :
    CmGen.ParserSrc.parse_color_string (α := α) E color background = parseStr (α := α) E color background := by
  unfold CmGen.ParserSrc.parse_color_string parseStr
  simp only []
  generalize Str.strip E.cls color = s
  generalize Str.lower E.cls s = sl
  have e1 : "#".toList = ['#'] := rfl
  have e2 : "(".toList = ['('] := rfl
  have hT := numberToken_errors (α := α) E
  cases hn : lookupNamed E sl with
  | some hex => simp
  | none =>
    simp only [Option.isSome_none, Bool.false_eq_true, if_false, e1, e2]
    cases h1 : Str.startsWith sl ['#'] <;> cases h2 : isBareHex sl <;>
      simp only [Bool.or_false, Bool.or_true, Bool.false_eq_true, if_false, if_true, Bool.not_false, Bool.not_true,
        List.singleton_append]
    cases h3 : Str.startsWith sl "hsla(".toList <;> cases h4 : Str.startsWith sl "hsl(".toList <;>
      simp only [Bool.or_false, Bool.or_true, Bool.false_eq_true, if_false, if_true]
    · -- rgb(), rgba() and the informal forms
      split
      · generalize NumRe.findAll E.cls sl = tokens
        rcases tokens with _ | ⟨t0, _ | ⟨t1, _ | ⟨t2, _ | ⟨t3, tl⟩⟩⟩⟩
        · simp
        · simp
        · simp
        · -- three tokens
          simp [-bind_pure_comp]
          split
          · rename_i heq
            simp only [heq, clamp255]
            split
            · rename_i hv; simp [hv]
            · rename_i hv; simp [hv]; rfl
          · rename_i heq; simp only [heq]
          · rename_i e hne heq
            refine absurd ((?_ : ErrIn OnlyV _) e heq) hne
            errin
        · -- four or more
          simp [-bind_pure_comp]
          split
          · rename_i heq
            simp only [heq]
            cases background
            · rfl
            · simp
          · rename_i heq; simp only [heq]
          · rename_i e hne heq
            refine absurd ((?_ : ErrIn OnlyV _) e heq) hne
            errin
      · rfl
    · cases background <;> simp
    · cases background <;> simp

end CmProps.C07
