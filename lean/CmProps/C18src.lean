import CmProofs.CliLemmas
import CmGen.CliSrc
/-!
# C18 — file discovery of `cli/main.py`, as translated from the source on this run

`get_css_files` (regenerated into `CmGen/CliSrc.lean` by `harness/translate/clisrc.py`): in directory mode the entries
yielded are exactly the model's `discovered` (names ending in `.css` that do not end in `_cm.css`), about which
`discovered_not_cm`, `outputs_not_inputs`, `rerun_discovers_same` are proved; a single file is taken only if its
`pathlib` suffix is `.css`, which makes it a `.css` name, so the output-name theorems apply to it.
-/
namespace CmProps.C18
open Cm Cm.Cli Cm.Fs

/-- directory mode: `rglob("*.css")` minus names ending in `_cm.css` is the model's discovery -/
theorem source_get_css_files_dir (names : List Str) : CmGen.CliSrc.get_css_files_dir names = discovered names := by
  unfold CmGen.CliSrc.get_css_files_dir discovered isCssName isCmName
  rw [List.filter_filter]
  congr 1
  funext n
  exact Bool.and_comm _ _

private theorem endsWith_drop (name : Str) (i : Nat) : endsWith name (name.drop i) = true := by
  unfold endsWith
  rw [List.isPrefixOf_iff_prefix]
  conv => rhs; rw [← List.take_append_drop i name]
  rw [List.reverse_append]
  exact List.prefix_append _ _

/-- single-file mode: a path is taken only if its name ends in `.css` -/
theorem source_get_css_files_file (name : Str) (h : CmGen.CliSrc.get_css_files_file name = true) :
    isCssName name = true := by
  unfold CmGen.CliSrc.get_css_files_file at h
  have h2 : (stemSuffix name).2 = ".css".toList := of_decide_eq_true h
  unfold stemSuffix at h2
  unfold isCssName
  split at h2
  · split at h2
    · simp only at h2
      rw [← h2]
      exact endsWith_drop name _
    · simp at h2
  · simp at h2

end CmProps.C18
