import CmProps.C16api
import CmProps.C06api
/-!
# C16 — the property, stated about the image of the source

`C16api.lean` transferred to `make_readable` as translated from `colors.py` on this run.
-/
namespace CmProps.C16
open Cm Cm.Parse Cm.FmtRt CmProps.C01

/-- whenever mode 1 succeeds, mode 2 returns the identical value with success -/
theorem source_mode2_of_mode1 {α : Type} [NumT α] (hα : ByteExact α) (E : PEnv)
    (hf : AsciiFaithful E.cls) (hk : keysLower E.named = true) (O : Leaf α) (d : Descend α) (cond : Nat → Bool)
    (p : ColorPair α) (very s r s' r' : Bool) (t b : RGB) (ht : p.text.rgb? = some t) (hb : p.bg.rgb? = some b)
    (hv : validRgb (checkAndFix O d t b p.large 1 very).1 = true)
    (hs : (checkAndFix O d t b p.large 1 very).2 = true) :
    Prod.fst <$> CmGen.Api.ColorPair_make_readable E O d cond p 2 very s r =
      Prod.fst <$> CmGen.Api.ColorPair_make_readable E O d cond p 1 very s' r' := by
  rw [CmProps.C06.source_make_readable_result, CmProps.C06.source_make_readable_result,
    makeReadable_mode2_of_mode1 hα E hf hk O d p very t b ht hb hv hs]

/-- whenever the very-readable request succeeds, the ordinary request for the same pair, mode and size succeeds -/
theorem source_ordinary_of_very {α : Type} [NumT α] [LawfulNumOrd α] [LawfulLit α]
    (hα : ByteExact α) (E : PEnv) (hf : AsciiFaithful E.cls) (hk : keysLower E.named = true)
    (O : Leaf α) (d : Descend α) (cond : Nat → Bool) (p : ColorPair α) (mode : Int) (s r s' r' : Bool) (t b : RGB)
    (ht : p.text.rgb? = some t) (hb : p.bg.rgb? = some b)
    (hv1 : validRgb (checkAndFix O d t b p.large mode true).1 = true)
    (hv0 : validRgb (checkAndFix O d t b p.large mode false).1 = true)
    (out : OutVal α)
    (h : Prod.fst <$> CmGen.Api.ColorPair_make_readable E O d cond p mode true s r = .ok (some out, true)) :
    ∃ out', Prod.fst <$> CmGen.Api.ColorPair_make_readable E O d cond p mode false s' r' = .ok (some out', true) := by
  rw [CmProps.C06.source_make_readable_result] at h
  have hm : p.makeReadable E O d mode true = some (out, true) := by
    cases hq : p.makeReadable E O d mode true with
    | none => rw [hq] at h; simp [CmProps.C06.asPython] at h
    | some v =>
      rw [hq] at h
      obtain ⟨o, k⟩ := v
      simp only [CmProps.C06.asPython, Except.ok.injEq, Prod.mk.injEq, Option.some.injEq] at h
      rw [h.1, h.2]
  obtain ⟨out', h'⟩ := makeReadable_ordinary_of_very hα E hf hk O d p mode t b ht hb hv1 hv0 out hm
  refine ⟨out', ?_⟩
  rw [CmProps.C06.source_make_readable_result, h']
  rfl

end CmProps.C16
