import CmProps.C12
import CmProps.C12api
/-!
# C12 — the property, stated about the image of the source

`C12.lean` proves `Bulk.run = map Bulk.entry` for the model's fold; `C12api.lean` proves that the loop generated from
`cm_colors.py` on this run returns `Bulk.run`, entry by entry. Hence the bulk function, as the source reads now, returns
one result per entry, in order, each computed from that entry alone.
-/
namespace CmProps.C12
open Cm Cm.Parse
variable {α : Type} [NumT α]

/-- `make_readable_bulk`, as translated from the source, is a map of the per-entry function, in order -/
theorem source_bulk_is_map (E : PEnv) (O : Leaf α) (d : Descend α) (cond : Nat → Bool) (mode : Int)
    (very save : Bool) (items : List (BulkItem α)) :
    Prod.fst <$> CmGen.Api.make_readable_bulk E O d cond (items.map Api.rawItem) mode very save =
      .ok (List.zipWith Api.reify items (items.map (Bulk.entry E O d mode very))) := by
  rw [source_make_readable_bulk, bulk_eq_map]

end CmProps.C12
