import CmModel.Oklch
import CmGen.Leaves
/-!
# C10 — the OKLCH conversions of `conversions.py`, as translated on this run, are the model's
-/
namespace CmProps.C10
open Cm
variable {α : Type} [NumT α]

theorem source_linear_to_srgb (c : α) : CmGen.Leaves.linear_to_srgb c = linearToSrgb c := rfl
theorem source_safe_cbrt (x : α) : CmGen.Leaves.rgb_to_oklch__safe_cbrt x = safeCbrt x := rfl
theorem source_safe_cube (x : α) : CmGen.Leaves.oklch_to_rgb__safe_cube x = safeCube x := rfl
theorem source_hue_angle (a b : α) : CmGen.Leaves.calculate_hue_angle a b = hueAngle a b := rfl
theorem source_rgb_to_oklch (c : RGB) : CmGen.Leaves.rgb_to_oklch (α := α) c = rgbToOklch c := rfl
theorem source_oklch_to_rgb (t : α × α × α) : CmGen.Leaves.oklch_to_rgb t = oklchToRgb t := rfl

/-- `is_valid_oklch`: the source's chain of early returns is the model's conjunction -/
theorem source_is_valid_oklch (t : α × α × α) : CmGen.Leaves.is_valid_oklch t = validOklch t := by
  obtain ⟨L, C, H⟩ := t
  simp only [CmGen.Leaves.is_valid_oklch, validOklch]
  cases Num.le (0.0 : α) L <;> cases Num.le L (1.0 : α) <;> cases Num.lt C (0.0 : α) <;>
    cases Num.le (0.0 : α) H <;> cases Num.le H (360.0 : α) <;> rfl

/-- `is_valid_rgb` -/
theorem source_is_valid_rgb (c : RGB) : CmGen.Leaves.is_valid_rgb c = validRgb c := by
  simp only [CmGen.Leaves.is_valid_rgb, validRgb, Bool.and_assoc]

/-- `rgb_to_oklch_safe`: validation, conversion, validation, and the grey fallback of its handler (an explicit `raise`
    continues with the handler; exceptions raised inside the conversion are not modelled) -/
theorem source_rgb_to_oklch_safe (c : RGB) : CmGen.Leaves.rgb_to_oklch_safe (α := α) c = rgbToOklchSafe c := by
  obtain ⟨r, g, b⟩ := c
  simp only [CmGen.Leaves.rgb_to_oklch_safe, rgbToOklchSafe, source_is_valid_rgb, source_rgb_to_oklch, source_is_valid_oklch]

/-- `oklch_to_rgb_safe` -/
theorem source_oklch_to_rgb_safe (t : α × α × α) : CmGen.Leaves.oklch_to_rgb_safe t = oklchToRgbSafe t := by
  obtain ⟨L, C, H⟩ := t
  simp only [CmGen.Leaves.oklch_to_rgb_safe, oklchToRgbSafe, source_is_valid_rgb, source_oklch_to_rgb, source_is_valid_oklch]

end CmProps.C10
