import CmProps.C14total
import CmProps.C14api
import CmProps.C07whole
/-!
# C14 — the property, stated about the image of the source

The totality theorems of `C14total.lean` are about the model's `Color.new` / `ColorPair.new`; `C14api.lean` proves that
the definitions generated from `colors.py` on this run *are* those functions (once the colour argument is digested into
its `detect` / `parse` view, `Api.ofVal`), and `C07whole.lean` that the definition generated from `color_parser.py` is the
model's parser. Put together: the constructor, as the source reads now, lets no exception escape, for every value of the
modelled domain, every background context and every character-class oracle.
-/
namespace CmProps.C14
open Cm Cm.Parse
variable {α : Type} [NumT α]

/-- `Color(value, background_context)` as translated from the source never ends in the `raised` state -/
theorem source_color_never_raises (E : PEnv) (v : PyVal α) (ctx : Option (Color α)) (e : PyErr) :
    (CmGen.Api.Color_new (α := α) (Api.ofVal E v) ctx).state ≠ .raised e := by
  rw [source_color_parse]
  exact color_total E v ctx e

/-- … nor does either colour of `ColorPair(text, bg, large)` -/
theorem source_pair_never_raises (E : PEnv) (t b : PyVal α) (large : Bool) (e : PyErr) :
    (CmGen.Api.ColorPair_new (α := α) (Api.ofVal E t) (Api.ofVal E b) large).text.state ≠ .raised e ∧
    (CmGen.Api.ColorPair_new (α := α) (Api.ofVal E t) (Api.ofVal E b) large).bg.state ≠ .raised e := by
  rw [source_color_pair_init]
  refine ⟨?_, ?_⟩
  · show (Color.new E t (some (Color.new E b none))).state ≠ .raised e
    exact color_total E t (some (Color.new E b none)) e
  · show (Color.new E b none).state ≠ .raised e
    exact color_total E b none e

/-- the parser, as translated from the source (string branch, sequence branch and dispatch together), raises nothing but
    `ValueError` and `TypeError` -/
theorem source_parser_errors (E : PEnv) (v : PyVal α) (bg : Option RGB) (e : PyErr)
    (h : CmGen.ParserSeq.parse_color_to_rgb (CmGen.ParserSrc.parse_color_string (α := α) E) E v bg = .error e) :
    e = .valueError ∨ e = .typeError := by
  rw [CmProps.C07.source_parse_color_to_rgb] at h
  exact parseColor_errors E v bg e h

end CmProps.C14
