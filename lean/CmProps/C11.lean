import CmProofs.ColorReal
/-!
# C11 — CIE L*a*b* and CIEDE2000 at the real-number carrier

All statements are about the *model* (`Cm.deltaE2000Lab`, `Cm.deltaE2000`, `Cm.xyzToLab`,
`Cm.rgbToLab`) instantiated at `Cm.realNum`. The sub-terms named in `dE_safe_*` / `dE_radicand_*`
(`Cm.SLR`, `Cm.SCR`, `Cm.SHR`, `Cm.RTR`, `Cm.CmP`, `Cm.radicand`, …, in `CmProofs/ColorReal.lean`)
are tied to the model by `dE_eq_sqrt_radicand`.
-/
namespace CmProps.C11
open Cm Real

/-- CIEDE2000 on Lab triples, model at ℝ -/
noncomputable abbrev dE (p q : ℝ × ℝ × ℝ) : ℝ := @Cm.deltaE2000Lab ℝ Cm.realNum p q
/-- CIEDE2000 on RGB triples, model at ℝ -/
noncomputable abbrev dErgb (c1 c2 : RGB) : ℝ := @Cm.deltaE2000 ℝ Cm.realNum c1 c2

/-- the tie between the model and the named sub-terms: `radicand` unfolds (by definition) to
`(ΔL'/S_L)² + (ΔC'/S_C)² + (ΔH'/S_H)² + R_T (ΔC'/S_C)(ΔH'/S_H)` with
`S_L = SLR (LmP p q)`, `S_C = SCR (CmP p q)`, `S_H = SHR (CmP p q) (HmP p q)`,
`R_T = RTR (CmP p q) (HmP p q)` -/
theorem dE_eq_sqrt_radicand (p q : ℝ × ℝ × ℝ) : dE p q = √(radicand p q) :=
  deltaE2000Lab_real p q

theorem radicand_unfold (p q : ℝ × ℝ × ℝ) :
    radicand p q =
      (dLP p q / SLR (LmP p q)) ^ 2 + (dCP p q / SCR (CmP p q)) ^ 2
        + (dHP p q / SHR (CmP p q) (HmP p q)) ^ 2
        + RTR (CmP p q) (HmP p q) * (dCP p q / SCR (CmP p q)) * (dHP p q / SHR (CmP p q) (HmP p q)) :=
  rfl

/-! ## 1. symmetry -/

/-- the hue-difference branch is antisymmetric under swapping both pairs of arguments -/
theorem dhPrime_anti (C1 C2 h1 h2 : ℝ) :
    @dhPrime ℝ realNum C2 C1 h2 h1 = -(@dhPrime ℝ realNum C1 C2 h1 h2) := by
  rw [dhPrime_real, dhPrime_real, dhpR_anti]

/-- the hue-mean branch is symmetric -/
theorem hMeanPrime_symm (C1 C2 h1 h2 : ℝ) :
    @hMeanPrime ℝ realNum C2 C1 h2 h1 = @hMeanPrime ℝ realNum C1 C2 h1 h2 := by
  rw [hMeanPrime_real, hMeanPrime_real, hmR_symm]

theorem dE_symm (p q : ℝ × ℝ × ℝ) : dE p q = dE q p := by
  rw [dE_eq_sqrt_radicand, dE_eq_sqrt_radicand, radicand_comm]

/-! ## 2. non-negativity -/

theorem dE_nonneg (p q : ℝ × ℝ × ℝ) : 0 ≤ dE p q := by
  rw [dE_eq_sqrt_radicand]; exact Real.sqrt_nonneg _

/-! ## 3. the square root is meaningful -/

/-- algebraic core -/
theorem quad_form_nonneg (x y r : ℝ) (hr : |r| ≤ 2) : 0 ≤ x ^ 2 + y ^ 2 + r * x * y :=
  quad_nonneg x y r hr

/-- `0 ≤ R_C ≤ 2` -/
theorem RC_range (p q : ℝ × ℝ × ℝ) : 0 ≤ RCR (CmP p q) ∧ RCR (CmP p q) ≤ 2 :=
  ⟨RCR_nonneg _, RCR_le_two (CmP_nonneg p q)⟩

/-- `|R_T| ≤ 2` -/
theorem abs_RT_le_two (p q : ℝ × ℝ × ℝ) : |RTR (CmP p q) (HmP p q)| ≤ 2 :=
  abs_RTR_le_two (CmP_nonneg p q) _

/-- the expression under the final square root is non-negative -/
theorem dE_radicand_nonneg (p q : ℝ × ℝ × ℝ) : 0 ≤ radicand p q := radicand_nonneg p q

/-- hence the result squared *is* the radicand (no truncation by `√` of a negative number) -/
theorem dE_sq (p q : ℝ × ℝ × ℝ) : dE p q ^ 2 = radicand p q := by
  rw [dE_eq_sqrt_radicand, Real.sq_sqrt (radicand_nonneg p q)]

/-! ## 4. RGB level -/

theorem dE_lab_self (p : ℝ × ℝ × ℝ) : dE p p = 0 := by
  rw [dE_eq_sqrt_radicand, radicand_self, Real.sqrt_zero]

theorem dE_rgb_self (c : RGB) : dErgb c c = 0 := by
  show @Cm.deltaE2000 ℝ Cm.realNum c c = 0
  unfold deltaE2000
  rw [if_pos rfl, real_sci]
  norm_num

theorem dE_rgb_symm (c1 c2 : RGB) : dErgb c1 c2 = dErgb c2 c1 := by
  show @Cm.deltaE2000 ℝ Cm.realNum c1 c2 = @Cm.deltaE2000 ℝ Cm.realNum c2 c1
  unfold deltaE2000
  by_cases h : c1 = c2
  · rw [if_pos h, if_pos h.symm]
  · rw [if_neg h, if_neg (fun h' => h h'.symm)]
    exact dE_symm _ _

theorem dE_rgb_nonneg (c1 c2 : RGB) : 0 ≤ dErgb c1 c2 := by
  show 0 ≤ @Cm.deltaE2000 ℝ Cm.realNum c1 c2
  unfold deltaE2000
  by_cases h : c1 = c2
  · rw [if_pos h, real_sci]; norm_num
  · rw [if_neg h]; exact dE_nonneg _ _

/-- the early return of `calculate_delta_e_2000` agrees with the formula: the formula itself
gives 0 on identical colours -/
theorem dE_rgb_eq_lab (c1 c2 : RGB) :
    dErgb c1 c2 = dE (@rgbToLab ℝ realNum c1) (@rgbToLab ℝ realNum c2) := by
  show @Cm.deltaE2000 ℝ Cm.realNum c1 c2 = _
  unfold deltaE2000
  by_cases h : c1 = c2
  · subst h; rw [if_pos rfl, dE_lab_self, real_sci]; norm_num
  · rw [if_neg h]

/-! ## 5. every divisor is safe -/

/-- `C̄ ≥ 0`, `C̄' ≥ 0` (means of square roots) -/
theorem dE_safe_Cbar_nonneg (p q : ℝ × ℝ × ℝ) :
    0 ≤ (chroma p.2.1 p.2.2 + chroma q.2.1 q.2.2) / 2 ∧ 0 ≤ CmP p q := by
  refine ⟨?_, CmP_nonneg p q⟩
  have := chroma_nonneg p.2.1 p.2.2
  have := chroma_nonneg q.2.1 q.2.2
  linarith

/-- divisor of `G`: `C̄^7 + 25^7 > 0` -/
theorem dE_safe_G_den (p q : ℝ × ℝ × ℝ) :
    0 < ((chroma p.2.1 p.2.2 + chroma q.2.1 q.2.2) / 2) ^ 7 + 25 ^ 7 :=
  pow7_add_pos (dE_safe_Cbar_nonneg p q).1

/-- divisor of `R_C`: `C̄'^7 + 25^7 > 0` -/
theorem dE_safe_RC_den (p q : ℝ × ℝ × ℝ) : 0 < CmP p q ^ 7 + 25 ^ 7 :=
  pow7_add_pos (CmP_nonneg p q)

/-- divisor inside `S_L`: `20 + (L̄ − 50)² > 0` (and so is its square root) -/
theorem dE_safe_SL_den (p q : ℝ × ℝ × ℝ) :
    0 < 20 + (LmP p q - 50) ^ 2 ∧ 0 < √(20 + (LmP p q - 50) ^ 2) :=
  ⟨SL_den_pos _, Real.sqrt_pos.2 (SL_den_pos _)⟩

theorem dE_safe_SL (p q : ℝ × ℝ × ℝ) : 1 ≤ SLR (LmP p q) := SLR_ge_one _
theorem dE_safe_SC (p q : ℝ × ℝ × ℝ) : 1 ≤ SCR (CmP p q) := SCR_ge_one (CmP_nonneg p q)
/-- `T ∈ [0.07, 1.93]`, in particular `T > 0` -/
theorem dE_safe_T (p q : ℝ × ℝ × ℝ) : 0.07 ≤ TR (HmP p q) ∧ TR (HmP p q) ≤ 1.93 :=
  ⟨TR_lower _, TR_upper _⟩
theorem dE_safe_SH (p q : ℝ × ℝ × ℝ) : 1 ≤ SHR (CmP p q) (HmP p q) :=
  SHR_ge_one (CmP_nonneg p q) _

/-- all divisors of the formula at once -/
theorem dE_safe (p q : ℝ × ℝ × ℝ) :
    0 < ((chroma p.2.1 p.2.2 + chroma q.2.1 q.2.2) / 2) ^ 7 + 25 ^ 7 ∧
    0 < CmP p q ^ 7 + 25 ^ 7 ∧
    0 < √(20 + (LmP p q - 50) ^ 2) ∧
    1 ≤ SLR (LmP p q) ∧ 1 ≤ SCR (CmP p q) ∧ 1 ≤ SHR (CmP p q) (HmP p q) :=
  ⟨dE_safe_G_den p q, dE_safe_RC_den p q, (dE_safe_SL_den p q).2, dE_safe_SL p q, dE_safe_SC p q,
    dE_safe_SH p q⟩

/-! ## 6. `L*` is clamped to `[0, 100]` -/

theorem lab_L_range (xyz : ℝ × ℝ × ℝ) :
    0 ≤ (@xyzToLab ℝ realNum xyz).1 ∧ (@xyzToLab ℝ realNum xyz).1 ≤ 100 := by
  obtain ⟨x, y, z⟩ := xyz
  unfold xyzToLab
  simp only [real_pmax, real_pmin, real_sci]
  constructor
  · exact le_trans (by norm_num) (le_max_left _ _)
  · exact max_le (by norm_num) (le_trans (min_le_left _ _) (by norm_num))

theorem rgb_lab_L_range (c : RGB) :
    0 ≤ (@rgbToLab ℝ realNum c).1 ∧ (@rgbToLab ℝ realNum c).1 ≤ 100 :=
  lab_L_range _

/-! ## satisfiability of the hypothesis used above -/
example : ∃ r : ℝ, |r| ≤ 2 := ⟨0, by norm_num⟩
/-- `dE_rgb_nonneg` is not vacuous and not trivially `0`-only: `p ≠ q` is a satisfiable case of
the non-early-return branch -/
example : ((0, 0, 0) : RGB) ≠ (255, 255, 255) := by decide

end CmProps.C11
