import Lean
/-! `#audit_ns Foo.Bar` prints, for every theorem whose name starts with `Foo.Bar`, the axioms it
    depends on: one line `THEOREM <name> | <axiom> <axiom> …`. -/
open Lean Elab Command

def auditSkip (n : Name) : Bool :=
  n.isInternal || n.components.any fun c =>
    let s := c.toString
    s.startsWith "_" || s.startsWith "eq_" || s.startsWith "match_" ||
      ["brecOn", "below", "rec", "recOn", "casesOn", "noConfusion", "noConfusionType", "ind",
       "binductionOn", "sizeOf_spec", "injEq", "inj", "induct", "induct_unfolding", "fun_cases",
       "fun_cases_unfolding", "ctorIdx", "ctorElim", "ctorElimType"].contains s

elab "#audit_ns " ns:ident : command => do
  let env ← getEnv
  let pre := ns.getId
  let mut names : Array Name := #[]
  for (n, ci) in env.constants.toList do
    if pre.isPrefixOf n && !auditSkip n then
      match ci with
      | .thmInfo _ => names := names.push n
      | _ => pure ()
  let sorted := names.qsort (fun a b => a.toString < b.toString)
  for n in sorted do
    let axs ← liftCoreM (collectAxioms n)
    let axs := axs.qsort (fun a b => a.toString < b.toString)
    logInfo m!"THEOREM {n} | {" ".intercalate (axs.toList.map toString)}"
