import CmProofs.SearchWithin
import CmProofs.Schedules
/-!
# Helper lemmas for C03: what the searches *do* find

* a ghost trace of the lightness bisection (`bsLoopTrace`) and three loop invariants over the set of
  probed lightnesses (`BSRec`, `BSSeen`, `BSMax`);
* specifications of `absorb` / `earlyTerm` / `genStep` / `genLoop` that say which colour wins;
* the bracketing lemma of the bisection under explicit monotonicity hypotheses.

Nothing here assumes anything about the leaf oracles except where a hypothesis says so.
-/
set_option linter.unusedSectionVars false
set_option linter.unusedVariables false
namespace Cm
variable {α : Type} [Num α]

/-! ## Vocabulary for one call of the lightness search -/

/-- the lightness probed by the next iteration -/
def bsMid (s : BS α) : α := (s.low + s.high) / (2.0 : α)

section line
variable (O : Leaf α) (t bg : RGB) (thr target c h : α)

/-- the candidate on the text's chroma/hue line at lightness `L` -/
def candAt (L : α) : RGB := O.ofOklch (L, c, h)
/-- its CIEDE2000 distance from the text -/
def dAt (L : α) : α := O.deltaE t (O.ofOklch (L, c, h))
/-- its contrast against the background -/
def kAt (L : α) : α := O.contrast (O.ofOklch (L, c, h)) bg
/-- `A L`: the candidate is a valid colour within the tolerance -/
def Acc (L : α) : Prop :=
  O.validRgb (O.ofOklch (L, c, h)) = true ∧ Num.gt (O.deltaE t (O.ofOklch (L, c, h))) thr = false
/-- `T L`: the candidate meets the target -/
def Meets (L : α) : Prop := Num.ge (O.contrast (O.ofOklch (L, c, h)) bg) target = true

theorem Acc_iff_inTol (L : α) : Acc O t thr c h L ↔ InTol O t thr (candAt O c h L) := Iff.rfl

/-- the bookkeeping fields did not change -/
def SameRec (s s' : BS α) : Prop := s'.best = s.best ∧ s'.bestDE = s.bestDE ∧ s'.bestC = s.bestC
/-- the bookkeeping fields now describe the probe at `m` -/
def RecordedAt (s' : BS α) (m : α) : Prop :=
  s'.best = some (candAt O c h m) ∧ s'.bestDE = dAt O t c h m ∧ s'.bestC = kAt O bg c h m

/-- the five ways one iteration can treat its probe (no order law needed) -/
theorem bsStep_cases (up : Bool) (s : BS α) :
    (¬ Acc O t thr c h (bsMid s) ∧ SameRec s (bsStep O t bg thr target c h up s)) ∨
    (Acc O t thr c h (bsMid s) ∧ Meets O bg target c h (bsMid s) ∧
      (Num.lt s.bestC target || Num.lt (dAt O t c h (bsMid s)) s.bestDE) = true ∧
      RecordedAt O t bg c h (bsStep O t bg thr target c h up s) (bsMid s)) ∨
    (Acc O t thr c h (bsMid s) ∧ Meets O bg target c h (bsMid s) ∧
      (Num.lt s.bestC target || Num.lt (dAt O t c h (bsMid s)) s.bestDE) = false ∧
      SameRec s (bsStep O t bg thr target c h up s)) ∨
    (Acc O t thr c h (bsMid s) ∧ ¬ Meets O bg target c h (bsMid s) ∧
      Num.gt (kAt O bg c h (bsMid s)) s.bestC = true ∧
      RecordedAt O t bg c h (bsStep O t bg thr target c h up s) (bsMid s)) ∨
    (Acc O t thr c h (bsMid s) ∧ ¬ Meets O bg target c h (bsMid s) ∧
      Num.gt (kAt O bg c h (bsMid s)) s.bestC = false ∧
      SameRec s (bsStep O t bg thr target c h up s)) := by
  unfold Acc Meets SameRec RecordedAt candAt dAt kAt bsMid bsStep
  simp only []
  generalize (s.low + s.high) / (2.0 : α) = m
  generalize O.ofOklch (m, c, h) = cd
  cases hv : O.validRgb cd
  · cases up <;> simp
  · cases hd : Num.gt (O.deltaE t cd) thr
    · cases hk : Num.ge (O.contrast cd bg) target
      · cases hg : Num.gt (O.contrast cd bg) s.bestC <;> cases up <;> simp
      · cases hc : (Num.lt s.bestC target || Num.lt (O.deltaE t cd) s.bestDE) <;> cases up <;> simp
    · cases up <;> simp

/-- how one iteration moves the interval: away from the text exactly on an in-tolerance probe
    that is below the target, towards the text otherwise -/
theorem bsStep_interval (up : Bool) (s : BS α) :
    ((Acc O t thr c h (bsMid s) ∧ ¬ Meets O bg target c h (bsMid s)) →
      (bsStep O t bg thr target c h up s).low = (if up then bsMid s else s.low) ∧
      (bsStep O t bg thr target c h up s).high = (if up then s.high else bsMid s)) ∧
    (¬ (Acc O t thr c h (bsMid s) ∧ ¬ Meets O bg target c h (bsMid s)) →
      (bsStep O t bg thr target c h up s).low = (if up then s.low else bsMid s) ∧
      (bsStep O t bg thr target c h up s).high = (if up then bsMid s else s.high)) := by
  unfold Acc Meets bsMid bsStep
  simp only []
  generalize (s.low + s.high) / (2.0 : α) = m
  generalize O.ofOklch (m, c, h) = cd
  cases hv : O.validRgb cd
  · cases up <;> simp
  · cases hd : Num.gt (O.deltaE t cd) thr
    · cases hk : Num.ge (O.contrast cd bg) target
      · cases hg : Num.gt (O.contrast cd bg) s.bestC <;> cases up <;> simp
      · cases hc : (Num.lt s.bestC target || Num.lt (O.deltaE t cd) s.bestDE) <;> cases up <;> simp
    · cases up <;> simp

/-! ## The ghost trace -/

/-- `bsLoop` that also returns the probed lightnesses, first probe first -/
def bsLoopTrace (up : Bool) : Nat → BS α → BS α × List α
  | 0, s => (s, [])
  | n+1, s =>
    let r := bsLoopTrace up n (bsStep O t bg thr target c h up s)
    (r.1, bsMid s :: r.2)

theorem bsLoopTrace_fst (up : Bool) (n : Nat) (s : BS α) :
    (bsLoopTrace O t bg thr target c h up n s).1 = bsLoop O t bg thr target c h up n s := by
  induction n generalizing s with
  | zero => rfl
  | succ n ih => simp only [bsLoopTrace, bsLoop]; exact ih _

theorem bsLoopTrace_length (up : Bool) (n : Nat) (s : BS α) :
    (bsLoopTrace O t bg thr target c h up n s).2.length = n := by
  induction n generalizing s with
  | zero => rfl
  | succ n ih => simp only [bsLoopTrace, List.length_cons]; rw [ih]

/-- lifting a one-step invariant indexed by the set `P` of lightnesses probed so far to the loop -/
theorem bsLoop_induct (up : Bool) (Inv : (α → Prop) → BS α → Prop)
    (hstep : ∀ P s, Inv P s → Inv (fun x => x = bsMid s ∨ P x) (bsStep O t bg thr target c h up s))
    (n : Nat) (P : α → Prop) (s : BS α) (hs : Inv P s) :
    Inv (fun x => x ∈ (bsLoopTrace O t bg thr target c h up n s).2 ∨ P x)
      (bsLoop O t bg thr target c h up n s) := by
  induction n generalizing P s with
  | zero =>
    have e : (fun x => x ∈ (bsLoopTrace O t bg thr target c h up 0 s).2 ∨ P x) = P := by
      funext x; simp [bsLoopTrace]
    rw [e]; exact hs
  | succ n ih =>
    have e : (fun x => x ∈ (bsLoopTrace O t bg thr target c h up (n+1) s).2 ∨ P x) =
        (fun x => x ∈ (bsLoopTrace O t bg thr target c h up n (bsStep O t bg thr target c h up s)).2 ∨
          (x = bsMid s ∨ P x)) := by
      funext x; simp only [bsLoopTrace, List.mem_cons]
      exact propext ⟨fun h => by grind, fun h => by grind⟩
    rw [e]
    exact ih _ _ (hstep P s hs)

/-! ## Invariant (i): the recorded numbers belong to the recorded colour, which was probed -/

def BSRec (P : α → Prop) (s : BS α) : Prop :=
  ∀ r, s.best = some r → ∃ m, P m ∧ r = candAt O c h m ∧ Acc O t thr c h m ∧
    s.bestC = kAt O bg c h m ∧ s.bestDE = dAt O t c h m

theorem BSRec_same {P Q : α → Prop} {s s' : BS α} (hS : SameRec s s') (hPQ : ∀ x, P x → Q x)
    (hs : BSRec O t bg thr c h P s) : BSRec O t bg thr c h Q s' := by
  intro r hr
  obtain ⟨hb, hde, hc⟩ := hS
  rw [hb] at hr
  obtain ⟨m, hm, h1, h2, h3, h4⟩ := hs r hr
  exact ⟨m, hPQ m hm, h1, h2, by rw [hc]; exact h3, by rw [hde]; exact h4⟩

theorem BSRec_recorded {Q : α → Prop} {s' : BS α} {m : α} (hR : RecordedAt O t bg c h s' m)
    (ha : Acc O t thr c h m) (hQ : Q m) : BSRec O t bg thr c h Q s' := by
  intro r hr
  obtain ⟨hb, hde, hc⟩ := hR
  rw [hb] at hr
  exact ⟨m, hQ, (Option.some.inj hr).symm, ha, hc, hde⟩

theorem bsStep_rec (up : Bool) (P : α → Prop) (s : BS α) (hs : BSRec O t bg thr c h P s) :
    BSRec O t bg thr c h (fun x => x = bsMid s ∨ P x) (bsStep O t bg thr target c h up s) := by
  intro r hr
  rcases bsStep_cases O t bg thr target c h up s with
    ⟨_, hS⟩ | ⟨ha, _, _, hR⟩ | ⟨_, _, _, hS⟩ | ⟨ha, _, _, hR⟩ | ⟨_, _, _, hS⟩
  · exact BSRec_same O t bg thr c h hS (fun x hx => Or.inr hx) hs r hr
  · exact BSRec_recorded O t bg thr c h hR ha (Or.inl rfl) r hr
  · exact BSRec_same O t bg thr c h hS (fun x hx => Or.inr hx) hs r hr
  · exact BSRec_recorded O t bg thr c h hR ha (Or.inl rfl) r hr
  · exact BSRec_same O t bg thr c h hS (fun x hx => Or.inr hx) hs r hr

/-! ## Invariant (ii): a target-meeting probe, once seen, stays recorded; the recorded one is the
    closest of those seen -/

def BSSeen (P : α → Prop) (s : BS α) : Prop :=
  (Num.lt s.bestC target = true ∧ ∀ m, P m → Acc O t thr c h m → ¬ Meets O bg target c h m) ∨
  (∃ m, P m ∧ s.best = some (candAt O c h m) ∧ Acc O t thr c h m ∧ Meets O bg target c h m ∧
     s.bestC = kAt O bg c h m ∧ s.bestDE = dAt O t c h m ∧
     ∀ m', P m' → Acc O t thr c h m' → Meets O bg target c h m' →
       Num.le s.bestDE (dAt O t c h m') = true)

/-! ## Invariant (iii): below the target, the recorded contrast is the largest seen in tolerance -/

def BSMax (P : α → Prop) (s : BS α) : Prop :=
  (s.best = none → s.bestC = (0.0 : α)) ∧
  ∀ m, P m → Acc O t thr c h m →
    Num.le (kAt O bg c h m) s.bestC = true ∨ Num.ge s.bestC target = true

section lawful
variable [LawfulNumOrd α]

theorem bsStep_seen (up : Bool) (P : α → Prop) (s : BS α) (hs : BSSeen O t bg thr target c h P s) :
    BSSeen O t bg thr target c h (fun x => x = bsMid s ∨ P x) (bsStep O t bg thr target c h up s) := by
  rcases hs with ⟨hlt, hno⟩ | ⟨m0, hP0, hb0, hA0, hT0, hc0, hd0, hmin⟩
  · -- nothing target-meeting seen so far
    have same : ¬ (Acc O t thr c h (bsMid s) ∧ Meets O bg target c h (bsMid s)) →
        SameRec s (bsStep O t bg thr target c h up s) →
        BSSeen O t bg thr target c h (fun x => x = bsMid s ∨ P x) (bsStep O t bg thr target c h up s) := fun hn ⟨hb, hde, hc⟩ =>
      Or.inl ⟨by rw [hc]; exact hlt, fun m hm hA hT => by
        rcases hm with rfl | hm
        · exact hn ⟨hA, hT⟩
        · exact hno m hm hA hT⟩
    rcases bsStep_cases O t bg thr target c h up s with
      ⟨hnA, hS⟩ | ⟨hA, hT, _, hb, hde, hc⟩ | ⟨hA, hT, hcond, hS⟩ | ⟨hA, hnT, hgt, hb, hde, hc⟩ |
      ⟨hA, hnT, _, hS⟩
    · exact same (fun h => hnA h.1) hS
    · refine Or.inr ⟨bsMid s, Or.inl rfl, hb, hA, hT, hc, hde, fun m' hm' hA' hT' => ?_⟩
      rcases hm' with rfl | hm'
      · rw [hde]; exact le_rfl' _
      · exact absurd hT' (hno m' hm' hA')
    · rw [hlt] at hcond; simp at hcond
    · refine Or.inl ⟨?_, fun m hm hA' hT' => ?_⟩
      · rw [hc]
        have : Num.le target (kAt O bg c h (bsMid s)) = false := by
          cases hx : Num.le target (kAt O bg c h (bsMid s)) with
          | false => rfl
          | true => exact absurd hx hnT
        exact (LawfulNumOrd.lt_iff _ _).2 this
      · rcases hm with rfl | hm
        · exact hnT hT'
        · exact hno m hm hA' hT'
    · exact same (fun h => hnT h.2) hS
  · -- a target-meeting probe is recorded
    have hge : Num.le target s.bestC = true := by rw [hc0]; exact hT0
    have same : (Acc O t thr c h (bsMid s) → Meets O bg target c h (bsMid s) →
          Num.le s.bestDE (dAt O t c h (bsMid s)) = true) →
        SameRec s (bsStep O t bg thr target c h up s) →
        BSSeen O t bg thr target c h (fun x => x = bsMid s ∨ P x) (bsStep O t bg thr target c h up s) := fun hn ⟨hb, hde, hc⟩ =>
      Or.inr ⟨m0, Or.inr hP0, by rw [hb]; exact hb0, hA0, hT0, by rw [hc]; exact hc0,
        by rw [hde]; exact hd0, fun m' hm' hA' hT' => by
          rw [hde]
          rcases hm' with rfl | hm'
          · exact hn hA' hT'
          · exact hmin m' hm' hA' hT'⟩
    rcases bsStep_cases O t bg thr target c h up s with
      ⟨hnA, hS⟩ | ⟨hA, hT, hcond, hb, hde, hc⟩ | ⟨hA, hT, hcond, hS⟩ | ⟨hA, hnT, hgt, hb, hde, hc⟩ |
      ⟨hA, hnT, _, hS⟩
    · exact same (fun h => absurd h hnA) hS
    · have hlt : Num.lt (dAt O t c h (bsMid s)) s.bestDE = true := by
        rw [not_lt_of_le hge] at hcond; simpa using hcond
      refine Or.inr ⟨bsMid s, Or.inl rfl, hb, hA, hT, hc, hde, fun m' hm' hA' hT' => ?_⟩
      rw [hde]
      rcases hm' with rfl | hm'
      · exact le_rfl' _
      · exact le_trans' (le_of_lt hlt) (hmin m' hm' hA' hT')
    · refine same (fun _ _ => ?_) hS
      simp only [Bool.or_eq_false_iff] at hcond
      exact le_of_not_lt hcond.2
    · exact absurd (le_trans' hge (le_of_lt hgt)) hnT
    · exact same (fun _ h => absurd h hnT) hS

theorem bsStep_max (up : Bool) (P : α → Prop) (s : BS α) (hs : BSMax O t bg thr target c h P s) :
    BSMax O t bg thr target c h (fun x => x = bsMid s ∨ P x) (bsStep O t bg thr target c h up s) := by
  obtain ⟨hnone, hmax⟩ := hs
  have same : (Acc O t thr c h (bsMid s) →
        Num.le (kAt O bg c h (bsMid s)) s.bestC = true ∨ Num.ge s.bestC target = true) →
      SameRec s (bsStep O t bg thr target c h up s) →
      BSMax O t bg thr target c h (fun x => x = bsMid s ∨ P x) (bsStep O t bg thr target c h up s) := fun hn ⟨hb, hde, hc⟩ =>
    ⟨fun h0 => by rw [hc]; exact hnone (by rw [← hb]; exact h0), fun m hm hA => by
      rw [hc]
      rcases hm with rfl | hm
      · exact hn hA
      · exact hmax m hm hA⟩
  rcases bsStep_cases O t bg thr target c h up s with
    ⟨hnA, hS⟩ | ⟨hA, hT, _, hb, hde, hc⟩ | ⟨hA, hT, hcond, hS⟩ | ⟨hA, hnT, hgt, hb, hde, hc⟩ |
    ⟨hA, hnT, hgt, hS⟩
  · exact same (fun h => absurd h hnA) hS
  · exact ⟨fun h0 => (by rw [hb] at h0; cases h0), fun m _ _ => Or.inr (by rw [hc]; exact hT)⟩
  · refine same (fun _ => Or.inr ?_) hS
    simp only [Bool.or_eq_false_iff] at hcond
    exact le_of_not_lt hcond.1
  · refine ⟨fun h0 => (by rw [hb] at h0; cases h0), fun m hm hA' => ?_⟩
    rw [hc]
    rcases hm with rfl | hm
    · exact Or.inl (le_rfl' _)
    · rcases hmax m hm hA' with h1 | h1
      · exact Or.inl (le_trans' h1 (le_of_lt hgt))
      · exact Or.inr (le_trans' h1 (le_of_lt hgt))
  · exact same (fun _ => Or.inl (le_of_not_lt hgt)) hS

end lawful

/-- all three invariants together -/
structure BSInvC (P : α → Prop) (s : BS α) : Prop where
  recorded : BSRec O t bg thr c h P s
  seen : BSSeen O t bg thr target c h P s
  max : BSMax O t bg thr target c h P s

/-- (i) alone holds on every carrier, lawful or not -/
theorem bsLoop_rec (up : Bool) (n : Nat) (P : α → Prop) (s : BS α) (hs : BSRec O t bg thr c h P s) :
    BSRec O t bg thr c h (fun x => x ∈ (bsLoopTrace O t bg thr target c h up n s).2 ∨ P x)
      (bsLoop O t bg thr target c h up n s) :=
  bsLoop_induct O t bg thr target c h up (BSRec O t bg thr c h)
    (fun P s => bsStep_rec O t bg thr target c h up P s) n P s hs

/-- the loop invariant of the bisection, by induction on the iteration count -/
theorem bsLoop_invC [LawfulNumOrd α] (up : Bool) (n : Nat) (P : α → Prop) (s : BS α)
    (hs : BSInvC O t bg thr target c h P s) :
    BSInvC O t bg thr target c h (fun x => x ∈ (bsLoopTrace O t bg thr target c h up n s).2 ∨ P x)
      (bsLoop O t bg thr target c h up n s) :=
  bsLoop_induct O t bg thr target c h up (BSInvC O t bg thr target c h)
    (fun P s hs => ⟨bsStep_rec O t bg thr target c h up P s hs.recorded,
      bsStep_seen O t bg thr target c h up P s hs.seen,
      bsStep_max O t bg thr target c h up P s hs.max⟩) n P s hs

/-- the initial state satisfies the invariants with nothing probed, provided the target is positive
    (`best_contrast` starts at `0.0`; with a non-positive target and a junk `inf` the very first
    target-meeting probe would not be recorded) -/
theorem bsInit_invC (l : α) (up : Bool) (hpos : Num.lt (0.0 : α) target = true) :
    BSInvC O t bg thr target c h (fun _ => False) (bsInit O l up) :=
  ⟨fun r hr => by simp [bsInit] at hr,
   Or.inl ⟨hpos, fun m hm => absurd hm id⟩,
   ⟨fun _ => rfl, fun m hm => absurd hm id⟩⟩

end line

/-! ## One call of `binary_search_lightness` -/

section call
variable (O : Leaf α) (t bg : RGB) (thr target : α)

/-- the text's chroma, hue, the search direction and the initial state, as `binarySearch` computes them -/
def bsC : α := (O.toOklch t).2.1
def bsH : α := (O.toOklch t).2.2
def bsUp : Bool := searchUp (O.toOklch t).1 (O.toOklch bg).1
def bsStart : BS α := bsInit O (O.toOklch t).1 (bsUp O t bg)

/-- the (at most) 20 lightnesses probed by `binarySearch O t bg thr target`, in order -/
def bsProbes : List α :=
  (bsLoopTrace O t bg thr target (bsC O t) (bsH O t) (bsUp O t bg) 20 (bsStart O t bg)).2

theorem binarySearch_eq :
    binarySearch O t bg thr target =
      (bsLoop O t bg thr target (bsC O t) (bsH O t) (bsUp O t bg) 20 (bsStart O t bg)).best := rfl

theorem bsProbes_length : (bsProbes O t bg thr target).length = 20 :=
  bsLoopTrace_length O t bg thr target _ _ _ 20 _

/-- the invariants at the end of the call, over exactly the probed lightnesses -/
theorem binarySearch_invC [LawfulNumOrd α] (hpos : Num.lt (0.0 : α) target = true) :
    BSInvC O t bg thr target (bsC O t) (bsH O t) (fun x => x ∈ bsProbes O t bg thr target)
      (bsLoop O t bg thr target (bsC O t) (bsH O t) (bsUp O t bg) 20 (bsStart O t bg)) := by
  have h := bsLoop_invC O t bg thr target (bsC O t) (bsH O t) (bsUp O t bg) 20 (fun _ => False)
    (bsStart O t bg) (bsInit_invC O t bg thr target _ _ _ _ hpos)
  have e : (fun x => x ∈ (bsLoopTrace O t bg thr target (bsC O t) (bsH O t) (bsUp O t bg) 20
      (bsStart O t bg)).2 ∨ False) = (fun x => x ∈ bsProbes O t bg thr target) := by
    funext x; simp [bsProbes]
  rw [e] at h; exact h

/-- whatever is returned was probed, is in tolerance, on the text's chroma/hue line (every carrier) -/
theorem binarySearch_result_probed (r : RGB) (hr : binarySearch O t bg thr target = some r) :
    ∃ m ∈ bsProbes O t bg thr target, r = candAt O (bsC O t) (bsH O t) m ∧
      Acc O t thr (bsC O t) (bsH O t) m := by
  have h := bsLoop_rec O t bg thr target (bsC O t) (bsH O t) (bsUp O t bg) 20 (fun _ => False)
    (bsStart O t bg) (fun r hr => by simp [bsStart, bsInit] at hr) r hr
  obtain ⟨m, hm, h1, h2, _, _⟩ := h
  rcases hm with hm | hm
  · exact ⟨m, hm, h1, h2⟩
  · exact absurd hm id

/-- if some probe is in tolerance and meets the target, the call returns a colour that is in
    tolerance, meets the target and is the closest to the text of all such probes -/
theorem binarySearch_of_probe_meets [LawfulNumOrd α] (hpos : Num.lt (0.0 : α) target = true)
    (hprobe : ∃ m ∈ bsProbes O t bg thr target,
      Acc O t thr (bsC O t) (bsH O t) m ∧ Meets O bg target (bsC O t) (bsH O t) m) :
    ∃ r, binarySearch O t bg thr target = some r ∧ Num.ge (O.contrast r bg) target = true ∧
      InTol O t thr r ∧
      ∀ m ∈ bsProbes O t bg thr target, Acc O t thr (bsC O t) (bsH O t) m →
        Meets O bg target (bsC O t) (bsH O t) m →
        Num.le (O.deltaE t r) (dAt O t (bsC O t) (bsH O t) m) = true := by
  obtain ⟨m, hm, hA, hT⟩ := hprobe
  rcases (binarySearch_invC O t bg thr target hpos).seen with ⟨_, hno⟩ | ⟨m0, _, hb, hA0, hT0, _, hd0, hmin⟩
  · exact absurd hT (hno m hm hA)
  · refine ⟨candAt O (bsC O t) (bsH O t) m0, hb, hT0, hA0, fun m' hm' hA' hT' => ?_⟩
    have := hmin m' hm' hA' hT'
    rw [hd0] at this; exact this

/-- if some probe is in tolerance and has contrast at least `v`, where `0 < v ≤ target`, the call
    returns an in-tolerance colour of contrast at least `v` -/
theorem binarySearch_of_probe_ge [LawfulNumOrd α] (v : α) (hpos : Num.lt (0.0 : α) v = true)
    (hv : Num.le v target = true)
    (hprobe : ∃ m ∈ bsProbes O t bg thr target,
      Acc O t thr (bsC O t) (bsH O t) m ∧ Num.ge (kAt O bg (bsC O t) (bsH O t) m) v = true) :
    ∃ r, binarySearch O t bg thr target = some r ∧ Num.ge (O.contrast r bg) v = true ∧
      InTol O t thr r := by
  obtain ⟨m, hm, hA, hk⟩ := hprobe
  have hpos' : Num.lt (0.0 : α) target = true := by
    cases hx : Num.lt (0.0 : α) target with
    | true => rfl
    | false =>
      have h1 : Num.le target (0.0 : α) = true := le_of_not_lt hx
      have h2 := not_lt_of_le (le_trans' hv h1)
      rw [hpos] at h2; cases h2
  have inv := binarySearch_invC O t bg thr target hpos'
  have hvC : Num.le v (bsLoop O t bg thr target (bsC O t) (bsH O t) (bsUp O t bg) 20
      (bsStart O t bg)).bestC = true := by
    rcases inv.max.2 m hm hA with h1 | h1
    · exact le_trans' hk h1
    · exact le_trans' hv h1
  rw [binarySearch_eq]
  cases hb : (bsLoop O t bg thr target (bsC O t) (bsH O t) (bsUp O t bg) 20 (bsStart O t bg)).best with
  | none =>
    rw [inv.max.1 hb] at hvC
    have := not_lt_of_le hvC
    rw [hpos] at this; cases this
  | some r =>
    obtain ⟨m', _, h1, h2, h3, _⟩ := inv.recorded r hb
    refine ⟨r, rfl, ?_, ?_⟩
    · rw [h3] at hvC; rw [h1]; exact hvC
    · rw [h1]; exact h2

end call

/-! ## The bracketing lemma -/

section bracket
variable [LawfulNumOrd α] (O : Leaf α) (t bg : RGB) (thr target c h : α)

/-- `y` is at least as far from the text as `x` on the searched side -/
def leAway (up : Bool) (x y : α) : Prop :=
  if up then Num.le x y = true else Num.le y x = true

/-- the current interval contains `L` -/
def Brackets (s : BS α) (L : α) : Prop := Num.le s.low L = true ∧ Num.le L s.high = true

/-- a lightness that is in tolerance and whose contrast is at least `v` -/
def Hit (v : α) (m : α) : Prop := Acc O t thr c h m ∧ Num.ge (kAt O bg c h m) v = true

/-- `Mono` + `DirOK` on a set `I` of lightnesses: being in tolerance is inherited towards the text,
    and contrast does not decrease away from it -/
structure MonoOn (up : Bool) (I : α → Prop) : Prop where
  acc_towards : ∀ x y, I x → I y → leAway up x y → Acc O t thr c h y → Acc O t thr c h x
  k_away : ∀ x y, I x → I y → leAway up x y →
    Num.le (kAt O bg c h x) (kAt O bg c h y) = true

/-- a probe that misses the band keeps every point of the band inside the interval -/
theorem miss_brackets_step (up : Bool) (I : α → Prop) (hmono : MonoOn O t bg thr c h up I)
    (v : α) (hv : Num.le v target = true) (s : BS α) (L : α) (hI : I L) (hL : Hit O t bg thr c h v L)
    (hIm : I (bsMid s)) (hb : Brackets s L) (hmiss : ¬ Hit O t bg thr c h v (bsMid s)) :
    Brackets (bsStep O t bg thr target c h up s) L := by
  obtain ⟨hlo, hhi⟩ := hb
  have hint := bsStep_interval O t bg thr target c h up s
  by_cases hA : Acc O t thr c h (bsMid s)
  · have hk : ¬ Num.ge (kAt O bg c h (bsMid s)) v = true := fun hk => hmiss ⟨hA, hk⟩
    have hnT : ¬ Meets O bg target c h (bsMid s) := fun hT => hk (le_trans' hv hT)
    obtain ⟨e1, e2⟩ := hint.1 ⟨hA, hnT⟩
    -- `L` is not on the text's side of the probe: contrast would be too small
    have hfar : ¬ leAway up L (bsMid s) := fun hle =>
      hk (le_trans' hL.2 (hmono.k_away L (bsMid s) hI hIm hle))
    unfold Brackets; rw [e1, e2]
    cases up with
    | true =>
      simp only [if_true]
      refine ⟨?_, hhi⟩
      rcases LawfulNumOrd.le_total (bsMid s) L with h1 | h1
      · exact h1
      · exact absurd (show leAway true L (bsMid s) from h1) hfar
    | false =>
      simp only [Bool.false_eq_true, if_false]
      refine ⟨hlo, ?_⟩
      rcases LawfulNumOrd.le_total L (bsMid s) with h1 | h1
      · exact h1
      · exact absurd (show leAway false L (bsMid s) from h1) hfar
  · obtain ⟨e1, e2⟩ := hint.2 (fun hh => hA hh.1)
    -- `L` is not beyond the probe: the probe would be in tolerance
    have hnear : ¬ leAway up (bsMid s) L := fun hle =>
      hA (hmono.acc_towards (bsMid s) L hIm hI hle hL.1)
    unfold Brackets; rw [e1, e2]
    cases up with
    | true =>
      simp only [if_true]
      refine ⟨hlo, ?_⟩
      rcases LawfulNumOrd.le_total L (bsMid s) with h1 | h1
      · exact h1
      · exact absurd (show leAway true (bsMid s) L from h1) hnear
    | false =>
      simp only [Bool.false_eq_true, if_false]
      refine ⟨?_, hhi⟩
      rcases LawfulNumOrd.le_total (bsMid s) L with h1 | h1
      · exact h1
      · exact absurd (show leAway false (bsMid s) L from h1) hnear

/-- as long as every probe misses the band `{L | A L ∧ k L ≥ v}`, every point of the band that was
    inside the interval at the start is still inside it -/
theorem miss_brackets_band (up : Bool) (I : α → Prop) (hmono : MonoOn O t bg thr c h up I)
    (v : α) (hv : Num.le v target = true) (L : α) (hI : I L) (hL : Hit O t bg thr c h v L)
    (n : Nat) (s : BS α)
    (hIm : ∀ m ∈ (bsLoopTrace O t bg thr target c h up n s).2, I m)
    (hmiss : ∀ m ∈ (bsLoopTrace O t bg thr target c h up n s).2, ¬ Hit O t bg thr c h v m)
    (hb : Brackets s L) :
    Brackets (bsLoop O t bg thr target c h up n s) L := by
  induction n generalizing s with
  | zero => exact hb
  | succ n ih =>
    simp only [bsLoopTrace, List.mem_cons] at hIm hmiss
    simp only [bsLoop]
    exact ih _ (fun m hm => hIm m (Or.inr hm)) (fun m hm => hmiss m (Or.inr hm))
      (miss_brackets_step O t bg thr target c h up I hmono v hv s L hI hL (hIm _ (Or.inl rfl)) hb
        (hmiss _ (Or.inl rfl)))

/-- contrapositive: a point of the band that the final interval no longer contains proves that
    some probe hit the band -/
theorem hit_of_not_bracketed (up : Bool) (I : α → Prop) (hmono : MonoOn O t bg thr c h up I)
    (v : α) (hv : Num.le v target = true) (L : α) (hI : I L) (hL : Hit O t bg thr c h v L)
    (n : Nat) (s : BS α)
    (hIm : ∀ m ∈ (bsLoopTrace O t bg thr target c h up n s).2, I m)
    (hb : Brackets s L) (hnb : ¬ Brackets (bsLoop O t bg thr target c h up n s) L) :
    ∃ m ∈ (bsLoopTrace O t bg thr target c h up n s).2, Hit O t bg thr c h v m := by
  apply Classical.byContradiction
  intro hno
  exact hnb (miss_brackets_band O t bg thr target c h up I hmono v hv L hI hL n s hIm
    (fun m hm hh => hno ⟨m, hm, hh⟩) hb)

end bracket

/-! ## `generate_accessible_color`: which colour wins -/

section gen
variable (O : Leaf α) (d : Descend α) (t bg : RGB) (target minC last : α)

/-- `b` is what one of the two phases returns at tolerance `thr` (this does not depend on the
    loop state) -/
def PhaseRes (thr : α) (b : RGB) : Prop :=
  binarySearch O t bg thr target = some b ∨ gradientDescent O d t bg thr target = some b

/-- the recorded contrast is that of the recorded colour, or the text's own when nothing is recorded -/
def GMax (s : GS α) : Prop :=
  (∀ b, s.best = some b → s.bestC = O.contrast b bg) ∧ (s.best = none → s.bestC = O.contrast t bg)

theorem absorb_error (tie : Bool) (cand : Option RGB) (s : GS α) (r : RGB)
    (h : absorb O t bg target tie cand s = .error r) :
    cand = some r ∧ Num.ge (O.contrast r bg) target = true := by
  unfold absorb at h
  grind

theorem absorb_best (tie : Bool) (cand : Option RGB) (s s' : GS α)
    (h : absorb O t bg target tie cand s = .ok s') :
    s'.best = s.best ∨ ∃ b, cand = some b ∧ s'.best = some b := by
  unfold absorb at h
  grind

theorem earlyTerm_error (thr : α) (s : GS α) (r : RGB) (h : earlyTerm minC thr last s = .error r) :
    s.best = some r ∧ Num.ge s.bestC minC = true := by
  unfold earlyTerm at h
  grind

theorem earlyTerm_ok (thr : α) (s s' : GS α) (h : earlyTerm minC thr last s = .ok s') : s' = s := by
  unfold earlyTerm at h
  grind

theorem earlyTerm_fires (thr : α) (s : GS α) (b : RGB) (hb : s.best = some b)
    (hC : Num.ge s.bestC minC = true) (h1 : Num.le thr (2.5 : α) = true)
    (h2 : Num.le last (5.0 : α) = true) : earlyTerm minC thr last s = .error b := by
  unfold earlyTerm
  simp [hb, hC, h1, h2]

theorem genStep_ok_inv (thr : α) (s s' : GS α)
    (h : genStep O d t bg target minC last thr s = .ok s') :
    ∃ s1 s2, absorb O t bg target false (binarySearch O t bg thr target) s = .ok s1 ∧
      absorb O t bg target true (gradientDescent O d t bg thr target) s1 = .ok s2 ∧
      earlyTerm minC thr last s2 = .ok s' := by
  unfold genStep at h
  cases h1 : absorb O t bg target false (binarySearch O t bg thr target) s with
  | error r => rw [h1] at h; exact absurd (show Except.error r = Except.ok s' from h) (by simp)
  | ok s1 =>
    rw [h1] at h
    cases h2 : absorb O t bg target true (gradientDescent O d t bg thr target) s1 with
    | error r =>
      have h' : (absorb O t bg target true (gradientDescent O d t bg thr target) s1 >>=
          fun s2 => earlyTerm minC thr last s2) = Except.ok s' := h
      rw [h2] at h'; exact absurd (show Except.error r = Except.ok s' from h') (by simp)
    | ok s2 =>
      have h' : (absorb O t bg target true (gradientDescent O d t bg thr target) s1 >>=
          fun s2 => earlyTerm minC thr last s2) = Except.ok s' := h
      rw [h2] at h'
      exact ⟨s1, s2, rfl, h2, h'⟩

theorem genStep_error_inv (thr : α) (s : GS α) (r : RGB)
    (h : genStep O d t bg target minC last thr s = .error r) :
    absorb O t bg target false (binarySearch O t bg thr target) s = .error r ∨
    ∃ s1, absorb O t bg target false (binarySearch O t bg thr target) s = .ok s1 ∧
      (absorb O t bg target true (gradientDescent O d t bg thr target) s1 = .error r ∨
       ∃ s2, absorb O t bg target true (gradientDescent O d t bg thr target) s1 = .ok s2 ∧
         earlyTerm minC thr last s2 = .error r) := by
  unfold genStep at h
  cases h1 : absorb O t bg target false (binarySearch O t bg thr target) s with
  | error r' => rw [h1] at h; exact Or.inl (show Except.error r' = Except.error r from h)
  | ok s1 =>
    rw [h1] at h
    refine Or.inr ⟨s1, rfl, ?_⟩
    have h' : (absorb O t bg target true (gradientDescent O d t bg thr target) s1 >>=
        fun s2 => earlyTerm minC thr last s2) = Except.error r := h
    cases h2 : absorb O t bg target true (gradientDescent O d t bg thr target) s1 with
    | error r' => rw [h2] at h'; exact Or.inl (show Except.error r' = Except.error r from h')
    | ok s2 => rw [h2] at h'; exact Or.inr ⟨s2, rfl, h'⟩

/-- where the returned colour comes from (every carrier): the state it started from, the text, or
    a phase result at one of the remaining entries -/
theorem genLoop_origin (rest : List α) (s : GS α) :
    s.best = some (genLoop O d t bg target minC last rest s) ∨
    (s.best = none ∧ genLoop O d t bg target minC last rest s = t) ∨
    ∃ thr ∈ rest, PhaseRes O d t bg target thr (genLoop O d t bg target minC last rest s) := by
  induction rest generalizing s with
  | nil => unfold genLoop; cases hb : s.best <;> simp
  | cons thr rest ih =>
    unfold genLoop
    cases hx : genStep O d t bg target minC last thr s with
    | error r =>
      simp only
      rcases genStep_error_inv O d t bg target minC last thr s r hx with h | ⟨s1, h1, h | ⟨s2, h2, h3⟩⟩
      · exact Or.inr (Or.inr ⟨thr, by simp, Or.inl (absorb_error O t bg target _ _ _ _ h).1⟩)
      · exact Or.inr (Or.inr ⟨thr, by simp, Or.inr (absorb_error O t bg target _ _ _ _ h).1⟩)
      · have hb2 := (earlyTerm_error minC last thr s2 r h3).1
        rcases absorb_best O t bg target _ _ _ _ h2 with e2 | ⟨b, hb, e2⟩
        · rcases absorb_best O t bg target _ _ _ _ h1 with e1 | ⟨b, hb, e1⟩
          · exact Or.inl (by rw [← e1, ← e2]; exact hb2)
          · rw [e2, e1] at hb2; cases hb2
            exact Or.inr (Or.inr ⟨thr, by simp, Or.inl hb⟩)
        · rw [e2] at hb2; cases hb2
          exact Or.inr (Or.inr ⟨thr, by simp, Or.inr hb⟩)
    | ok s' =>
      simp only
      obtain ⟨s1, s2, h1, h2, h3⟩ := genStep_ok_inv O d t bg target minC last thr s s' hx
      have e3 := earlyTerm_ok minC last thr s2 s' h3
      subst e3
      rcases ih s' with h | ⟨hn, h⟩ | ⟨thr', hm, h⟩
      · rcases absorb_best O t bg target _ _ _ _ h2 with e2 | ⟨b, hb, e2⟩
        · rcases absorb_best O t bg target _ _ _ _ h1 with e1 | ⟨b, hb, e1⟩
          · exact Or.inl (by rw [← e1, ← e2]; exact h)
          · rw [e2, e1] at h; cases h
            exact Or.inr (Or.inr ⟨thr, by simp, Or.inl hb⟩)
        · rw [e2] at h; cases h
          exact Or.inr (Or.inr ⟨thr, by simp, Or.inr hb⟩)
      · rcases absorb_best O t bg target _ _ _ _ h2 with e2 | ⟨b, hb, e2⟩
        · rcases absorb_best O t bg target _ _ _ _ h1 with e1 | ⟨b, hb, e1⟩
          · exact Or.inr (Or.inl ⟨by rw [← e1, ← e2]; exact hn, h⟩)
          · rw [e2, e1] at hn; cases hn
        · rw [e2] at hn; cases hn
      · exact Or.inr (Or.inr ⟨thr', by simp [hm], h⟩)

variable [LawfulNumOrd α]

theorem absorb_ok (tie : Bool) (cand : Option RGB) (s s' : GS α) (hs : GMax O t bg s)
    (h : absorb O t bg target tie cand s = .ok s') :
    GMax O t bg s' ∧ Num.le s.bestC s'.bestC = true ∧
      ∀ b, cand = some b → Num.le (O.contrast b bg) s'.bestC = true := by
  unfold absorb at h
  cases cand with
  | none => cases h; exact ⟨hs, le_rfl' _, fun b hb => by cases hb⟩
  | some b =>
    simp only at h
    split at h
    · cases h
    · split at h
      · rename_i hupd
        cases h
        refine ⟨⟨fun b' hb' => by cases hb'; rfl, fun h0 => by cases h0⟩, ?_,
          fun b' hb' => by cases hb'; exact le_rfl' _⟩
        simp only [Bool.or_eq_true, Bool.and_eq_true, Num.gt, Num.eq] at hupd
        rcases hupd with h1 | ⟨⟨_, _, h3⟩, _⟩
        · exact le_of_lt h1
        · exact h3
      · rename_i hupd
        cases h
        refine ⟨hs, le_rfl' _, fun b' hb' => ?_⟩
        cases hb'
        simp only [Bool.or_eq_true, not_or, Num.gt] at hupd
        exact le_of_not_lt (by simpa using hupd.1)

/-- one schedule entry: a return meets the target, or is the early termination on the best colour
    so far (which meets the minimum and dominates this entry's phase results); otherwise the new
    state dominates the old one and this entry's phase results -/
theorem genStep_spec (thr : α) (s : GS α) (hs : GMax O t bg s) :
    (∀ r, genStep O d t bg target minC last thr s = .error r →
      Num.ge (O.contrast r bg) target = true ∨
      (Num.ge (O.contrast r bg) minC = true ∧ Num.le s.bestC (O.contrast r bg) = true ∧
        ∀ b, PhaseRes O d t bg target thr b → Num.le (O.contrast b bg) (O.contrast r bg) = true)) ∧
    (∀ s', genStep O d t bg target minC last thr s = .ok s' →
      GMax O t bg s' ∧ Num.le s.bestC s'.bestC = true ∧
        ∀ b, PhaseRes O d t bg target thr b → Num.le (O.contrast b bg) s'.bestC = true) := by
  have key : ∀ s1 s2, absorb O t bg target false (binarySearch O t bg thr target) s = .ok s1 →
      absorb O t bg target true (gradientDescent O d t bg thr target) s1 = .ok s2 →
      GMax O t bg s2 ∧ Num.le s.bestC s2.bestC = true ∧
        ∀ b, PhaseRes O d t bg target thr b → Num.le (O.contrast b bg) s2.bestC = true := by
    intro s1 s2 h1 h2
    obtain ⟨g1, l1, p1⟩ := absorb_ok O t bg target _ _ s s1 hs h1
    obtain ⟨g2, l2, p2⟩ := absorb_ok O t bg target _ _ s1 s2 g1 h2
    refine ⟨g2, le_trans' l1 l2, fun b hb => ?_⟩
    rcases hb with hb | hb
    · exact le_trans' (p1 b hb) l2
    · exact p2 b hb
  constructor
  · intro r hr
    rcases genStep_error_inv O d t bg target minC last thr s r hr with h | ⟨s1, h1, h | ⟨s2, h2, h3⟩⟩
    · exact Or.inl (absorb_error O t bg target _ _ _ _ h).2
    · exact Or.inl (absorb_error O t bg target _ _ _ _ h).2
    · obtain ⟨g2, l2, p2⟩ := key s1 s2 h1 h2
      obtain ⟨hb, hC⟩ := earlyTerm_error minC last thr s2 r h3
      have e := g2.1 r hb
      rw [e] at hC l2 p2
      exact Or.inr ⟨hC, l2, p2⟩
  · intro s' hs'
    obtain ⟨s1, s2, h1, h2, h3⟩ := genStep_ok_inv O d t bg target minC last thr s s' hs'
    have e3 := earlyTerm_ok minC last thr s2 s' h3
    subst e3
    exact key s1 _ h1 h2

/-- the schedule loop: the result meets the target, or the loop processed a prefix `pre` of the
    remaining entries and stopped there — because the schedule was exhausted or by early termination
    on a colour meeting the minimum — and the result's contrast dominates the starting record and
    every phase result of `pre` -/
theorem genLoop_spec (rest : List α) (s : GS α) (hs : GMax O t bg s) :
    Num.ge (O.contrast (genLoop O d t bg target minC last rest s) bg) target = true ∨
    ∃ pre post, rest = pre ++ post ∧
      (post = [] ∨ Num.ge (O.contrast (genLoop O d t bg target minC last rest s) bg) minC = true) ∧
      Num.le s.bestC (O.contrast (genLoop O d t bg target minC last rest s) bg) = true ∧
      ∀ thr ∈ pre, ∀ b, PhaseRes O d t bg target thr b →
        Num.le (O.contrast b bg) (O.contrast (genLoop O d t bg target minC last rest s) bg) = true := by
  induction rest generalizing s with
  | nil =>
    refine Or.inr ⟨[], [], rfl, Or.inl rfl, ?_, fun thr hthr => by cases hthr⟩
    unfold genLoop
    cases hb : s.best with
    | none => simp only; rw [hs.2 hb]; exact le_rfl' _
    | some b => simp only; rw [hs.1 b hb]; exact le_rfl' _
  | cons thr rest ih =>
    have hst := genStep_spec O d t bg target minC last thr s hs
    unfold genLoop
    cases hx : genStep O d t bg target minC last thr s with
    | error r =>
      simp only
      rcases hst.1 r hx with h | ⟨h1, h2, h3⟩
      · exact Or.inl h
      · refine Or.inr ⟨[thr], rest, rfl, Or.inr h1, h2, fun thr' hthr' b hb => ?_⟩
        simp only [List.mem_singleton] at hthr'
        subst hthr'
        exact h3 b hb
    | ok s' =>
      simp only
      obtain ⟨g', l', p'⟩ := hst.2 s' hx
      rcases ih s' g' with h | ⟨pre, post, e, h1, h2, h3⟩
      · exact Or.inl h
      · refine Or.inr ⟨thr :: pre, post, by rw [e]; rfl, h1, le_trans' l' h2, fun thr' hthr' b hb => ?_⟩
        simp only [List.mem_cons] at hthr'
        rcases hthr' with rfl | hthr'
        · exact le_trans' (p' b hb) h2
        · exact h3 thr' hthr' b hb

/-- the recorded contrast already meets the minimum ⇒ so does the result -/
theorem genLoop_ge_of_state (hmt : Num.le minC target = true) (rest : List α) (s : GS α)
    (hs : GMax O t bg s) (hC : Num.ge s.bestC minC = true) :
    Num.ge (O.contrast (genLoop O d t bg target minC last rest s) bg) minC = true := by
  rcases genLoop_spec O d t bg target minC last rest s hs with h | ⟨_, _, _, _, h2, _⟩
  · exact le_trans' hmt h
  · exact le_trans' hC h2

/-- some phase result at some remaining entry meets the minimum ⇒ so does the result -/
theorem genLoop_ge_of_phase (hmt : Num.le minC target = true) (rest : List α) (s : GS α)
    (hs : GMax O t bg s) (thr : α) (hthr : thr ∈ rest) (b : RGB)
    (hb : PhaseRes O d t bg target thr b) (hk : Num.ge (O.contrast b bg) minC = true) :
    Num.ge (O.contrast (genLoop O d t bg target minC last rest s) bg) minC = true := by
  rcases genLoop_spec O d t bg target minC last rest s hs with h | ⟨pre, post, e, h1, _, h3⟩
  · exact le_trans' hmt h
  · rcases h1 with h1 | h1
    · subst h1
      rw [List.append_nil] at e; subst e
      exact le_trans' hk (h3 thr hthr b hb)
    · exact h1

/-- with the text itself below the minimum, an entry `thr ≤ 2.5` (schedule ending `≤ 5.0`) at
    which some phase result meets the minimum is the last entry processed: the loop returns at or
    before it -/
theorem genStep_must_return (hcur : Num.ge (O.contrast t bg) minC = false)
    (thr : α) (h1 : Num.le thr (2.5 : α) = true) (h2 : Num.le last (5.0 : α) = true)
    (b : RGB) (hb : PhaseRes O d t bg target thr b) (hk : Num.ge (O.contrast b bg) minC = true)
    (s s' : GS α) (hs : GMax O t bg s) :
    genStep O d t bg target minC last thr s ≠ .ok s' := by
  intro hx
  obtain ⟨s1, s2, a1, a2, a3⟩ := genStep_ok_inv O d t bg target minC last thr s s' hx
  obtain ⟨g1, l1, p1⟩ := absorb_ok O t bg target _ _ s s1 hs a1
  obtain ⟨g2, l2, p2⟩ := absorb_ok O t bg target _ _ s1 s2 g1 a2
  have hC : Num.ge s2.bestC minC = true := by
    rcases hb with hb | hb
    · exact le_trans' hk (le_trans' (p1 b hb) l2)
    · exact le_trans' hk (p2 b hb)
  cases hb2 : s2.best with
  | none =>
    rw [g2.2 hb2] at hC
    rw [hcur] at hC; cases hC
  | some b' =>
    rw [earlyTerm_fires minC last thr s2 b' hb2 hC h1 h2] at a3
    cases a3

theorem genLoop_early_within (hcur : Num.ge (O.contrast t bg) minC = false)
    (W : List α) (pre : List α) (thr : α) (post : List α)
    (hW : ∀ x ∈ pre ++ [thr], x ∈ W)
    (h1 : Num.le thr (2.5 : α) = true) (h2 : Num.le last (5.0 : α) = true)
    (b : RGB) (hb : PhaseRes O d t bg target thr b) (hk : Num.ge (O.contrast b bg) minC = true)
    (s : GS α) (hs : GMax O t bg s) (hg : GInv O t W s) :
    Within O t W (genLoop O d t bg target minC last (pre ++ thr :: post) s) := by
  induction pre generalizing s with
  | nil =>
    have hst := genStep_within O d t bg target minC last thr W (hW thr (by simp)) s hg
    simp only [List.nil_append]
    unfold genLoop
    cases hx : genStep O d t bg target minC last thr s with
    | error r => exact hst.1 r hx
    | ok s' => exact absurd hx (genStep_must_return O d t bg target minC last hcur thr h1 h2 b hb hk s s' hs)
  | cons p pre ih =>
    have hst := genStep_within O d t bg target minC last p W (hW p (by simp)) s hg
    simp only [List.cons_append]
    unfold genLoop
    cases hx : genStep O d t bg target minC last p s with
    | error r => exact hst.1 r hx
    | ok s' =>
      exact ih (fun x hx' => hW x (by simp only [List.cons_append, List.mem_cons]; exact Or.inr hx'))
        s' ((genStep_spec O d t bg target minC last p s hs).2 s' hx).1 (hst.2 s' hx)

end gen

end Cm
