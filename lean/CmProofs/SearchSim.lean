import CmProofs.SearchWithin
/-! Helper lemmas for C16(b): a weaker minimum can only stop earlier, on a passing colour. -/
set_option linter.unusedSectionVars false
namespace Cm
variable {α : Type} [Num α]

/-- state invariant: the recorded contrast is the contrast of the recorded colour -/
def CInv (O : Leaf α) (bg : RGB) (s : GS α) : Prop :=
  ∀ b, s.best = some b → s.bestC = O.contrast b bg

theorem absorb_cinv (O : Leaf α) (t bg target tie cand) (s : GS α) (hs : CInv O bg s) :
    StageSpec (fun _ => True) (CInv O bg) (absorb O t bg target tie cand s) := by
  unfold StageSpec absorb CInv at *
  grind

/-- relation between the two runs' outcomes for one schedule entry -/
def StepSim (O : Leaf α) (bg : RGB) (m2 : α) (x1 x2 : Except RGB (GS α)) : Prop :=
  x2 = x1 ∨ ∃ b, x2 = .error b ∧ Num.ge (O.contrast b bg) m2 = true

variable [LawfulNumOrd α]

theorem earlyTerm_sim (O : Leaf α) (bg) (m1 m2 thr last : α) (h21 : Num.le m2 m1 = true)
    (s : GS α) (hs : CInv O bg s) :
    StepSim O bg m2 (earlyTerm m1 thr last s) (earlyTerm m2 thr last s) := by
  have tr := LawfulNumOrd.le_trans m2 m1 s.bestC h21
  unfold StepSim earlyTerm CInv Num.ge at *
  grind

theorem genStep_sim (O : Leaf α) (d : Descend α) (t bg target m1 m2 last thr)
    (h21 : Num.le m2 m1 = true) (s : GS α) (hs : CInv O bg s) :
    StepSim O bg m2 (genStep O d t bg target m1 last thr s) (genStep O d t bg target m2 last thr s) ∧
    (∀ s', genStep O d t bg target m1 last thr s = .ok s' → CInv O bg s') := by
  unfold genStep
  have h1 := absorb_cinv O t bg target false (binarySearch O t bg thr target) s hs
  cases hA : absorb O t bg target false (binarySearch O t bg thr target) s with
  | error r => exact ⟨Or.inl rfl, fun s' h => (by cases h)⟩
  | ok s1 =>
    have hs1 : CInv O bg s1 := h1.2 s1 hA
    have h2 := absorb_cinv O t bg target true (gradientDescent O d t bg thr target) s1 hs1
    cases hB : absorb O t bg target true (gradientDescent O d t bg thr target) s1 with
    | error r =>
      have e1 : ∀ m, (do let s1 ← (Except.ok s1 : Except RGB (GS α)); let s2 ← absorb O t bg target true (gradientDescent O d t bg thr target) s1; earlyTerm m thr last s2) = Except.error r := by
        intro m; show (absorb O t bg target true _ s1 >>= _) = _; rw [hB]; rfl
      exact ⟨by rw [e1 m1, e1 m2]; exact Or.inl rfl, fun s' h => (by rw [e1 m1] at h; cases h)⟩
    | ok s2 =>
      have hs2 : CInv O bg s2 := h2.2 s2 hB
      have e1 : ∀ m, (do let s1 ← (Except.ok s1 : Except RGB (GS α)); let s2 ← absorb O t bg target true (gradientDescent O d t bg thr target) s1; earlyTerm m thr last s2) = earlyTerm m thr last s2 := by
        intro m; show (absorb O t bg target true _ s1 >>= _) = _; rw [hB]; rfl
      refine ⟨by rw [e1 m1, e1 m2]; exact earlyTerm_sim O bg m1 m2 thr last h21 s2 hs2, fun s' h => ?_⟩
      rw [e1 m1] at h
      unfold earlyTerm at h
      grind

theorem genLoop_sim (O : Leaf α) (d : Descend α) (t bg target m1 m2 last)
    (h21 : Num.le m2 m1 = true) (rest : List α) (s : GS α) (hs : CInv O bg s) :
    genLoop O d t bg target m2 last rest s = genLoop O d t bg target m1 last rest s ∨
    Num.ge (O.contrast (genLoop O d t bg target m2 last rest s) bg) m2 = true := by
  induction rest generalizing s with
  | nil => left; rfl
  | cons thr rest ih =>
    obtain ⟨hsim, hinv⟩ := genStep_sim O d t bg target m1 m2 last thr h21 s hs
    unfold genLoop
    rcases hsim with heq | ⟨b, hb, hle⟩
    · rw [heq]
      cases hx : genStep O d t bg target m1 last thr s with
      | error r => left; rfl
      | ok s' => exact ih s' (hinv s' hx)
    · rw [hb]; right; exact hle

/-- the two runs of `generate_accessible_color` (same target and schedule, minimum `m2 ≤ m1`)
    return the same colour, or the weaker one returns a colour that meets its minimum -/
theorem genAccessible_sim (O : Leaf α) (d : Descend α) (t bg target m1 m2) (sched : List α)
    (h21 : Num.le m2 m1 = true) :
    genAccessible O d t bg target m2 sched = genAccessible O d t bg target m1 sched ∨
    Num.ge (O.contrast (genAccessible O d t bg target m2 sched) bg) m2 = true := by
  simp only [genAccessible]
  split
  · left; rfl
  · exact genLoop_sim O d t bg target m1 m2 _ h21 sched _ (by intro b hb; cases hb)

end Cm
