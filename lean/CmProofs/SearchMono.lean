import CmProofs.SearchWithin
/-! Helper lemmas for C02: the multi-phase search never lowers the contrast. -/
set_option linter.unusedSectionVars false
namespace Cm
variable {α : Type} [Num α] [LawfulNumOrd α]

/-- state invariant: the recorded contrast is at least the starting contrast and is the contrast
    of the recorded colour -/
def MInv (O : Leaf α) (bg : RGB) (cur : α) (s : GS α) : Prop :=
  Num.le cur s.bestC = true ∧ ∀ b, s.best = some b → s.bestC = O.contrast b bg

def NotLower (O : Leaf α) (bg : RGB) (cur : α) (r : RGB) : Prop :=
  Num.le cur (O.contrast r bg) = true

theorem absorb_mono (O : Leaf α) (t bg target tie cand) (cur : α)
    (hcur : Num.ge cur target = false) (s : GS α) (hs : MInv O bg cur s) :
    StageSpec (NotLower O bg cur) (MInv O bg cur) (absorb O t bg target tie cand s) := by
  unfold StageSpec absorb
  cases cand with
  | none => exact ⟨fun r h => (by cases h), fun s' h => (by cases h; exact hs)⟩
  | some b =>
    simp only
    have hct : Num.le cur target = true := le_of_not_le hcur
    constructor
    · intro r h
      split at h
      · rename_i hge; cases h; exact le_trans' hct hge
      · split at h <;> cases h
    · intro s' h
      split at h
      · cases h
      · split at h
        · rename_i hupd
          cases h
          refine ⟨?_, fun b' hb' => (by cases hb'; rfl)⟩
          simp only [Bool.or_eq_true, Bool.and_eq_true, Num.gt, Num.eq] at hupd
          rcases hupd with h1 | ⟨⟨_, _, h3⟩, _⟩
          · exact le_trans' hs.1 (le_of_lt h1)
          · exact le_trans' hs.1 h3
        · cases h; exact hs

theorem earlyTerm_mono (O : Leaf α) (bg) (cur minC thr last : α) (s : GS α) (hs : MInv O bg cur s) :
    StageSpec (NotLower O bg cur) (MInv O bg cur) (earlyTerm minC thr last s) := by
  unfold StageSpec earlyTerm
  cases hb : s.best with
  | none => exact ⟨fun r h => (by cases h), fun s' h => (by cases h; exact hs)⟩
  | some b =>
    simp only
    constructor
    · intro r h
      split at h
      · cases h; unfold NotLower; rw [← hs.2 b hb]; exact hs.1
      · cases h
    · intro s' h
      split at h
      · cases h
      · cases h; exact hs

theorem genStep_mono (O : Leaf α) (d : Descend α) (t bg target minC last thr) (cur : α)
    (hcur : Num.ge cur target = false) (s : GS α) (hs : MInv O bg cur s) :
    StageSpec (NotLower O bg cur) (MInv O bg cur) (genStep O d t bg target minC last thr s) := by
  unfold genStep
  exact StageSpec.bind (absorb_mono O t bg target _ _ cur hcur s hs) fun s1 h1 =>
    StageSpec.bind (absorb_mono O t bg target _ _ cur hcur s1 h1) fun s2 h2 =>
      earlyTerm_mono O bg cur minC thr last s2 h2

theorem genLoop_mono (O : Leaf α) (d : Descend α) (t bg target minC last) (cur : α)
    (hcur : Num.ge cur target = false) (ht : cur = O.contrast t bg)
    (rest : List α) (s : GS α) (hs : MInv O bg cur s) :
    NotLower O bg cur (genLoop O d t bg target minC last rest s) := by
  induction rest generalizing s with
  | nil =>
    unfold genLoop
    cases hb : s.best with
    | none => simp only; unfold NotLower; rw [← ht]; exact le_rfl' cur
    | some b => simp only; unfold NotLower; rw [← hs.2 b hb]; exact hs.1
  | cons thr rest ih =>
    have hst := genStep_mono O d t bg target minC last thr cur hcur s hs
    unfold genLoop
    split
    · exact hst.1 _ ‹_›
    · exact ih _ (hst.2 _ ‹_›)

/-- `generate_accessible_color` never returns a colour of lower contrast than its input -/
theorem genAccessible_mono (O : Leaf α) (d : Descend α) (t bg target minC) (sched : List α) :
    Num.le (O.contrast t bg) (O.contrast (genAccessible O d t bg target minC sched) bg) = true := by
  simp only [genAccessible]
  split
  · exact le_rfl' _
  · rename_i hc
    have hc' : Num.ge (O.contrast t bg) target = false := by
      cases h : Num.ge (O.contrast t bg) target <;> simp_all
    exact genLoop_mono O d t bg target minC _ (O.contrast t bg) hc' rfl sched _
      ⟨le_rfl' _, fun b hb => (by cases hb)⟩

end Cm
