import CmModel.Cli
import CmModel.CliErr
import CmProofs.CliLemmas
/-!
# Lemmas for the static tie of the top-level loop of `process_nodes_recursive` (`CmProps/C08rulestop.lean`)

The code looks every top-level node up in `rule_declarations` (`top = some i` for node number i); the model's `processTop`
passes the index only for `:root` / `html` rules. Both agree when only such rules have a pre-parsed block (`RootKeys`).
-/
namespace Cm.Cli

theorem RootKeys.step {n : Node} {ns : List Node} {off : Nat} {r r' : List (Nat × List Item)}
    (h : RootKeys (n :: ns) off r) (hle : RootsLe r r') : RootKeys ns (off + 1) r' := by
  intro kv' hkv' j m hj hm
  obtain ⟨kv, hkv, e, _⟩ := hle kv' hkv'
  exact h kv hkv (j + 1) m (by omega) (by simpa using hm)

theorem processRule_top_none (env : CliEnv) (cfg : Cfg) (i : Nat) (sel : Str) (items : List Item) (st : St)
    (hg : getRoot st i = none) :
    processRule env cfg (some i) sel items st = processRule env cfg none sel items st := by
  rw [processRule_eq, processRule_eq]
  have hseen : seenItems (some i) items st = seenItems none items st := by
    simp only [seenItems, sharedOf, hg, Option.map_none]
  have ht : ∀ ci cd, tunedStep env cfg (some i) sel items st ci cd = tunedStep env cfg none sel items st ci cd := by
    intro ci cd
    unfold tunedStep
    rw [hseen]
    simp only []
    cases hv : viaVarOf env st (strip env cd.value) with
    | none => simp only [shareBack, sharedOf, hg, Option.map_none]
    | some nd =>
      obtain ⟨name, d⟩ := nd
      simp only [itemsAfterVar]
      rw [getRoot_rewriteVar]
      have h1 : ∀ f, getRoot (tuneSt st f) i = none := fun f => hg
      have h2 : ∀ f k, getRoot (tuneSt st f) k = getRoot st k := fun f k => rfl
      rw [h2]
      cases hd : getRoot st d.rule with
      | none => simp only [h1]; rfl
      | some its =>
        simp only []
        by_cases e : d.rule = i
        · rw [e, hg] at hd; cases hd
        · simp only [e, if_false, h1]; rfl
  simp only [processRule', hseen, ht]

theorem processNode_topOf (env : CliEnv) (cfg : Cfg) (n : Node) (ns : List Node) (i : Nat) (st : St)
    (hk : RootKeys (n :: ns) i st.rootDecls) :
    processNode env cfg (some i) st n = processNode env cfg (topOf n i) st n := by
  cases n with
  | rule sel items =>
    simp only [topOf]
    split
    · rfl
    · next hsel =>
      have hg : getRoot st i = none := by
        cases hg : getRoot st i with
        | none => rfl
        | some its =>
          obtain ⟨sel', items', e, hr⟩ := hk _ (getRoot_mem hg) 0 _ rfl rfl
          cases e; exact absurd hr hsel
      rw [processNode_rule, processNode_rule, processRule_top_none env cfg i sel items st hg]
  | «at» kw pre body => rw [processNode_at, processNode_at]
  | other t ok => rw [processNode_other, processNode_other]

end Cm.Cli
