import CmModel.Cert
import CmProofs.RealNum
import Mathlib.Analysis.SpecialFunctions.Pow.Real
import Mathlib.Data.Rat.Cast.Order
/-!
# Soundness of the certified WCAG verdict (`CmModel/Cert.lean`)

* `rpow_12_5_bounds` — `lo^5 ≤ x^12 ≤ hi^5 → lo ≤ x^2.4 ≤ hi` over ℝ;
* `cert_pow`, `cert_exact`, `cert_width` — the 256 table entries, checked over ℚ by kernel
  evaluation (`decide +kernel`; no `native_decide`);
* `linTable_sound` — every table entry encloses the real linearisation;
* `lum_sound` — `lumLo ≤ luminance ≤ lumHi` at the real carrier;
* `certVerdict_sound` — a `some v` answer is the truth about the real contrast ratio.
-/
namespace Cm
open Real

/-- enclosure of `x ^ 2.4` from two polynomial inequalities -/
theorem rpow_12_5_bounds {x lo hi : ℝ} (hx : 0 ≤ x) (hlo : 0 ≤ lo) (hhi : 0 ≤ hi)
    (h1 : lo ^ 5 ≤ x ^ 12) (h2 : x ^ 12 ≤ hi ^ 5) :
    lo ≤ x ^ (2.4 : ℝ) ∧ x ^ (2.4 : ℝ) ≤ hi := by
  have key : (x ^ (2.4 : ℝ)) ^ 5 = x ^ 12 := by
    rw [← Real.rpow_natCast, ← Real.rpow_mul hx]
    norm_num
  have hy : 0 ≤ x ^ (2.4 : ℝ) := Real.rpow_nonneg hx _
  have _ := hlo  -- (kept in the signature for symmetry; not needed)
  constructor
  · by_contra h
    push Not at h
    have : (x ^ (2.4 : ℝ)) ^ 5 < lo ^ 5 := pow_lt_pow_left₀ h hy (by norm_num)
    linarith
  · by_contra h
    push Not at h
    have : hi ^ 5 < (x ^ (2.4 : ℝ)) ^ 5 := pow_lt_pow_left₀ h hhi (by norm_num)
    linarith

/-- the sRGB linearisation over ℝ (the right-hand side of `srgbToLinear_real`) -/
noncomputable def linR (c : ℝ) : ℝ :=
  if c ≤ 0.04045 then c / 12.92 else ((c + 0.055) / 1.055) ^ (2.4 : ℝ)

theorem srgbToLinear_real_eq_linR (c : ℝ) : @srgbToLinear ℝ realNum c = linR c :=
  srgbToLinear_real c

theorem linR_nonneg {c : ℝ} (hc : 0 ≤ c) : 0 ≤ linR c := by
  unfold linR; split
  · positivity
  · exact Real.rpow_nonneg (by positivity) _

/-! ## Kernel-checked certification of the table (over ℚ) -/

/-- entries 11..255: `0 ≤ lo`, `lo^5 ≤ x^12 ≤ hi^5` with `x = (v/255+0.055)/1.055` -/
theorem cert_pow : ∀ v : Nat, v < 256 → 11 ≤ v →
    (0 ≤ linLo v ∧ linLo v ^ 5 ≤ linArg v ^ 12 ∧ linArg v ^ 12 ≤ linHi v ^ 5) := by
  decide +kernel

/-- entries 0..10 are the exact value `v/255/12.92` -/
theorem cert_exact : ∀ v : Nat, v < 11 →
    (linLo v = (v : ℚ) / 255 / (1292 / 100) ∧ linHi v = (v : ℚ) / 255 / (1292 / 100)) := by
  decide +kernel

/-- every enclosure is at most `1e-15` wide (in fact `1e-18`) -/
theorem cert_width : ∀ v : Nat, v ≤ 255 → linHi v - linLo v ≤ 1 / 10 ^ 15 := by
  decide +kernel

theorem linArg_cast (v : Nat) : ((linArg v : ℚ) : ℝ) = ((v : ℝ) / 255 + 0.055) / 1.055 := by
  unfold linArg; push_cast; norm_num

/-- **Table soundness**: for every 8-bit channel value the table entry encloses the real
    linearisation of `v/255`. -/
theorem linTable_sound (v : Nat) (hv : v ≤ 255) :
    ((linLo v : ℚ) : ℝ) ≤ linR ((v : ℝ) / 255) ∧ linR ((v : ℝ) / 255) ≤ ((linHi v : ℚ) : ℝ) := by
  by_cases h10 : v < 11
  · obtain ⟨e1, e2⟩ := cert_exact v h10
    have hvr : (v : ℝ) ≤ 10 := by exact_mod_cast Nat.le_of_lt_succ h10
    have hc : (v : ℝ) / 255 ≤ 0.04045 := by
      rw [div_le_iff₀ (by norm_num)]; norm_num; linarith
    have hval : linR ((v : ℝ) / 255) = (v : ℝ) / 255 / 12.92 := by
      unfold linR; rw [if_pos hc]
    have hq : (((v : ℚ) / 255 / (1292 / 100) : ℚ) : ℝ) = (v : ℝ) / 255 / 12.92 := by
      push_cast; norm_num
    rw [e1, e2, hval, hq]
    exact ⟨le_refl _, le_refl _⟩
  · have h11 : 11 ≤ v := Nat.le_of_not_lt h10
    obtain ⟨h0, h1, h2⟩ := cert_pow v (Nat.lt_succ_of_le hv) h11
    have hvr : (11 : ℝ) ≤ (v : ℝ) := by exact_mod_cast h11
    have hc : ¬ (v : ℝ) / 255 ≤ 0.04045 := by
      rw [not_le, lt_div_iff₀ (by norm_num)]; norm_num; linarith
    have hval : linR ((v : ℝ) / 255) = (((v : ℝ) / 255 + 0.055) / 1.055) ^ (2.4 : ℝ) := by
      unfold linR; rw [if_neg hc]
    have hx : (0 : ℝ) ≤ ((v : ℝ) / 255 + 0.055) / 1.055 := by positivity
    have h0r : (0 : ℝ) ≤ ((linLo v : ℚ) : ℝ) := by exact_mod_cast h0
    have h1r : ((linLo v : ℚ) : ℝ) ^ 5 ≤ (((v : ℝ) / 255 + 0.055) / 1.055) ^ 12 := by
      rw [← linArg_cast]; exact_mod_cast h1
    have h2r : (((v : ℝ) / 255 + 0.055) / 1.055) ^ 12 ≤ ((linHi v : ℚ) : ℝ) ^ 5 := by
      rw [← linArg_cast]; exact_mod_cast h2
    have hhi : (0 : ℝ) ≤ ((linHi v : ℚ) : ℝ) := by
      by_contra hneg
      push Not at hneg
      have : ((linHi v : ℚ) : ℝ) ^ 5 < 0 := Odd.pow_neg (by decide) hneg
      have : (0 : ℝ) ≤ (((v : ℝ) / 255 + 0.055) / 1.055) ^ 12 := by positivity
      linarith
    rw [hval]
    exact rpow_12_5_bounds hx h0r hhi h1r h2r

/-- the same, phrased with the model's own functions at the real carrier -/
theorem linTable_sound_model (v : Nat) (hv : v ≤ 255) :
    ((linLo v : ℚ) : ℝ) ≤ @srgbToLinear ℝ realNum (@chan ℝ realNum (v : ℤ)) ∧
    @srgbToLinear ℝ realNum (@chan ℝ realNum (v : ℤ)) ≤ ((linHi v : ℚ) : ℝ) := by
  have hchan : @chan ℝ realNum (v : ℤ) = (v : ℝ) / 255 := by
    unfold chan; simp only [real_div, real_sci, real_ofInt]; norm_num
  rw [hchan, srgbToLinear_real_eq_linR]
  exact linTable_sound v hv

/-! ## Luminance -/

/-- the model's relative luminance at ℝ in Mathlib's vocabulary -/
theorem cert_luminance_real (c : RGB) :
    @luminance ℝ realNum c =
      0.2126 * linR ((c.1 : ℝ) / 255) + 0.7152 * linR ((c.2.1 : ℝ) / 255)
        + 0.0722 * linR ((c.2.2 : ℝ) / 255) := by
  unfold luminance chan
  simp only [srgbToLinear_real_eq_linR, real_add, real_mul, real_div, real_sci, real_ofInt]
  norm_num

theorem chan_valid {x : ℤ} (h0 : 0 ≤ x) (h1 : x ≤ 255) :
    x.toNat ≤ 255 ∧ ((x.toNat : ℕ) : ℝ) = (x : ℝ) := by
  constructor
  · omega
  · have : ((x.toNat : ℕ) : ℤ) = x := Int.toNat_of_nonneg h0
    exact_mod_cast congrArg (fun z : ℤ => (z : ℝ)) this

theorem cert_validRgb_iff (c : RGB) : validRgb c = true ↔
    (0 ≤ c.1 ∧ c.1 ≤ 255) ∧ (0 ≤ c.2.1 ∧ c.2.1 ≤ 255) ∧ (0 ≤ c.2.2 ∧ c.2.2 ≤ 255) := by
  unfold validRgb; simp [and_assoc]

/-- **Luminance enclosure** for a valid 8-bit colour -/
theorem lum_sound (c : RGB) (hc : validRgb c = true) :
    ((lumLo c : ℚ) : ℝ) ≤ @luminance ℝ realNum c ∧ @luminance ℝ realNum c ≤ ((lumHi c : ℚ) : ℝ) := by
  obtain ⟨⟨r0, r1⟩, ⟨g0, g1⟩, ⟨b0, b1⟩⟩ := (cert_validRgb_iff c).1 hc
  obtain ⟨hr, er⟩ := chan_valid r0 r1
  obtain ⟨hg, eg⟩ := chan_valid g0 g1
  obtain ⟨hb, eb⟩ := chan_valid b0 b1
  have Hr := linTable_sound _ hr
  have Hg := linTable_sound _ hg
  have Hb := linTable_sound _ hb
  rw [er] at Hr; rw [eg] at Hg; rw [eb] at Hb
  rw [cert_luminance_real]
  unfold lumLo lumHi
  push_cast
  constructor <;> nlinarith [Hr.1, Hr.2, Hg.1, Hg.2, Hb.1, Hb.2]

theorem cert_luminance_nonneg (c : RGB) (hc : validRgb c = true) : 0 ≤ @luminance ℝ realNum c := by
  obtain ⟨⟨r0, _⟩, ⟨g0, _⟩, ⟨b0, _⟩⟩ := (cert_validRgb_iff c).1 hc
  rw [cert_luminance_real]
  have hr : (0 : ℝ) ≤ (c.1 : ℝ) / 255 := by
    have : (0 : ℝ) ≤ (c.1 : ℝ) := by exact_mod_cast r0
    positivity
  have hg : (0 : ℝ) ≤ (c.2.1 : ℝ) / 255 := by
    have : (0 : ℝ) ≤ (c.2.1 : ℝ) := by exact_mod_cast g0
    positivity
  have hb : (0 : ℝ) ≤ (c.2.2 : ℝ) / 255 := by
    have : (0 : ℝ) ≤ (c.2.2 : ℝ) := by exact_mod_cast b0
    positivity
  have := linR_nonneg hr; have := linR_nonneg hg; have := linR_nonneg hb
  positivity

/-! ## Contrast ratio and the verdict -/

/-- the model's contrast ratio at ℝ in Mathlib's vocabulary -/
theorem cert_contrastRatio_real (a b : RGB) :
    @contrastRatio ℝ realNum a b =
      (max (@luminance ℝ realNum a) (@luminance ℝ realNum b) + 0.05) /
        (min (@luminance ℝ realNum a) (@luminance ℝ realNum b) + 0.05) := by
  unfold contrastRatio
  simp only [real_pmax, real_pmin, real_add, real_div, real_sci]

theorem rmax_cast (p q : ℚ) : ((rmax p q : ℚ) : ℝ) = max (p : ℝ) (q : ℝ) := by
  unfold rmax
  by_cases h : p ≤ q
  · rw [if_pos h, max_eq_right (by exact_mod_cast h)]
  · rw [if_neg h, max_eq_left (by exact_mod_cast (le_of_not_ge h))]

theorem rmin_cast (p q : ℚ) : ((rmin p q : ℚ) : ℝ) = min (p : ℝ) (q : ℝ) := by
  unfold rmin
  by_cases h : p ≤ q
  · rw [if_pos h, min_eq_left (by exact_mod_cast h)]
  · rw [if_neg h, min_eq_right (by exact_mod_cast (le_of_not_ge h))]

/-- enclosures of numerator and denominator of the real contrast ratio -/
theorem num_den_sound (a b : RGB) (ha : validRgb a = true) (hb : validRgb b = true) :
    let N := max (@luminance ℝ realNum a) (@luminance ℝ realNum b) + 0.05
    let D := min (@luminance ℝ realNum a) (@luminance ℝ realNum b) + 0.05
    ((numLo a b : ℚ) : ℝ) ≤ N ∧ N ≤ ((numHi a b : ℚ) : ℝ) ∧
    ((denLo a b : ℚ) : ℝ) ≤ D ∧ D ≤ ((denHi a b : ℚ) : ℝ) ∧ 0 < D ∧ 0 < N := by
  intro N D
  obtain ⟨a1, a2⟩ := lum_sound a ha
  obtain ⟨b1, b2⟩ := lum_sound b hb
  have pa := cert_luminance_nonneg a ha
  have pb := cert_luminance_nonneg b hb
  have e5 : (((5 : ℚ) / 100 : ℚ) : ℝ) = 0.05 := by push_cast; norm_num
  refine ⟨?_, ?_, ?_, ?_, ?_, ?_⟩
  · unfold numLo; rw [Rat.cast_add, rmax_cast, e5]
    exact add_le_add (max_le_max a1 b1) (le_refl _)
  · unfold numHi; rw [Rat.cast_add, rmax_cast, e5]
    exact add_le_add (max_le_max a2 b2) (le_refl _)
  · unfold denLo; rw [Rat.cast_add, rmin_cast, e5]
    exact add_le_add (min_le_min a1 b1) (le_refl _)
  · unfold denHi; rw [Rat.cast_add, rmin_cast, e5]
    exact add_le_add (min_le_min a2 b2) (le_refl _)
  · have : 0 ≤ min (@luminance ℝ realNum a) (@luminance ℝ realNum b) := le_min pa pb
    show 0 < min _ _ + 0.05
    norm_num; linarith
  · have : 0 ≤ max (@luminance ℝ realNum a) (@luminance ℝ realNum b) := le_max_of_le_left pa
    show 0 < max _ _ + 0.05
    norm_num; linarith

/-- every lower table entry is non-negative -/
theorem cert_lo_nonneg : ∀ v : Nat, v ≤ 255 → 0 ≤ linLo v := by
  decide +kernel

theorem lumLo_nonneg (c : RGB) (hc : validRgb c = true) : 0 ≤ lumLo c := by
  obtain ⟨⟨r0, r1⟩, ⟨g0, g1⟩, ⟨b0, b1⟩⟩ := (cert_validRgb_iff c).1 hc
  have hr := cert_lo_nonneg c.1.toNat (by omega)
  have hg := cert_lo_nonneg c.2.1.toNat (by omega)
  have hb := cert_lo_nonneg c.2.2.toNat (by omega)
  unfold lumLo
  exact add_nonneg (add_nonneg (mul_nonneg (by norm_num) hr) (mul_nonneg (by norm_num) hg))
    (mul_nonneg (by norm_num) hb)

theorem denLo_pos (a b : RGB) (ha : validRgb a = true) (hb : validRgb b = true) :
    0 < denLo a b := by
  have h1 := lumLo_nonneg a ha
  have h2 := lumLo_nonneg b hb
  have : 0 ≤ rmin (lumLo a) (lumLo b) := by
    unfold rmin; split
    · exact h1
    · exact h2
  unfold denLo
  exact add_pos_of_nonneg_of_pos this (by norm_num)

/-- the rational enclosure `[ratioLo, ratioHi]` contains the real contrast ratio -/
theorem ratio_sound (a b : RGB) (ha : validRgb a = true) (hb : validRgb b = true) :
    ((ratioLo a b : ℚ) : ℝ) ≤ @contrastRatio ℝ realNum a b ∧
    @contrastRatio ℝ realNum a b ≤ ((ratioHi a b : ℚ) : ℝ) := by
  obtain ⟨n1, n2, d1, d2, dpos, npos⟩ := num_den_sound a b ha hb
  have hdr : (0 : ℝ) < ((denLo a b : ℚ) : ℝ) := by exact_mod_cast denLo_pos a b ha hb
  rw [cert_contrastRatio_real]
  unfold ratioLo ratioHi
  push_cast
  constructor
  · by_cases hn : 0 ≤ ((numLo a b : ℚ) : ℝ)
    · exact div_le_div₀ (le_trans hn n1) n1 dpos d2
    · push Not at hn
      have h1 : ((numLo a b : ℚ) : ℝ) / ((denHi a b : ℚ) : ℝ) ≤ 0 :=
        div_nonpos_of_nonpos_of_nonneg hn.le (le_trans dpos.le d2)
      exact le_trans h1 (div_pos npos dpos).le
  · exact div_le_div₀ (le_trans npos.le n2) n2 hdr d1

/-- **Soundness of the certified verdict.** Whenever `certVerdict` answers `some v`, `v` is the
    truth value of `thr ≤ contrast_ratio(a, b)` for the real-number contrast ratio of the model. -/
theorem certVerdict_sound (a b : RGB) (thr : ℚ) (v : Bool) :
    certVerdict a b thr = some v → ((thr : ℝ) ≤ @contrastRatio ℝ realNum a b ↔ v = true) := by
  unfold certVerdict
  by_cases hval : (validRgb a && validRgb b) = true
  · rw [if_pos hval]
    obtain ⟨ha, hb⟩ := Bool.and_eq_true_iff.1 hval
    obtain ⟨n1, n2, d1, d2, dpos, npos⟩ := num_den_sound a b ha hb
    rw [cert_contrastRatio_real]
    by_cases ht : thr ≤ 0
    · rw [if_pos ht]
      intro h
      have hv : v = true := by injection h with h; exact h.symm
      have htr : (thr : ℝ) ≤ 0 := by exact_mod_cast ht
      exact ⟨fun _ => hv, fun _ => le_trans htr (div_pos npos dpos).le⟩
    · rw [if_neg ht]
      have htr : (0 : ℝ) < (thr : ℝ) := by exact_mod_cast (lt_of_not_ge ht)
      by_cases hT : thr * denHi a b ≤ numLo a b
      · rw [if_pos hT]
        intro h
        have hv : v = true := by injection h with h; exact h.symm
        have hTr : (thr : ℝ) * ((denHi a b : ℚ) : ℝ) ≤ ((numLo a b : ℚ) : ℝ) := by
          exact_mod_cast hT
        refine ⟨fun _ => hv, fun _ => ?_⟩
        rw [le_div_iff₀ dpos]
        calc (thr : ℝ) * _ ≤ (thr : ℝ) * ((denHi a b : ℚ) : ℝ) :=
              mul_le_mul_of_nonneg_left d2 htr.le
          _ ≤ ((numLo a b : ℚ) : ℝ) := hTr
          _ ≤ _ := n1
      · rw [if_neg hT]
        by_cases hF : numHi a b < thr * denLo a b
        · rw [if_pos hF]
          intro h
          have hv : v = false := by injection h with h; exact h.symm
          have hFr : ((numHi a b : ℚ) : ℝ) < (thr : ℝ) * ((denLo a b : ℚ) : ℝ) := by
            exact_mod_cast hF
          have hlt : (max (@luminance ℝ realNum a) (@luminance ℝ realNum b) + 0.05) /
              (min (@luminance ℝ realNum a) (@luminance ℝ realNum b) + 0.05) < (thr : ℝ) := by
            rw [div_lt_iff₀ dpos]
            calc _ ≤ ((numHi a b : ℚ) : ℝ) := n2
              _ < (thr : ℝ) * ((denLo a b : ℚ) : ℝ) := hFr
              _ ≤ (thr : ℝ) * _ := mul_le_mul_of_nonneg_left d1 htr.le
          subst hv
          exact ⟨fun hle => absurd hle (not_le.2 hlt), fun h => by cases h⟩
        · rw [if_neg hF]
          intro h; cases h
  · rw [if_neg hval]
    intro h; cases h

/-- completeness on the decided side, for reporting: the verdict is `none` only if the input is
    invalid or `thr` lies in the (tiny) rational enclosure of the ratio -/
theorem certVerdict_none (a b : RGB) (thr : ℚ) (ha : validRgb a = true) (hb : validRgb b = true)
    (h : certVerdict a b thr = none) :
    numLo a b < thr * denHi a b ∧ thr * denLo a b ≤ numHi a b := by
  unfold certVerdict at h
  rw [if_pos (by simp [ha, hb])] at h
  by_cases ht : thr ≤ 0
  · rw [if_pos ht] at h; cases h
  · rw [if_neg ht] at h
    by_cases hT : thr * denHi a b ≤ numLo a b
    · rw [if_pos hT] at h; cases h
    · rw [if_neg hT] at h
      by_cases hF : numHi a b < thr * denLo a b
      · rw [if_pos hF] at h; cases h
      · exact ⟨lt_of_not_ge hT, le_of_not_gt hF⟩

end Cm
