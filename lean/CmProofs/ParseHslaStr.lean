import CmProofs.ParseHslStr
/-!
# `hsla(…)` strings: from the text to the compositing step (ASCII oracle, exact carrier)
-/
namespace Cm.ParseSpec
open Cm Cm.Parse

/-! ## `splitOn` -/

theorem splitOn_go_acc (c : Char) : ∀ (s cur : Str) (acc : List Str),
    Str.splitOn.go c s cur acc = acc.reverse ++ Str.splitOn.go c s cur [] := by
  intro s
  induction s with
  | nil => intro cur acc; simp [Str.splitOn.go]
  | cons x xs ih =>
    intro cur acc
    simp only [Str.splitOn.go]
    split
    · rw [ih [] (cur.reverse :: acc), ih [] [cur.reverse]]; simp
    · exact ih (x :: cur) acc

theorem splitOn_go_seg {c : Char} {seg : Str} (hseg : c ∉ seg) (xs cur : Str) (acc : List Str) :
    Str.splitOn.go c (seg ++ xs) cur acc = Str.splitOn.go c xs (seg.reverse ++ cur) acc := by
  induction seg generalizing cur with
  | nil => rfl
  | cons x t ih =>
    have hx : x ≠ c := fun e => hseg (e ▸ List.mem_cons_self)
    rw [List.cons_append]
    simp only [Str.splitOn.go, hx, if_false]
    rw [ih (fun hm => hseg (List.mem_cons_of_mem _ hm))]
    simp

theorem splitOn_seg_sep {c : Char} {seg : Str} (hseg : c ∉ seg) (rest : Str) :
    Str.splitOn (seg ++ c :: rest) c = seg :: Str.splitOn rest c := by
  unfold Str.splitOn
  rw [splitOn_go_seg hseg]
  simp only [Str.splitOn.go, if_true, List.append_nil, List.reverse_reverse]
  rw [splitOn_go_acc]; rfl

theorem splitOn_seg_end {c : Char} {seg : Str} (hseg : c ∉ seg) : Str.splitOn seg c = [seg] := by
  unfold Str.splitOn
  have := splitOn_go_seg hseg [] [] []
  rw [List.append_nil] at this
  rw [this]
  simp [Str.splitOn.go]

theorem AllSp.isSpace {w : Str} (h : AllSp w) : ∀ c ∈ w, asciiCls.isSpace c = true := by
  intro c hc; rw [h c hc]; decide

theorem AllSp.not_mem {w : Str} (h : AllSp w) {c : Char} (hc : c ≠ ' ') : c ∉ w :=
  fun hm => hc (h c hm)


/-! ## `hsla(…)` -/

theorem lit_hsla' : "hsla(".toList = ['h', 's', 'l', 'a', '('] := by decide

structure HslaShape (s body : Str) : Prop where
  strip : Str.strip asciiCls s = s
  lower : Str.lower asciiCls s = s
  lookup : lookupNamed ⟨asciiCls, namedEnv⟩ s = none
  hash : Str.startsWith s ['#'] = false
  bare : isBareHex s = false
  hsla : Str.startsWith s "hsla(".toList = true
  close : Str.endsWith s [')'] = true
  inner : (s.drop 5).dropLast = body

theorem hslaShape {body : Str} (hbody : ∀ c ∈ body, lc c = c) :
    HslaShape ("hsla(".toList ++ body ++ [')']) body := by
  rw [lit_hsla']
  have hne : ['h', 's', 'l', 'a', '('] ++ body ++ [')'] ≠ [] := by simp
  have hlast : (['h', 's', 'l', 'a', '('] ++ body ++ [')']).getLast hne = ')' := by simp
  have hlc : ∀ c ∈ ['h', 's', 'l', 'a', '('] ++ body ++ [')'], lc c = c := by
    intro c hc
    rcases List.mem_append.1 hc with hc | hc
    · rcases List.mem_append.1 hc with hc | hc
      · simp only [List.mem_cons, List.not_mem_nil, or_false] at hc
        rcases hc with rfl | rfl | rfl | rfl | rfl <;> decide
      · exact hbody c hc
    · have : c = ')' := by simpa using hc
      subst this; decide
  refine ⟨?_, ?_, lookupNamed_of_nonletter _ (c := '(') (by simp) (by decide), ?_, ?_, ?_, ?_, ?_⟩
  · apply strip_fixed_of asciiCls _ hne
    · simp only [List.cons_append, List.head_cons]; decide
    · rw [hlast]; decide
  · rw [lower_ascii_eq_map]
    conv_rhs => rw [← List.map_id (['h', 's', 'l', 'a', '('] ++ body ++ [')'])]
    exact List.map_congr_left fun c hc => hlc c hc
  · simp [Str.startsWith, List.isPrefixOf]
  · simp [isBareHex, Str.isHexDigit]
  · simp [Str.startsWith, List.isPrefixOf]
  · simp [Str.endsWith, List.isPrefixOf]
  · simp

/-- characters inside `hsla( … )` -/
def HslaChar (c : Char) : Prop := HueChar c ∨ c = '%' ∨ c = ' ' ∨ c = ','

theorem hslaChar_lc {c : Char} (h : HslaChar c) : lc c = c := by
  rcases h with h | rfl | rfl | rfl
  · exact (hueCharFacts h).lc
  all_goals decide

theorem hslaChar_ne_slash {c : Char} (h : HslaChar c) : c ≠ '/' := by
  rcases h with h | rfl | rfl | rfl
  · exact (hueCharFacts h).ne_slash
  all_goals decide

theorem tok_hslaChars {t : Str} {v : ℚ} {p : Bool} (h : NumTok t v p) : ∀ c ∈ t, HslaChar c := by
  intro c hc
  rcases h.chars c hc with h | h | h
  · exact Or.inl (Or.inl h)
  · exact Or.inl (Or.inr (Or.inl h))
  · exact Or.inr (Or.inl h)

theorem sp_hslaChars {w : Str} (h : AllSp w) : ∀ c ∈ w, HslaChar c :=
  fun c hc => Or.inr (Or.inr (Or.inl (h c hc)))

/-- a token with its percent sign removed is the numeral -/
theorem NumTok.unpct {t : Str} {v : ℚ} {p : Bool} (h : NumTok t v p) :
    ∃ b, Numeral b v ∧ Str.replaceChar t '%' [] = b := by
  cases h with
  | plain h =>
    exact ⟨t, h, replaceChar_absent (fun hm => (hueCharFacts (numeral_hueChars h _ hm)).ne_pct rfl) _⟩
  | pct h =>
    rename_i b
    refine ⟨b, h, ?_⟩
    rw [replaceChar_append,
      replaceChar_absent (fun hm => (hueCharFacts (numeral_hueChars h _ hm)).ne_pct rfl)]
    simp [Str.replaceChar]

theorem strip_wrapped_sp {w1 t w2 : Str} (h1 : AllSp w1) (h2 : AllSp w2)
    (ht : Str.strip asciiCls t = t) : Str.strip asciiCls (w1 ++ (t ++ w2)) = t := by
  rw [← List.append_assoc, strip_ws_append asciiCls w1 t w2 h1.isSpace h2.isSpace, ht]

/-- `hsla(H, S%, L%, A)`: commas between the four items, blanks anywhere around them -/
theorem hsla_string {w0 w1 w2 w3 w4 w5 w6 w7 sgn hb sb lb t3 : Str} {neg p3 : Bool} {vh vs vl va : ℚ}
    (hs : SignOf sgn neg) (hH : Numeral hb vh) (hS : Numeral sb vs) (hL : Numeral lb vl)
    (hA : NumTok t3 va p3)
    (s0 : AllSp w0) (s1 : AllSp w1) (s2 : AllSp w2) (s3 : AllSp w3) (s4 : AllSp w4) (s5 : AllSp w5)
    (s6 : AllSp w6) (s7 : AllSp w7) (bg : Option RGB) :
    @parseStr ℚ ratNum ⟨asciiCls, namedEnv⟩
        ("hsla(".toList ++
          (w0 ++ ((((sgn ++ hb) ++ w1) ++ ',' :: ((w2 ++ ((sb ++ ['%']) ++ w3)) ++ ',' ::
            ((w4 ++ ((lb ++ ['%']) ++ w5)) ++ ',' :: (w6 ++ t3)))) ++ w7)) ++ [')']) bg =
      @hslaFinish ℚ ratNum (pmodQ (if neg then -vh else vh) 360) (vs / 100) (vl / 100)
        (if va ≤ 1 then va else va / 100) bg := by
  -- characters
  have cH : ∀ c ∈ sgn ++ hb, HslaChar c := fun c hc => Or.inl (signed_chars hs hH c hc)
  have cS : ∀ c ∈ sb ++ ['%'], HslaChar c := tok_hslaChars (NumTok.pct hS)
  have cL : ∀ c ∈ lb ++ ['%'], HslaChar c := tok_hslaChars (NumTok.pct hL)
  have cA : ∀ c ∈ t3, HslaChar c := tok_hslaChars hA
  have hmid : ∀ c ∈ ((sgn ++ hb) ++ w1) ++ ',' :: ((w2 ++ ((sb ++ ['%']) ++ w3)) ++ ',' ::
      ((w4 ++ ((lb ++ ['%']) ++ w5)) ++ ',' :: (w6 ++ t3))), HslaChar c := by
    intro c hc
    simp only [List.mem_append, List.mem_cons] at hc
    rcases hc with (h | h) | h | (h | (h | h)) | h | (h | (h | h)) | h | h | h
    · exact cH c (List.mem_append.2 h)
    · exact sp_hslaChars s1 c h
    · exact Or.inr (Or.inr (Or.inr h))
    · exact sp_hslaChars s2 c h
    · exact cS c (by simp only [List.mem_append, List.mem_cons]; exact h)
    · exact sp_hslaChars s3 c h
    · exact Or.inr (Or.inr (Or.inr h))
    · exact sp_hslaChars s4 c h
    · exact cL c (by simp only [List.mem_append, List.mem_cons]; exact h)
    · exact sp_hslaChars s5 c h
    · exact Or.inr (Or.inr (Or.inr h))
    · exact sp_hslaChars s6 c h
    · exact cA c h
  have hbody : ∀ c ∈ w0 ++ ((((sgn ++ hb) ++ w1) ++ ',' :: ((w2 ++ ((sb ++ ['%']) ++ w3)) ++ ',' ::
      ((w4 ++ ((lb ++ ['%']) ++ w5)) ++ ',' :: (w6 ++ t3)))) ++ w7), lc c = c := by
    intro c hc
    rcases List.mem_append.1 hc with h | h
    · exact hslaChar_lc (sp_hslaChars s0 c h)
    · rcases List.mem_append.1 h with h | h
      · exact hslaChar_lc (hmid c h)
      · exact hslaChar_lc (sp_hslaChars s7 c h)
  have S := hslaShape hbody
  -- strip of the content
  have hmidne : ((sgn ++ hb) ++ w1) ++ ',' :: ((w2 ++ ((sb ++ ['%']) ++ w3)) ++ ',' ::
      ((w4 ++ ((lb ++ ['%']) ++ w5)) ++ ',' :: (w6 ++ t3))) ≠ [] := by simp
  have hstripmid : Str.strip asciiCls (((sgn ++ hb) ++ w1) ++ ',' :: ((w2 ++ ((sb ++ ['%']) ++ w3)) ++ ',' ::
      ((w4 ++ ((lb ++ ['%']) ++ w5)) ++ ',' :: (w6 ++ t3)))) = (((sgn ++ hb) ++ w1) ++ ',' :: ((w2 ++ ((sb ++ ['%']) ++ w3)) ++ ',' ::
      ((w4 ++ ((lb ++ ['%']) ++ w5)) ++ ',' :: (w6 ++ t3)))) := by
    apply strip_fixed_of asciiCls _ hmidne
    · rw [List.head_append_of_ne_nil (List.append_ne_nil_of_left_ne_nil (signed_ne_nil hH) _),
        List.head_append_of_ne_nil (signed_ne_nil hH)]
      exact (hueCharFacts (signed_chars hs hH _ (List.head_mem _))).notSpace
    · have e : (((sgn ++ hb) ++ w1) ++ ',' :: ((w2 ++ ((sb ++ ['%']) ++ w3)) ++ ',' ::
          ((w4 ++ ((lb ++ ['%']) ++ w5)) ++ ',' :: (w6 ++ t3)))).getLast hmidne = t3.getLast hA.ne_nil := by
        have : ((sgn ++ hb) ++ w1) ++ ',' :: ((w2 ++ ((sb ++ ['%']) ++ w3)) ++ ',' ::
            ((w4 ++ ((lb ++ ['%']) ++ w5)) ++ ',' :: (w6 ++ t3))) =
            (((sgn ++ hb) ++ w1) ++ ',' :: ((w2 ++ ((sb ++ ['%']) ++ w3)) ++ ',' ::
            ((w4 ++ ((lb ++ ['%']) ++ w5)) ++ ',' :: w6))) ++ t3 := by simp [List.append_assoc]
        simp only [this]
        rw [List.getLast_append_of_ne_nil _ hA.ne_nil]
      rw [e]
      exact (tokCharFacts (hA.chars _ (List.getLast_mem _))).notSpace
  have hstrip : Str.strip asciiCls (w0 ++ ((((sgn ++ hb) ++ w1) ++ ',' :: ((w2 ++ ((sb ++ ['%']) ++ w3)) ++ ',' ::
      ((w4 ++ ((lb ++ ['%']) ++ w5)) ++ ',' :: (w6 ++ t3)))) ++ w7)) = (((sgn ++ hb) ++ w1) ++ ',' :: ((w2 ++ ((sb ++ ['%']) ++ w3)) ++ ',' ::
      ((w4 ++ ((lb ++ ['%']) ++ w5)) ++ ',' :: (w6 ++ t3)))) :=
    strip_wrapped_sp s0 s7 hstripmid
  have hslash : Str.replaceChar (((sgn ++ hb) ++ w1) ++ ',' :: ((w2 ++ ((sb ++ ['%']) ++ w3)) ++ ',' ::
      ((w4 ++ ((lb ++ ['%']) ++ w5)) ++ ',' :: (w6 ++ t3)))) '/' [','] = (((sgn ++ hb) ++ w1) ++ ',' :: ((w2 ++ ((sb ++ ['%']) ++ w3)) ++ ',' ::
      ((w4 ++ ((lb ++ ['%']) ++ w5)) ++ ',' :: (w6 ++ t3)))) :=
    replaceChar_absent (fun hm => hslaChar_ne_slash (hmid _ hm) rfl) _
  -- the four parts
  have nc0 : ',' ∉ (sgn ++ hb) ++ w1 := by
    intro hm
    rcases List.mem_append.1 hm with h | h
    · exact (hueCharFacts (signed_chars hs hH _ h)).ne_comma rfl
    · exact s1.not_mem (by decide) h
  have ncTok : ∀ {w t w' : Str}, AllSp w → (∀ c ∈ t, TokChar c) → AllSp w' → ',' ∉ w ++ (t ++ w') := by
    intro w t w' hw ht hw' hm
    rcases List.mem_append.1 hm with h | h
    · exact hw.not_mem (by decide) h
    · rcases List.mem_append.1 h with h | h
      · exact (tokCharFacts (ht _ h)).ne_comma rfl
      · exact hw'.not_mem (by decide) h
  have nc1 := ncTok s2 (NumTok.pct hS).chars s3
  have nc2 := ncTok s4 (NumTok.pct hL).chars s5
  have nc3 : ',' ∉ w6 ++ t3 := by
    have := ncTok s6 hA.chars (w' := []) (fun _ h => by cases h)
    simpa using this
  have hsplit : Str.splitOn (((sgn ++ hb) ++ w1) ++ ',' :: ((w2 ++ ((sb ++ ['%']) ++ w3)) ++ ',' ::
      ((w4 ++ ((lb ++ ['%']) ++ w5)) ++ ',' :: (w6 ++ t3)))) ',' =
      [(sgn ++ hb) ++ w1, w2 ++ ((sb ++ ['%']) ++ w3), w4 ++ ((lb ++ ['%']) ++ w5), w6 ++ t3] := by
    rw [splitOn_seg_sep nc0, splitOn_seg_sep nc1, splitOn_seg_sep nc2, splitOn_seg_end nc3]
  have st0 : Str.strip asciiCls ((sgn ++ hb) ++ w1) = sgn ++ hb := by
    have := strip_wrapped_sp (w1 := []) (fun _ h => by cases h) s1 (signed_strip hs hH)
    simpa using this
  have st1 : Str.strip asciiCls (w2 ++ ((sb ++ ['%']) ++ w3)) = sb ++ ['%'] :=
    strip_wrapped_sp s2 s3 (NumTok.pct hS).strip
  have st2 : Str.strip asciiCls (w4 ++ ((lb ++ ['%']) ++ w5)) = lb ++ ['%'] :=
    strip_wrapped_sp s4 s5 (NumTok.pct hL).strip
  have st3 : Str.strip asciiCls (w6 ++ t3) = t3 := by
    have := strip_wrapped_sp (w2 := []) s6 (fun _ h => by cases h) hA.strip
    simpa using this
  have rp0 : Str.replaceChar (sgn ++ hb) '%' [] = sgn ++ hb :=
    replaceChar_absent (fun hm => (hueCharFacts (signed_chars hs hH _ hm)).ne_pct rfl) _
  obtain ⟨_, hS', rp1⟩ := (NumTok.pct hS).unpct
  obtain ⟨_, hL', rp2⟩ := (NumTok.pct hL).unpct
  obtain ⟨ab, hA', rp3⟩ := hA.unpct
  have e360 : (360.0 : ℚ) = 360 := by norm_num
  have e100 : (100.0 : ℚ) = 100 := by norm_num
  have e1 : (1.0 : ℚ) = 1 := by norm_num
  unfold parseStr
  simp only [S.strip, S.lower, S.lookup, S.hash, S.bare, S.hsla, Bool.or_self, Bool.false_eq_true,
    if_false, if_true]
  unfold hslaStrToRgb
  simp only [S.strip, S.lower, S.hsla, S.close, S.inner, Bool.and_self, Bool.not_true,
    Bool.false_eq_true, if_false, hstrip, hslash, hsplit, List.map_cons, List.map_nil, st0, st1, st2,
    st3, rp0, rp1, rp2, rp3, hH.parse hs, hS'.parse_pos, hL'.parse_pos, hA'.parse_pos]
  have ne1 : ∀ {b : Str} {v : ℚ}, Numeral b v → b.isEmpty = false := by
    intro b v h
    cases b with
    | nil => exact absurd rfl h.ne_nil
    | cons _ _ => rfl
  simp only [ne1 hS', ne1 hL', Bool.false_eq_true, if_false, bind, Except.bind, pure, Except.pure,
    rat_div, rat_le, e360, e100, e1]

/-! ## small arithmetic used by the end-to-end statements -/

/-- reducing the hue first does not change CSS's colour -/
theorem css3Hsl_pmod (H s l : ℚ) : css3Hsl (pmodQ H 360) s l = css3Hsl H s l := by
  unfold css3Hsl
  rw [← pmodQ_eq_cssNormHue, ← pmodQ_eq_cssNormHue, pmodQ_360_idem]

theorem unit_of_pct {v : ℚ} (h0 : 0 ≤ v) (h1 : v ≤ 100) : 0 ≤ v / 100 ∧ v / 100 ≤ 1 :=
  ⟨by positivity, by rw [div_le_one (by norm_num)]; exact h1⟩

theorem alpha_of_value {v : ℚ} (h0 : 0 ≤ v) (h1 : v ≤ 100) :
    0 ≤ (if v ≤ 1 then v else v / 100) ∧ (if v ≤ 1 then v else v / 100) ≤ 1 := by
  split_ifs with h
  · exact ⟨h0, h⟩
  · exact unit_of_pct h0 h1

theorem blend_aux {a c r k R : ℚ} (ha0 : 0 ≤ a) (ha1 : a ≤ 1) (hr : |r - c| ≤ 1 / 2)
    (hR : |R - (r * a + k * (1 - a))| ≤ 1 / 2) : |R - (a * c + (1 - a) * k)| ≤ 1 := by
  rw [abs_le] at hr hR ⊢
  constructor <;> nlinarith

/-! ## building separator runs -/

theorem allSep_nil : AllSep [] := fun _ h => by cases h
theorem allSep_sp {j : Str} (h : AllSep j) : AllSep (' ' :: j) := fun c hc => by
  rcases List.mem_cons.1 hc with rfl | hc
  · exact Or.inl rfl
  · exact h c hc
theorem allSep_comma {j : Str} (h : AllSep j) : AllSep (',' :: j) := fun c hc => by
  rcases List.mem_cons.1 hc with rfl | hc
  · exact Or.inr rfl
  · exact h c hc
theorem allSp_nil : AllSp [] := fun _ h => by cases h
theorem allSp_sp {w : Str} (h : AllSp w) : AllSp (' ' :: w) := fun c hc => by
  rcases List.mem_cons.1 hc with rfl | hc
  · rfl
  · exact h c hc

/-! ## numerals from natural numbers -/

theorem allD_nat (n : ℕ) : AllD (toString n).toList := by
  have e : (toString n).toList = Nat.toDigits 10 n := by
    rw [Nat.toString_eq_repr, Nat.toList_repr]
  rw [e]
  exact fun c hc => isD_of_isDigit (Nat.isDigit_of_mem_toDigits (by decide) (by decide) hc)

theorem natVal_nat (n : ℕ) : natVal (toString n).toList = n := by
  have e : (toString n).toList = Nat.toDigits 10 n := by
    rw [Nat.toString_eq_repr, Nat.toList_repr]
  have hd := allD_nat n
  rw [e] at hd ⊢
  rw [natVal_eq_ofDigitChars hd, Nat.ofDigitChars_ten_toDigits]

theorem toString_nat_ne_nil (n : ℕ) : (toString n).toList ≠ [] := by
  rw [Nat.toString_eq_repr, Nat.toList_repr]; exact Nat.toDigits_ne_nil

/-- `a.b` for two natural numbers written in decimal -/
theorem numeral_dec (a b : ℕ) :
    Numeral ((toString a).toList ++ '.' :: (toString b).toList)
      (((a * 10 ^ (toString b).toList.length + b : ℕ) : ℚ) / (10 : ℚ) ^ (toString b).toList.length) := by
  have := Numeral.frac (allD_nat a) (allD_nat b) (toString_nat_ne_nil b)
  rwa [natVal_nat, natVal_nat] at this

end Cm.ParseSpec
