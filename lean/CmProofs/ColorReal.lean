import CmProofs.RealNum
/-!
# Helper lemmas for the colour-space theorems (C10, C11)

* carrier-independent facts about `quant8` / `oklchToRgb` (no laws on the carrier are used);
* a Mathlib-vocabulary restatement of every sub-term of CIEDE2000 at `ℝ`
  (`dhpR`, `hmR`, `TR`, `SLR`, … `radicand`) together with the *checked* tie
  `deltaE2000Lab_real : @deltaE2000Lab ℝ realNum p q = √(radicand p q)`;
* the intermediate linear-light triple of `oklchToRgb` (`oklchToLinear`) with the tie
  `oklchToRgb_eq`.
-/
namespace Cm
open Real

/-! ## Carrier-independent part -/
section anyCarrier
variable {α : Type} [NumT α]

theorem quant8_range (x : α) : 0 ≤ quant8 x ∧ quant8 x ≤ 255 := by
  unfold quant8
  constructor
  · exact le_max_left _ _
  · exact max_le (by decide) (min_le_left _ _)

theorem validRgb_iff (c : RGB) :
    validRgb c = true ↔ (0 ≤ c.1 ∧ c.1 ≤ 255) ∧ (0 ≤ c.2.1 ∧ c.2.1 ≤ 255) ∧ (0 ≤ c.2.2 ∧ c.2.2 ≤ 255) := by
  unfold validRgb
  simp only [Bool.and_eq_true, decide_eq_true_eq, and_assoc]

/-- `cl` inside `oklchToRgb` -/
def clamp01 (x : α) : α := Num.pmax (0.0 : α) (Num.pmin (1.0 : α) x)

/-- the three linear-light channels computed inside `oklchToRgb` (before clamping, the transfer
function and quantisation) -/
def oklchToLinear (t : Triple α) : Triple α :=
  let (L, C, H) := t
  let hr := H * NumT.pi / (180.0 : α)
  let a := C * NumT.cos hr
  let b := C * NumT.sin hr
  let l' := L + (0.3963377774 : α) * a + (0.2158037573 : α) * b
  let m' := L - (0.1055613458 : α) * a - (0.0638541728 : α) * b
  let s' := L - (0.0894841775 : α) * a - (1.2914855480 : α) * b
  let l := safeCube l'
  let m := safeCube m'
  let s := safeCube s'
  let r := (4.0767416621 : α) * l - (3.3077115913 : α) * m + (0.2309699292 : α) * s
  let g := -(1.2684380046 : α) * l + (2.6097574011 : α) * m - (0.3413193965 : α) * s
  let bb := -(0.0041960863 : α) * l - (0.7034186147 : α) * m + (1.7076147010 : α) * s
  (r, g, bb)

/-- tie between `oklchToLinear` and the model: definitional -/
theorem oklchToRgb_eq (t : Triple α) :
    oklchToRgb t =
      (quant8 (linearToSrgb (clamp01 (oklchToLinear t).1)),
       quant8 (linearToSrgb (clamp01 (oklchToLinear t).2.1)),
       quant8 (linearToSrgb (clamp01 (oklchToLinear t).2.2))) := by
  obtain ⟨L, C, H⟩ := t
  rfl

end anyCarrier

/-! ## `ℝ`: comparisons and literals -/

theorem real_eq (a b : ℝ) : @Num.eq ℝ realNum.toNum a b = true ↔ a = b := by
  unfold Num.eq
  rw [Bool.and_eq_true, real_le, real_le]
  exact ⟨fun h => le_antisymm h.1 h.2, fun h => ⟨h.le, h.ge⟩⟩

theorem real_lt_false (a b : ℝ) : @Num.lt ℝ realNum.toNum a b = false ↔ b ≤ a := by
  rw [← not_lt, ← real_lt, Bool.not_eq_true]

theorem rpow_two_lit (x : ℝ) : x ^ (2.0 : ℝ) = x ^ 2 := by
  rw [show (2.0 : ℝ) = ((2 : ℕ) : ℝ) by norm_num, Real.rpow_natCast]

theorem rpow_seven_lit (x : ℝ) : x ^ (7.0 : ℝ) = x ^ 7 := by
  rw [show (7.0 : ℝ) = ((7 : ℕ) : ℝ) by norm_num, Real.rpow_natCast]

theorem real_sq (x : ℝ) : @sq ℝ realNum x = x ^ 2 := rpow_two_lit x
theorem real_pow7 (x : ℝ) : @pow7 ℝ realNum x = x ^ 7 := rpow_seven_lit x

/-! ## `ℝ`: hue angle -/

/-- `hueAngle` at ℝ -/
noncomputable def hueR (a b : ℝ) : ℝ :=
  if a = 0 ∧ b = 0 then 0
  else if Complex.arg ⟨a, b⟩ * 180 / π < 0 then Complex.arg ⟨a, b⟩ * 180 / π + 360
  else Complex.arg ⟨a, b⟩ * 180 / π

theorem hueAngle_real (a b : ℝ) : @hueAngle ℝ realNum a b = hueR a b := by
  unfold hueAngle hueR
  simp only [Bool.and_eq_true, real_eq, real_lt, real_sci, real_add, real_mul, real_div, real_pi]
  norm_num
  rfl

theorem hueR_range (a b : ℝ) : 0 ≤ hueR a b ∧ hueR a b < 360 := by
  unfold hueR
  have hpi := Real.pi_pos
  have h1 : -π < Complex.arg ⟨a, b⟩ := Complex.neg_pi_lt_arg _
  have h2 : Complex.arg ⟨a, b⟩ ≤ π := Complex.arg_le_pi _
  have e : Complex.arg ⟨a, b⟩ * 180 / π = Complex.arg ⟨a, b⟩ / π * 180 := by ring
  have l1 : -1 < Complex.arg ⟨a, b⟩ / π := by rw [lt_div_iff₀ hpi]; linarith
  have l2 : Complex.arg ⟨a, b⟩ / π ≤ 1 := by rw [div_le_iff₀ hpi]; linarith
  split_ifs with h0 hneg
  · norm_num
  · rw [e] at hneg ⊢; constructor <;> linarith
  · rw [e] at hneg ⊢; constructor <;> linarith

/-! ## `ℝ`: CIEDE2000 sub-terms -/

noncomputable def radR (x : ℝ) : ℝ := x * (π / 180)

theorem radians_real (x : ℝ) : @radians ℝ realNum x = radR x := by
  unfold radians radR
  simp only [real_sci, real_mul, real_div, real_pi]
  norm_num

/-- `dhPrime` at ℝ -/
noncomputable def dhpR (C1 C2 h1 h2 : ℝ) : ℝ :=
  if C1 = 0 ∨ C2 = 0 then 0
  else if |h2 - h1| ≤ 180 then h2 - h1
  else if 180 < h2 - h1 then h2 - h1 - 360
  else h2 - h1 + 360

theorem dhPrime_real (C1 C2 h1 h2 : ℝ) : @dhPrime ℝ realNum C1 C2 h1 h2 = dhpR C1 C2 h1 h2 := by
  unfold dhPrime dhpR
  simp only [Bool.or_eq_true, real_eq, real_le, real_gt, real_sci, real_abs, real_sub, real_add]
  norm_num

/-- `hMeanPrime` at ℝ -/
noncomputable def hmR (C1 C2 h1 h2 : ℝ) : ℝ :=
  if C1 = 0 ∨ C2 = 0 then h1 + h2
  else if |h1 - h2| ≤ 180 then (h1 + h2) / 2
  else if 180 < |h1 - h2| ∧ h1 + h2 < 360 then (h1 + h2 + 360) / 2
  else (h1 + h2 - 360) / 2

theorem hMeanPrime_real (C1 C2 h1 h2 : ℝ) : @hMeanPrime ℝ realNum C1 C2 h1 h2 = hmR C1 C2 h1 h2 := by
  unfold hMeanPrime hmR
  simp only [Bool.or_eq_true, Bool.and_eq_true, real_eq, real_le, real_gt, real_lt, real_sci,
    real_abs, real_sub, real_add, real_div]
  norm_num

theorem dhpR_anti (C1 C2 h1 h2 : ℝ) : dhpR C2 C1 h2 h1 = -dhpR C1 C2 h1 h2 := by
  unfold dhpR
  have hor : (C2 = 0 ∨ C1 = 0) ↔ (C1 = 0 ∨ C2 = 0) := or_comm
  simp only [abs_sub_comm h1 h2, hor]
  by_cases hC : C1 = 0 ∨ C2 = 0
  · simp only [if_pos hC, neg_zero]
  · simp only [if_neg hC]
    by_cases hle : |h2 - h1| ≤ 180
    · simp only [if_pos hle]; ring
    · simp only [if_neg hle]
      have := lt_abs.1 (not_le.1 hle)
      by_cases hgt : 180 < h2 - h1
      · have hn : ¬ (180 < h1 - h2) := by linarith
        simp only [if_pos hgt, if_neg hn]; ring
      · have hp : 180 < h1 - h2 := by
          rcases this with h | h
          · exact absurd h hgt
          · linarith
        simp only [if_neg hgt, if_pos hp]; ring

theorem hmR_symm (C1 C2 h1 h2 : ℝ) : hmR C2 C1 h2 h1 = hmR C1 C2 h1 h2 := by
  unfold hmR
  have hor : (C2 = 0 ∨ C1 = 0) ↔ (C1 = 0 ∨ C2 = 0) := or_comm
  simp only [abs_sub_comm h2 h1, hor, add_comm h2 h1]

/-- `C^7 / (C^7 + 25^7)` -/
noncomputable def ratio7 (C : ℝ) : ℝ := C ^ 7 / (C ^ 7 + 25 ^ 7)
noncomputable def GR (Cm : ℝ) : ℝ := 0.5 * (1 - √(ratio7 Cm))
noncomputable def TR (Hm : ℝ) : ℝ :=
  1 - 0.17 * cos (radR (Hm - 30)) + 0.24 * cos (radR (2 * Hm))
    + 0.32 * cos (radR (3 * Hm + 6)) - 0.20 * cos (radR (4 * Hm - 63))
noncomputable def dThetaR (Hm : ℝ) : ℝ := 30 * exp (-(((Hm - 275) / 25) ^ 2))
noncomputable def RCR (Cmp : ℝ) : ℝ := 2 * √(ratio7 Cmp)
noncomputable def SLR (Lm : ℝ) : ℝ := 1 + 0.015 * (Lm - 50) ^ 2 / √(20 + (Lm - 50) ^ 2)
noncomputable def SCR (Cmp : ℝ) : ℝ := 1 + 0.045 * Cmp
noncomputable def SHR (Cmp Hm : ℝ) : ℝ := 1 + 0.015 * Cmp * TR Hm
noncomputable def RTR (Cmp Hm : ℝ) : ℝ := -(sin (radR (2 * dThetaR Hm))) * RCR Cmp

abbrev Lab := ℝ × ℝ × ℝ

noncomputable def chroma (a b : ℝ) : ℝ := √(a * a + b * b)
/-- `G` -/
noncomputable def Gpq (p q : Lab) : ℝ := GR ((chroma p.2.1 p.2.2 + chroma q.2.1 q.2.2) / 2)
/-- `a'` -/
noncomputable def aP (g : ℝ) (p : Lab) : ℝ := p.2.1 * (1 + g)
/-- `C'` -/
noncomputable def CP (g : ℝ) (p : Lab) : ℝ := √(aP g p * aP g p + p.2.2 * p.2.2)
/-- `h'` -/
noncomputable def hP (g : ℝ) (p : Lab) : ℝ := hueR (aP g p) p.2.2
/-- `C̄'` -/
noncomputable def CmP (p q : Lab) : ℝ := (CP (Gpq p q) p + CP (Gpq p q) q) / 2
/-- `Δh'` -/
noncomputable def dhP (p q : Lab) : ℝ :=
  dhpR (CP (Gpq p q) p) (CP (Gpq p q) q) (hP (Gpq p q) p) (hP (Gpq p q) q)
/-- `H̄'` -/
noncomputable def HmP (p q : Lab) : ℝ :=
  hmR (CP (Gpq p q) p) (CP (Gpq p q) q) (hP (Gpq p q) p) (hP (Gpq p q) q)
/-- `ΔL'` -/
noncomputable def dLP (p q : Lab) : ℝ := q.1 - p.1
/-- `L̄` -/
noncomputable def LmP (p q : Lab) : ℝ := (p.1 + q.1) / 2
/-- `ΔC'` -/
noncomputable def dCP (p q : Lab) : ℝ := CP (Gpq p q) q - CP (Gpq p q) p
/-- `ΔH'` -/
noncomputable def dHP (p q : Lab) : ℝ :=
  2 * √(CP (Gpq p q) p * CP (Gpq p q) q) * sin (radR (dhP p q / 2))

/-- the quadratic form under the final square root -/
noncomputable def coreForm (x y z r : ℝ) : ℝ := x ^ 2 + y ^ 2 + z ^ 2 + r * y * z

/-- the expression under the final square root of CIEDE2000 -/
noncomputable def radicand (p q : Lab) : ℝ :=
  coreForm (dLP p q / SLR (LmP p q)) (dCP p q / SCR (CmP p q)) (dHP p q / SHR (CmP p q) (HmP p q))
    (RTR (CmP p q) (HmP p q))

/-- **Tie to the model**: the model's CIEDE2000 at ℝ is the square root of `radicand`, whose
sub-terms are the definitions above. -/
theorem deltaE2000Lab_real (p q : Lab) : @deltaE2000Lab ℝ realNum p q = √(radicand p q) := by
  obtain ⟨L1, a1, b1⟩ := p
  obtain ⟨L2, a2, b2⟩ := q
  unfold deltaE2000Lab
  simp only [real_sq, real_pow7, radians_real, dhPrime_real, hMeanPrime_real, hueAngle_real,
    real_sci, real_add, real_sub, real_mul, real_div, real_neg, real_sqrt, real_sin, real_cos,
    real_exp]
  simp only [radicand, coreForm, dLP, dCP, dHP, dhP, HmP, CmP, LmP, hP, CP, aP, Gpq, chroma, GR, RCR,
    RTR, SLR, SCR, SHR, TR, dThetaR, ratio7]
  norm_num

/-! ## Symmetry of the sub-terms under swapping the two colours -/

theorem Gpq_comm (p q : Lab) : Gpq q p = Gpq p q := by
  unfold Gpq; rw [add_comm]

theorem CmP_comm (p q : Lab) : CmP q p = CmP p q := by
  unfold CmP; rw [Gpq_comm, add_comm]

theorem LmP_comm (p q : Lab) : LmP q p = LmP p q := by
  unfold LmP; rw [add_comm]

theorem dLP_anti (p q : Lab) : dLP q p = -dLP p q := by
  unfold dLP; ring

theorem dCP_anti (p q : Lab) : dCP q p = -dCP p q := by
  unfold dCP; rw [Gpq_comm]; ring

theorem dhP_anti (p q : Lab) : dhP q p = -dhP p q := by
  unfold dhP; rw [Gpq_comm, dhpR_anti]

theorem HmP_comm (p q : Lab) : HmP q p = HmP p q := by
  unfold HmP; rw [Gpq_comm, hmR_symm]

theorem dHP_anti (p q : Lab) : dHP q p = -dHP p q := by
  unfold dHP radR
  rw [dhP_anti, Gpq_comm, mul_comm (CP (Gpq p q) q), neg_div, neg_mul, sin_neg]
  ring

theorem coreForm_neg (x y z r : ℝ) : coreForm (-x) (-y) (-z) r = coreForm x y z r := by
  unfold coreForm; ring

theorem radicand_comm (p q : Lab) : radicand q p = radicand p q := by
  unfold radicand
  rw [dLP_anti, dCP_anti, dHP_anti, LmP_comm, CmP_comm, HmP_comm, neg_div, neg_div, neg_div,
    coreForm_neg]

/-! ## Sign facts -/

theorem chroma_nonneg (a b : ℝ) : 0 ≤ chroma a b := Real.sqrt_nonneg _
theorem CP_nonneg (g : ℝ) (p : Lab) : 0 ≤ CP g p := Real.sqrt_nonneg _
theorem CmP_nonneg (p q : Lab) : 0 ≤ CmP p q := by
  unfold CmP
  have := CP_nonneg (Gpq p q) p
  have := CP_nonneg (Gpq p q) q
  linarith

theorem pow7_add_pos {C : ℝ} (hC : 0 ≤ C) : 0 < C ^ 7 + 25 ^ 7 := by
  have : 0 ≤ C ^ 7 := pow_nonneg hC 7
  have : (0 : ℝ) < 25 ^ 7 := by norm_num
  linarith

theorem ratio7_nonneg {C : ℝ} (hC : 0 ≤ C) : 0 ≤ ratio7 C :=
  div_nonneg (pow_nonneg hC 7) (pow7_add_pos hC).le

theorem ratio7_lt_one {C : ℝ} (hC : 0 ≤ C) : ratio7 C < 1 := by
  unfold ratio7
  rw [div_lt_one (pow7_add_pos hC)]
  have : (0 : ℝ) < 25 ^ 7 := by norm_num
  linarith

theorem RCR_nonneg (C : ℝ) : 0 ≤ RCR C := by
  unfold RCR; have := Real.sqrt_nonneg (ratio7 C); linarith

theorem RCR_le_two {C : ℝ} (hC : 0 ≤ C) : RCR C ≤ 2 := by
  unfold RCR
  have : √(ratio7 C) ≤ 1 := Real.sqrt_le_one.2 (ratio7_lt_one hC).le |> id
  linarith

theorem abs_RTR_le_two {C : ℝ} (hC : 0 ≤ C) (Hm : ℝ) : |RTR C Hm| ≤ 2 := by
  unfold RTR
  rw [abs_mul, abs_neg, abs_of_nonneg (RCR_nonneg C)]
  calc |sin (radR (2 * dThetaR Hm))| * RCR C ≤ 1 * 2 :=
        mul_le_mul (Real.abs_sin_le_one _) (RCR_le_two hC) (RCR_nonneg C) zero_le_one
    _ = 2 := one_mul 2

/-- `G ∈ (0, 1/2]` -/
theorem GR_range {C : ℝ} (hC : 0 ≤ C) : 0 < GR C ∧ GR C ≤ 0.5 := by
  unfold GR
  have h0 := Real.sqrt_nonneg (ratio7 C)
  have h1 : √(ratio7 C) < 1 := by
    rw [Real.sqrt_lt' one_pos]; simpa using ratio7_lt_one hC
  constructor <;> nlinarith

theorem TR_lower (Hm : ℝ) : 0.07 ≤ TR Hm := by
  unfold TR
  have a1 := Real.cos_le_one (radR (Hm - 30))
  have a2 := Real.neg_one_le_cos (radR (2 * Hm))
  have a3 := Real.neg_one_le_cos (radR (3 * Hm + 6))
  have a4 := Real.cos_le_one (radR (4 * Hm - 63))
  norm_num at *
  linarith

theorem TR_upper (Hm : ℝ) : TR Hm ≤ 1.93 := by
  unfold TR
  have a1 := Real.neg_one_le_cos (radR (Hm - 30))
  have a2 := Real.cos_le_one (radR (2 * Hm))
  have a3 := Real.cos_le_one (radR (3 * Hm + 6))
  have a4 := Real.neg_one_le_cos (radR (4 * Hm - 63))
  norm_num at *
  linarith

theorem SL_den_pos (Lm : ℝ) : 0 < 20 + (Lm - 50) ^ 2 := by positivity

theorem SLR_ge_one (Lm : ℝ) : 1 ≤ SLR Lm := by
  unfold SLR
  have : 0 ≤ 0.015 * (Lm - 50) ^ 2 / √(20 + (Lm - 50) ^ 2) := by positivity
  linarith

theorem SCR_ge_one {C : ℝ} (hC : 0 ≤ C) : 1 ≤ SCR C := by
  unfold SCR; linarith

theorem SHR_ge_one {C : ℝ} (hC : 0 ≤ C) (Hm : ℝ) : 1 ≤ SHR C Hm := by
  unfold SHR
  have hT : 0 ≤ TR Hm := le_trans (by norm_num) (TR_lower Hm)
  have : 0 ≤ 0.015 * C * TR Hm := by positivity
  linarith

/-- algebraic core of "the radicand is non-negative" -/
theorem quad_nonneg (x y r : ℝ) (hr : |r| ≤ 2) : 0 ≤ x ^ 2 + y ^ 2 + r * x * y := by
  obtain ⟨h1, h2⟩ := abs_le.1 hr
  nlinarith [sq_nonneg (x + y), sq_nonneg (x - y), mul_nonneg (sub_nonneg.2 h2) (sq_nonneg (x + y)),
    mul_nonneg (by linarith : (0:ℝ) ≤ r + 2) (sq_nonneg (x - y))]

theorem coreForm_nonneg (x y z r : ℝ) (hr : |r| ≤ 2) : 0 ≤ coreForm x y z r := by
  unfold coreForm
  have := quad_nonneg y z r hr
  have := sq_nonneg x
  linarith

theorem radicand_nonneg (p q : Lab) : 0 ≤ radicand p q :=
  coreForm_nonneg _ _ _ _ (abs_RTR_le_two (CmP_nonneg p q) _)

/-! ## Identical colours -/

theorem dhpR_self (C h : ℝ) : dhpR C C h h = 0 := by
  unfold dhpR
  split_ifs with h1 h2 h3 <;> first | rfl | simp at * 

theorem radicand_self (p : Lab) : radicand p p = 0 := by
  unfold radicand coreForm dLP dCP dHP dhP radR
  rw [dhpR_self]
  simp

end Cm
