import CmProofs.ParseStr
import Mathlib.Data.List.Perm.Subperm
/-!
# The generated keyword table against CSS Color 3's table

Boolean checkers evaluated by the kernel (`decide +kernel`); the generated table is re-read on every
run, nothing here mentions a concrete entry.
-/
namespace Cm.ParseSpec
open Cm Cm.Parse

/-- pairwise distinct, as a boolean -/
def distinctB : List Str → Bool
  | [] => true
  | x :: xs => !xs.contains x && distinctB xs

theorem nodup_of_distinctB : ∀ {l : List Str}, distinctB l = true → l.Nodup
  | [], _ => List.nodup_nil
  | x :: xs, h => by
    unfold distinctB at h
    rw [Bool.and_eq_true] at h
    refine List.nodup_cons.2 ⟨?_, nodup_of_distinctB h.2⟩
    have h1 := h.1
    simpa using h1

/-- one spec entry: found in the generated table, with a value that reads as the spec's colour;
    its spelling is ASCII, fixed by `strip` and `lower`, and so is its upper-case spelling -/
def specEntryOk (kv : String × (Nat × Nat × Nat)) : Bool :=
  let k := kv.1.toList
  let up := k.map Char.toUpper
  (match lookupNamed ⟨asciiCls, namedEnv⟩ k with
    | some hex =>
      isAsciiB hex &&
      (match hexToRgb ⟨asciiCls, namedEnv⟩ hex with
        | .ok c => c == rgbOfNat kv.2
        | .error _ => false)
    | none => false) &&
  isAsciiB k && Str.strip asciiCls k == k && Str.lower asciiCls k == k &&
  isAsciiB up && Str.strip asciiCls up == up && Str.lower asciiCls up == k

theorem specTable_ok_1 : (specTable.take 50).all specEntryOk = true := by decide +kernel
theorem specTable_ok_2 : ((specTable.drop 50).take 50).all specEntryOk = true := by decide +kernel
theorem specTable_ok_3 : ((specTable.drop 100)).all specEntryOk = true := by decide +kernel

theorem specTable_ok : ∀ kv ∈ specTable, specEntryOk kv = true := by
  intro kv hkv
  rw [← List.take_append_drop 50 specTable, List.mem_append] at hkv
  rcases hkv with h | h
  · exact List.all_eq_true.1 specTable_ok_1 kv h
  · rw [← List.take_append_drop 50 (specTable.drop 50), List.mem_append, List.drop_drop] at h
    rcases h with h | h
    · exact List.all_eq_true.1 specTable_ok_2 kv h
    · exact List.all_eq_true.1 specTable_ok_3 kv h

/-- one generated key: a non-empty run of lower-case letters -/
def genEntryOk (kv : Str × Str) : Bool :=
  !kv.1.isEmpty && kv.1.all fun c => decide ('a' ≤ c) && decide (c ≤ 'z')

theorem genTable_ok : namedEnv.all genEntryOk = true := by decide +kernel

theorem namedTable_length : CmGen.namedTable.length = 148 := by decide +kernel
theorem specTable_length : specTable.length = 148 := by decide +kernel

theorem namedTable_distinctB : distinctB (CmGen.namedTable.map fun kv => kv.1.toList) = true := by
  decide +kernel
theorem specTable_distinctB : distinctB (specTable.map fun kv => kv.1.toList) = true := by
  decide +kernel

/-- no keyword of the generated table is a 3- or 6-digit hex string -/
theorem no_hex_keyword_B : namedEnv.all (fun kv => !isBareHex kv.1) = true := by decide +kernel


/-! ## consequences -/

theorem hexToRgb_named_irrel (cls : CharCls) (n1 n2 : List (Str × Str)) (s : Str) :
    hexToRgb ⟨cls, n1⟩ s = hexToRgb ⟨cls, n2⟩ s := rfl

theorem hexToRgb_faithful {cls : CharCls} (hf : AsciiFaithful cls) (n1 n2 : List (Str × Str))
    {s : Str} (hs : IsAscii s) : hexToRgb ⟨cls, n1⟩ s = hexToRgb ⟨asciiCls, n2⟩ s := by
  unfold hexToRgb
  simp only [strip_faithful hf hs]

theorem lookupNamed_cls (cls cls' : CharCls) (n : List (Str × Str)) (s : Str) :
    lookupNamed ⟨cls, n⟩ s = lookupNamed ⟨cls', n⟩ s := rfl

/-- what the checker says about one spec entry -/
structure SpecEntryFacts (kv : String × (Nat × Nat × Nat)) : Prop where
  lookup : ∃ hex, lookupNamed ⟨asciiCls, namedEnv⟩ kv.1.toList = some hex ∧ IsAscii hex ∧
    hexToRgb ⟨asciiCls, namedEnv⟩ hex = .ok (rgbOfNat kv.2)
  ascii : IsAscii kv.1.toList
  strip : Str.strip asciiCls kv.1.toList = kv.1.toList
  lower : Str.lower asciiCls kv.1.toList = kv.1.toList
  upAscii : IsAscii (kv.1.toList.map Char.toUpper)
  upStrip : Str.strip asciiCls (kv.1.toList.map Char.toUpper) = kv.1.toList.map Char.toUpper
  upLower : Str.lower asciiCls (kv.1.toList.map Char.toUpper) = kv.1.toList

theorem specEntryFacts {kv : String × (Nat × Nat × Nat)} (h : kv ∈ specTable) : SpecEntryFacts kv := by
  have hk := specTable_ok kv h
  unfold specEntryOk at hk
  simp only [Bool.and_eq_true, beq_iff_eq] at hk
  obtain ⟨⟨⟨⟨⟨⟨h1, h2⟩, h3⟩, h4⟩, h5⟩, h6⟩, h7⟩ := hk
  refine ⟨?_, isAscii_of_B h2, h3, h4, isAscii_of_B h5, h6, h7⟩
  split at h1
  · rename_i hex hlk
    rw [Bool.and_eq_true] at h1
    refine ⟨hex, hlk, isAscii_of_B h1.1, ?_⟩
    have h12 := h1.2
    split at h12
    · rename_i c hc
      rw [hc, beq_iff_eq.1 h12]
    · cases h12
  · cases h1

theorem key_letters {kv : Str × Str} (h : kv ∈ namedEnv) :
    kv.1 ≠ [] ∧ ∀ c ∈ kv.1, 'a' ≤ c ∧ c ≤ 'z' := by
  have := List.all_eq_true.1 genTable_ok kv h
  unfold genEntryOk at this
  simp only [Bool.and_eq_true, Bool.not_eq_eq_eq_not, Bool.not_true, List.isEmpty_eq_false_iff,
    List.all_eq_true, decide_eq_true_eq] at this
  exact this

/-- no keyword starts with `#` -/
theorem lookupNamed_hash (cls : CharCls) (t : Str) : lookupNamed ⟨cls, namedEnv⟩ ('#' :: t) = none := by
  unfold lookupNamed
  rw [Option.map_eq_none_iff, List.find?_eq_none]
  intro kv hkv
  simp only [decide_eq_true_eq]
  intro heq
  have := (key_letters hkv).2 '#' (by rw [heq]; exact List.mem_cons_self)
  exact absurd this.1 (by decide)

/-- no keyword is a bare 3- or 6-digit hex string -/
theorem lookupNamed_bareHex (cls : CharCls) {s : Str} (h : isBareHex s = true) :
    lookupNamed ⟨cls, namedEnv⟩ s = none := by
  unfold lookupNamed
  rw [Option.map_eq_none_iff, List.find?_eq_none]
  intro kv hkv
  simp only [decide_eq_true_eq]
  intro heq
  have := List.all_eq_true.1 no_hex_keyword_B kv hkv
  rw [heq, h] at this
  cases this

end Cm.ParseSpec
