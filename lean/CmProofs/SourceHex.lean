import CmModel.Parser
import CmModel.HexVocab
import CmProofs.ParseStr
/-!
# Helper lemmas for the static tie of `hex_to_rgb` (`CmProps/C07hex.lean`)

The source validates with `all(c in "0123456789abcdefABCDEF" for c in hex_str)` and converts with `int(pair, 16)`; the
model matches on six characters and uses `Str.hexVal`. The two lemmas that bridge them:
* membership in the 22-character alphabet is exactly `(Str.hexVal c).isSome`;
* `Str.intBase16 [a, b]` is `16 * hexVal a + hexVal b` when both are digits, `ValueError` otherwise.
-/
namespace Cm.SourceHex
open Cm Cm.Parse Cm.ParseSpec

/-- the literal of the source's digit test -/
def alphabet : Str := "0123456789abcdefABCDEF".toList

theorem hexVal_isSome_eq (c : Char) : (Str.hexVal c).isSome = Str.isHexDigit c := by
  unfold Str.hexVal Str.isHexDigit
  split
  · next h => simp [h.1, h.2]
  · next h1 =>
    split
    · next h => simp [h.1, h.2]
    · next h2 =>
      split
      · next h => simp [h.1, h.2]
      · next h3 =>
        simp only [Option.isSome_none]
        symm
        simp only [Bool.or_eq_false_iff, Bool.and_eq_false_iff, decide_eq_false_iff_not]
        simp only [not_and_or] at h1 h2 h3
        exact ⟨⟨h1, h2⟩, h3⟩

private def alphaOk (c : Char) : Bool := alphabet.contains c == Str.isHexDigit c

private theorem alphaOk_all : (List.range 128).all (fun n => alphaOk (Char.ofNat n)) = true := by
  decide +kernel

private theorem alphabet_lt : ∀ x ∈ alphabet, x.toNat < 128 := by decide

/-- `c in "0123456789abcdefABCDEF"` is `Str.isHexDigit c` -/
theorem alphabet_contains (c : Char) : alphabet.contains c = Str.isHexDigit c := by
  by_cases hlt : c.toNat < 128
  · have := forall_ascii_of_range (P := fun c => alphaOk c = true) alphaOk (fun _ h => h) alphaOk_all c hlt
    simpa [alphaOk] using this
  · have h1 : alphabet.contains c = false := by
      cases h : alphabet.contains c
      · rfl
      · exact absurd (alphabet_lt c (List.contains_iff_mem.1 h)) hlt
    have h2 : Str.isHexDigit c = false := by
      cases h : Str.isHexDigit c
      · rfl
      · exact absurd (hexDigit_lt c h) hlt
    rw [h1, h2]

/-- … hence `(Str.hexVal c).isSome` -/
theorem alphabet_contains_hexVal (c : Char) : "0123456789abcdefABCDEF".toList.contains c = (Str.hexVal c).isSome := by
  rw [hexVal_isSome_eq]; exact alphabet_contains c

/-- `int(a + b, 16)` for two characters -/
theorem intBase16_pair (a b : Char) :
    Str.intBase16 [a, b] =
      match Str.hexVal a, Str.hexVal b with
      | some x, some y => .ok (Int.ofNat (16 * x + y))
      | _, _ => vErr := by
  unfold Str.intBase16 Str.hexDigitsVal Str.hexDigitsVal Str.hexDigitsVal
  cases Str.hexVal a <;> cases Str.hexVal b <;> simp [vErr]

end Cm.SourceHex
