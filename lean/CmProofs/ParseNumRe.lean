import CmProofs.ParseLemmas
/-!
# The regex `[-+]?\d*\.?\d+%?` (`_NUM_RE.findall`) on ASCII text

`NumRe.findAll` is fuel-driven; its three defining equations are recovered here, and `matchAt` is
evaluated on the token shapes CSS uses: `ddd`, `ddd%`, `ddd.ddd`, `.ddd`.
-/
namespace Cm.ParseSpec
open Cm Cm.Parse

/-! ## `_NUM_RE.findall` -/

theorem findAll_go_fuel (cls : CharCls) : ∀ (f : Nat) (s : Str) (acc : List Str), s.length + 1 ≤ f →
    NumRe.findAll.go cls f s acc = acc.reverse ++ NumRe.findAll.go cls (s.length + 1) s [] := by
  intro f
  induction f using Nat.strong_induction_on with
  | _ f ih =>
    intro s acc hf
    cases f with
    | zero => omega
    | succ f =>
      cases s with
      | nil => simp [NumRe.findAll.go]
      | cons c cs =>
        have hcs : cs.length + 1 ≤ f := by simpa using hf
        rw [List.length_cons, NumRe.findAll.go, NumRe.findAll.go]
        cases hm : NumRe.matchAt cls (c :: cs) with
        | none => exact ih f (Nat.lt_succ_self f) cs acc hcs
        | some p =>
          obtain ⟨tok, rest⟩ := p
          simp only
          by_cases hl : rest.length < (c :: cs).length
          · rw [if_pos hl, if_pos hl]
            have hr : rest.length + 1 ≤ cs.length + 1 := by rw [List.length_cons] at hl; omega
            rw [ih f (Nat.lt_succ_self f) rest (tok :: acc) (by omega),
              ih (cs.length + 1) (by omega) rest [tok] hr]
            simp
          · rw [if_neg hl, if_neg hl]
            exact ih f (Nat.lt_succ_self f) cs acc hcs

theorem findAll_nil (cls : CharCls) : NumRe.findAll cls [] = [] := by
  simp [NumRe.findAll, NumRe.findAll.go]

theorem findAll_cons_none (cls : CharCls) {c : Char} {cs : Str}
    (h : NumRe.matchAt cls (c :: cs) = none) : NumRe.findAll cls (c :: cs) = NumRe.findAll cls cs := by
  unfold NumRe.findAll
  rw [List.length_cons, NumRe.findAll.go]
  simp only [h]

theorem findAll_cons_some (cls : CharCls) {c : Char} {cs tok rest : Str}
    (h : NumRe.matchAt cls (c :: cs) = some (tok, rest)) (hl : rest.length < (c :: cs).length) :
    NumRe.findAll cls (c :: cs) = tok :: NumRe.findAll cls rest := by
  unfold NumRe.findAll
  rw [List.length_cons, NumRe.findAll.go]
  simp only [h, if_pos hl]
  have hr : rest.length + 1 ≤ cs.length + 1 := by rw [List.length_cons] at hl; omega
  rw [findAll_go_fuel cls _ rest [tok] hr]
  simp


/-! ## ASCII digits -/

/-- an ASCII decimal digit -/
def isD (c : Char) : Bool := (asciiDigit c).isSome

theorem isDig_ascii (c : Char) : NumRe.isDig asciiCls c = isD c := rfl

theorem isD_lt (c : Char) (h : isD c = true) : c.toNat < 128 := by
  unfold isD asciiDigit at h
  split at h
  · rename_i h'
    have h2 := h'.2
    simp only [Char.le_def, UInt32.le_iff_toNat_le] at h2
    have : c.toNat = c.val.toNat := rfl
    rw [this]
    simp at h2; omega
  · cases h

/-- digit value -/
def dv (c : Char) : Nat := (asciiDigit c).getD 0

/-- what the parsers need to know about one digit -/
def digCharOk (c : Char) : Bool :=
  !isD c ||
    (asciiDigit c == some (dv c) && decide (dv c < 10) && !asciiIsSpace c && lc c == c &&
     c != '-' && c != '+' && c != '.' && c != '%' && c != '_' && c != 'e' && c != 'E' &&
     c != 'i' && c != 'n' && c != ',' && c != ' ' && c != '(' && c != ')' && c != '#' && c != '/' &&
     !PyFloat.isFloatSpace asciiCls c)

theorem digCharOk_all : (List.range 128).all (fun n => digCharOk (Char.ofNat n)) = true := by
  decide +kernel

structure DigFacts (c : Char) : Prop where
  lt : c.toNat < 128
  val : asciiDigit c = some (dv c)
  val_lt : dv c < 10
  notSpace : asciiIsSpace c = false
  lc : lc c = c
  ne_minus : c ≠ '-'
  ne_plus : c ≠ '+'
  ne_dot : c ≠ '.'
  ne_pct : c ≠ '%'
  ne_us : c ≠ '_'
  ne_e : c ≠ 'e'
  ne_E : c ≠ 'E'
  ne_i : c ≠ 'i'
  ne_n : c ≠ 'n'
  ne_comma : c ≠ ','
  ne_sp : c ≠ ' '
  ne_lp : c ≠ '('
  ne_rp : c ≠ ')'
  ne_hash : c ≠ '#'
  ne_slash : c ≠ '/'
  notFloatSpace : PyFloat.isFloatSpace asciiCls c = false

theorem digFacts (c : Char) (h : isD c = true) : DigFacts c := by
  have hlt := isD_lt c h
  have := forall_ascii_of_range (P := fun c => digCharOk c = true) digCharOk (fun _ h => h)
    digCharOk_all c hlt
  unfold digCharOk at this
  rw [h] at this
  simp only [Bool.not_true, Bool.false_or, Bool.and_eq_true, Bool.not_eq_eq_eq_not,
    bne_iff_ne, ne_eq, beq_iff_eq, decide_eq_true_eq] at this
  obtain ⟨⟨⟨⟨⟨⟨⟨⟨⟨⟨⟨⟨⟨⟨⟨⟨⟨⟨⟨a1, a2⟩, a3⟩, a4⟩, a5⟩, a6⟩, a7⟩, a8⟩, a9⟩, a10⟩, a11⟩, a12⟩, a13⟩, a14⟩, a15⟩,
    a16⟩, a17⟩, a18⟩, a19⟩, a20⟩ := this
  exact ⟨hlt, a1, a2, a3, a4, a5, a6, a7, a8, a9, a10, a11, a12, a13, a14, a15, a16, a17, a18, a19, a20⟩

/-- all characters are ASCII digits -/
def AllD (ds : Str) : Prop := ∀ c ∈ ds, isD c = true

theorem takeDigits_append {ds rest : Str} (hd : AllD ds)
    (hr : ∀ c r, rest = c :: r → isD c = false) :
    NumRe.takeDigits asciiCls (ds ++ rest) = (ds, rest) := by
  unfold NumRe.takeDigits
  have h1 : ∀ c ∈ ds, NumRe.isDig asciiCls c = true := hd
  have hrest : rest.takeWhile (NumRe.isDig asciiCls) = [] ∧ rest.dropWhile (NumRe.isDig asciiCls) = rest := by
    cases rest with
    | nil => exact ⟨rfl, rfl⟩
    | cons c r =>
      have : NumRe.isDig asciiCls c = false := hr c r rfl
      simp [this]
  rw [List.takeWhile_append_of_pos h1, List.dropWhile_append_of_pos h1, hrest.1, hrest.2]
  simp

/-- the regex without its optional sign: `\d*\.?\d+%?` at the head of `s` -/
def bodyAt (s : Str) : Option (Str × Str) :=
  let (d1, r1) := NumRe.takeDigits asciiCls s
  let body : Option (Str × Str) :=
    match r1 with
    | '.' :: r2 =>
      let (d2, r3) := NumRe.takeDigits asciiCls r2
      if !d2.isEmpty then some (d1 ++ '.' :: d2, r3)
      else if !d1.isEmpty then some (d1, r1) else none
    | _ => if !d1.isEmpty then some (d1, r1) else none
  match body with
  | none => none
  | some (b, rest) =>
    match rest with
    | '%' :: rest' => some (b ++ ['%'], rest')
    | _ => some (b, rest)

/-- `matchAt` when the first character is not a sign -/
theorem matchAt_nosign {c : Char} (cs : Str) (h2 : c ≠ '-') (h3 : c ≠ '+') :
    NumRe.matchAt asciiCls (c :: cs) = bodyAt (c :: cs) := by
  unfold NumRe.matchAt bodyAt
  split
  rename_i sign r0 heq
  split at heq
  · rename_i h; cases h; exact absurd rfl h2
  · rename_i h; cases h; exact absurd rfl h3
  · cases heq
    simp only [List.nil_append]
    rfl

/-- a character at which no number token can start -/
def Inert (c : Char) : Prop := isD c = false ∧ c ≠ '-' ∧ c ≠ '+' ∧ c ≠ '.'

theorem matchAt_inert {c : Char} (cs : Str) (h : Inert c) : NumRe.matchAt asciiCls (c :: cs) = none := by
  obtain ⟨h1, h2, h3, h4⟩ := h
  rw [matchAt_nosign cs h2 h3]
  unfold bodyAt
  have ht : NumRe.takeDigits asciiCls (c :: cs) = ([], c :: cs) :=
    takeDigits_append (ds := []) (rest := c :: cs) (fun _ h => by cases h)
      (fun c' r' he => by cases he; exact h1)
  simp only [ht]
  split
  · rfl
  · rename_i b rest heq
    split at heq
    · rename_i h; cases h; exact absurd rfl h4
    · simp at heq

/-- what may follow a number token: nothing, or a character that cannot extend it -/
def Term (rest : Str) : Prop := ∀ c r, rest = c :: r → isD c = false ∧ c ≠ '.' ∧ c ≠ '%'

theorem matchAt_digits {ds rest : Str} (hne : ds ≠ []) (hd : AllD ds) (hr : Term rest) :
    NumRe.matchAt asciiCls (ds ++ rest) = some (ds, rest) := by
  obtain ⟨d, t, rfl⟩ := List.exists_cons_of_ne_nil hne
  have F := digFacts d (hd d List.mem_cons_self)
  rw [List.cons_append, matchAt_nosign _ F.ne_minus F.ne_plus]
  unfold bodyAt
  have ht : NumRe.takeDigits asciiCls (d :: (t ++ rest)) = (d :: t, rest) :=
    takeDigits_append (ds := d :: t) hd (fun c r he => (hr c r he).1)
  simp only [ht]
  cases rest with
  | nil => simp
  | cons c r =>
    obtain ⟨_, c2, c3⟩ := hr c r rfl
    split
    · rename_i heq
      split at heq
      · rename_i h; cases h; exact absurd rfl c2
      · simp at heq
    · rename_i b rest heq
      split at heq
      · rename_i h; cases h; exact absurd rfl c2
      · simp only [List.isEmpty_cons, Bool.not_false, if_true, Option.some.injEq, Prod.mk.injEq] at heq
        obtain ⟨rfl, rfl⟩ := heq
        split
        · rename_i h; cases h; exact absurd rfl c3
        · rfl

theorem matchAt_digits_pct {ds : Str} (rest : Str) (hne : ds ≠ []) (hd : AllD ds) :
    NumRe.matchAt asciiCls (ds ++ '%' :: rest) = some (ds ++ ['%'], rest) := by
  obtain ⟨d, t, rfl⟩ := List.exists_cons_of_ne_nil hne
  have F := digFacts d (hd d List.mem_cons_self)
  rw [List.cons_append, matchAt_nosign _ F.ne_minus F.ne_plus]
  unfold bodyAt
  have ht : NumRe.takeDigits asciiCls (d :: (t ++ '%' :: rest)) = (d :: t, '%' :: rest) :=
    takeDigits_append (ds := d :: t) hd (fun c r he => by cases he; decide)
  simp only [ht]
  simp

/-- `ds.fs` (either part of `ds` may be empty when `fs` is not) -/
theorem matchAt_frac {ds fs rest : Str} (hd : AllD ds) (hf : AllD fs) (hfne : fs ≠ [])
    (hr : Term rest) :
    NumRe.matchAt asciiCls (ds ++ '.' :: (fs ++ rest)) = some (ds ++ '.' :: fs, rest) := by
  have hnosign : NumRe.matchAt asciiCls (ds ++ '.' :: (fs ++ rest)) = bodyAt (ds ++ '.' :: (fs ++ rest)) := by
    cases ds with
    | nil => exact matchAt_nosign _ (by decide) (by decide)
    | cons d t =>
      have F := digFacts d (hd d List.mem_cons_self)
      exact matchAt_nosign _ F.ne_minus F.ne_plus
  rw [hnosign]
  unfold bodyAt
  have ht : NumRe.takeDigits asciiCls (ds ++ '.' :: (fs ++ rest)) = (ds, '.' :: (fs ++ rest)) :=
    takeDigits_append hd (fun c r he => by cases he; decide)
  have ht2 : NumRe.takeDigits asciiCls (fs ++ rest) = (fs, rest) :=
    takeDigits_append hf (fun c r he => (hr c r he).1)
  simp only [ht, ht2]
  obtain ⟨f, ft, rfl⟩ := List.exists_cons_of_ne_nil hfne
  simp only [List.isEmpty_cons, Bool.not_false, if_true]
  cases rest with
  | nil => rfl
  | cons c r =>
    obtain ⟨_, _, c3⟩ := hr c r rfl
    split
    · rename_i h; cases h; exact absurd rfl c3
    · rfl


theorem matchAt_frac_pct {ds fs : Str} (rest : Str) (hd : AllD ds) (hf : AllD fs) (hfne : fs ≠ []) :
    NumRe.matchAt asciiCls (ds ++ '.' :: (fs ++ '%' :: rest)) = some (ds ++ '.' :: fs ++ ['%'], rest) := by
  have hnosign : NumRe.matchAt asciiCls (ds ++ '.' :: (fs ++ '%' :: rest)) =
      bodyAt (ds ++ '.' :: (fs ++ '%' :: rest)) := by
    cases ds with
    | nil => exact matchAt_nosign _ (by decide) (by decide)
    | cons d t =>
      have F := digFacts d (hd d List.mem_cons_self)
      exact matchAt_nosign _ F.ne_minus F.ne_plus
  rw [hnosign]
  unfold bodyAt
  have ht : NumRe.takeDigits asciiCls (ds ++ '.' :: (fs ++ '%' :: rest)) = (ds, '.' :: (fs ++ '%' :: rest)) :=
    takeDigits_append hd (fun c r he => by cases he; decide)
  have ht2 : NumRe.takeDigits asciiCls (fs ++ '%' :: rest) = (fs, '%' :: rest) :=
    takeDigits_append hf (fun c r he => by cases he; decide)
  simp only [ht, ht2]
  obtain ⟨f, ft, rfl⟩ := List.exists_cons_of_ne_nil hfne
  simp

end Cm.ParseSpec
