import CmModel.ApiVocab
import CmGen.Api
/-!
# Helper lemmas for the static tie of the API layer (`CmGen/Api.lean`; used by `CmProps/C06api`, `C17api`, `C12api`)
-/
namespace Cm.SourceApi
open Cm Cm.Parse
variable {α : Type} [NumT α]
set_option linter.unusedSectionVars false

/-- `rgb(r, g, b)` is not the empty string -/
theorem fmtRgbFn_isEmpty (c : RGB) : (fmtRgbFn c).isEmpty = false := by
  unfold fmtRgbFn
  have : "rgb(".toList = 'r' :: "gb(".toList := by decide
  rw [this]; rfl

/-- `#rrggbb` is not the empty string -/
theorem fmtHex_isEmpty (c : RGB) : (fmtHex c).isEmpty = false := rfl

/-- what `format_color` returns is truthy -/
theorem formatColor_truthy (c : RGB) (f : Fmt) : Api.outTruthy (formatColor (α := α) c f) = true := by
  cases f <;> simp [formatColor, Api.outTruthy, fmtRgbFn_isEmpty, fmtHex_isEmpty]

/-- the generated constructor on any colour argument -/
theorem color_new_input (x : ColorInput) (ctx : Option (Color α)) :
    (CmGen.Api.Color_new (α := α) x ctx).rgb? =
      (match x.parse (match ctx with | some c => c.rgb? | none => none) with | .ok r => some r | .error _ => none) := by
  unfold CmGen.Api.Color_new
  have hc : ∀ c : Color α, (if CmGen.Api.Color_is_valid c = true then CmGen.Api.Color_rgb c else none) = c.rgb? := by
    intro c
    unfold CmGen.Api.Color_is_valid CmGen.Api.Color_rgb
    generalize c.rgb? = o; cases o <;> rfl
  cases ctx with
  | none =>
    simp only [Bool.false_eq_true, if_false]
    generalize x.parse none = r
    cases r with
    | ok rgb => rfl
    | error e => cases e <;> rfl
  | some c =>
    simp only [Bool.false_eq_true, if_false, hc]
    generalize x.parse c.rgb? = r
    cases r with
    | ok rgb => rfl
    | error e => cases e <;> rfl

end Cm.SourceApi
