import CmProofs.ParseFloatStr
/-!
# `rgb(…)` / `rgba(…)` strings: from the text to the colour (ASCII oracle, exact carrier)
-/
namespace Cm.ParseSpec
open Cm Cm.Parse

/-! ## characters of tokens -/

/-- a character of a number token: digit, point or percent sign -/
def TokChar (c : Char) : Prop := isD c = true ∨ c = '.' ∨ c = '%'

structure TokCharFacts (c : Char) : Prop where
  lt : c.toNat < 128
  notSpace : asciiIsSpace c = false
  lc : lc c = c
  ne_comma : c ≠ ','
  ne_sp : c ≠ ' '
  ne_lp : c ≠ '('
  ne_rp : c ≠ ')'
  ne_slash : c ≠ '/'

theorem tokCharFacts {c : Char} (h : TokChar c) : TokCharFacts c := by
  rcases h with h | rfl | rfl
  · have F := digFacts c h
    exact ⟨F.lt, F.notSpace, F.lc, F.ne_comma, F.ne_sp, F.ne_lp, F.ne_rp, F.ne_slash⟩
  · exact ⟨by decide, by decide, by decide, by decide, by decide, by decide, by decide, by decide⟩
  · exact ⟨by decide, by decide, by decide, by decide, by decide, by decide, by decide, by decide⟩

theorem Numeral.ne_nil {b : Str} {v : ℚ} (h : Numeral b v) : b ≠ [] := by
  cases h with
  | int hne _ => exact hne
  | frac _ _ _ => simp

theorem Numeral.chars {b : Str} {v : ℚ} (h : Numeral b v) : ∀ c ∈ b, isD c = true ∨ c = '.' := by
  cases h with
  | int _ hd => exact fun c hc => Or.inl (hd c hc)
  | frac hd hf _ =>
    intro c hc
    rcases List.mem_append.1 hc with h | h
    · exact Or.inl (hd c h)
    · rcases List.mem_cons.1 h with h | h
      · exact Or.inr h
      · exact Or.inl (hf c h)

theorem Numeral.last {b : Str} {v : ℚ} (h : Numeral b v) : isD (b.getLast h.ne_nil) = true := by
  cases h with
  | int hne hd => exact hd _ (List.getLast_mem _)
  | frac hd hf hfne =>
    rename_i ds fs
    have : (ds ++ '.' :: fs).getLast (by simp) = fs.getLast hfne := by
      rw [List.getLast_append_of_ne_nil _ (List.cons_ne_nil _ _), List.getLast_cons hfne]
    rw [this]
    exact hf _ (List.getLast_mem _)

theorem Numeral.matchAt {b : Str} {v : ℚ} (h : Numeral b v) {rest : Str} (hr : Term rest) :
    NumRe.matchAt asciiCls (b ++ rest) = some (b, rest) := by
  cases h with
  | int hne hd => exact matchAt_digits hne hd hr
  | frac hd hf hfne =>
    rw [List.append_assoc, List.cons_append]
    exact matchAt_frac hd hf hfne hr

theorem Numeral.matchAt_pct {b : Str} {v : ℚ} (h : Numeral b v) (rest : Str) :
    NumRe.matchAt asciiCls (b ++ '%' :: rest) = some (b ++ ['%'], rest) := by
  cases h with
  | int hne hd => exact matchAt_digits_pct rest hne hd
  | frac hd hf hfne =>
    rw [List.append_assoc, List.cons_append]
    exact matchAt_frac_pct rest hd hf hfne

/-- a token of the regex: a numeral, or a numeral followed by `%`; with the numeral's value -/
inductive NumTok : Str → ℚ → Bool → Prop
  | plain {b : Str} {v : ℚ} (h : Numeral b v) : NumTok b v false
  | pct {b : Str} {v : ℚ} (h : Numeral b v) : NumTok (b ++ ['%']) v true

theorem NumTok.ne_nil {t : Str} {v : ℚ} {p : Bool} (h : NumTok t v p) : t ≠ [] := by
  cases h with
  | plain h => exact h.ne_nil
  | pct h => simp

theorem NumTok.nonneg {t : Str} {v : ℚ} {p : Bool} (h : NumTok t v p) : 0 ≤ v := by
  cases h with
  | plain h => exact h.nonneg
  | pct h => exact h.nonneg

theorem NumTok.chars {t : Str} {v : ℚ} {p : Bool} (h : NumTok t v p) : ∀ c ∈ t, TokChar c := by
  cases h with
  | plain h =>
    intro c hc
    rcases h.chars c hc with h | h
    · exact Or.inl h
    · exact Or.inr (Or.inl h)
  | pct h =>
    intro c hc
    rcases List.mem_append.1 hc with hc | hc
    · rcases h.chars c hc with h | h
      · exact Or.inl h
      · exact Or.inr (Or.inl h)
    · exact Or.inr (Or.inr (by simpa using hc))

/-- what follows a token inside the parentheses: a separator or the closing parenthesis -/
def TermS (rest : Str) : Prop := ∀ c r, rest = c :: r → c = ' ' ∨ c = ',' ∨ c = ')'

theorem TermS.term {rest : Str} (h : TermS rest) : Term rest := by
  intro c r he
  rcases h c r he with rfl | rfl | rfl <;> decide

theorem NumTok.matchAt {t : Str} {v : ℚ} {p : Bool} (h : NumTok t v p) {rest : Str} (hr : TermS rest) :
    NumRe.matchAt asciiCls (t ++ rest) = some (t, rest) := by
  cases h with
  | plain h => exact h.matchAt hr.term
  | pct h =>
    rw [List.append_assoc]
    exact h.matchAt_pct rest

theorem NumTok.strip {t : Str} {v : ℚ} {p : Bool} (h : NumTok t v p) : Str.strip asciiCls t = t := by
  apply strip_fixed_of asciiCls t h.ne_nil
  · exact (tokCharFacts (h.chars _ (List.head_mem _))).notSpace
  · exact (tokCharFacts (h.chars _ (List.getLast_mem _))).notSpace

theorem endsWith_pct_false (t : Str) (hne : t ≠ []) (hl : t.getLast hne ≠ '%') :
    Str.endsWith t ['%'] = false := by
  unfold Str.endsWith
  rw [← List.dropLast_append_getLast hne]
  simp [List.isPrefixOf, Ne.symm hl]

theorem NumTok.numberToken {t : Str} {v : ℚ} {p : Bool} (h : NumTok t v p) (n : List (Str × Str))
    (component : Bool) :
    @numberToken ℚ ratNum ⟨asciiCls, n⟩ t component =
      if p then .ok (if component then pctComponent v else pctAlpha v)
      else @rangeToken ℚ ratNum v component := by
  have hst := h.strip
  cases h with
  | plain h =>
    simp only [Bool.false_eq_true, if_false]
    apply numberToken_plain
    · show Str.endsWith (Str.strip asciiCls t) ['%'] = false
      rw [hst]
      apply endsWith_pct_false t h.ne_nil
      intro he
      have := h.last
      rw [he] at this
      exact absurd this (by decide)
    · show @PyFloat.parse asciiCls ℚ ratNum (Str.strip asciiCls t) = .ok v
      rw [hst]; exact h.parse_pos
  | pct h =>
    simp only [if_true]
    exact numberToken_pct ⟨asciiCls, n⟩ component hst h.parse_pos

/-! ## tokenisation -/

/-- text in which no token starts -/
def Junk (j : Str) : Prop := ∀ c ∈ j, Inert c

theorem findAll_junk {j : Str} (hj : Junk j) (s : Str) :
    NumRe.findAll asciiCls (j ++ s) = NumRe.findAll asciiCls s := by
  induction j with
  | nil => rfl
  | cons c cs ih =>
    rw [List.cons_append, findAll_cons_none asciiCls (matchAt_inert _ (hj c List.mem_cons_self))]
    exact ih fun x hx => hj x (List.mem_cons_of_mem _ hx)

theorem findAll_tok {t : Str} {v : ℚ} {p : Bool} (h : NumTok t v p) {rest : Str} (hr : TermS rest) :
    NumRe.findAll asciiCls (t ++ rest) = t :: NumRe.findAll asciiCls rest := by
  obtain ⟨c, cs, hc⟩ := List.exists_cons_of_ne_nil h.ne_nil
  have hm := h.matchAt hr
  have hl : rest.length < (t ++ rest).length := by
    rw [List.length_append, hc, List.length_cons]; omega
  rw [hc, List.cons_append] at hm hl ⊢
  rw [findAll_cons_some asciiCls hm hl]

/-- separators inside the parentheses: blanks and commas -/
def AllSep (j : Str) : Prop := ∀ c ∈ j, c = ' ' ∨ c = ','

theorem AllSep.junk {j : Str} (h : AllSep j) : Junk j := by
  intro c hc
  rcases h c hc with rfl | rfl <;> exact ⟨by decide, by decide, by decide, by decide⟩

theorem termS_sep_append {j : Str} (h : AllSep j) (hne : j ≠ []) (s : Str) : TermS (j ++ s) := by
  obtain ⟨c, cs, rfl⟩ := List.exists_cons_of_ne_nil hne
  intro c' r he
  rw [List.cons_append] at he
  have hc : c = c' := (List.cons.inj he).1
  rw [← hc]
  rcases h c List.mem_cons_self with h | h
  · exact Or.inl h
  · exact Or.inr (Or.inl h)

theorem termS_sep_close {j : Str} (h : AllSep j) : TermS (j ++ [')']) := by
  cases j with
  | nil => intro c r he; cases he; exact Or.inr (Or.inr rfl)
  | cons c cs => exact termS_sep_append h (by simp) _

theorem findAll_close : NumRe.findAll asciiCls [')'] = [] := by
  rw [findAll_cons_none asciiCls (matchAt_inert _ ⟨by decide, by decide, by decide, by decide⟩),
    findAll_nil]

/-! ## the shape of a function-notation string -/

theorem lookupNamed_of_nonletter (cls : CharCls) {s : Str} {c : Char} (hc : c ∈ s)
    (hnl : ¬ ('a' ≤ c ∧ c ≤ 'z')) : lookupNamed ⟨cls, namedEnv⟩ s = none := by
  unfold lookupNamed
  rw [Option.map_eq_none_iff, List.find?_eq_none]
  intro kv hkv
  simp only [decide_eq_true_eq]
  intro heq
  exact hnl ((key_letters hkv).2 c (by rw [heq]; exact hc))

/-- what `parse_color_to_rgb` finds out about `rgb(…)` / `rgba(…)` before it looks at the numbers -/
structure RgbShape (s : Str) : Prop where
  strip : Str.strip asciiCls s = s
  lower : Str.lower asciiCls s = s
  lookup : lookupNamed ⟨asciiCls, namedEnv⟩ s = none
  hash : Str.startsWith s ['#'] = false
  bare : isBareHex s = false
  hsla : Str.startsWith s "hsla(".toList = false
  hsl : Str.startsWith s "hsl(".toList = false
  rgb : (Str.startsWith s "rgb(".toList || Str.startsWith s "rgba(".toList) = true

theorem rgbShape {pre body : Str} (hpre : pre = "rgb(".toList ∨ pre = "rgba(".toList)
    (hbody : ∀ c ∈ body, lc c = c) : RgbShape (pre ++ body ++ [')']) := by
  have hpre' : pre = ['r', 'g', 'b', '('] ∨ pre = ['r', 'g', 'b', 'a', '('] := by
    rcases hpre with h | h
    · exact Or.inl (h.trans lit_rgb)
    · exact Or.inr (h.trans lit_rgba)
  have hne : pre ++ body ++ [')'] ≠ [] := by simp
  have hhead : (pre ++ body ++ [')']).head hne = 'r' := by
    rcases hpre' with rfl | rfl <;> rfl
  have hlast : (pre ++ body ++ [')']).getLast hne = ')' := by simp
  have hlc : ∀ c ∈ pre ++ body ++ [')'], lc c = c := by
    intro c hc
    rcases List.mem_append.1 hc with hc | hc
    · rcases List.mem_append.1 hc with hc | hc
      · rcases hpre' with rfl | rfl
        · simp only [List.mem_cons, List.not_mem_nil, or_false] at hc
          rcases hc with rfl | rfl | rfl | rfl <;> decide
        · simp only [List.mem_cons, List.not_mem_nil, or_false] at hc
          rcases hc with rfl | rfl | rfl | rfl | rfl <;> decide
      · exact hbody c hc
    · have : c = ')' := by simpa using hc
      subst this; decide
  have hparen : '(' ∈ pre ++ body ++ [')'] := by
    rcases hpre' with rfl | rfl <;> simp
  refine ⟨?_, ?_, lookupNamed_of_nonletter _ hparen (by decide), ?_, ?_, ?_, ?_, ?_⟩
  · apply strip_fixed_of asciiCls _ hne
    · rw [hhead]; decide
    · rw [hlast]; decide
  · rw [lower_ascii_eq_map]
    conv_rhs => rw [← List.map_id (pre ++ body ++ [')'])]
    exact List.map_congr_left fun c hc => hlc c hc
  all_goals
    rcases hpre' with rfl | rfl <;>
      simp [Str.startsWith, List.isPrefixOf, isBareHex, Str.isHexDigit, lit_hsla, lit_hsl, lit_rgb,
        lit_rgba]


/-! ## `rgb(…)` -/

/-- the value of a colour-component token: a percentage is scaled to 0–255 and clamped -/
def compOf (v : ℚ) (p : Bool) : ℚ := if p then pctComponent v else v

/-- the value of an alpha token -/
def alphaOf (v : ℚ) (p : Bool) : ℚ := if p then pctAlpha v else v

theorem compOf_mem {v : ℚ} {p : Bool} (h0 : 0 ≤ v) (hr : p = false → v ≤ 255) :
    0 ≤ compOf v p ∧ compOf v p ≤ 255 := by
  unfold compOf
  cases p
  · exact ⟨h0, hr rfl⟩
  · exact pctComponent_mem v

theorem NumTok.component {t : Str} {v : ℚ} {p : Bool} (h : NumTok t v p) (n : List (Str × Str))
    (hr : p = false → v ≤ 255) :
    @Cm.Parse.numberToken ℚ ratNum ⟨asciiCls, n⟩ t true = .ok (compOf v p) := by
  rw [h.numberToken n true]
  unfold compOf
  cases p
  · simp only [Bool.false_eq_true, if_false]
    rw [rangeToken_component, if_pos ⟨h.nonneg, hr rfl⟩]
  · simp

theorem NumTok.alpha {t : Str} {v : ℚ} {p : Bool} (h : NumTok t v p) (n : List (Str × Str))
    (hr : p = false → v ≤ 1) :
    @Cm.Parse.numberToken ℚ ratNum ⟨asciiCls, n⟩ t false = .ok (alphaOf v p) := by
  rw [h.numberToken n false]
  unfold alphaOf
  cases p
  · simp only [Bool.false_eq_true, if_false]
    rw [rangeToken_alpha, if_pos ⟨h.nonneg, hr rfl⟩]
  · simp

theorem clamp255_round {x : ℚ} (h0 : 0 ≤ x) (h1 : x ≤ 255) :
    clamp255 (roundQ x) = roundQ x ∧ 0 ≤ roundQ x ∧ roundQ x ≤ 255 := by
  obtain ⟨a, b⟩ := roundQ_mem_Icc (lo := 0) (hi := 255) (by simpa using h0) (by simpa using h1)
  refine ⟨?_, a, b⟩
  unfold clamp255
  omega

theorem tok_lc {t : Str} {v : ℚ} {p : Bool} (h : NumTok t v p) : ∀ c ∈ t, lc c = c :=
  fun c hc => (tokCharFacts (h.chars c hc)).lc

theorem sep_lc {j : Str} (h : AllSep j) : ∀ c ∈ j, lc c = c := by
  intro c hc
  rcases h c hc with rfl | rfl <;> decide

theorem rgb_string {pre j0 j1 j2 j3 t0 t1 t2 : Str} {v0 v1 v2 : ℚ} {p0 p1 p2 : Bool}
    (hpre : pre = "rgb(".toList ∨ pre = "rgba(".toList)
    (h0 : AllSep j0) (h1 : AllSep j1) (hne1 : j1 ≠ []) (h2 : AllSep j2) (hne2 : j2 ≠ [])
    (h3 : AllSep j3) (ht0 : NumTok t0 v0 p0) (ht1 : NumTok t1 v1 p1) (ht2 : NumTok t2 v2 p2)
    (hr0 : p0 = false → v0 ≤ 255) (hr1 : p1 = false → v1 ≤ 255) (hr2 : p2 = false → v2 ≤ 255)
    (bg : Option RGB) :
    @parseStr ℚ ratNum ⟨asciiCls, namedEnv⟩
        (pre ++ (j0 ++ (t0 ++ (j1 ++ (t1 ++ (j2 ++ (t2 ++ j3)))))) ++ [')']) bg =
      .ok (roundQ (compOf v0 p0), roundQ (compOf v1 p1), roundQ (compOf v2 p2)) := by
  have hbody : ∀ c ∈ j0 ++ (t0 ++ (j1 ++ (t1 ++ (j2 ++ (t2 ++ j3))))), lc c = c := by
    intro c hc
    simp only [List.mem_append] at hc
    rcases hc with h | h | h | h | h | h | h
    · exact sep_lc h0 c h
    · exact tok_lc ht0 c h
    · exact sep_lc h1 c h
    · exact tok_lc ht1 c h
    · exact sep_lc h2 c h
    · exact tok_lc ht2 c h
    · exact sep_lc h3 c h
  have S := rgbShape hpre hbody
  have hjunk : Junk pre := by
    rcases hpre with rfl | rfl
    · rw [lit_rgb]; intro c hc
      simp only [List.mem_cons, List.not_mem_nil, or_false] at hc
      rcases hc with rfl | rfl | rfl | rfl <;> exact ⟨by decide, by decide, by decide, by decide⟩
    · rw [lit_rgba]; intro c hc
      simp only [List.mem_cons, List.not_mem_nil, or_false] at hc
      rcases hc with rfl | rfl | rfl | rfl | rfl <;> exact ⟨by decide, by decide, by decide, by decide⟩
  have hfind : NumRe.findAll asciiCls (pre ++ (j0 ++ (t0 ++ (j1 ++ (t1 ++ (j2 ++ (t2 ++ j3)))))) ++ [')'])
      = [t0, t1, t2] := by
    simp only [List.append_assoc]
    rw [findAll_junk hjunk, findAll_junk h0.junk, findAll_tok ht0 (termS_sep_append h1 hne1 _),
      findAll_junk h1.junk, findAll_tok ht1 (termS_sep_append h2 hne2 _), findAll_junk h2.junk,
      findAll_tok ht2 (termS_sep_close h3), findAll_junk h3.junk, findAll_close]
  obtain ⟨c0, a0, b0⟩ := clamp255_round (compOf_mem ht0.nonneg hr0).1 (compOf_mem ht0.nonneg hr0).2
  obtain ⟨c1, a1, b1⟩ := clamp255_round (compOf_mem ht1.nonneg hr1).1 (compOf_mem ht1.nonneg hr1).2
  obtain ⟨c2, a2, b2⟩ := clamp255_round (compOf_mem ht2.nonneg hr2).1 (compOf_mem ht2.nonneg hr2).2
  unfold parseStr
  simp only [S.strip, S.lower, S.lookup, S.hash, S.bare, S.hsla, S.hsl, S.rgb, Bool.or_self,
    Bool.false_eq_true, if_false, Bool.true_or, if_true, hfind, ht0.component namedEnv hr0,
    ht1.component namedEnv hr1, ht2.component namedEnv hr2]
  simp only [bind, Except.bind, pure, Except.pure, c0, c1, c2]
  have hv : validRgb (roundQ (compOf v0 p0), roundQ (compOf v1 p1), roundQ (compOf v2 p2)) = true := by
    rw [validRgb_iff]; exact ⟨⟨a0, b0⟩, ⟨a1, b1⟩, ⟨a2, b2⟩⟩
  simp only [hv, if_true]


/-! ## `rgba(…)` -/

theorem alphaOf_mem {v : ℚ} {p : Bool} (h0 : 0 ≤ v) (hr : p = false → v ≤ 1) :
    0 ≤ alphaOf v p ∧ alphaOf v p ≤ 1 := by
  unfold alphaOf
  cases p
  · exact ⟨h0, hr rfl⟩
  · exact ⟨le_max_left _ _, max_le (by norm_num) (min_le_left _ _)⟩

theorem bgParsed_ok (bg : Option RGB) (hbg : ∀ b, bg = some b → validRgb b = true) :
    bgParsed bg = .ok (bg.getD (255, 255, 255)) ∧ validRgb (bg.getD (255, 255, 255)) = true := by
  cases bg with
  | none => exact ⟨rfl, by decide⟩
  | some b =>
    have := hbg b rfl
    unfold bgParsed
    simp [this]

theorem rgba_string {pre j0 j1 j2 j3 j4 t0 t1 t2 t3 : Str} {v0 v1 v2 v3 : ℚ} {p0 p1 p2 p3 : Bool}
    (hpre : pre = "rgb(".toList ∨ pre = "rgba(".toList)
    (h0 : AllSep j0) (h1 : AllSep j1) (hne1 : j1 ≠ []) (h2 : AllSep j2) (hne2 : j2 ≠ [])
    (h3 : AllSep j3) (hne3 : j3 ≠ []) (h4 : AllSep j4)
    (ht0 : NumTok t0 v0 p0) (ht1 : NumTok t1 v1 p1) (ht2 : NumTok t2 v2 p2) (ht3 : NumTok t3 v3 p3)
    (hr0 : p0 = false → v0 ≤ 255) (hr1 : p1 = false → v1 ≤ 255) (hr2 : p2 = false → v2 ≤ 255)
    (hr3 : p3 = false → v3 ≤ 1)
    (bg : Option RGB) (hbg : ∀ b, bg = some b → validRgb b = true) :
    @parseStr ℚ ratNum ⟨asciiCls, namedEnv⟩
        (pre ++ (j0 ++ (t0 ++ (j1 ++ (t1 ++ (j2 ++ (t2 ++ (j3 ++ (t3 ++ j4)))))))) ++ [')']) bg =
      .ok (let k : RGB := bg.getD (255, 255, 255)
           let a := alphaOf v3 p3
           (roundQ (roundQ (compOf v0 p0) * a + k.1 * (1 - a)),
            roundQ (roundQ (compOf v1 p1) * a + k.2.1 * (1 - a)),
            roundQ (roundQ (compOf v2 p2) * a + k.2.2 * (1 - a)))) := by
  have hbody : ∀ c ∈ j0 ++ (t0 ++ (j1 ++ (t1 ++ (j2 ++ (t2 ++ (j3 ++ (t3 ++ j4))))))), lc c = c := by
    intro c hc
    simp only [List.mem_append] at hc
    rcases hc with h | h | h | h | h | h | h | h | h
    · exact sep_lc h0 c h
    · exact tok_lc ht0 c h
    · exact sep_lc h1 c h
    · exact tok_lc ht1 c h
    · exact sep_lc h2 c h
    · exact tok_lc ht2 c h
    · exact sep_lc h3 c h
    · exact tok_lc ht3 c h
    · exact sep_lc h4 c h
  have S := rgbShape hpre hbody
  have hjunk : Junk pre := by
    rcases hpre with rfl | rfl
    · rw [lit_rgb]; intro c hc
      simp only [List.mem_cons, List.not_mem_nil, or_false] at hc
      rcases hc with rfl | rfl | rfl | rfl <;> exact ⟨by decide, by decide, by decide, by decide⟩
    · rw [lit_rgba]; intro c hc
      simp only [List.mem_cons, List.not_mem_nil, or_false] at hc
      rcases hc with rfl | rfl | rfl | rfl | rfl <;> exact ⟨by decide, by decide, by decide, by decide⟩
  have hfind : NumRe.findAll asciiCls
      (pre ++ (j0 ++ (t0 ++ (j1 ++ (t1 ++ (j2 ++ (t2 ++ (j3 ++ (t3 ++ j4)))))))) ++ [')'])
      = [t0, t1, t2, t3] := by
    simp only [List.append_assoc]
    rw [findAll_junk hjunk, findAll_junk h0.junk, findAll_tok ht0 (termS_sep_append h1 hne1 _),
      findAll_junk h1.junk, findAll_tok ht1 (termS_sep_append h2 hne2 _), findAll_junk h2.junk,
      findAll_tok ht2 (termS_sep_append h3 hne3 _), findAll_junk h3.junk,
      findAll_tok ht3 (termS_sep_close h4), findAll_junk h4.junk, findAll_close]
  obtain ⟨-, a0, b0⟩ := clamp255_round (compOf_mem ht0.nonneg hr0).1 (compOf_mem ht0.nonneg hr0).2
  obtain ⟨-, a1, b1⟩ := clamp255_round (compOf_mem ht1.nonneg hr1).1 (compOf_mem ht1.nonneg hr1).2
  obtain ⟨-, a2, b2⟩ := clamp255_round (compOf_mem ht2.nonneg hr2).1 (compOf_mem ht2.nonneg hr2).2
  have hv : validRgb (roundQ (compOf v0 p0), roundQ (compOf v1 p1), roundQ (compOf v2 p2)) = true := by
    rw [validRgb_iff]; exact ⟨⟨a0, b0⟩, ⟨a1, b1⟩, ⟨a2, b2⟩⟩
  obtain ⟨hbgp, hbgv⟩ := bgParsed_ok bg hbg
  obtain ⟨al0, al1⟩ := alphaOf_mem ht3.nonneg hr3
  unfold parseStr
  simp only [S.strip, S.lower, S.lookup, S.hash, S.bare, S.hsla, S.hsl, S.rgb, Bool.or_self,
    Bool.false_eq_true, if_false, Bool.true_or, if_true, hfind, ht0.component namedEnv hr0,
    ht1.component namedEnv hr1, ht2.component namedEnv hr2, ht3.alpha namedEnv hr3]
  simp only [bind, Except.bind, pure, Except.pure, hbgp]
  exact rgbaToRgb_rat hv al0 al1 hbgv

/-! ## decimal text of integers -/

theorem isD_of_isDigit {c : Char} (h : c.isDigit = true) : isD c = true := by
  unfold Char.isDigit at h
  unfold isD asciiDigit
  have : '0' ≤ c ∧ c ≤ '9' := by
    simp only [ge_iff_le, Bool.and_eq_true, decide_eq_true_eq] at h
    exact ⟨Char.le_def.2 h.1, Char.le_def.2 h.2⟩
  rw [if_pos this]; rfl

theorem dv_eq {c : Char} (h : isD c = true) : dv c = c.toNat - '0'.toNat := by
  unfold isD at h
  unfold dv
  unfold asciiDigit at h ⊢
  split
  · rfl
  · rename_i hn; rw [if_neg hn] at h; cases h

theorem natVal_eq_ofDigitChars {ds : Str} (hd : AllD ds) : natVal ds = Nat.ofDigitChars 10 ds 0 := by
  unfold natVal Nat.ofDigitChars
  suffices ∀ v, ds.foldl (fun v c => v * 10 + dv c) v =
      ds.foldl (fun sofar c => 10 * sofar + (c.toNat - '0'.toNat)) v from this 0
  induction ds with
  | nil => intro v; rfl
  | cons c cs ih =>
    intro v
    rw [List.foldl_cons, List.foldl_cons, dv_eq (hd c List.mem_cons_self), Nat.mul_comm]
    exact ih (fun x hx => hd x (List.mem_cons_of_mem _ hx)) _

/-- the decimal text of a natural number is a numeral with that value -/
theorem numeral_nat (n : ℕ) : Numeral (toString n).toList (n : ℚ) := by
  have e : (toString n).toList = Nat.toDigits 10 n := by
    rw [Nat.toString_eq_repr, Nat.toList_repr]
  rw [e]
  have hd : AllD (Nat.toDigits 10 n) := fun c hc =>
    isD_of_isDigit (Nat.isDigit_of_mem_toDigits (by decide) (by decide) hc)
  have hv : natVal (Nat.toDigits 10 n) = n := by
    rw [natVal_eq_ofDigitChars hd, Nat.ofDigitChars_ten_toDigits]
  have := Numeral.int Nat.toDigits_ne_nil hd
  rwa [hv] at this

theorem intStr_nonneg {n : ℤ} (h : 0 ≤ n) : intStr n = (toString n.toNat).toList := by
  unfold intStr; rw [if_neg (not_lt.2 h)]

theorem numeral_intStr {n : ℤ} (h : 0 ≤ n) : Numeral (intStr n) (n : ℚ) := by
  rw [intStr_nonneg h]
  have := numeral_nat n.toNat
  have e : ((n.toNat : ℕ) : ℚ) = (n : ℚ) := by
    have : ((n.toNat : ℕ) : ℤ) = n := Int.toNat_of_nonneg h
    exact_mod_cast this
  rwa [e] at this


theorem lit_commasp : ", ".toList = [',', ' '] := by decide

/-- `rgbint_to_string` output reads back as the colour it was made from -/
theorem parseStr_fmtRgbFn {r g b : ℤ} (hr : 0 ≤ r ∧ r ≤ 255) (hg : 0 ≤ g ∧ g ≤ 255)
    (hb : 0 ≤ b ∧ b ≤ 255) (bg : Option RGB) :
    @parseStr ℚ ratNum ⟨asciiCls, namedEnv⟩ (fmtRgbFn (r, g, b)) bg = .ok (r, g, b) := by
  have hsep : AllSep ", ".toList := by
    rw [lit_commasp]; intro c hc
    simp only [List.mem_cons, List.not_mem_nil, or_false] at hc
    rcases hc with rfl | rfl
    · exact Or.inr rfl
    · exact Or.inl rfl
  have hnil : AllSep [] := fun _ h => by cases h
  have hne : ", ".toList ≠ [] := by rw [lit_commasp]; simp
  have cast255 : ∀ {n : ℤ}, n ≤ 255 → (n : ℚ) ≤ 255 := fun h => by exact_mod_cast h
  have := rgb_string (pre := "rgb(".toList) (j0 := []) (j1 := ", ".toList) (j2 := ", ".toList) (j3 := [])
    (Or.inl rfl) hnil hsep hne hsep hne hnil
    (NumTok.plain (numeral_intStr hr.1)) (NumTok.plain (numeral_intStr hg.1))
    (NumTok.plain (numeral_intStr hb.1)) (fun _ => cast255 hr.2) (fun _ => cast255 hg.2)
    (fun _ => cast255 hb.2) bg
  simp only [compOf, Bool.false_eq_true, if_false, roundQ_int] at this
  have e : fmtRgbFn (r, g, b) = "rgb(".toList ++ ([] ++ (intStr r ++ (", ".toList ++ (intStr g ++ (", ".toList ++ (intStr b ++ [])))))) ++ [')'] := by
    unfold fmtRgbFn
    simp only [List.append_assoc, List.nil_append, List.append_nil]
  rw [e]
  exact this

end Cm.ParseSpec
