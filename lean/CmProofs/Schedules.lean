import CmModel.Search
import CmProofs.Order
/-! The three tolerance schedules are bounded by 5.0 / 3.0 / 15.0 on every lawful carrier. -/
namespace Cm
variable {α : Type} [Num α] [LawfulLit α]

theorem defaultSchedule_le : ∀ thr ∈ (defaultSchedule : List α), Num.le thr (5.0 : α) = true := by
  intro thr h
  simp only [defaultSchedule, List.mem_cons, List.not_mem_nil, or_false] at h
  rcases h with rfl|rfl|rfl|rfl|rfl|rfl|rfl|rfl|rfl|rfl|rfl|rfl|rfl|rfl|rfl|rfl|rfl <;>
    exact LawfulLit.lit_le _ _ _ _ (by decide)

theorem stepSchedule_le : ∀ thr ∈ (stepSchedule : List α), Num.le thr (3.0 : α) = true := by
  intro thr h
  simp only [stepSchedule, List.mem_cons, List.not_mem_nil, or_false] at h
  rcases h with rfl|rfl|rfl|rfl|rfl|rfl|rfl|rfl|rfl|rfl|rfl <;>
    exact LawfulLit.lit_le _ _ _ _ (by decide)

theorem relaxedSchedule_le : ∀ thr ∈ (relaxedSchedule : List α), Num.le thr (15.0 : α) = true := by
  intro thr h
  simp only [relaxedSchedule, List.mem_cons, List.not_mem_nil, or_false] at h
  rcases h with rfl|rfl|rfl|rfl|rfl|rfl|rfl|rfl|rfl|rfl|rfl|rfl|rfl|rfl|rfl|rfl|rfl|rfl|rfl <;>
    exact LawfulLit.lit_le _ _ _ _ (by decide)

end Cm
