import CmProofs.ParseNumRe
import CmProofs.ParseSpec
/-!
# `float(str)` on plain decimal numerals, at the ASCII oracle and the exact carrier
-/
namespace Cm.ParseSpec
open Cm Cm.Parse

theorem rstrip_fixed (p : Char → Bool) (s : Str) (hne : s ≠ [])
    (hh : p (s.head hne) = false) (hl : p (s.getLast hne) = false) :
    ((s.dropWhile p).reverse.dropWhile p).reverse = s := by
  show (s.dropWhile p).rdropWhile p = s
  have h1 : s.dropWhile p = s := by
    rw [List.dropWhile_eq_self_iff]
    intro h0
    rw [← List.head_eq_getElem_zero hne, hh]; simp
  rw [h1, List.rdropWhile_eq_self_iff]
  intro h
  rw [hl]; simp

theorem dropUnderscores_go (s : Str) (hs : '_' ∉ s) (prev : Option Char) (hp : prev ≠ some '_')
    (acc : Str) : PyFloat.dropUnderscores.go asciiCls s prev acc = some (acc.reverse ++ s) := by
  induction s generalizing prev acc with
  | nil => simp [PyFloat.dropUnderscores.go, hp]
  | cons c cs ih =>
    have hc : c ≠ '_' := fun h => hs (h ▸ List.mem_cons_self)
    have hcs : '_' ∉ cs := fun h => hs (List.mem_cons_of_mem _ h)
    simp only [PyFloat.dropUnderscores.go, hc, if_false, hp, decide_false, Bool.false_and, Bool.false_eq_true]
    rw [ih hcs (some c) (by simpa using hc)]
    simp

theorem dropUnderscores_none (s : Str) (hs : '_' ∉ s) : PyFloat.dropUnderscores asciiCls s = some s := by
  unfold PyFloat.dropUnderscores
  rw [dropUnderscores_go s hs none (by simp)]
  simp

/-- value of a run of digits -/
def natVal (ds : Str) : Nat := ds.foldl (fun v c => v * 10 + dv c) 0

theorem digits_go {ds rest : Str} (hd : AllD ds) (hr : ∀ c r, rest = c :: r → isD c = false)
    (v n : Nat) : PyFloat.digits.go asciiCls (ds ++ rest) v n =
      (ds.foldl (fun v c => v * 10 + dv c) v, n + ds.length, rest) := by
  induction ds generalizing v n with
  | nil =>
    cases rest with
    | nil => simp [PyFloat.digits.go]
    | cons c r =>
      have : asciiDigit c = none := by
        have := hr c r rfl
        unfold isD at this
        simpa using this
      rw [List.nil_append, PyFloat.digits.go]
      simp only [PyFloat.dig]
      show (match asciiDigit c with | some d => _ | none => _) = _
      rw [this]
      simp
  | cons d t ih =>
    have F := digFacts d (hd d List.mem_cons_self)
    rw [List.cons_append, PyFloat.digits.go]
    simp only [PyFloat.dig]
    show (match asciiDigit d with | some d => _ | none => _) = _
    rw [F.val]
    simp only
    rw [ih (fun c hc => hd c (List.mem_cons_of_mem _ hc))]
    simp only [List.foldl_cons, List.length_cons]
    congr 2
    omega

theorem digits_eq {ds rest : Str} (hd : AllD ds) (hr : ∀ c r, rest = c :: r → isD c = false) :
    PyFloat.digits asciiCls (ds ++ rest) = (natVal ds, ds.length, rest) := by
  unfold PyFloat.digits natVal
  rw [digits_go hd hr]; simp


/-- optional sign of a numeral -/
inductive SignOf : Str → Bool → Prop
  | none : SignOf [] false
  | minus : SignOf ['-'] true
  | plus : SignOf ['+'] false

theorem lowerAscii_cons (c : Char) (cs : Str) :
    PyFloat.lowerAscii (c :: cs) = lc c :: PyFloat.lowerAscii cs := by
  unfold PyFloat.lowerAscii
  rw [List.flatMap_cons, asciiLower_eq]; rfl

theorem lit_inf : "inf".toList = ['i', 'n', 'f'] := by decide
theorem lit_infinity : "infinity".toList = ['i', 'n', 'f', 'i', 'n', 'i', 't', 'y'] := by decide
theorem lit_nan : "nan".toList = ['n', 'a', 'n'] := by decide

/-- a numeral body starts with a digit or the point -/
def NumHead (c : Char) : Prop := isD c = true ∨ c = '.'

theorem numHead_facts {c : Char} (h : NumHead c) :
    c ≠ '-' ∧ c ≠ '+' ∧ lc c ≠ 'i' ∧ lc c ≠ 'n' ∧ PyFloat.isFloatSpace asciiCls c = false ∧ c ≠ '_' := by
  rcases h with h | rfl
  · have F := digFacts c h
    exact ⟨F.ne_minus, F.ne_plus, by rw [F.lc]; exact F.ne_i, by rw [F.lc]; exact F.ne_n,
      F.notFloatSpace, F.ne_us⟩
  · decide

/-- the part of `float()` after the sign has been removed -/
theorem parse_lit {sgn : Str} {neg : Bool} (hs : SignOf sgn neg) {ds tail fs : Str}
    (hd : AllD ds) (hf : AllD fs) (htail : (tail = [] ∧ fs = []) ∨ tail = '.' :: fs)
    (hne : ds ≠ [] ∨ fs ≠ []) :
    @PyFloat.parse asciiCls ℚ ratNum (sgn ++ (ds ++ tail)) =
      .ok (@Num.ofDecimal ℚ ratNum neg (natVal ds * 10 ^ fs.length + natVal fs) (-(Int.ofNat fs.length))) := by
  -- shape of the body
  have hbody : ∃ h t, ds ++ tail = h :: t ∧ NumHead h := by
    cases ds with
    | nil =>
      rcases htail with ⟨_, rfl⟩ | rfl
      · exact absurd rfl (hne.resolve_left (fun h => h rfl))
      · exact ⟨'.', fs, rfl, Or.inr rfl⟩
    | cons d t => exact ⟨d, t ++ tail, rfl, Or.inl (hd d List.mem_cons_self)⟩
  have hlastD : ∀ (l : Str) (hl : l ≠ []), AllD l → PyFloat.isFloatSpace asciiCls (l.getLast hl) = false :=
    fun l hl hA => (digFacts _ (hA _ (List.getLast_mem hl))).notFloatSpace
  have hbne : ds ++ tail ≠ [] := by obtain ⟨h, t, e, _⟩ := hbody; rw [e]; simp
  have hlast : PyFloat.isFloatSpace asciiCls ((ds ++ tail).getLast hbne) = false := by
    rcases htail with ⟨rfl, rfl⟩ | rfl
    · have hds : ds ≠ [] := hne.resolve_right (fun h => h rfl)
      simp only [List.append_nil]
      exact hlastD ds hds hd
    · by_cases hfs : fs = []
      · subst hfs
        have : (ds ++ ['.']).getLast hbne = '.' := by simp
        rw [this]
        decide
      · rw [List.getLast_append_of_ne_nil _ (List.cons_ne_nil _ _), List.getLast_cons hfs]
        exact hlastD fs hfs hf
  have hus : '_' ∉ sgn ++ (ds ++ tail) := by
    intro hmem
    rcases List.mem_append.1 hmem with h | h
    · cases hs <;> simp at h
    · rcases List.mem_append.1 h with h | h
      · exact (digFacts _ (hd _ h)).ne_us rfl
      · rcases htail with ⟨rfl, _⟩ | rfl
        · cases h
        · rcases List.mem_cons.1 h with h | h
          · exact absurd h (by decide)
          · exact (digFacts _ (hf _ h)).ne_us rfl
  obtain ⟨h, t, hb, hH⟩ := hbody
  obtain ⟨n1, n2, n3, n4, n5, n6⟩ := numHead_facts hH
  have hstrip : ((List.dropWhile (PyFloat.isFloatSpace asciiCls) (sgn ++ (ds ++ tail))).reverse.dropWhile
      (PyFloat.isFloatSpace asciiCls)).reverse = sgn ++ (ds ++ tail) := by
    apply rstrip_fixed _ _ (by simp [hbne])
    · cases hs
      · simp only [List.nil_append, hb, List.head_cons]; exact n5
      · simp only [List.cons_append, List.head_cons]; decide
      · simp only [List.cons_append, List.head_cons]; decide
    · rw [List.getLast_append_of_ne_nil _ hbne]; exact hlast
  have hdig : PyFloat.digits asciiCls (ds ++ tail) = (natVal ds, ds.length, tail) :=
    digits_eq hd (fun c r he => by
      rcases htail with ⟨rfl, _⟩ | rfl
      · cases he
      · cases he; decide)
  unfold PyFloat.parse
  simp only [hstrip, dropUnderscores_none _ hus]
  split
  case' h_1 r heq =>
    have hr : neg = true ∧ r = ds ++ tail := by
      cases hs
      · rw [List.nil_append, hb] at heq; exact absurd (List.cons.inj heq).1 n1
      · exact ⟨rfl, (List.cons.inj heq).2.symm⟩
      · exact absurd (List.cons.inj heq).1 (by decide)
    obtain ⟨rfl, rfl⟩ := hr
  case' h_2 r heq =>
    have hr : neg = false ∧ r = ds ++ tail := by
      cases hs
      · rw [List.nil_append, hb] at heq; exact absurd (List.cons.inj heq).1 n2
      · exact absurd (List.cons.inj heq).1 (by decide)
      · exact ⟨rfl, (List.cons.inj heq).2.symm⟩
    obtain ⟨rfl, rfl⟩ := hr
  case' h_3 r x1 x2 =>
    have hr : neg = false ∧ sgn = [] := by
      cases hs
      · exact ⟨rfl, rfl⟩
      · exact absurd rfl (x1 _)
      · exact absurd rfl (x2 _)
    obtain ⟨rfl, rfl⟩ := hr
    rw [List.nil_append]
  all_goals
    have hlb : PyFloat.lowerAscii (ds ++ tail) = lc h :: PyFloat.lowerAscii t := by
      rw [hb, lowerAscii_cons]
    have c1 : PyFloat.lowerAscii (ds ++ tail) ≠ "inf".toList := by
      rw [hlb, lit_inf]; intro e; exact n3 (List.cons.inj e).1
    have c2 : PyFloat.lowerAscii (ds ++ tail) ≠ "infinity".toList := by
      rw [hlb, lit_infinity]; intro e; exact n3 (List.cons.inj e).1
    have c3 : PyFloat.lowerAscii (ds ++ tail) ≠ "nan".toList := by
      rw [hlb, lit_nan]; intro e; exact n4 (List.cons.inj e).1
    simp only [c1, c2, c3, decide_false, Bool.or_false, Bool.false_eq_true, if_false, hdig]
    rcases htail with ⟨rfl, rfl⟩ | rfl
    · have hds : ds ≠ [] := hne.resolve_right (fun h => h rfl)
      have : ds.length ≠ 0 := by simpa using hds
      simp [this, natVal]
    · have hdf : PyFloat.digits asciiCls fs = (natVal fs, fs.length, []) := by
        have := digits_eq (ds := fs) (rest := []) hf (fun c r he => by cases he)
        simpa using this
      have hlen : ¬ (ds.length + fs.length = 0) := by
        rcases hne with h | h
        · have : ds.length ≠ 0 := by simpa using h
          omega
        · have : fs.length ≠ 0 := by simpa using h
          omega
      simp only [hdf, hlen, if_false]


theorem ofDecimal_rat (neg : Bool) (m fc : Nat) :
    @Num.ofDecimal ℚ ratNum neg m (-(Int.ofNat fc)) =
      (if neg then -1 else 1) * ((m : ℚ) / (10 : ℚ) ^ fc) := by
  show (let v : ℚ := if -(Int.ofNat fc) ≥ 0 then (m : ℚ) * (10 : ℚ) ^ (-(Int.ofNat fc)).toNat
          else (m : ℚ) / (10 : ℚ) ^ (- -(Int.ofNat fc)).toNat
        if neg then -v else v) = _
  simp only
  rcases Nat.eq_zero_or_pos fc with rfl | hpos
  · cases neg <;> simp
  · have hneg : ¬ (-(Int.ofNat fc) ≥ 0) := by
      simp only [Int.ofNat_eq_natCast, ge_iff_le, Int.neg_nonneg]; omega
    rw [if_neg hneg]
    have : (- -(Int.ofNat fc)).toNat = fc := by simp
    rw [this]
    cases neg <;> simp

/-- an unsigned decimal numeral a regex token can consist of: `ddd` or `[ddd].ddd`, with its value -/
inductive Numeral : Str → ℚ → Prop
  | int {ds : Str} (hne : ds ≠ []) (hd : AllD ds) : Numeral ds (natVal ds)
  | frac {ds fs : Str} (hd : AllD ds) (hf : AllD fs) (hfne : fs ≠ []) :
      Numeral (ds ++ '.' :: fs) (((natVal ds * 10 ^ fs.length + natVal fs : ℕ) : ℚ) / (10 : ℚ) ^ fs.length)

theorem Numeral.nonneg {b : Str} {v : ℚ} (h : Numeral b v) : 0 ≤ v := by
  cases h <;> positivity

/-- `float()` reads a numeral (with optional sign) as its value -/
theorem Numeral.parse {b : Str} {v : ℚ} (h : Numeral b v) {sgn : Str} {neg : Bool} (hs : SignOf sgn neg) :
    @PyFloat.parse asciiCls ℚ ratNum (sgn ++ b) = .ok (if neg then -v else v) := by
  cases h with
  | int hne hd =>
    have := parse_lit hs (ds := b) (tail := []) (fs := []) hd (fun _ h => by cases h)
      (Or.inl ⟨rfl, rfl⟩) (Or.inl hne)
    rw [List.append_nil] at this
    rw [this, ofDecimal_rat]
    cases neg <;> simp [natVal]
  | frac hd hf hfne =>
    rename_i ds fs
    have := parse_lit hs (ds := ds) (tail := '.' :: fs) (fs := fs) hd hf (Or.inr rfl) (Or.inr hfne)
    rw [this, ofDecimal_rat]
    cases neg <;> simp

theorem Numeral.parse_pos {b : Str} {v : ℚ} (h : Numeral b v) :
    @PyFloat.parse asciiCls ℚ ratNum b = .ok v := by
  have := h.parse SignOf.none
  simpa using this

end Cm.ParseSpec
