import CmProofs.CliLemmas
/-!
# Lemmas for the static tie of the per-file loop of `cli/main.py` (C18main)

The Python post-pass walks the *stylesheet* and looks every rule up in `rule_declarations_map`; the model's `processFile`
checks *every entry of the map*. The two agree because the keys of the map are distinct positions of the stylesheet:
the pre-pass creates them in increasing order, below the length of the stylesheet (`prePass_keys`), and processing never
changes the keys (`processTop_keys`) nor the length of the stylesheet (`processTop_length`).
-/
namespace Cm.Cli

/-- the keys of `rule_declarations_map`, in insertion order -/
def rootKeys (r : List (Nat × List Item)) : List Nat := r.map (·.1)

/-- `rule_declarations_map.get(i)` -/
def findRoot (m : List (Nat × List Item)) (i : Nat) : Option (List Item) := (m.find? (·.1 = i)).map (·.2)

theorem getRoot_eq_findRoot (st : St) (i : Nat) : getRoot st i = findRoot st.rootDecls i := rfl

/-! ## processing keeps the keys -/

theorem setRoot_keys (st : St) (k : Nat) (x : List Item) : rootKeys (setRoot st k x).rootDecls = rootKeys st.rootDecls := by
  unfold setRoot rootKeys
  simp only [List.map_map]
  apply List.map_congr_left
  intro kv _
  simp only [Function.comp]
  split
  · next h => exact h.symm
  · rfl

theorem rewriteVar_keys (st1 : St) (name : Str) (d : VarDef) (v : Str) :
    rootKeys (rewriteVar st1 name d v).rootDecls = rootKeys st1.rootDecls := by
  unfold rewriteVar
  cases h : getRoot st1 d.rule with
  | none => rfl
  | some its => exact setRoot_keys st1 d.rule _

theorem shareBack_keys (top : Option Nat) (st st1 : St) (x : List Item) :
    rootKeys (shareBack top st st1 x).rootDecls = rootKeys st1.rootDecls := by
  unfold shareBack
  cases h : sharedOf top st with
  | none => rfl
  | some p => exact setRoot_keys st1 p.1 x

theorem processRule_keys (env : CliEnv) (cfg : Cfg) (top : Option Nat) (sel : Str) (items0 : List Item) (st : St) :
    rootKeys (resSt (processRule env cfg top sel items0 st)).rootDecls = rootKeys st.rootDecls := by
  have hs := processRule_step env cfg top sel items0 st
  generalize processRule env cfg top sel items0 st = res at hs ⊢
  cases hs with
  | noColor h => rfl
  | failed ci cd inv h hv => rfl
  | accessible ci cd h hv => rfl
  | tuned ci cd h hv =>
    have ht := tunedStep_step env cfg top sel items0 st ci cd
    generalize tunedStep env cfg top sel items0 st ci cd = res at ht ⊢
    cases ht with
    | viaVar name d h => exact rewriteVar_keys (tuneSt st _) name d _
    | unserialisable h h' => rfl
    | direct h h' => exact shareBack_keys top st (tuneSt st _) _

mutual
  theorem processNode_keys (env : CliEnv) (cfg : Cfg) (top : Option Nat) (st : St) : (n : Node) →
      rootKeys (resSt (processNode env cfg top st n)).rootDecls = rootKeys st.rootDecls
    | .rule sel items => by
      have h := processRule_keys env cfg top sel items st
      rw [processNode_rule]
      cases hres : processRule env cfg top sel items st with
      | error e => rw [hres] at h; exact h
      | ok p => obtain ⟨items', st'⟩ := p; rw [hres] at h; exact h
    | .at kw pre body => by
      rw [processNode_at]
      by_cases hk : isNested kw = true
      · have ih := processNodes_keys env cfg st body
        simp only [hk, if_true]
        cases hres : processNodes env cfg st body with
        | error e => rw [hres] at ih; exact ih
        | ok p =>
          obtain ⟨body', st'⟩ := p
          rw [hres] at ih
          simp only
          split <;> exact ih
      · simp only [hk]; rfl
    | .other t ok => by rw [processNode_other]; rfl
  theorem processNodes_keys (env : CliEnv) (cfg : Cfg) (st : St) : (ns : List Node) →
      rootKeys (resSt (processNodes env cfg st ns)).rootDecls = rootKeys st.rootDecls
    | [] => by rw [processNodes_nil]; rfl
    | n :: ns => by
      have ih1 := processNode_keys env cfg none st n
      rw [processNodes_cons]
      cases hres : processNode env cfg none st n with
      | error e => rw [hres] at ih1; exact ih1
      | ok p =>
        obtain ⟨n', st1⟩ := p
        rw [hres] at ih1
        have ih2 := processNodes_keys env cfg st1 ns
        simp only
        cases hres2 : processNodes env cfg st1 ns with
        | error e => rw [hres2] at ih2; exact ih2.trans ih1
        | ok q => obtain ⟨ns', st2⟩ := q; rw [hres2] at ih2; exact ih2.trans ih1
end

theorem processTop_keys (env : CliEnv) (cfg : Cfg) : (ns : List Node) → (i : Nat) → (st : St) →
    rootKeys (resSt (processTop env cfg ns i st)).rootDecls = rootKeys st.rootDecls
  | [], i, st => by rw [processTop_nil]; rfl
  | n :: ns, i, st => by
    have ih1 := processNode_keys env cfg (topOf n i) st n
    rw [processTop_cons]
    cases hres : processNode env cfg (topOf n i) st n with
    | error e => rw [hres] at ih1; exact ih1
    | ok p =>
      obtain ⟨n', st1⟩ := p
      rw [hres] at ih1
      have ih2 := processTop_keys env cfg ns (i + 1) st1
      simp only
      cases hres2 : processTop env cfg ns (i + 1) st1 with
      | error e => rw [hres2] at ih2; exact ih2.trans ih1
      | ok q => obtain ⟨ns', st2⟩ := q; rw [hres2] at ih2; exact ih2.trans ih1

theorem processTop_length (env : CliEnv) (cfg : Cfg) : (ns : List Node) → (i : Nat) → (st : St) → (ns' : List Node) → (st' : St) →
    processTop env cfg ns i st = .ok (ns', st') → ns'.length = ns.length
  | [], i, st, ns', st', h => by
    rw [processTop_nil] at h
    injection h with h; injection h with h1 _; subst h1; rfl
  | n :: ns, i, st, ns', st', h => by
    rw [processTop_cons] at h
    cases hres : processNode env cfg (topOf n i) st n with
    | error e => rw [hres] at h; simp at h
    | ok p =>
      obtain ⟨n', st1⟩ := p
      rw [hres] at h
      simp only at h
      cases hres2 : processTop env cfg ns (i + 1) st1 with
      | error e => rw [hres2] at h; simp at h
      | ok q =>
        obtain ⟨ns2, st2⟩ := q
        rw [hres2] at h
        simp only at h
        injection h with h; injection h with h1 _; subst h1
        simp only [List.length_cons, processTop_length env cfg ns (i + 1) st1 ns2 st2 hres2]

/-! ## the pre-pass creates increasing keys below the length of the stylesheet -/

/-- keys strictly increasing and below `hi` -/
def KeysBelow (hi : Nat) (ks : List Nat) : Prop := ks.Pairwise (· < ·) ∧ ∀ k ∈ ks, k < hi

theorem KeysBelow.mono {hi hi' : Nat} {ks : List Nat} (h : KeysBelow hi ks) (hle : hi ≤ hi') : KeysBelow hi' ks :=
  ⟨h.1, fun k hk => Nat.lt_of_lt_of_le (h.2 k hk) hle⟩

theorem KeysBelow.snoc {hi : Nat} {ks : List Nat} (h : KeysBelow hi ks) : KeysBelow (hi + 1) (ks ++ [hi]) := by
  refine ⟨?_, ?_⟩
  · rw [List.pairwise_append]
    refine ⟨h.1, List.pairwise_singleton _ _, ?_⟩
    intro a ha b hb
    simp only [List.mem_singleton] at hb
    subst hb
    exact h.2 a ha
  · intro k hk
    simp only [List.mem_append, List.mem_singleton] at hk
    rcases hk with hk | hk
    · exact Nat.lt_succ_of_lt (h.2 k hk)
    · subst hk; exact Nat.lt_succ_self _

theorem prePass_go_keys (env : CliEnv) : (ns : List Node) → (i : Nat) → (st : St) → KeysBelow i (rootKeys st.rootDecls) →
    KeysBelow (i + ns.length) (rootKeys (prePass.go env ns i st).rootDecls)
  | [], i, st, h => by simpa [prePass.go] using h
  | .rule sel items :: r, i, st, h => by
    simp only [prePass.go, List.length_cons]
    have e : i + (r.length + 1) = (i + 1) + r.length := by omega
    rw [e]
    split
    · apply prePass_go_keys env r (i + 1)
      have := h.snoc
      simpa [rootKeys] using this
    · exact prePass_go_keys env r (i + 1) st (h.mono (Nat.le_succ _))
  | .at _ _ _ :: r, i, st, h => by
    simp only [prePass.go, List.length_cons]
    have e : i + (r.length + 1) = (i + 1) + r.length := by omega
    rw [e]
    exact prePass_go_keys env r (i + 1) st (h.mono (Nat.le_succ _))
  | .other _ _ :: r, i, st, h => by
    simp only [prePass.go, List.length_cons]
    have e : i + (r.length + 1) = (i + 1) + r.length := by omega
    rw [e]
    exact prePass_go_keys env r (i + 1) st (h.mono (Nat.le_succ _))

theorem prePass_keys (env : CliEnv) (nodes : List Node) : KeysBelow nodes.length (rootKeys (prePass env nodes).rootDecls) := by
  have h := prePass_go_keys env nodes 0 {} ⟨List.Pairwise.nil, fun k hk => by simp [rootKeys] at hk⟩
  simpa [prePass] using h

/-! ## looking every position up = looking at every entry -/

theorem find_of_keysBelow : (m : List (Nat × List Item)) → (rootKeys m).Pairwise (· < ·) → ∀ kv ∈ m, m.find? (·.1 = kv.1) = some kv
  | [], _, kv, h => by simp at h
  | a :: r, hp, kv, h => by
    simp only [rootKeys, List.map_cons, List.pairwise_cons] at hp
    simp only [List.mem_cons] at h
    rcases h with h | h
    · subst h; simp
    · have hlt : a.1 < kv.1 := hp.1 kv.1 (List.mem_map.2 ⟨kv, h, rfl⟩)
      have hne : ¬ a.1 = kv.1 := Nat.ne_of_lt hlt
      rw [List.find?_cons_of_neg (by simpa using hne)]
      exact find_of_keysBelow r hp.2 kv h

/-- under the key invariant: every entry of the map is serialisable iff every position's entry is -/
theorem all_roots_iff (m : List (Nat × List Item)) (n : Nat) (h : KeysBelow n (rootKeys m)) :
    (m.all fun kv => itemsSerialisable kv.2) = true ↔
      ∀ j, j < n → ∀ its, findRoot m j = some its → itemsSerialisable its = true := by
  constructor
  · intro hall j _ its hf
    unfold findRoot at hf
    cases hfind : m.find? (·.1 = j) with
    | none => rw [hfind] at hf; simp at hf
    | some kv =>
      rw [hfind] at hf
      simp only [Option.map_some, Option.some.injEq] at hf
      rw [← hf]
      exact (List.all_eq_true.1 hall) kv (List.mem_of_find?_eq_some hfind)
  · intro hpos
    rw [List.all_eq_true]
    intro kv hkv
    have hk : kv.1 < n := h.2 kv.1 (List.mem_map.2 ⟨kv, hkv, rfl⟩)
    apply hpos kv.1 hk kv.2
    unfold findRoot
    rw [find_of_keysBelow m h.1 kv hkv]
    rfl

/-- what the post-pass loop checks, position by position -/
def postOk (m : List (Nat × List Item)) : List Node → Nat → Bool
  | [], _ => true
  | _ :: r, i => (match findRoot m i with | some its => itemsSerialisable its | none => true) && postOk m r (i + 1)

theorem postOk_iff (m : List (Nat × List Item)) : (ns : List Node) → (i : Nat) →
    (postOk m ns i = true ↔ ∀ j, j < ns.length → ∀ its, findRoot m (i + j) = some its → itemsSerialisable its = true)
  | [], i => by simp [postOk]
  | n :: r, i => by
    simp only [postOk, Bool.and_eq_true, postOk_iff m r (i + 1), List.length_cons]
    constructor
    · rintro ⟨h0, hr⟩ j hj its hf
      cases j with
      | zero => simp only [Nat.add_zero] at hf; rw [hf] at h0; exact h0
      | succ j =>
        have e : i + (j + 1) = i + 1 + j := by omega
        rw [e] at hf
        exact hr j (by omega) its hf
    · intro h
      refine ⟨?_, ?_⟩
      · cases hf : findRoot m i with
        | none => rfl
        | some its => exact h 0 (by omega) its (by simpa using hf)
      · intro j hj its hf
        have e : i + 1 + j = i + (j + 1) := by omega
        rw [e] at hf
        exact h (j + 1) (by omega) its hf

/-- the loop's check over a stylesheet as long as the key bound is the model's check over the whole map -/
theorem postOk_eq_rootsSerialisable (st' : St) (ns : List Node) (h : KeysBelow ns.length (rootKeys st'.rootDecls)) :
    postOk st'.rootDecls ns 0 = rootsSerialisable st' := by
  rw [Bool.eq_iff_iff, postOk_iff, rootsSerialisable, all_roots_iff _ _ h]
  simp only [Nat.zero_add]

/-- after processing a file the map still has the pre-pass's keys, below the length of the processed stylesheet -/
theorem keysBelow_after (env : CliEnv) (cfg : Cfg) (nodes : List Node) (st0 : St) (nodes' : List Node) (st' : St)
    (h : processTop env cfg nodes 0 (fileSt env nodes st0) = .ok (nodes', st')) :
    KeysBelow nodes'.length (rootKeys st'.rootDecls) := by
  have hk := processTop_keys env cfg nodes 0 (fileSt env nodes st0)
  rw [h] at hk
  have hl := processTop_length env cfg nodes 0 _ nodes' st' h
  have hp := prePass_keys env nodes
  simp only [resSt] at hk
  rw [hk, hl]
  exact hp

end Cm.Cli
