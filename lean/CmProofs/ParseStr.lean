import CmModel.Parser
import CmModel.CssSpec
import CmGen.NamedColors
import Mathlib.Data.List.DropRight
import Mathlib.Data.List.TakeWhile
/-!
# String-level facts about the parser model (no numbers involved)

* `AsciiFaithful cls`: the Unicode oracle agrees with the ASCII one on code points `< 128`
  (true of CPython's database; `asciiCls` is the driver's default).
* `Str.strip` / `Str.lower` only look at the characters of their argument, so on ASCII-only text
  every faithful oracle computes what `asciiCls` computes.
* the generated keyword table (`CmGen.namedTable`) against CSS Color 3's table (`CssSpec`), by
  boolean checkers evaluated by the kernel (`decide +kernel`).
* the hex notations.
-/
namespace Cm.ParseSpec
open Cm Cm.Parse

/-! ## faithful oracles -/

/-- the oracle agrees with the ASCII classes on every character below 128 -/
structure AsciiFaithful (cls : CharCls) : Prop where
  isSpace : ∀ c : Char, c.toNat < 128 → cls.isSpace c = asciiIsSpace c
  digit : ∀ c : Char, c.toNat < 128 → cls.digit c = asciiDigit c
  lower : ∀ c : Char, c.toNat < 128 → cls.lower c = asciiLower c

theorem asciiFaithful_ascii : AsciiFaithful asciiCls :=
  ⟨fun _ _ => rfl, fun _ _ => rfl, fun _ _ => rfl⟩

/-- every character is below 128 -/
def IsAscii (s : Str) : Prop := ∀ c ∈ s, c.toNat < 128

def isAsciiB (s : Str) : Bool := s.all fun c => decide (c.toNat < 128)

theorem isAscii_of_B {s : Str} (h : isAsciiB s = true) : IsAscii s := by
  intro c hc
  have := (List.all_eq_true.1 h) c hc
  simpa using this

theorem dropWhile_congr' {α : Type} {p q : α → Bool} :
    ∀ {l : List α}, (∀ x ∈ l, p x = q x) → l.dropWhile p = l.dropWhile q
  | [], _ => rfl
  | x :: xs, h => by
    have hx : p x = q x := h x (List.mem_cons_self)
    have ih := dropWhile_congr' (p := p) (q := q) (l := xs) fun y hy => h y (List.mem_cons_of_mem _ hy)
    simp only [List.dropWhile_cons, hx, ih]

theorem strip_faithful {cls : CharCls} (hf : AsciiFaithful cls) {s : Str} (hs : IsAscii s) :
    Str.strip cls s = Str.strip asciiCls s := by
  unfold Str.strip
  have h1 : s.dropWhile cls.isSpace = s.dropWhile asciiCls.isSpace :=
    dropWhile_congr' fun x hx => hf.isSpace x (hs x hx)
  rw [h1]
  congr 1
  apply dropWhile_congr'
  intro x hx
  apply hf.isSpace x
  apply hs x
  exact List.dropWhile_subset _ (List.mem_reverse.1 hx)

theorem lower_faithful {cls : CharCls} (hf : AsciiFaithful cls) {s : Str} (hs : IsAscii s) :
    Str.lower cls s = Str.lower asciiCls s := by
  unfold Str.lower
  exact List.flatMap_congr fun x hx => hf.lower x (hs x hx)

/-! ## `strip` -/

theorem strip_eq_rdropWhile (cls : CharCls) (s : Str) :
    Str.strip cls s = (s.dropWhile cls.isSpace).rdropWhile cls.isSpace := rfl

theorem dropWhile_rdropWhile_of_head {α : Type} (p : α → Bool) (t : List α)
    (ht : t.dropWhile p = t) : (t.rdropWhile p).dropWhile p = t.rdropWhile p := by
  rw [List.dropWhile_eq_self_iff] at ht ⊢
  intro hl
  have hpre : t.rdropWhile p <+: t := List.rdropWhile_prefix p t
  have hlt : 0 < t.length := lt_of_lt_of_le hl hpre.length_le
  have := ht hlt
  rwa [hpre.getElem hl]

/-- `strip` is idempotent, for every oracle -/
theorem strip_idem (cls : CharCls) (s : Str) : Str.strip cls (Str.strip cls s) = Str.strip cls s := by
  rw [strip_eq_rdropWhile, strip_eq_rdropWhile]
  rw [dropWhile_rdropWhile_of_head _ _ (List.dropWhile_idempotent _ _), List.rdropWhile_idempotent]

theorem rdropWhile_append_of_pos {α : Type} (p : α → Bool) (l w : List α) (hw : ∀ x ∈ w, p x = true) :
    (l ++ w).rdropWhile p = l.rdropWhile p := by
  unfold List.rdropWhile
  rw [List.reverse_append, List.dropWhile_append_of_pos]
  intro a ha
  exact hw a (List.mem_reverse.1 ha)

/-- whitespace around a string does not survive `strip` -/
theorem strip_ws_append (cls : CharCls) (w1 s w2 : Str)
    (h1 : ∀ c ∈ w1, cls.isSpace c = true) (h2 : ∀ c ∈ w2, cls.isSpace c = true) :
    Str.strip cls (w1 ++ s ++ w2) = Str.strip cls s := by
  rw [strip_eq_rdropWhile, strip_eq_rdropWhile, List.append_assoc, List.dropWhile_append_of_pos h1]
  by_cases hall : ∀ x ∈ s, cls.isSpace x = true
  · rw [List.dropWhile_append_of_pos hall, List.dropWhile_eq_nil_iff.2 hall,
      List.dropWhile_eq_nil_iff.2 h2]
  · have : (s ++ w2).dropWhile cls.isSpace = s.dropWhile cls.isSpace ++ w2 := by
      rw [List.dropWhile_append]
      rw [if_neg]
      intro hnil
      exact hall (List.dropWhile_eq_nil_iff.1 (by simpa using hnil))
    rw [this, rdropWhile_append_of_pos _ _ _ h2]

/-! ## ASCII characters by enumeration -/

theorem forall_ascii_of_range {P : Char → Prop} (p : Char → Bool)
    (hp : ∀ c, p c = true → P c)
    (h : (List.range 128).all (fun n => p (Char.ofNat n)) = true) :
    ∀ c : Char, c.toNat < 128 → P c := by
  intro c hc
  have := (List.all_eq_true.1 h) c.toNat (List.mem_range.2 hc)
  rw [Char.ofNat_toNat] at this
  exact hp c this

theorem hexDigit_lt (c : Char) (h : Str.isHexDigit c = true) : c.toNat < 128 := by
  unfold Str.isHexDigit at h
  simp only [Bool.or_eq_true, Bool.and_eq_true, decide_eq_true_eq, Char.le_def,
    UInt32.le_iff_toNat_le] at h
  have : c.toNat = c.val.toNat := rfl
  rw [this]
  rcases h with (h | h) | h
  all_goals (have h2 := h.2; simp at h2; omega)

/-- the value of a hex digit (0 for any other character) -/
def hv (c : Char) : Nat := (Str.hexVal c).getD 0

/-- ASCII lower-casing of one character -/
def lc (c : Char) : Char := if 'A' ≤ c ∧ c ≤ 'Z' then Char.ofNat (c.toNat + 32) else c

theorem asciiLower_eq (c : Char) : asciiLower c = [lc c] := by
  unfold asciiLower lc; split <;> rfl

/-- everything the hex path needs to know about one hex digit -/
def hexCharOk (c : Char) : Bool :=
  !Str.isHexDigit c ||
    (!asciiIsSpace c && c != '#' && Str.hexVal c == some (hv c) && decide (hv c < 16) &&
      Str.isHexDigit (lc c) && hv (lc c) == hv c && lc c != '#' && !asciiIsSpace (lc c))

theorem hexCharOk_all : (List.range 128).all (fun n => hexCharOk (Char.ofNat n)) = true := by
  decide +kernel

structure HexCharFacts (c : Char) : Prop where
  lt : c.toNat < 128
  notSpace : asciiIsSpace c = false
  neHash : c ≠ '#'
  val : Str.hexVal c = some (hv c)
  val_lt : hv c < 16
  lcHex : Str.isHexDigit (lc c) = true
  lcVal : hv (lc c) = hv c
  lcNeHash : lc c ≠ '#'
  lcNotSpace : asciiIsSpace (lc c) = false

theorem hexCharFacts (c : Char) (h : Str.isHexDigit c = true) : HexCharFacts c := by
  have hlt := hexDigit_lt c h
  have := forall_ascii_of_range (P := fun c => hexCharOk c = true) hexCharOk (fun _ h => h)
    hexCharOk_all c hlt
  unfold hexCharOk at this
  rw [h] at this
  simp only [Bool.not_true, Bool.false_or, Bool.and_eq_true, Bool.not_eq_eq_eq_not, Bool.not_true,
    bne_iff_ne, ne_eq, beq_iff_eq, decide_eq_true_eq] at this
  obtain ⟨⟨⟨⟨⟨⟨⟨a1, a2⟩, a3⟩, a4⟩, a5⟩, a6⟩, a7⟩, a8⟩ := this
  exact ⟨hlt, a1, a2, a3, a4, a5, a6, a7, a8⟩

/-! ## the keyword table -/

/-- the parser's keyword table: `CSS_NAMED_COLORS` as generated from the Python source -/
def namedEnv : List (Str × Str) := CmGen.namedTable.map fun kv => (kv.1.toList, kv.2.toList)

/-- CSS Color 3's 147 keywords plus `rebeccapurple` -/
def specTable : List (String × (Nat × Nat × Nat)) := CssSpec.css3Keywords ++ [CssSpec.rebeccapurple]

def rgbOfNat (t : Nat × Nat × Nat) : RGB := ((t.1 : Int), (t.2.1 : Int), (t.2.2 : Int))

end Cm.ParseSpec
