import CmModel.Num
/-! Consequences of `LawfulNumOrd` in the shapes the search proofs use. -/
namespace Cm
variable {α : Type} [Num α] [LawfulNumOrd α]

theorem le_of_not_le {a b : α} (h : Num.le a b = false) : Num.le b a = true := by
  rcases LawfulNumOrd.le_total a b with h' | h'
  · rw [h] at h'; cases h'
  · exact h'

theorem le_of_lt {a b : α} (h : Num.lt a b = true) : Num.le a b = true :=
  le_of_not_le ((LawfulNumOrd.lt_iff a b).1 h)

theorem not_lt_of_le {a b : α} (h : Num.le a b = true) : Num.lt b a = false := by
  cases hlt : Num.lt b a with
  | false => rfl
  | true => have := (LawfulNumOrd.lt_iff b a).1 hlt; rw [h] at this; cases this

theorem le_of_not_lt {a b : α} (h : Num.lt b a = false) : Num.le a b = true := by
  cases hle : Num.le a b with
  | true => rfl
  | false => have := (LawfulNumOrd.lt_iff b a).2 hle; rw [h] at this; cases this

theorem le_trans' {a b c : α} (h1 : Num.le a b = true) (h2 : Num.le b c = true) : Num.le a c = true :=
  LawfulNumOrd.le_trans a b c h1 h2

theorem le_rfl' (a : α) : Num.le a a = true := LawfulNumOrd.le_refl a

end Cm
