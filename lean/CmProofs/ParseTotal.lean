import CmProofs.ParseSpec
/-!
# Totality of `parse_color_to_rgb` (helpers for C14)

Two compositional predicates on `Except PyErr β` computations:

* `ErrIn P x` : every error `x` can produce satisfies `P`;
* `OkIn Q x`  : every value `x` can produce satisfies `Q`.

Both come with rules for `pure`, `vErr`, `>>=` and `if`, so that the per-function lemmas are a walk
through the function's control flow. Everything up to `parseColor_ok_cases` holds for **every**
carrier `[Num α]` (no laws); the last section specialises the three numeric kernels
(`hslFinish`, `hslaFinish`, `rgbaToRgb`) to the exact rational carrier `ratNum`.
-/
namespace Cm.ParseTotal
open Cm Cm.Parse

/-! ## error classes -/

/-- every error of `x` satisfies `P` -/
def ErrIn {β : Type} (P : PyErr → Prop) (x : Except PyErr β) : Prop := ∀ e, x = .error e → P e

/-- `ValueError` only -/
abbrev OnlyV (e : PyErr) : Prop := e = .valueError
/-- `ValueError` or `TypeError` (what `Color._parse` catches) -/
abbrev VorT (e : PyErr) : Prop := e = .valueError ∨ e = .typeError

section rules
variable {β γ : Type} {P : PyErr → Prop}

theorem ErrIn.ok (v : β) : ErrIn P (Except.ok v) := fun _ h => by cases h
theorem ErrIn.pure (v : β) : ErrIn P (pure v : Except PyErr β) := fun _ h => by cases h
theorem ErrIn.err {e : PyErr} (h : P e) : ErrIn P (Except.error e : Except PyErr β) :=
  fun _ h' => by cases h'; exact h
theorem ErrIn.vErr (h : P .valueError) : ErrIn P (vErr : Except PyErr β) := ErrIn.err h
theorem ErrIn.bind {x : Except PyErr β} {f : β → Except PyErr γ}
    (hx : ErrIn P x) (hf : ∀ v, ErrIn P (f v)) : ErrIn P (x >>= f) := by
  intro e h
  cases x with
  | error e' => cases h; exact hx _ rfl
  | ok v => exact hf v e h
theorem ErrIn.ite {c : Prop} [Decidable c] {a b : Except PyErr β}
    (ha : ErrIn P a) (hb : ErrIn P b) : ErrIn P (if c then a else b) := by
  split <;> assumption
theorem ErrIn.mono {Q : PyErr → Prop} {x : Except PyErr β} (h : ErrIn P x) (hPQ : ∀ e, P e → Q e) :
    ErrIn Q x := fun e he => hPQ e (h e he)
theorem OnlyV.toVorT {x : Except PyErr β} (h : ErrIn OnlyV x) : ErrIn VorT x :=
  h.mono fun _ he => Or.inl he
end rules

open Lean Elab Tactic Meta in
/-- close or reduce the goal by `apply`ing some hypothesis, unifying at reducible transparency
    (so that no model function is ever unfolded while looking for the right lemma) -/
elab "apply_hyp" : tactic => withMainContext do
  let g ← getMainGoal
  for d in ← getLCtx do
    if d.isImplementationDetail then continue
    let s ← saveState
    try
      let gs ← withReducible (g.apply d.toExpr)
      replaceMainGoal gs
      return
    catch _ => restoreState s
  throwError "apply_hyp: no hypothesis applies"

/-- the walk through a function body: close leaves by the rules or by a lemma placed in the
    context, descend through `>>=`, `if` and `match` -/
macro "errin" : tactic =>
  `(tactic| repeat' first
    | with_reducible exact ErrIn.ok _
    | with_reducible exact ErrIn.pure _
    | with_reducible exact ErrIn.vErr rfl
    | with_reducible exact ErrIn.err rfl
    | with_reducible exact ErrIn.vErr (Or.inl rfl)
    | with_reducible exact ErrIn.err (Or.inr rfl)
    | apply_hyp
    | (with_reducible apply OnlyV.toVorT; apply_hyp)
    | with_reducible refine ErrIn.bind ?_ (fun _ => ?_)
    | split)

variable {α : Type} [Num α]

/-- `float(str)` fails with `ValueError` only -/
theorem floatParse_errors (cls : CharCls) (s : Str) : ErrIn OnlyV (PyFloat.parse (α := α) cls s) := by
  intro e h
  unfold PyFloat.parse at h
  simp only at h
  repeat' split at h
  all_goals first | (cases h; rfl) | cases h

theorem floatOrValueError_errors (E : PEnv) (s : Str) :
    ErrIn OnlyV (floatOrValueError (α := α) E s) := by
  unfold floatOrValueError
  errin

theorem hexToRgb_errors (E : PEnv) (s : Str) : ErrIn OnlyV (hexToRgb E s) := by
  unfold hexToRgb
  simp only
  errin

theorem rangeToken_errors (v : α) (component : Bool) : ErrIn OnlyV (rangeToken v component) := by
  unfold rangeToken
  errin

theorem numberToken_errors (E : PEnv) (tok : Str) (component : Bool) :
    ErrIn OnlyV (numberToken (α := α) E tok component) := by
  have h1 := floatOrValueError_errors (α := α) E
  have h2 := rangeToken_errors (α := α)
  unfold numberToken
  simp only
  errin

theorem numberTokenOfVal_errors (E : PEnv) (v : PyVal α) (component : Bool) :
    ErrIn OnlyV (numberTokenOfVal E v component) := by
  have h1 := numberToken_errors (α := α) E
  have h2 := rangeToken_errors (α := α)
  unfold numberTokenOfVal
  errin

theorem pctOrDec_errors (E : PEnv) (v : Str) : ErrIn OnlyV (pctOrDec (α := α) E v) := by
  have h1 := floatParse_errors (α := α) E.cls
  unfold pctOrDec
  simp only
  errin

theorem parseHue_errors (E : PEnv) (v : Str) : ErrIn OnlyV (parseHue (α := α) E v) := by
  have h1 := floatParse_errors (α := α) E.cls
  unfold parseHue
  errin

theorem hslFinish_errors (h s l : α) : ErrIn OnlyV (hslFinish h s l) := by
  unfold hslFinish
  errin

theorem hslStrToRgb_errors (E : PEnv) (s : Str) : ErrIn OnlyV (hslStrToRgb (α := α) E s) := by
  have h1 := parseHue_errors (α := α) E
  have h2 := pctOrDec_errors (α := α) E
  have h3 := hslFinish_errors (α := α)
  unfold hslStrToRgb
  simp only
  errin

theorem hslSeqToRgb_errors (E : PEnv) (h s l : PyVal α) : ErrIn OnlyV (hslSeqToRgb E h s l) := by
  have h1 := parseHue_errors (α := α) E
  have h2 := pctOrDec_errors (α := α) E
  have h3 := hslFinish_errors (α := α)
  unfold hslSeqToRgb
  simp only
  errin

theorem hslaFinish_errors (h s l a : α) (bg : Option RGB) : ErrIn OnlyV (hslaFinish h s l a bg) := by
  have h3 := hslFinish_errors (α := α)
  unfold hslaFinish
  errin

theorem hslaStrToRgb_errors (E : PEnv) (s : Str) (bg : Option RGB) :
    ErrIn OnlyV (hslaStrToRgb (α := α) E s bg) := by
  have hp := floatParse_errors (α := α) E.cls
  have h3 := hslaFinish_errors (α := α)
  unfold hslaStrToRgb
  simp only
  errin

/-- `float(v)` on an arbitrary value: `ValueError` (bad text) or `TypeError` (`None`, containers) -/
theorem toFloat_errors (cls : CharCls) (v : PyVal α) : ErrIn VorT (v.toFloat cls) := by
  have hp := floatParse_errors (α := α) cls
  cases v <;> unfold PyVal.toFloat <;> errin

theorem hslaSeqToRgb_errors (E : PEnv) (h s l a : PyVal α) (bg : Option RGB) :
    ErrIn VorT (hslaSeqToRgb E h s l a bg) := by
  have h1 := toFloat_errors (α := α) E.cls
  have h3 := hslaFinish_errors (α := α)
  unfold hslaSeqToRgb
  errin

theorem rgbaToRgb_errors (r g b : Int) (a : α) (bg : RGB) : ErrIn OnlyV (rgbaToRgb r g b a bg) := by
  unfold rgbaToRgb
  errin

theorem rgbComponent_errors (E : PEnv) (c : PyVal α) : ErrIn OnlyV (rgbComponent E c) := by
  have h1 := numberToken_errors (α := α) E
  unfold rgbComponent
  errin

theorem bgParsed_errors (bg : Option RGB) : ErrIn OnlyV (bgParsed bg) := by
  unfold bgParsed
  errin

theorem parseStr_errors (E : PEnv) (s : Str) (bg : Option RGB) :
    ErrIn OnlyV (parseStr (α := α) E s bg) := by
  have h1 := hexToRgb_errors E
  have h2 := hslaStrToRgb_errors (α := α) E
  have h3 := hslStrToRgb_errors (α := α) E
  have h4 := bgParsed_errors
  have h5 := rgbaToRgb_errors (α := α)
  unfold parseStr
  simp only
  errin

/-- `parse_color_to_rgb` raises `ValueError` or `TypeError` only.
    (`OverflowError` arises in CPython from `float(n)` for an `int` beyond the double range; such
    integers are outside the modelled input domain, and no model function produces it.) -/
theorem parseColor_errors (E : PEnv) (v : PyVal α) (bg : Option RGB) :
    ErrIn VorT (parseColor E v bg) := by
  have h1 := hslSeqToRgb_errors (α := α) E
  have h2 := rgbComponent_errors (α := α) E
  have h3 := numberTokenOfVal_errors (α := α) E
  have h4 := bgParsed_errors
  have h5 := rgbaToRgb_errors (α := α)
  have h6 := hslaSeqToRgb_errors (α := α) E
  have h7 := parseStr_errors (α := α) E
  unfold parseColor
  simp only
  errin

/-! ## values: where a successful parse comes from (every carrier) -/

/-- every value of `x` satisfies `Q` -/
def OkIn {β : Type} (Q : β → Prop) (x : Except PyErr β) : Prop := ∀ v, x = .ok v → Q v

section rules
variable {β γ : Type} {Q : γ → Prop}

theorem OkIn.ok {v : γ} (h : Q v) : OkIn Q (Except.ok v) := fun _ h' => by cases h'; exact h
theorem OkIn.pure {v : γ} (h : Q v) : OkIn Q (pure v : Except PyErr γ) := fun _ h' => by cases h'; exact h
theorem OkIn.err {e : PyErr} : OkIn Q (Except.error e : Except PyErr γ) := fun _ h' => by cases h'
theorem OkIn.vErr : OkIn Q (vErr : Except PyErr γ) := OkIn.err
theorem OkIn.bind {x : Except PyErr β} {f : β → Except PyErr γ}
    (hf : ∀ v, x = .ok v → OkIn Q (f v)) : OkIn Q (x >>= f) := by
  intro c h
  cases x with
  | error e' => cases h
  | ok v => exact hf v rfl c h
theorem OkIn.vErr_bind {f : β → Except PyErr γ} : OkIn Q ((Parse.vErr : Except PyErr β) >>= f) :=
  fun _ h' => by cases h'
theorem OkIn.ite {c : Prop} [Decidable c] {a b : Except PyErr γ}
    (ha : c → OkIn Q a) (hb : ¬c → OkIn Q b) : OkIn Q (if c then a else b) := by
  split
  · exact ha ‹_›
  · exact hb ‹_›
theorem OkIn.mono {Q' : γ → Prop} {x : Except PyErr γ} (h : OkIn Q x) (hQ : ∀ c, Q c → Q' c) :
    OkIn Q' x := fun c hc => hQ c (h c hc)
end rules

/-- the walk for values: failing leaves are closed, `>>=` / `if` / `match` are descended with their
    equations kept in the context, lemmas in the context are applied; `pure`/`ok` leaves are left as
    `OkIn Q (pure c)` goals -/
macro "okin" : tactic =>
  `(tactic| repeat' first
    | with_reducible exact OkIn.err
    | with_reducible exact OkIn.vErr
    | with_reducible exact OkIn.vErr_bind
    | apply_hyp
    | with_reducible refine OkIn.bind (fun _ _ => ?_)
    | with_reducible refine OkIn.ite (fun _ => ?_) (fun _ => ?_)
    | split)

theorem hexVal_lt {c : Char} {n : Nat} (h : Str.hexVal c = some n) : n < 16 := by
  have e : ∀ a b : Char, a ≤ b ↔ a.toNat ≤ b.toNat := fun a b => by
    rw [Char.le_def, UInt32.le_iff_toNat_le]; rfl
  have e0 : '0'.toNat = 48 := rfl
  have e9 : '9'.toNat = 57 := rfl
  have ea : 'a'.toNat = 97 := rfl
  have ef : 'f'.toNat = 102 := rfl
  have eA : 'A'.toNat = 65 := rfl
  have eF : 'F'.toNat = 70 := rfl
  unfold Str.hexVal at h
  simp only [e, e0, e9, ea, ef, eA, eF] at h
  repeat' split at h
  all_goals first | (cases h; omega) | cases h

/-- `hex_to_rgb` returns 8-bit channels (no carrier involved) -/
theorem hexToRgb_valid (E : PEnv) (s : Str) : OkIn (fun c => validRgb c = true) (hexToRgb E s) := by
  unfold hexToRgb
  simp only
  split
  · split
    · next ha hb hc hd he hf =>
      apply OkIn.ok
      have := hexVal_lt ha; have := hexVal_lt hb; have := hexVal_lt hc
      have := hexVal_lt hd; have := hexVal_lt he; have := hexVal_lt hf
      unfold validRgb
      simp only [Int.ofNat_eq_natCast, Bool.and_eq_true, decide_eq_true_eq]
      omega
    · exact OkIn.vErr
  · exact OkIn.vErr

variable (α) in
/-- the three numeric kernels a successful parse can come from when it has not been validated
    explicitly (`is_valid_rgb` after `clamp255`, or the hex reader) -/
def Kernel (bg : Option RGB) (c : RGB) : Prop :=
  validRgb c = true ∨
  (∃ x s l : α, hslFinish (Num.pmod x (360.0 : α)) s l = .ok c) ∨
  (∃ h s l a : α, hslaFinish h s l a bg = .ok c) ∨
  (∃ (r g b : Int) (a : α) (k : RGB), rgbaToRgb r g b a k = .ok c)

theorem parseHue_ok (E : PEnv) (v : Str) (h : α) (hh : parseHue (α := α) E v = .ok h) :
    ∃ x : α, h = Num.pmod x (360.0 : α) := by
  unfold parseHue at hh
  cases hp : PyFloat.parse (α := α) E.cls (Str.strip E.cls v) with
  | error e => rw [hp] at hh; cases hh
  | ok x => rw [hp] at hh; cases hh; exact ⟨x, rfl⟩

theorem hslFinish_kernel (bg : Option RGB) (x s l : α) :
    OkIn (Kernel α bg) (hslFinish (Num.pmod x (360.0 : α)) s l) :=
  fun _ hc => Or.inr (Or.inl ⟨x, s, l, hc⟩)

theorem hslFinish_kernel_of_hue (E : PEnv) (bg : Option RGB) (p : Str) (h s l : α)
    (hh : parseHue (α := α) E p = .ok h) : OkIn (Kernel α bg) (hslFinish h s l) := by
  obtain ⟨x, rfl⟩ := parseHue_ok E p h hh
  exact hslFinish_kernel bg x s l

theorem hslaFinish_kernel (bg : Option RGB) (h s l a : α) :
    OkIn (Kernel α bg) (hslaFinish h s l a bg) :=
  fun _ hc => Or.inr (Or.inr (Or.inl ⟨h, s, l, a, hc⟩))

theorem rgbaToRgb_kernel (bg : Option RGB) (r g b : Int) (a : α) (k : RGB) :
    OkIn (Kernel α bg) (rgbaToRgb r g b a k) :=
  fun _ hc => Or.inr (Or.inr (Or.inr ⟨r, g, b, a, k, hc⟩))

theorem hexToRgb_kernel (E : PEnv) (bg : Option RGB) (s : Str) : OkIn (Kernel α bg) (hexToRgb E s) :=
  (hexToRgb_valid E s).mono fun _ h => Or.inl h

theorem hslStrToRgb_kernel (E : PEnv) (bg : Option RGB) (s : Str) :
    OkIn (Kernel α bg) (hslStrToRgb (α := α) E s) := by
  have h1 := hslFinish_kernel_of_hue (α := α) E bg
  unfold hslStrToRgb
  simp only
  okin

theorem hslSeqToRgb_kernel (E : PEnv) (bg : Option RGB) (h s l : PyVal α) :
    OkIn (Kernel α bg) (hslSeqToRgb E h s l) := by
  have h1 := hslFinish_kernel (α := α) bg
  have h2 := hslFinish_kernel_of_hue (α := α) E bg
  unfold hslSeqToRgb
  simp only [pure_bind]
  okin

theorem hslaStrToRgb_kernel (E : PEnv) (bg : Option RGB) (s : Str) :
    OkIn (Kernel α bg) (hslaStrToRgb (α := α) E s bg) := by
  have h1 := hslaFinish_kernel (α := α) bg
  unfold hslaStrToRgb
  simp only
  okin

theorem hslaSeqToRgb_kernel (E : PEnv) (bg : Option RGB) (h s l a : PyVal α) :
    OkIn (Kernel α bg) (hslaSeqToRgb E h s l a bg) := by
  have h1 := hslaFinish_kernel (α := α) bg
  unfold hslaSeqToRgb
  okin

/-- the guard `if is_valid_rgb(c) then c else raise` -/
theorem guard_kernel (bg : Option RGB) (c : RGB) :
    OkIn (Kernel α bg) (if validRgb c = true then Except.ok c else vErr) :=
  OkIn.ite (fun h => OkIn.ok (Or.inl h)) (fun _ => OkIn.vErr)

theorem guard_kernel' (bg : Option RGB) (c : RGB) :
    OkIn (Kernel α bg) (if validRgb c = true then (Pure.pure c : Except PyErr RGB) else vErr) :=
  OkIn.ite (fun h => OkIn.pure (Or.inl h)) (fun _ => OkIn.vErr)

theorem parseStr_kernel (E : PEnv) (s : Str) (bg : Option RGB) :
    OkIn (Kernel α bg) (parseStr (α := α) E s bg) := by
  have h1 := hexToRgb_kernel (α := α) E bg
  have h2 := hslaStrToRgb_kernel (α := α) E bg
  have h3 := hslStrToRgb_kernel (α := α) E bg
  have h4 := rgbaToRgb_kernel (α := α) bg
  have h5 := guard_kernel (α := α) bg
  unfold parseStr
  simp only
  okin

/-- **every carrier**: a successful `parse_color_to_rgb` has either been validated explicitly
    (hex and named colours; `clamp255` + `is_valid_rgb` for 3-sequences and three-number strings),
    or is the output of one of the three numeric kernels `hsl_to_rgb` (with a hue reduced mod 360),
    `hsla_to_rgb`, `rgba_to_rgb`. -/
theorem parseColor_ok_cases (E : PEnv) (v : PyVal α) (bg : Option RGB) :
    OkIn (Kernel α bg) (parseColor E v bg) := by
  have h1 := hslSeqToRgb_kernel (α := α) E bg
  have h2 := hslaSeqToRgb_kernel (α := α) E bg
  have h3 := parseStr_kernel (α := α) E
  have h4 := rgbaToRgb_kernel (α := α) bg
  have h5 := guard_kernel' (α := α) bg
  unfold parseColor
  simp only
  okin

/-- **every carrier**, 3-sequences: the result is explicitly validated (`clamp255` +
    `is_valid_rgb`) unless the sequence was routed to `hsl_to_rgb` -/
theorem seq3_ok_cases (E : PEnv) (r g b : PyVal α) (bg : Option RGB) :
    OkIn (fun c => validRgb c = true ∨ hslSeqToRgb E r g b = .ok c)
      (parseColor E (.tuple [r, g, b]) bg) ∧
    OkIn (fun c => validRgb c = true ∨ hslSeqToRgb E r g b = .ok c)
      (parseColor E (.list [r, g, b]) bg) := by
  have h1 : OkIn (fun c => validRgb c = true ∨ hslSeqToRgb E r g b = .ok c) (hslSeqToRgb E r g b) :=
    fun c hc => Or.inr hc
  constructor <;>
  · unfold parseColor
    simp only
    okin
    all_goals (refine OkIn.pure (Or.inl ?_); assumption)

variable (α) in
/-- where a successfully parsed *string* comes from -/
def StrCases (E : PEnv) (s : Str) (bg : Option RGB) (c : RGB) : Prop :=
  validRgb c = true ∨
  (Str.startsWith (Str.lower E.cls (Str.strip E.cls s)) "hsla(".toList = true ∧
    hslaStrToRgb (α := α) E (Str.strip E.cls s) bg = .ok c) ∨
  (Str.startsWith (Str.lower E.cls (Str.strip E.cls s)) "hsl(".toList = true ∧
    hslStrToRgb (α := α) E (Str.strip E.cls s) = .ok c) ∨
  (4 ≤ (NumRe.findAll E.cls (Str.lower E.cls (Str.strip E.cls s))).length ∧
    ∃ (r g b : Int) (a : α) (k : RGB), rgbaToRgb r g b a k = .ok c)

/-- **every carrier**, strings: the result is explicitly validated (keyword, hex notation, or three
    numeric tokens through `clamp255` + `is_valid_rgb`) unless the text starts with `hsla(` /
    `hsl(`, or carries at least four numeric tokens and went through `rgba_to_rgb` -/
theorem parseStr_ok_cases (E : PEnv) (s : Str) (bg : Option RGB) :
    OkIn (StrCases α E s bg) (parseStr (α := α) E s bg) := by
  have h1 : ∀ t, OkIn (StrCases α E s bg) (hexToRgb E t) :=
    fun t => (hexToRgb_valid E t).mono fun _ h => Or.inl h
  have h2 : Str.startsWith (Str.lower E.cls (Str.strip E.cls s)) "hsla(".toList = true →
      OkIn (StrCases α E s bg) (hslaStrToRgb (α := α) E (Str.strip E.cls s) bg) :=
    fun hp c hc => Or.inr (Or.inl ⟨hp, hc⟩)
  have h3 : Str.startsWith (Str.lower E.cls (Str.strip E.cls s)) "hsl(".toList = true →
      OkIn (StrCases α E s bg) (hslStrToRgb (α := α) E (Str.strip E.cls s)) :=
    fun hp c hc => Or.inr (Or.inr (Or.inl ⟨hp, hc⟩))
  have h4 : ∀ (t0 t1 t2 t3 : Str) (rest : List Str) (r g b : Int) (a : α) (k : RGB),
      NumRe.findAll E.cls (Str.lower E.cls (Str.strip E.cls s)) = t0 :: t1 :: t2 :: t3 :: rest →
      OkIn (StrCases α E s bg) (rgbaToRgb r g b a k) :=
    fun t0 t1 t2 t3 rest r g b a k hf c hc =>
      Or.inr (Or.inr (Or.inr ⟨by rw [hf]; simp, r, g, b, a, k, hc⟩))
  unfold parseStr
  simp only
  okin
  all_goals (refine OkIn.ok (Or.inl ?_); assumption)

/-! ## the kernels at the exact rational carrier -/

open Cm.ParseSpec

theorem truncQ_mem_Icc {x : ℚ} (h0 : 0 ≤ x) (h1 : x ≤ 255) : 0 ≤ truncQ x ∧ truncQ x ≤ 255 := by
  obtain ⟨a, b⟩ := truncQ_near h0
  constructor
  · have : ((-1 : ℤ) : ℚ) < (truncQ x : ℚ) := by push_cast; linarith
    have : (-1 : ℤ) < truncQ x := by exact_mod_cast this
    omega
  · have : (truncQ x : ℚ) ≤ ((255 : ℤ) : ℚ) := by push_cast; linarith
    exact_mod_cast this

theorem mix_mem {a f k : ℚ} (ha0 : 0 ≤ a) (ha1 : a ≤ 1) (hf0 : 0 ≤ f) (hf1 : f ≤ 255)
    (hk0 : 0 ≤ k) (hk1 : k ≤ 255) : 0 ≤ a * f + (1 - a) * k ∧ a * f + (1 - a) * k ≤ 255 := by
  have h1a : 0 ≤ 1 - a := by linarith
  constructor
  · positivity
  · nlinarith [mul_le_mul_of_nonneg_left hf1 ha0, mul_le_mul_of_nonneg_left hk1 h1a]

theorem validRgb_cast {c : RGB} (h : validRgb c = true) :
    ((0 : ℚ) ≤ c.1 ∧ (c.1 : ℚ) ≤ 255) ∧ ((0 : ℚ) ≤ c.2.1 ∧ (c.2.1 : ℚ) ≤ 255) ∧
      ((0 : ℚ) ≤ c.2.2 ∧ (c.2.2 : ℚ) ≤ 255) := by
  rw [validRgb_iff] at h
  obtain ⟨⟨a, b⟩, ⟨c', d⟩, ⟨e, f⟩⟩ := h
  exact ⟨⟨by exact_mod_cast a, by exact_mod_cast b⟩, ⟨by exact_mod_cast c', by exact_mod_cast d⟩,
    ⟨by exact_mod_cast e, by exact_mod_cast f⟩⟩

/-- `hsl_to_rgb` with a reduced hue returns 8-bit channels -/
theorem hslFinish_valid_Q (x s l : ℚ) :
    OkIn (fun c => validRgb c = true) (@hslFinish ℚ ratNum (pmodQ x 360) s l) := by
  intro c h
  unfold hslFinish at h
  split at h
  · next hr =>
    rw [hslInRange_rat] at hr
    obtain ⟨R, G, B, hc, hv, -⟩ := hslOfHue_spec x hr.1.1 hr.1.2 hr.2.1 hr.2.2
    rw [hc] at h
    cases h
    exact hv
  · cases h

/-- `hsla_to_rgb` over a valid (or absent) background returns 8-bit channels -/
theorem hslaFinish_valid_Q (h s l a : ℚ) (bg : Option RGB)
    (hbg : ∀ b, bg = some b → validRgb b = true) :
    OkIn (fun c => validRgb c = true) (@hslaFinish ℚ ratNum h s l a bg) := by
  intro c hc
  by_cases hr : @hslInRange ℚ ratNum s l = true
  · by_cases ha : 0 ≤ a ∧ a ≤ 1
    · have hr' := (hslInRange_rat s l).1 hr
      rw [hslaFinish_rat bg hr'.1.1 hr'.1.2 hr'.2.1 hr'.2.2 ha.1 ha.2] at hc
      obtain ⟨R, G, B, hcore, hv, -⟩ := hslOfHue_spec h hr'.1.1 hr'.1.2 hr'.2.1 hr'.2.2
      have hk : validRgb (bg.getD (255, 255, 255)) = true := by
        cases bg with
        | none => decide
        | some b => exact hbg b rfl
      simp only [hcore] at hc
      split at hc
      · cases hc; exact hv
      · next h1 =>
        cases hc
        obtain ⟨⟨r0, r1⟩, ⟨g0, g1⟩, ⟨b0, b1⟩⟩ := validRgb_cast hv
        obtain ⟨⟨k0, k1⟩, ⟨k2, k3⟩, ⟨k4, k5⟩⟩ := validRgb_cast hk
        rw [validRgb_iff]
        have m1 := mix_mem ha.1 ha.2 r0 r1 k0 k1
        have m2 := mix_mem ha.1 ha.2 g0 g1 k2 k3
        have m3 := mix_mem ha.1 ha.2 b0 b1 k4 k5
        exact ⟨truncQ_mem_Icc m1.1 m1.2, truncQ_mem_Icc m2.1 m2.2, truncQ_mem_Icc m3.1 m3.2⟩
    · exfalso
      have hA : (@Num.le ℚ ratNum (0.0 : ℚ) a && @Num.le ℚ ratNum a (1.0 : ℚ)) = false := by
        rw [Bool.eq_false_iff]
        intro hh
        rw [Bool.and_eq_true, rat_le, rat_le] at hh
        norm_num at hh
        exact ha hh
      unfold hslaFinish at hc
      simp only [hA, hr, Bool.and_false, Bool.not_false, if_true] at hc
      cases hc
  · exfalso
    unfold hslaFinish at hc
    rw [Bool.not_eq_true] at hr
    simp only [hr, Bool.false_and, Bool.not_false, if_true] at hc
    cases hc

/-- `rgba_to_rgb` returns 8-bit channels (it validates the colour, alpha and the background) -/
theorem rgbaToRgb_valid_Q (r g b : ℤ) (a : ℚ) (k : RGB) :
    OkIn (fun c => validRgb c = true) (@rgbaToRgb ℚ ratNum r g b a k) := by
  intro c hc
  by_cases hv : validRgb (r, g, b) = true
  · by_cases ha : 0 ≤ a ∧ a ≤ 1
    · by_cases hk : validRgb k = true
      · rw [rgbaToRgb_rat hv ha.1 ha.2 hk] at hc
        cases hc
        obtain ⟨⟨r0, r1⟩, ⟨g0, g1⟩, ⟨b0, b1⟩⟩ := validRgb_cast hv
        obtain ⟨⟨k0, k1⟩, ⟨k2, k3⟩, ⟨k4, k5⟩⟩ := validRgb_cast hk
        simp only at r0 r1 g0 g1 b0 b1
        rw [validRgb_iff]
        have m1 := mix_mem ha.1 ha.2 r0 r1 k0 k1
        have m2 := mix_mem ha.1 ha.2 g0 g1 k2 k3
        have m3 := mix_mem ha.1 ha.2 b0 b1 k4 k5
        refine ⟨roundQ_mem_Icc (lo := 0) (hi := 255) ?_ ?_, roundQ_mem_Icc (lo := 0) (hi := 255) ?_ ?_,
          roundQ_mem_Icc (lo := 0) (hi := 255) ?_ ?_⟩ <;> push_cast <;> linarith
      · exfalso
        unfold rgbaToRgb at hc
        rw [Bool.not_eq_true] at hk
        simp only [hk, Bool.not_false, if_true] at hc
        repeat' split at hc
        all_goals cases hc
    · exfalso
      have hA : (@Num.le ℚ ratNum (0.0 : ℚ) a && @Num.le ℚ ratNum a (1.0 : ℚ)) = false := by
        rw [Bool.eq_false_iff]
        intro hh
        rw [Bool.and_eq_true, rat_le, rat_le] at hh
        norm_num at hh
        exact ha hh
      unfold rgbaToRgb at hc
      simp only [hA, Bool.not_false, if_true] at hc
      repeat' split at hc
      all_goals cases hc
  · exfalso
    unfold rgbaToRgb at hc
    rw [Bool.not_eq_true] at hv
    simp only [hv, Bool.not_false, if_true] at hc
    cases hc

/-- at the exact carrier every kernel output is a valid colour -/
theorem kernel_valid_Q (bg : Option RGB) (hbg : ∀ b, bg = some b → validRgb b = true) (c : RGB)
    (h : @Kernel ℚ ratNum bg c) : validRgb c = true := by
  have e360 : (360.0 : ℚ) = 360 := by norm_num
  rcases h with h | ⟨x, s, l, h⟩ | ⟨h', s, l, a, h⟩ | ⟨r, g, b, a, k, h⟩
  · exact h
  · simp only [e360] at h
    exact hslFinish_valid_Q x s l c h
  · exact hslaFinish_valid_Q h' s l a bg hbg c h
  · exact rgbaToRgb_valid_Q r g b a k c h

end Cm.ParseTotal
