import CmModel.Descent
import CmGen.Optimiser
import CmProofs.SourceOpt
/-!
# `gradient_descent_oklch` as translated from the source equals the model's descent (`gdCost`, `gdGradient`, `gdLoop`,
`descendImpl` wrapped by `gradientDescent`)
-/
open Cm
namespace Cm.SourceOpt
variable {α : Type} [NumT α]
open CmGen.Opt

theorem gd_cost (O : Leaf α) (t bg : RGB) (thr target h : α) (p : α × α) :
    gradient_descent_oklch__cost_function O t bg thr target h p = gdCost O t bg thr target h p := by
  obtain ⟨a, b⟩ := p
  rfl

theorem gd_gradient (O : Leaf α) (t bg : RGB) (thr target h : α) (p : α × α) :
    gradient_descent_oklch__compute_gradient O t bg thr target h p = gdGradient O t bg thr target h p := by
  obtain ⟨a, b⟩ := p
  unfold gradient_descent_oklch__compute_gradient gdGradient
  simp only [gd_cost]

/-- where the descent loop stops, whichever way it stops -/
def gdPost : Step (α × α) (Option RGB) → α × α
  | .ret _ => ((0.0 : α), (0.0 : α))
  | .next s => s
  | .brk s => s

theorem gd_body (O : Leaf α) (t bg : RGB) (thr target h : α) (it : Nat) (cur : α × α) :
    gradient_descent_oklch__loop1 O t bg thr target h (0.02 : α) it cur =
      (let g := gdGradient O t bg thr target h cur
       let lr := (0.02 : α) * NumT.rpow (0.95 : α) (Num.ofInt ((it / 10 : Nat) : Int))
       let nx0 := Num.pmax (0.0 : α) (Num.pmin (1.0 : α) (cur.1 - lr * g.1))
       let nx1 := Num.pmax (0.0 : α) (Num.pmin (0.5 : α) (cur.2 - lr * g.2))
       if Num.lt (Num.abs (gdCost O t bg thr target h cur - gdCost O t bg thr target h (nx0, nx1))) (1e-6 : α) then .brk cur
       else .next (nx0, nx1)) := by
  unfold gradient_descent_oklch__loop1
  simp only [gd_cost, gd_gradient]

theorem gd_loop (O : Leaf α) (t bg : RGB) (thr target h : α) :
    ∀ (n it : Nat) (cur : α × α),
      gdPost (loopNI (gradient_descent_oklch__loop1 O t bg thr target h (0.02 : α)) n it cur) = gdLoop O t bg thr target h n it cur
  | 0, it, cur => rfl
  | n + 1, it, cur => by
    rw [loopNI, gd_body, gdLoop]
    have ih := gd_loop O t bg thr target h n (it + 1)
    simp only []
    split_ifs with hc
    · rfl
    · exact ih _

theorem gd_body_noret (O : Leaf α) (t bg : RGB) (thr target h lr : α) (it : Nat) (s : α × α) (r : Option RGB) :
    gradient_descent_oklch__loop1 O t bg thr target h lr it s ≠ .ret r := by
  unfold gradient_descent_oklch__loop1
  simp only []
  split_ifs <;> simp

theorem loopNI_noret {σ ρ : Type} (body : Nat → σ → Step σ ρ) (hb : ∀ i s r, body i s ≠ .ret r) :
    ∀ (n i : Nat) (s : σ) (r : ρ), loopNI body n i s ≠ .ret r
  | 0, i, s, r => by simp [loopNI]
  | n + 1, i, s, r => by
    rw [loopNI]
    cases h : body i s with
    | next s' => exact loopNI_noret body hb n (i + 1) s' r
    | brk s' => simp
    | ret r' => exact absurd h (hb i s r')

/-- `gradient_descent_oklch` with its default `max_iter` is the descent phase the model's search calls -/
theorem source_gradient_descent (O : Leaf α) (t bg : RGB) (thr target : α) (large : Bool) :
    gradient_descent_oklch O t bg thr target large 50 = gdOf O (descendImpl O) t bg thr target large := by
  unfold gradient_descent_oklch gdOf gradientDescent descendImpl
  rcases O.toOklch t with ⟨l, c, h⟩
  simp only []
  have hl := gd_loop O t bg thr target h 50 0 (l, c)
  have nr := loopNI_noret _ (gd_body_noret O t bg thr target h (0.02 : α)) 50 0 (l, c)
  rcases hL : loopNI (gradient_descent_oklch__loop1 O t bg thr target h (0.02 : α)) 50 0 (l, c) with s | s | r
  · rw [hL] at hl; simp only [gdPost] at hl; simp only [show (50 : Int).toNat = 50 from rfl, hL, ← hl]
  · rw [hL] at hl; simp only [gdPost] at hl; simp only [show (50 : Int).toNat = 50 from rfl, hL, ← hl]
  · exact absurd hL (nr r)

end Cm.SourceOpt
