import CmProofs.ParseRgbStr
/-!
# `hsl(…)` strings: from the text to the colour (ASCII oracle, exact carrier)
-/
namespace Cm.ParseSpec
open Cm Cm.Parse

/-! ## `splitWs` -/

theorem splitWs_go_acc (cls : CharCls) : ∀ (s cur : Str) (acc : List Str),
    Str.splitWs.go cls s cur acc = acc.reverse ++ Str.splitWs.go cls s cur [] := by
  intro s
  induction s with
  | nil =>
    intro cur acc
    simp only [Str.splitWs.go]
    cases cur <;> simp
  | cons x xs ih =>
    intro cur acc
    simp only [Str.splitWs.go]
    split
    · rw [ih [] (if cur.isEmpty then acc else cur.reverse :: acc),
        ih [] (if cur.isEmpty then [] else [cur.reverse])]
      cases cur <;> simp
    · exact ih (x :: cur) acc

/-- only blanks -/
def AllSp (w : Str) : Prop := ∀ c ∈ w, c = ' '

/-- no ASCII whitespace -/
def NoSp (t : Str) : Prop := ∀ c ∈ t, asciiIsSpace c = false

theorem splitWs_go_tok {t : Str} (ht : NoSp t) (xs cur : Str) (acc : List Str) :
    Str.splitWs.go asciiCls (t ++ xs) cur acc = Str.splitWs.go asciiCls xs (t.reverse ++ cur) acc := by
  induction t generalizing cur with
  | nil => rfl
  | cons c cs ih =>
    have hc : asciiCls.isSpace c = false := ht c List.mem_cons_self
    rw [List.cons_append]
    simp only [Str.splitWs.go, hc, Bool.false_eq_true, if_false]
    rw [ih (fun x hx => ht x (List.mem_cons_of_mem _ hx))]
    simp

theorem splitWs_sp_append {w : Str} (hw : AllSp w) (s : Str) :
    Str.splitWs asciiCls (w ++ s) = Str.splitWs asciiCls s := by
  unfold Str.splitWs
  induction w with
  | nil => rfl
  | cons c cs ih =>
    have : c = ' ' := hw c List.mem_cons_self
    subst this
    rw [List.cons_append]
    simp only [Str.splitWs.go]
    have : asciiCls.isSpace ' ' = true := by decide
    simp only [this, if_true, List.isEmpty_nil]
    exact ih fun x hx => hw x (List.mem_cons_of_mem _ hx)

theorem splitWs_nil : Str.splitWs asciiCls [] = [] := by
  simp [Str.splitWs, Str.splitWs.go]

theorem splitWs_tok_sp {t w : Str} (ht : NoSp t) (hne : t ≠ []) (hw : AllSp w) (hwne : w ≠ [])
    (rest : Str) : Str.splitWs asciiCls (t ++ (w ++ rest)) = t :: Str.splitWs asciiCls rest := by
  obtain ⟨c, w', rfl⟩ := List.exists_cons_of_ne_nil hwne
  have hc : c = ' ' := hw c List.mem_cons_self
  subst hc
  have hw' : AllSp w' := fun x hx => hw x (List.mem_cons_of_mem _ hx)
  rw [← splitWs_sp_append hw' rest]
  unfold Str.splitWs
  rw [splitWs_go_tok ht, List.cons_append]
  simp only [Str.splitWs.go]
  have : asciiCls.isSpace ' ' = true := by decide
  simp only [this, if_true, List.append_nil]
  have hre : t.reverse.isEmpty = false := by
    cases t with
    | nil => exact absurd rfl hne
    | cons a b => simp
  rw [hre]
  simp only [Bool.false_eq_true, if_false, List.reverse_reverse]
  rw [splitWs_go_acc]
  rfl

theorem splitWs_tok_end {t w : Str} (ht : NoSp t) (hne : t ≠ []) (hw : AllSp w) :
    Str.splitWs asciiCls (t ++ w) = [t] := by
  cases w with
  | nil =>
    unfold Str.splitWs
    have := splitWs_go_tok ht [] [] []
    rw [this]
    simp only [Str.splitWs.go, List.append_nil]
    have hre : t.reverse.isEmpty = false := by
      cases t with
      | nil => exact absurd rfl hne
      | cons a b => simp
    rw [hre]; simp
  | cons c cs =>
    have := splitWs_tok_sp ht hne hw (by simp) []
    rw [List.append_nil] at this
    rw [this, splitWs_nil]

/-! ## `replaceChar` -/

theorem replaceChar_append (s t : Str) (c : Char) (r : Str) :
    Str.replaceChar (s ++ t) c r = Str.replaceChar s c r ++ Str.replaceChar t c r := by
  unfold Str.replaceChar; exact List.flatMap_append

theorem replaceChar_absent {s : Str} {c : Char} (h : c ∉ s) (r : Str) : Str.replaceChar s c r = s := by
  unfold Str.replaceChar
  induction s with
  | nil => rfl
  | cons x xs ih =>
    have hx : x ≠ c := fun e => h (e ▸ List.mem_cons_self)
    rw [List.flatMap_cons, if_neg hx, ih (fun hm => h (List.mem_cons_of_mem _ hm))]
    rfl

theorem replaceChar_sep {j : Str} (hj : AllSep j) :
    AllSp (Str.replaceChar j ',' [' ']) ∧ (j ≠ [] → Str.replaceChar j ',' [' '] ≠ []) := by
  unfold Str.replaceChar
  induction j with
  | nil => exact ⟨fun _ h => (by cases h), fun h => absurd rfl h⟩
  | cons c cs ih =>
    obtain ⟨i1, _⟩ := ih fun x hx => hj x (List.mem_cons_of_mem _ hx)
    rw [List.flatMap_cons]
    rcases hj c List.mem_cons_self with rfl | rfl
    · refine ⟨?_, fun _ => by simp⟩
      intro x hx
      simp only [Char.reduceEq, if_false, List.cons_append, List.nil_append, List.mem_cons] at hx
      rcases hx with rfl | hx
      · rfl
      · exact i1 x hx
    · refine ⟨?_, fun _ => by simp⟩
      intro x hx
      simp only [if_true, List.cons_append, List.nil_append, List.mem_cons] at hx
      rcases hx with rfl | hx
      · rfl
      · exact i1 x hx

/-! ## `strip` of text wrapped in separators -/

theorem dropWhile_sep {j X : Str} (hj : AllSep j) (hX : ∀ c r, X = c :: r → asciiIsSpace c = false) :
    ∃ j', AllSep j' ∧ (j ++ X).dropWhile asciiIsSpace = j' ++ X := by
  induction j with
  | nil =>
    refine ⟨[], fun _ h => (by cases h), ?_⟩
    cases X with
    | nil => rfl
    | cons c r => simp [hX c r rfl]
  | cons c cs ih =>
    have hcs : AllSep cs := fun x hx => hj x (List.mem_cons_of_mem _ hx)
    rcases hj c List.mem_cons_self with rfl | rfl
    · obtain ⟨j', h1, h2⟩ := ih hcs
      refine ⟨j', h1, ?_⟩
      rw [List.cons_append, List.dropWhile_cons_of_pos (by decide)]
      exact h2
    · refine ⟨',' :: cs, hj, ?_⟩
      rw [List.cons_append, List.dropWhile_cons_of_neg (by decide)]

theorem AllSep.reverse {j : Str} (h : AllSep j) : AllSep j.reverse :=
  fun c hc => h c (List.mem_reverse.1 hc)

/-- `strip` of `seps ++ mid ++ seps` leaves `mid` wrapped in (fewer) separators -/
theorem strip_sep_wrapped {j0 mid j3 : Str} (h0 : AllSep j0) (h3 : AllSep j3) (hne : mid ≠ [])
    (hh : asciiIsSpace (mid.head hne) = false) (hl : asciiIsSpace (mid.getLast hne) = false) :
    ∃ j0' j3', AllSep j0' ∧ AllSep j3' ∧ Str.strip asciiCls (j0 ++ (mid ++ j3)) = j0' ++ (mid ++ j3') := by
  have hX : ∀ c r, mid ++ j3 = c :: r → asciiIsSpace c = false := by
    intro c r he
    obtain ⟨m, ms, rfl⟩ := List.exists_cons_of_ne_nil hne
    rw [List.cons_append] at he
    rw [← (List.cons.inj he).1]; exact hh
  obtain ⟨j0', a1, a2⟩ := dropWhile_sep h0 hX
  have hY : ∀ c r, mid.reverse ++ j0'.reverse = c :: r → asciiIsSpace c = false := by
    intro c r he
    have hne' : mid.reverse ≠ [] := by simpa using hne
    obtain ⟨m, ms, hm⟩ := List.exists_cons_of_ne_nil hne'
    rw [hm, List.cons_append] at he
    rw [← (List.cons.inj he).1]
    have : m = mid.getLast hne := by
      have := List.head_reverse (l := mid) (by simpa using hne)
      rw [← this]; simp [hm]
    rw [this]; exact hl
  obtain ⟨j3r, b1, b2⟩ := dropWhile_sep h3.reverse hY
  refine ⟨j0', j3r.reverse, a1, b1.reverse, ?_⟩
  unfold Str.strip
  show ((List.dropWhile asciiIsSpace (j0 ++ (mid ++ j3))).reverse.dropWhile asciiIsSpace).reverse = _
  rw [a2]
  have : (j0' ++ (mid ++ j3)).reverse = j3.reverse ++ (mid.reverse ++ j0'.reverse) := by simp
  rw [this, b2]
  simp


/-! ## `hsl(…)` -/

/-- what `parse_color_to_rgb` and `hsl_to_rgb` find out about `hsl(…)` before the numbers -/
structure HslShape (s body : Str) : Prop where
  strip : Str.strip asciiCls s = s
  lower : Str.lower asciiCls s = s
  lookup : lookupNamed ⟨asciiCls, namedEnv⟩ s = none
  hash : Str.startsWith s ['#'] = false
  bare : isBareHex s = false
  hsla : Str.startsWith s "hsla(".toList = false
  hsl : Str.startsWith s "hsl(".toList = true
  close : Str.endsWith s [')'] = true
  inner : (s.drop 4).dropLast = body

theorem hslShape {body : Str} (hbody : ∀ c ∈ body, lc c = c) :
    HslShape ("hsl(".toList ++ body ++ [')']) body := by
  rw [lit_hsl]
  have hne : ['h', 's', 'l', '('] ++ body ++ [')'] ≠ [] := by simp
  have hlast : (['h', 's', 'l', '('] ++ body ++ [')']).getLast hne = ')' := by simp
  have hlc : ∀ c ∈ ['h', 's', 'l', '('] ++ body ++ [')'], lc c = c := by
    intro c hc
    rcases List.mem_append.1 hc with hc | hc
    · rcases List.mem_append.1 hc with hc | hc
      · simp only [List.mem_cons, List.not_mem_nil, or_false] at hc
        rcases hc with rfl | rfl | rfl | rfl <;> decide
      · exact hbody c hc
    · have : c = ')' := by simpa using hc
      subst this; decide
  refine ⟨?_, ?_, lookupNamed_of_nonletter _ (c := '(') (by simp) (by decide), ?_, ?_, ?_, ?_, ?_, ?_⟩
  · apply strip_fixed_of asciiCls _ hne
    · simp only [List.cons_append, List.head_cons]; decide
    · rw [hlast]; decide
  · rw [lower_ascii_eq_map]
    conv_rhs => rw [← List.map_id (['h', 's', 'l', '('] ++ body ++ [')'])]
    exact List.map_congr_left fun c hc => hlc c hc
  · simp [Str.startsWith, List.isPrefixOf]
  · simp [isBareHex, Str.isHexDigit]
  · simp [Str.startsWith, List.isPrefixOf, lit_hsla]
  · simp [Str.startsWith, List.isPrefixOf]
  · simp [Str.endsWith, List.isPrefixOf]
  · simp

/-- characters of a signed numeral -/
def HueChar (c : Char) : Prop := isD c = true ∨ c = '.' ∨ c = '-' ∨ c = '+'

structure HueCharFacts (c : Char) : Prop where
  notSpace : asciiIsSpace c = false
  lc : lc c = c
  ne_comma : c ≠ ','
  ne_pct : c ≠ '%'
  ne_slash : c ≠ '/'

theorem hueCharFacts {c : Char} (h : HueChar c) : HueCharFacts c := by
  rcases h with h | rfl | rfl | rfl
  · have F := digFacts c h
    exact ⟨F.notSpace, F.lc, F.ne_comma, F.ne_pct, F.ne_slash⟩
  all_goals exact ⟨by decide, by decide, by decide, by decide, by decide⟩

theorem signed_chars {sgn b : Str} {neg : Bool} {v : ℚ} (hs : SignOf sgn neg) (hb : Numeral b v) :
    ∀ c ∈ sgn ++ b, HueChar c := by
  intro c hc
  rcases List.mem_append.1 hc with h | h
  · cases hs
    · cases h
    · have : c = '-' := by simpa using h
      exact Or.inr (Or.inr (Or.inl this))
    · have : c = '+' := by simpa using h
      exact Or.inr (Or.inr (Or.inr this))
  · rcases hb.chars c h with h | h
    · exact Or.inl h
    · exact Or.inr (Or.inl h)

theorem numeral_hueChars {b : Str} {v : ℚ} (hb : Numeral b v) : ∀ c ∈ b, HueChar c := by
  have := signed_chars SignOf.none hb
  simpa using this

theorem signed_ne_nil {sgn b : Str} {v : ℚ} (hb : Numeral b v) : sgn ++ b ≠ [] := by
  have := hb.ne_nil
  simp [this]

/-- a signed numeral is untouched by `strip` -/
theorem signed_strip {sgn b : Str} {neg : Bool} {v : ℚ} (hs : SignOf sgn neg) (hb : Numeral b v) :
    Str.strip asciiCls (sgn ++ b) = sgn ++ b := by
  apply strip_fixed_of asciiCls _ (signed_ne_nil hb)
  · exact (hueCharFacts (signed_chars hs hb _ (List.head_mem _))).notSpace
  · exact (hueCharFacts (signed_chars hs hb _ (List.getLast_mem _))).notSpace

theorem parseHue_signed {sgn b : Str} {neg : Bool} {v : ℚ} (hs : SignOf sgn neg) (hb : Numeral b v)
    (n : List (Str × Str)) :
    @parseHue ℚ ratNum ⟨asciiCls, n⟩ (sgn ++ b) = .ok (pmodQ (if neg then -v else v) 360) := by
  unfold parseHue
  show (do let x ← @PyFloat.parse asciiCls ℚ ratNum (Str.strip asciiCls (sgn ++ b)); _) = _
  rw [signed_strip hs hb, hb.parse hs]
  have e360 : (360.0 : ℚ) = 360 := by norm_num
  simp only [bind, Except.bind, pure, Except.pure, e360]

theorem pctOrDec_pct {b : Str} {v : ℚ} (hb : Numeral b v) (n : List (Str × Str)) :
    @pctOrDec ℚ ratNum ⟨asciiCls, n⟩ (b ++ ['%']) = .ok (v / 100) := by
  unfold pctOrDec
  have hst : Str.strip asciiCls (b ++ ['%']) = b ++ ['%'] := (NumTok.pct hb).strip
  have hend : Str.endsWith (b ++ ['%']) ['%'] = true := by simp [Str.endsWith, List.isPrefixOf]
  have hdl : (b ++ ['%']).dropLast = b := by simp
  have e100 : (100.0 : ℚ) = 100 := by norm_num
  show (if Str.endsWith (Str.strip asciiCls (b ++ ['%'])) ['%'] = true then _ else _) = _
  rw [hst, hend, if_pos rfl, hdl]
  show (do let x ← @PyFloat.parse asciiCls ℚ ratNum b; _) = _
  rw [hb.parse_pos]
  simp only [bind, Except.bind, pure, Except.pure, rat_div, e100]


theorem noSp_of_hueChars {t : Str} (h : ∀ c ∈ t, HueChar c) : NoSp t :=
  fun c hc => (hueCharFacts (h c hc)).notSpace

theorem pctTok_noSp {b : Str} {v : ℚ} (hb : Numeral b v) : NoSp (b ++ ['%']) :=
  fun c hc => (tokCharFacts ((NumTok.pct hb).chars c hc)).notSpace

theorem replace_pctTok {b : Str} {v : ℚ} (hb : Numeral b v) :
    Str.replaceChar (Str.replaceChar (b ++ ['%']) ',' [' ']) '%' ['%', ' '] = b ++ ['%', ' '] := by
  have h1 : ',' ∉ b ++ ['%'] := fun hm =>
    (tokCharFacts ((NumTok.pct hb).chars _ hm)).ne_comma rfl
  have h2 : '%' ∉ b := fun hm => (hueCharFacts (numeral_hueChars hb _ hm)).ne_pct rfl
  rw [replaceChar_absent h1, replaceChar_append, replaceChar_absent h2]
  rfl

theorem replace_hueTok {t : Str} (h : ∀ c ∈ t, HueChar c) :
    Str.replaceChar (Str.replaceChar t ',' [' ']) '%' ['%', ' '] = t := by
  have h1 : ',' ∉ t := fun hm => (hueCharFacts (h _ hm)).ne_comma rfl
  have h2 : '%' ∉ t := fun hm => (hueCharFacts (h _ hm)).ne_pct rfl
  rw [replaceChar_absent h1, replaceChar_absent h2]

theorem replace_sep {j : Str} (hj : AllSep j) :
    ∃ w, AllSp w ∧ (j ≠ [] → w ≠ []) ∧
      Str.replaceChar (Str.replaceChar j ',' [' ']) '%' ['%', ' '] = w := by
  obtain ⟨a, b⟩ := replaceChar_sep hj
  refine ⟨_, a, b, ?_⟩
  apply replaceChar_absent
  intro hm
  exact absurd (a _ hm) (by decide)

/-- the three tokens `hsl_to_rgb` extracts from `hsl(…)` -/
theorem hsl_tokens {j0 j1 j2 j3 sgn hb sb lb : Str} {neg : Bool} {vh vs vl : ℚ}
    (hs : SignOf sgn neg) (hH : Numeral hb vh) (hS : Numeral sb vs) (hL : Numeral lb vl)
    (h0 : AllSep j0) (h1 : AllSep j1) (hne1 : j1 ≠ []) (h2 : AllSep j2)
    (h3 : AllSep j3) :
    Str.splitWs asciiCls (Str.replaceChar (Str.replaceChar
      (Str.strip asciiCls (j0 ++ (((sgn ++ hb) ++ (j1 ++ ((sb ++ ['%']) ++ (j2 ++ (lb ++ ['%']))))) ++ j3)))
      ',' [' ']) '%' ['%', ' ']) = [sgn ++ hb, sb ++ ['%'], lb ++ ['%']] := by
  have hmidne : (sgn ++ hb) ++ (j1 ++ ((sb ++ ['%']) ++ (j2 ++ (lb ++ ['%'])))) ≠ [] := by
    have := signed_ne_nil (sgn := sgn) hH
    simp
  have hhead : asciiIsSpace (((sgn ++ hb) ++ (j1 ++ ((sb ++ ['%']) ++ (j2 ++ (lb ++ ['%']))))).head hmidne) = false := by
    rw [List.head_append_of_ne_nil (signed_ne_nil hH)]
    exact (hueCharFacts (signed_chars hs hH _ (List.head_mem _))).notSpace
  have hlast : asciiIsSpace (((sgn ++ hb) ++ (j1 ++ ((sb ++ ['%']) ++ (j2 ++ (lb ++ ['%']))))).getLast hmidne) = false := by
    have : ((sgn ++ hb) ++ (j1 ++ ((sb ++ ['%']) ++ (j2 ++ (lb ++ ['%']))))).getLast hmidne = '%' := by
      simp
    rw [this]; decide
  obtain ⟨j0', j3', a0, a3, hstrip⟩ := strip_sep_wrapped h0 h3 hmidne hhead hlast
  rw [hstrip]
  obtain ⟨w0, s0, -, e0⟩ := replace_sep a0
  obtain ⟨w1, s1, n1, e1⟩ := replace_sep h1
  obtain ⟨w2, s2, -, e2⟩ := replace_sep h2
  obtain ⟨w3, s3, -, e3⟩ := replace_sep a3
  simp only [replaceChar_append] at e0 e1 e2 e3 ⊢
  rw [e0, e1, e2, e3]
  have eH := replace_hueTok (signed_chars hs hH)
  have eS := replace_pctTok hS
  have eL := replace_pctTok hL
  simp only [replaceChar_append] at eH eS eL
  rw [eH, eS, eL]
  have re : w0 ++ ((sgn ++ hb) ++ (w1 ++ ((sb ++ ['%', ' ']) ++ (w2 ++ (lb ++ ['%', ' '])))) ++ w3) =
      w0 ++ ((sgn ++ hb) ++ (w1 ++ ((sb ++ ['%']) ++ ((' ' :: w2) ++ ((lb ++ ['%']) ++ (' ' :: w3)))))) := by
    simp [List.append_assoc]
  have sp2 : AllSp (' ' :: w2) := fun c hc => by
    rcases List.mem_cons.1 hc with h | h
    · exact h
    · exact s2 c h
  have sp3 : AllSp (' ' :: w3) := fun c hc => by
    rcases List.mem_cons.1 hc with h | h
    · exact h
    · exact s3 c h
  rw [re, splitWs_sp_append s0,
    splitWs_tok_sp (noSp_of_hueChars (signed_chars hs hH)) (signed_ne_nil hH) s1 (n1 hne1),
    splitWs_tok_sp (pctTok_noSp hS) (by simp) sp2 (by simp),
    splitWs_tok_end (pctTok_noSp hL) (by simp) sp3]


/-- `hsl(H, S%, L%)`: optional sign and fraction in `H`, fractions in `S`, `L`; blanks and commas as
    separators (at least one after the hue) -/
theorem hsl_string {j0 j1 j2 j3 sgn hb sb lb : Str} {neg : Bool} {vh vs vl : ℚ}
    (hs : SignOf sgn neg) (hH : Numeral hb vh) (hS : Numeral sb vs) (hL : Numeral lb vl)
    (h0 : AllSep j0) (h1 : AllSep j1) (hne1 : j1 ≠ []) (h2 : AllSep j2) (h3 : AllSep j3)
    (hvs : vs ≤ 100) (hvl : vl ≤ 100) (bg : Option RGB) :
    @parseStr ℚ ratNum ⟨asciiCls, namedEnv⟩
        ("hsl(".toList ++ (j0 ++ (((sgn ++ hb) ++ (j1 ++ ((sb ++ ['%']) ++ (j2 ++ (lb ++ ['%']))))) ++ j3))
          ++ [')']) bg =
      .ok (@hslToRgbCore ℚ ratNum (pmodQ (if neg then -vh else vh) 360) (vs / 100) (vl / 100)) := by
  have hbody : ∀ c ∈ j0 ++ (((sgn ++ hb) ++ (j1 ++ ((sb ++ ['%']) ++ (j2 ++ (lb ++ ['%']))))) ++ j3),
      lc c = c := by
    intro c hc
    simp only [List.mem_append] at hc
    rcases hc with h | (((h | h) | h | (h | h) | h | (h | h)) | h)
    · exact sep_lc h0 c h
    · exact (hueCharFacts (signed_chars hs hH c (List.mem_append.2 (Or.inl h)))).lc
    · exact (hueCharFacts (numeral_hueChars hH c h)).lc
    · exact sep_lc h1 c h
    · exact (hueCharFacts (numeral_hueChars hS c h)).lc
    · have : c = '%' := by simpa using h
      subst this; decide
    · exact sep_lc h2 c h
    · exact (hueCharFacts (numeral_hueChars hL c h)).lc
    · have : c = '%' := by simpa using h
      subst this; decide
    · exact sep_lc h3 c h
  have S := hslShape hbody
  have htok := hsl_tokens hs hH hS hL h0 h1 hne1 h2 h3
  have hsr : (0 : ℚ) ≤ vs / 100 ∧ vs / 100 ≤ 1 := by
    have := hS.nonneg
    constructor
    · positivity
    · rw [div_le_one (by norm_num)]; exact hvs
  have hlr : (0 : ℚ) ≤ vl / 100 ∧ vl / 100 ≤ 1 := by
    have := hL.nonneg
    constructor
    · positivity
    · rw [div_le_one (by norm_num)]; exact hvl
  unfold parseStr
  simp only [S.strip, S.lower, S.lookup, S.hash, S.bare, S.hsla, S.hsl, Bool.or_self,
    Bool.false_eq_true, if_false, if_true]
  unfold hslStrToRgb
  simp only [S.strip, S.lower, S.hsl, S.close, S.inner, Bool.not_true, Bool.or_self,
    Bool.false_eq_true, if_false, htok, parseHue_signed hs hH, pctOrDec_pct hS, pctOrDec_pct hL]
  simp only [bind, Except.bind]
  exact hslFinish_rat hsr.1 hsr.2 hlr.1 hlr.2

end Cm.ParseSpec
