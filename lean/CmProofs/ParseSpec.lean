import CmProofs.RatNum
import CmProofs.ParseStr
import Mathlib.Algebra.Order.Round
import Mathlib.Tactic.Positivity
/-!
# What the parser's numbers mean, at the exact rational carrier

* `Num.roundHE` / `Num.trunc` at `ℚ`: nearest integer / integer part.
* the component and alpha tokens (`rangeToken`, `numberToken`).
* CSS Color 3 §4.2.4 (`hue_to_rgb`, `hsl_to_rgb`) written down as in the standard, and the model's
  `hslF` / `hslToRgbCore` against it; hue normalisation.
* compositing (`rgbaToRgb`, `hslaFinish`).
-/
namespace Cm.ParseSpec
open Cm Cm.Parse

/-- Python `round` at the rational carrier -/
abbrev roundQ (x : ℚ) : ℤ := @Num.roundHE ℚ ratNum x
/-- Python `int` at the rational carrier -/
abbrev truncQ (x : ℚ) : ℤ := @Num.trunc ℚ ratNum x
/-- Python float `%` at the rational carrier -/
abbrev pmodQ (x m : ℚ) : ℚ := @Num.pmod ℚ ratNum x m

/-! ## rounding -/

theorem roundQ_def (x : ℚ) : roundQ x =
    if x - ⌊x⌋ < 1 / 2 then ⌊x⌋ else if 1 / 2 < x - ⌊x⌋ then ⌊x⌋ + 1
    else if ⌊x⌋ % 2 = 0 then ⌊x⌋ else ⌊x⌋ + 1 := by
  show @Num.roundHE ℚ ratNum x = _
  unfold Num.roundHE
  simp only [rat_floor, rat_sub, rat_ofInt, rat_sci, rat_lt]
  norm_num

theorem roundQ_near (x : ℚ) : |(roundQ x : ℚ) - x| ≤ 1 / 2 := by
  rw [roundQ_def]
  have h1 := Int.floor_le x
  have h2 := Int.lt_floor_add_one x
  rw [abs_le]
  split_ifs with a b c
  · constructor <;> linarith
  · push_cast; constructor <;> linarith
  · constructor <;> linarith
  · push_cast; constructor <;> linarith

theorem roundQ_int (n : ℤ) : roundQ (n : ℚ) = n := by
  rw [roundQ_def]
  simp

/-- a rounded value of something in `[lo, hi]` (integers) stays in `[lo, hi]` -/
theorem roundQ_mem_Icc {x : ℚ} {lo hi : ℤ} (h1 : (lo : ℚ) ≤ x) (h2 : x ≤ hi) :
    lo ≤ roundQ x ∧ roundQ x ≤ hi := by
  have h := abs_le.1 (roundQ_near x)
  constructor
  · have : ((lo : ℤ) : ℚ) - 1 < (roundQ x : ℚ) := by linarith [h.1]
    have : lo - 1 < roundQ x := by exact_mod_cast this
    omega
  · have : (roundQ x : ℚ) < ((hi : ℤ) : ℚ) + 1 := by linarith [h.2]
    have : roundQ x < hi + 1 := by exact_mod_cast this
    omega

theorem truncQ_def (x : ℚ) : truncQ x = if x < 0 then -⌊-x⌋ else ⌊x⌋ := by
  show @Num.trunc ℚ ratNum x = _
  unfold Num.trunc
  simp only [rat_floor, rat_neg, rat_sci, rat_lt]
  norm_num

theorem truncQ_near {x : ℚ} (hx : 0 ≤ x) : 0 ≤ x - truncQ x ∧ x - truncQ x < 1 := by
  rw [truncQ_def, if_neg (not_lt.2 hx)]
  have h1 := Int.floor_le x
  have h2 := Int.lt_floor_add_one x
  constructor <;> linarith

theorem truncQ_int (n : ℤ) : truncQ (n : ℚ) = n := by
  rw [truncQ_def]
  split_ifs
  · rw [← Int.cast_neg, Int.floor_intCast, neg_neg]
  · exact Int.floor_intCast n

/-! ## tokens -/

/-- the percentage branch of `_parse_number_token` for a colour component -/
def pctComponent (v : ℚ) : ℚ := max 0 (min 255 (v * 255 / 100))
/-- the percentage branch of `_parse_number_token` for alpha -/
def pctAlpha (v : ℚ) : ℚ := max 0 (min 1 (v / 100))

theorem rangeToken_component (v : ℚ) :
    @rangeToken ℚ ratNum v true = if 0 ≤ v ∧ v ≤ 255 then .ok v else .error .valueError := by
  unfold rangeToken vErr
  simp only [if_true, Bool.and_eq_true, rat_le, rat_sci]
  norm_num

theorem rangeToken_component_ok_iff (v : ℚ) :
    @rangeToken ℚ ratNum v true = .ok v ↔ 0 ≤ v ∧ v ≤ 255 := by
  rw [rangeToken_component]
  split_ifs with h
  · exact ⟨fun _ => h, fun _ => rfl⟩
  · exact ⟨fun h' => (by cases h'), fun h' => absurd h' h⟩

theorem rangeToken_alpha (v : ℚ) :
    @rangeToken ℚ ratNum v false =
      if 0 ≤ v ∧ v ≤ 1 then .ok v
      else if 1 < v ∧ v ≤ 100 then .ok (pctAlpha v) else .error .valueError := by
  unfold rangeToken vErr pctAlpha
  simp only [Bool.false_eq_true, if_false, Bool.and_eq_true, rat_le, rat_lt, rat_sci, rat_pmax,
    rat_pmin, rat_div]
  norm_num

section tokens
variable (E : PEnv)

/-- a token spelled `…%` (after `strip`) whose body `float()` reads as `v` -/
theorem numberToken_pct {tok body : Str} {v : ℚ} (component : Bool)
    (hs : Str.strip E.cls tok = body ++ ['%'])
    (hp : @PyFloat.parse E.cls ℚ ratNum body = .ok v) :
    @numberToken ℚ ratNum E tok component =
      .ok (if component then pctComponent v else pctAlpha v) := by
  unfold numberToken
  have hend : Str.endsWith (body ++ ['%']) ['%'] = true := by
    simp [Str.endsWith, List.isPrefixOf]
  have hdl : (body ++ ['%']).dropLast = body := by simp
  simp only [hs, hend, if_true, hdl]
  unfold floatOrValueError
  simp only [hp]
  unfold pctComponent pctAlpha
  cases component
  · simp only [Bool.false_eq_true, if_false, rat_pmax, rat_pmin, rat_div, rat_sci]
    show Except.ok _ = Except.ok _
    norm_num
  · simp only [if_true, rat_pmax, rat_pmin, rat_div, rat_mul, rat_sci]
    show Except.ok _ = Except.ok _
    norm_num

/-- a token not ending in `%` whose text `float()` reads as `v` -/
theorem numberToken_plain {tok : Str} {v : ℚ} (component : Bool)
    (hs : Str.endsWith (Str.strip E.cls tok) ['%'] = false)
    (hp : @PyFloat.parse E.cls ℚ ratNum (Str.strip E.cls tok) = .ok v) :
    @numberToken ℚ ratNum E tok component = @rangeToken ℚ ratNum v component := by
  unfold numberToken
  simp only [hs, Bool.false_eq_true, if_false]
  unfold floatOrValueError
  simp only [hp]
  rfl

end tokens

theorem pctComponent_mem (v : ℚ) : 0 ≤ pctComponent v ∧ pctComponent v ≤ 255 := by
  unfold pctComponent
  exact ⟨le_max_left _ _, max_le (by norm_num) (min_le_left _ _)⟩

theorem pctComponent_of_mem {p : ℚ} (h0 : 0 ≤ p) (h1 : p ≤ 100) : pctComponent p = 255 * p / 100 := by
  unfold pctComponent
  rw [min_eq_right (by linarith), max_eq_right (by positivity)]
  ring

/-! ## CSS Color 3 §4.2.4 -/

/-- `HOW TO RETURN hue.to.rgb(m1, m2, h)` -/
def css3HueToRgb (m1 m2 h : ℚ) : ℚ :=
  let h := if h < 0 then h + 1 else h
  let h := if h > 1 then h - 1 else h
  if h * 6 < 1 then m1 + (m2 - m1) * h * 6
  else if h * 2 < 1 then m2
  else if h * 3 < 2 then m1 + (m2 - m1) * (2 / 3 - h) * 6
  else m1

/-- `HOW TO RETURN hsl.to.rgb(h, s, l)` (h, s, l already normalised to fractions) -/
def css3HslToRgb (h s l : ℚ) : ℚ × ℚ × ℚ :=
  let m2 := if l ≤ 1 / 2 then l * (s + 1) else l + s - l * s
  let m1 := l * 2 - m2
  (css3HueToRgb m1 m2 (h + 1 / 3), css3HueToRgb m1 m2 h, css3HueToRgb m1 m2 (h - 1 / 3))

/-- C / JavaScript `%` on numbers: remainder with the quotient truncated towards zero -/
def tmodQ (x m : ℚ) : ℚ := x - m * (if 0 ≤ x / m then ⌊x / m⌋ else ⌈x / m⌉)

/-- CSS Color 3's hue normalisation `(((x mod 360) + 360) mod 360)` to `[0, 360)` -/
def cssNormHue (x : ℚ) : ℚ := tmodQ (tmodQ x 360 + 360) 360

/-- the colour (as three fractions of full intensity) CSS Color 3 assigns to `hsl(H, S%, L%)`,
    `s = S/100`, `l = L/100` -/
def css3Hsl (H s l : ℚ) : ℚ × ℚ × ℚ := css3HslToRgb (cssNormHue H / 360) s l

theorem hslF_eq_css3 (p q t : ℚ) : @hslF ℚ ratNum p q t = css3HueToRgb p q t := by
  unfold hslF css3HueToRgb
  have e0 : (0.0 : ℚ) = 0 := by norm_num
  have e1 : (1.0 : ℚ) = 1 := by norm_num
  have e2 : (2.0 : ℚ) = 2 := by norm_num
  have e3 : (3.0 : ℚ) = 3 := by norm_num
  have e6 : (6.0 : ℚ) = 6 := by norm_num
  simp only [rat_add, rat_sub, rat_mul, rat_div, rat_lt, rat_gt, e0, e1, e2, e3, e6]
  have key : ∀ u : ℚ,
      (if u < 1 / 6 then p + (q - p) * 6 * u else if u < 1 / 2 then q
        else if u < 2 / 3 then p + (q - p) * (2 / 3 - u) * 6 else p) =
      (if u * 6 < 1 then p + (q - p) * u * 6 else if u * 2 < 1 then q
        else if u * 3 < 2 then p + (q - p) * (2 / 3 - u) * 6 else p) := by
    intro u
    split_ifs <;> first | ring1 | (exfalso; linarith)
  exact key _

theorem css3Hue_const (m h : ℚ) : css3HueToRgb m m h = m := by
  unfold css3HueToRgb
  simp only
  split_ifs <;> ring

theorem css3Hue_between {m1 m2 h : ℚ} (hm : m1 ≤ m2) (h0 : -1 ≤ h) :
    m1 ≤ css3HueToRgb m1 m2 h ∧ css3HueToRgb m1 m2 h ≤ m2 := by
  unfold css3HueToRgb
  simp only
  have hd : 0 ≤ m2 - m1 := by linarith
  split_ifs <;> constructor <;> nlinarith

theorem css3_m_range {s l : ℚ} (hs0 : 0 ≤ s) (hs1 : s ≤ 1) (hl0 : 0 ≤ l) (hl1 : l ≤ 1) :
    ∀ m2 : ℚ, m2 = (if l ≤ 1 / 2 then l * (s + 1) else l + s - l * s) →
    0 ≤ l * 2 - m2 ∧ l * 2 - m2 ≤ m2 ∧ m2 ≤ 1 := by
  intro m2 hm2
  subst hm2
  split_ifs with h
  · refine ⟨by nlinarith, by nlinarith, by nlinarith⟩
  · rw [not_le] at h
    refine ⟨by nlinarith, by nlinarith, by nlinarith⟩

/-- CSS's HSL colours are colours: every channel is a fraction in `[0, 1]` -/
theorem css3HslToRgb_range {h s l : ℚ} (hh0 : 0 ≤ h)
    (hs0 : 0 ≤ s) (hs1 : s ≤ 1) (hl0 : 0 ≤ l) (hl1 : l ≤ 1) :
    let c := css3HslToRgb h s l
    (0 ≤ c.1 ∧ c.1 ≤ 1) ∧ (0 ≤ c.2.1 ∧ c.2.1 ≤ 1) ∧ (0 ≤ c.2.2 ∧ c.2.2 ≤ 1) := by
  obtain ⟨a, b, c⟩ := css3_m_range hs0 hs1 hl0 hl1 _ rfl
  have r := css3Hue_between (h := h + 1 / 3) b (by linarith)
  have g := css3Hue_between (h := h) b (by linarith)
  have bl := css3Hue_between (h := h - 1 / 3) b (by linarith)
  unfold css3HslToRgb
  simp only
  exact ⟨⟨by linarith [r.1], by linarith [r.2]⟩, ⟨by linarith [g.1], by linarith [g.2]⟩,
    ⟨by linarith [bl.1], by linarith [bl.2]⟩⟩

/-- the model's `hsl_to_rgb` core is CSS Color 3's algorithm followed by rounding to the nearest
    8-bit value (for every rational `h`, `s`, `l`; `h` in degrees) -/
theorem hslCore_eq_css3 (h s l : ℚ) :
    @hslToRgbCore ℚ ratNum h s l =
      (roundQ (255 * (css3HslToRgb (h / 360) s l).1),
       roundQ (255 * (css3HslToRgb (h / 360) s l).2.1),
       roundQ (255 * (css3HslToRgb (h / 360) s l).2.2)) := by
  have hm2 : (if l < 1 / 2 then l * (1 + s) else l + s - l * s) =
      (if l ≤ 1 / 2 then l * (s + 1) else l + s - l * s) := by
    split_ifs with a b b
    · ring
    · exact absurd a.le b
    · have : l = 1 / 2 := le_antisymm b (not_lt.1 a)
      subst this; ring
    · rfl
  unfold hslToRgbCore css3HslToRgb
  by_cases hs : s = 0
  · subst hs
    have : @Num.eq ℚ ratNum 0 (0.0 : ℚ) = true := by rw [rat_eq]; norm_num
    simp only [rat_sci, this, if_true, rat_mul]
    have e : (if l ≤ 1 / 2 then l * (0 + 1) else l + 0 - l * 0) = l := by split_ifs <;> ring
    have e2 : l * 2 - l = l := by ring
    simp only [e, e2, css3Hue_const]
    norm_num
    rw [mul_comm]
  · have : ¬ (@Num.eq ℚ ratNum s (0.0 : ℚ) = true) := by rw [rat_eq]; norm_num; exact hs
    simp only [rat_sci, this, rat_mul, rat_add, rat_sub, rat_div, rat_lt, hslF_eq_css3]
    norm_num
    rw [hm2]
    have e : ∀ x : ℚ, 2 * l - x = l * 2 - x := fun x => by ring
    simp only [e, mul_comm _ (255 : ℚ)]
    exact ⟨trivial, trivial, trivial⟩

/-! ## hue normalisation -/

theorem pmodQ_def (x m : ℚ) : pmodQ x m = x - m * ⌊x / m⌋ := rfl

theorem pmodQ_360_range (x : ℚ) : 0 ≤ pmodQ x 360 ∧ pmodQ x 360 < 360 := by
  rw [pmodQ_def]
  have h1 := Int.floor_le (x / 360)
  have h2 := Int.lt_floor_add_one (x / 360)
  rw [le_div_iff₀ (by norm_num)] at h1
  rw [div_lt_iff₀ (by norm_num)] at h2
  constructor <;> linarith

theorem pmodQ_360_idem (x : ℚ) : pmodQ (pmodQ x 360) 360 = pmodQ x 360 := by
  obtain ⟨h0, h1⟩ := pmodQ_360_range x
  rw [pmodQ_def (pmodQ x 360)]
  have : ⌊pmodQ x 360 / 360⌋ = 0 := by
    rw [Int.floor_eq_iff]
    constructor
    · simp only [Int.cast_zero]; positivity
    · rw [div_lt_iff₀ (by norm_num)]; simpa using h1
  rw [this]; simp

theorem tmodQ_360_range (x : ℚ) : -360 < tmodQ x 360 ∧ tmodQ x 360 < 360 := by
  unfold tmodQ
  have h1 := Int.floor_le (x / 360)
  have h2 := Int.lt_floor_add_one (x / 360)
  have h3 := Int.le_ceil (x / 360)
  have h4 := Int.ceil_lt_add_one (x / 360)
  have e : x = 360 * (x / 360) := by field_simp
  split_ifs with h
  · constructor <;> linarith
  · constructor <;> linarith

theorem tmodQ_360_nonneg {x : ℚ} (hx : 0 ≤ x) : 0 ≤ tmodQ x 360 ∧ tmodQ x 360 < 360 := by
  unfold tmodQ
  have h1 := Int.floor_le (x / 360)
  have h2 := Int.lt_floor_add_one (x / 360)
  have e : x = 360 * (x / 360) := by field_simp
  rw [if_pos (by positivity)]
  constructor <;> linarith

theorem tmodQ_congr (x m : ℚ) : ∃ k : ℤ, x - tmodQ x m = m * k := by
  unfold tmodQ
  split_ifs
  · exact ⟨⌊x / m⌋, by ring⟩
  · exact ⟨⌈x / m⌉, by ring⟩

theorem cssNormHue_range (x : ℚ) : 0 ≤ cssNormHue x ∧ cssNormHue x < 360 := by
  unfold cssNormHue
  exact tmodQ_360_nonneg (by linarith [(tmodQ_360_range x).1])

theorem cssNormHue_congr (x : ℚ) : ∃ k : ℤ, x - cssNormHue x = 360 * k := by
  unfold cssNormHue
  obtain ⟨k1, h1⟩ := tmodQ_congr x 360
  obtain ⟨k2, h2⟩ := tmodQ_congr (tmodQ x 360 + 360) 360
  refine ⟨k1 + k2 - 1, ?_⟩
  push_cast
  linarith

/-- two numbers of `[0, 360)` that differ by a whole number of turns are equal -/
theorem eq_of_congr_360 {a b : ℚ} (ha : 0 ≤ a ∧ a < 360) (hb : 0 ≤ b ∧ b < 360) {k : ℤ}
    (h : a - b = 360 * k) : a = b := by
  have h1 : (-1 : ℚ) < k := by linarith [ha.1, hb.2]
  have h2 : (k : ℚ) < 1 := by linarith [ha.2, hb.1]
  have h1' : (-1 : ℤ) < k := by exact_mod_cast h1
  have h2' : k < (1 : ℤ) := by exact_mod_cast h2
  have : k = 0 := by omega
  subst this
  simp at h
  linarith

/-- Python's `float % 360` is CSS's hue normalisation, for every rational hue -/
theorem pmodQ_eq_cssNormHue (x : ℚ) : pmodQ x 360 = cssNormHue x := by
  obtain ⟨k, hk⟩ := cssNormHue_congr x
  apply eq_of_congr_360 (pmodQ_360_range x) (cssNormHue_range x) (k := k - ⌊x / 360⌋)
  rw [pmodQ_def]
  push_cast
  linarith

/-! ## `hsl_to_rgb` after parsing -/

theorem hslInRange_rat (s l : ℚ) :
    @hslInRange ℚ ratNum s l = true ↔ (0 ≤ s ∧ s ≤ 1) ∧ (0 ≤ l ∧ l ≤ 1) := by
  unfold hslInRange
  simp only [Bool.and_eq_true, rat_le, rat_sci]
  norm_num

theorem hslFinish_rat {h s l : ℚ} (hs0 : 0 ≤ s) (hs1 : s ≤ 1) (hl0 : 0 ≤ l) (hl1 : l ≤ 1) :
    @hslFinish ℚ ratNum h s l = .ok (@hslToRgbCore ℚ ratNum h s l) := by
  unfold hslFinish
  rw [if_pos ((hslInRange_rat s l).2 ⟨⟨hs0, hs1⟩, ⟨hl0, hl1⟩⟩)]

/-! ## compositing -/

theorem validRgb_iff (c : RGB) :
    validRgb c = true ↔ (0 ≤ c.1 ∧ c.1 ≤ 255) ∧ (0 ≤ c.2.1 ∧ c.2.1 ≤ 255) ∧ (0 ≤ c.2.2 ∧ c.2.2 ≤ 255) := by
  unfold validRgb
  simp only [Bool.and_eq_true, decide_eq_true_eq]
  tauto

/-- `rgba_to_rgb` on valid input: source-over compositing, each channel rounded to nearest -/
theorem rgbaToRgb_rat {r g b : ℤ} {a : ℚ} {bg : RGB} (hv : validRgb (r, g, b) = true)
    (ha0 : 0 ≤ a) (ha1 : a ≤ 1) (hbg : validRgb bg = true) :
    @rgbaToRgb ℚ ratNum r g b a bg =
      .ok (roundQ (r * a + bg.1 * (1 - a)), roundQ (g * a + bg.2.1 * (1 - a)),
           roundQ (b * a + bg.2.2 * (1 - a))) := by
  unfold rgbaToRgb
  have hA : (@Num.le ℚ ratNum (0.0 : ℚ) a && @Num.le ℚ ratNum a (1.0 : ℚ)) = true := by
    rw [Bool.and_eq_true, rat_le, rat_le]; norm_num; exact ⟨ha0, ha1⟩
  simp only [hv, hbg, rat_sci, hA, Bool.not_true, Bool.false_eq_true, if_false, rat_mul, rat_add,
    rat_sub, rat_ofInt]
  norm_num

/-- the compositing step of `hsla_to_rgb`, after the HSL colour is known -/
theorem hslaFinish_rat {h s l a : ℚ} (bg : Option RGB) (hs0 : 0 ≤ s) (hs1 : s ≤ 1) (hl0 : 0 ≤ l)
    (hl1 : l ≤ 1) (ha0 : 0 ≤ a) (ha1 : a ≤ 1) :
    @hslaFinish ℚ ratNum h s l a bg =
      .ok (let c := @hslToRgbCore ℚ ratNum (pmodQ h 360) s l
           let k : RGB := bg.getD (255, 255, 255)
           if 1 ≤ a then c
           else (truncQ (a * c.1 + (1 - a) * k.1), truncQ (a * c.2.1 + (1 - a) * k.2.1),
                 truncQ (a * c.2.2 + (1 - a) * k.2.2))) := by
  unfold hslaFinish
  have hA : (@Num.le ℚ ratNum (0.0 : ℚ) a && @Num.le ℚ ratNum a (1.0 : ℚ)) = true := by
    rw [Bool.and_eq_true, rat_le, rat_le]; norm_num; exact ⟨ha0, ha1⟩
  have hR := (hslInRange_rat s l).2 ⟨⟨hs0, hs1⟩, ⟨hl0, hl1⟩⟩
  have hF := @hslFinish_rat (pmodQ h 360) s l hs0 hs1 hl0 hl1
  have e360 : (360.0 : ℚ) = 360 := by norm_num
  simp only [rat_sci, hA, hR, Bool.and_self, Bool.not_true, Bool.false_eq_true, if_false]
  rw [e360]
  show (do let rgb ← @hslFinish ℚ ratNum (pmodQ h 360) s l; _) = _
  rw [hF]
  show (if @Num.ge ℚ ratNum a _ = true then _ else _) = _
  by_cases h1 : 1 ≤ a
  · have : @Num.ge ℚ ratNum a (1.0 : ℚ) = true := by rw [rat_ge]; norm_num; exact h1
    rw [if_pos this]
    simp only [if_pos h1]
    rfl
  · have : ¬ @Num.ge ℚ ratNum a (1.0 : ℚ) = true := by rw [rat_ge]; norm_num; exact not_le.1 h1
    rw [if_neg this]
    simp only [if_neg h1]
    cases bg <;> simp only [Option.getD, rat_mul, rat_add, rat_sub, rat_ofInt] <;> norm_num <;> rfl


/-! ## end-to-end numeric statements -/

/-- the model's colour for hue `H` (any rational), in-range `s`, `l`: valid, each channel a nearest
    integer to 255 × CSS's value -/
theorem hslOfHue_spec (H : ℚ) {s l : ℚ} (hs0 : 0 ≤ s) (hs1 : s ≤ 1) (hl0 : 0 ≤ l) (hl1 : l ≤ 1) :
    ∃ R G B : ℤ, @hslToRgbCore ℚ ratNum (pmodQ H 360) s l = (R, G, B) ∧
      validRgb (R, G, B) = true ∧
      |(R : ℚ) - 255 * (css3Hsl H s l).1| ≤ 1 / 2 ∧ |(G : ℚ) - 255 * (css3Hsl H s l).2.1| ≤ 1 / 2 ∧
      |(B : ℚ) - 255 * (css3Hsl H s l).2.2| ≤ 1 / 2 := by
  unfold css3Hsl
  have hc := hslCore_eq_css3 (pmodQ H 360) s l
  rw [pmodQ_eq_cssNormHue] at hc
  obtain ⟨⟨r0, r1⟩, ⟨g0, g1⟩, ⟨b0, b1⟩⟩ :=
    css3HslToRgb_range (div_nonneg (cssNormHue_range H).1 (by norm_num : (0 : ℚ) ≤ 360)) hs0 hs1 hl0 hl1
  refine ⟨_, _, _, (by rw [pmodQ_eq_cssNormHue]; exact hc), ?_, roundQ_near _, roundQ_near _, roundQ_near _⟩
  rw [validRgb_iff]
  exact ⟨roundQ_mem_Icc (lo := 0) (hi := 255) (by push_cast; positivity) (by push_cast; linarith),
    roundQ_mem_Icc (lo := 0) (hi := 255) (by push_cast; positivity) (by push_cast; linarith),
    roundQ_mem_Icc (lo := 0) (hi := 255) (by push_cast; positivity) (by push_cast; linarith)⟩

/-- `hsl_to_rgb((H, s, l))` for three floats -/
theorem hslSeq_floats (E : PEnv) (H : ℚ) {s l : ℚ} (hs0 : 0 ≤ s) (hs1 : s ≤ 1) (hl0 : 0 ≤ l)
    (hl1 : l ≤ 1) :
    @hslSeqToRgb ℚ ratNum E (.float H) (.float s) (.float l) =
      .ok (@hslToRgbCore ℚ ratNum (pmodQ H 360) s l) := by
  have hS : (@Num.le ℚ ratNum (0.0 : ℚ) s && @Num.le ℚ ratNum s (1.0 : ℚ)) = true := by
    rw [Bool.and_eq_true, rat_le, rat_le]; norm_num; exact ⟨hs0, hs1⟩
  have hL : (@Num.le ℚ ratNum (0.0 : ℚ) l && @Num.le ℚ ratNum l (1.0 : ℚ)) = true := by
    rw [Bool.and_eq_true, rat_le, rat_le]; norm_num; exact ⟨hl0, hl1⟩
  have e360 : (360.0 : ℚ) = 360 := by norm_num
  unfold hslSeqToRgb
  simp only [PyVal.strOf, rat_sci, hS, hL, if_true, e360]
  exact @hslFinish_rat (pmodQ H 360) s l hs0 hs1 hl0 hl1

theorem hslaFinish_blend (h : ℚ) {s l a : ℚ} (bg : Option RGB) (hs0 : 0 ≤ s) (hs1 : s ≤ 1)
    (hl0 : 0 ≤ l) (hl1 : l ≤ 1) (ha0 : 0 ≤ a) (ha1 : a < 1)
    (hbg : ∀ b, bg = some b → 0 ≤ b.1 ∧ 0 ≤ b.2.1 ∧ 0 ≤ b.2.2) :
    ∃ R G B : ℤ, @hslaFinish ℚ ratNum h s l a bg = .ok (R, G, B) ∧
      let c := @hslToRgbCore ℚ ratNum (pmodQ h 360) s l
      let k : RGB := bg.getD (255, 255, 255)
      (0 ≤ a * c.1 + (1 - a) * k.1 - R ∧ a * c.1 + (1 - a) * k.1 - R < 1) ∧
      (0 ≤ a * c.2.1 + (1 - a) * k.2.1 - G ∧ a * c.2.1 + (1 - a) * k.2.1 - G < 1) ∧
      (0 ≤ a * c.2.2 + (1 - a) * k.2.2 - B ∧ a * c.2.2 + (1 - a) * k.2.2 - B < 1) := by
  obtain ⟨R, G, B, hc, hv, -⟩ := hslOfHue_spec h hs0 hs1 hl0 hl1
  rw [validRgb_iff] at hv
  obtain ⟨⟨r0, -⟩, ⟨g0, -⟩, ⟨b0, -⟩⟩ := hv
  have hk : let k : RGB := bg.getD (255, 255, 255); (0 : ℤ) ≤ k.1 ∧ (0 : ℤ) ≤ k.2.1 ∧ (0 : ℤ) ≤ k.2.2 := by
    cases bg with
    | none => simp
    | some b => exact hbg b rfl
  simp only at hk
  obtain ⟨k0, k1, k2⟩ := hk
  have r0' : (0 : ℚ) ≤ R := by exact_mod_cast r0
  have g0' : (0 : ℚ) ≤ G := by exact_mod_cast g0
  have b0' : (0 : ℚ) ≤ B := by exact_mod_cast b0
  have k0' : (0 : ℚ) ≤ (bg.getD (255, 255, 255)).1 := by exact_mod_cast k0
  have k1' : (0 : ℚ) ≤ (bg.getD (255, 255, 255)).2.1 := by exact_mod_cast k1
  have k2' : (0 : ℚ) ≤ (bg.getD (255, 255, 255)).2.2 := by exact_mod_cast k2
  have h1a : (0 : ℚ) ≤ 1 - a := by linarith
  rw [hslaFinish_rat bg hs0 hs1 hl0 hl1 ha0 ha1.le]
  simp only [hc, if_neg (not_le.2 ha1)]
  exact ⟨_, _, _, rfl, truncQ_near (by positivity), truncQ_near (by positivity),
    truncQ_near (by positivity)⟩

theorem within_aux {a f F k out : ℚ} (ha0 : 0 ≤ a) (ha1 : a ≤ 1) (hf : |f - F| ≤ 1 / 2)
    (h0 : 0 ≤ a * f + (1 - a) * k - out) (h1 : a * f + (1 - a) * k - out < 1) :
    |out - (a * F + (1 - a) * k)| < 3 / 2 := by
  rw [abs_le] at hf
  rw [abs_lt]
  constructor <;> nlinarith

theorem hslaFinish_within (H : ℚ) {s l a : ℚ} (bg : Option RGB) (hs0 : 0 ≤ s) (hs1 : s ≤ 1)
    (hl0 : 0 ≤ l) (hl1 : l ≤ 1) (ha0 : 0 ≤ a) (ha1 : a ≤ 1)
    (hbg : ∀ b, bg = some b → 0 ≤ b.1 ∧ 0 ≤ b.2.1 ∧ 0 ≤ b.2.2) :
    ∃ R G B : ℤ, @hslaFinish ℚ ratNum H s l a bg = .ok (R, G, B) ∧
      let k : RGB := bg.getD (255, 255, 255)
      |(R : ℚ) - (a * (255 * (css3Hsl H s l).1) + (1 - a) * k.1)| < 3 / 2 ∧
      |(G : ℚ) - (a * (255 * (css3Hsl H s l).2.1) + (1 - a) * k.2.1)| < 3 / 2 ∧
      |(B : ℚ) - (a * (255 * (css3Hsl H s l).2.2) + (1 - a) * k.2.2)| < 3 / 2 := by
  obtain ⟨R, G, B, hc, hv, nr, ng, nb⟩ := hslOfHue_spec H hs0 hs1 hl0 hl1
  rcases lt_or_eq_of_le ha1 with hlt | rfl
  · obtain ⟨R', G', B', hfin, hb⟩ := hslaFinish_blend H bg hs0 hs1 hl0 hl1 ha0 hlt hbg
    simp only [hc] at hb
    obtain ⟨⟨r0, r1⟩, ⟨g0, g1⟩, ⟨b0, b1⟩⟩ := hb
    exact ⟨R', G', B', hfin, within_aux ha0 ha1 nr r0 r1, within_aux ha0 ha1 ng g0 g1,
      within_aux ha0 ha1 nb b0 b1⟩
  · refine ⟨R, G, B, ?_, ?_⟩
    · rw [hslaFinish_rat bg hs0 hs1 hl0 hl1 (by norm_num) le_rfl]
      simp [hc]
    · simp only [sub_self, zero_mul, add_zero, one_mul]
      exact ⟨lt_of_le_of_lt nr (by norm_num), lt_of_le_of_lt ng (by norm_num),
        lt_of_le_of_lt nb (by norm_num)⟩

end Cm.ParseSpec
