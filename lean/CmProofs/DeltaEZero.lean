import CmProofs.ColorReal
import CmProofs.WcagReal
/-!
# Helper lemmas for "CIEDE2000 is zero *only* for identical colours" (C11, converse direction)

* strict bound `|R_T| < 2`;
* strict positive definiteness of `x² + y² + r·x·y` for `|r| < 2`, hence of `coreForm`;
* `radicand p q = 0 → p = q` on Lab triples (via `ΔL' = ΔC' = ΔH' = 0`, the hue angle being
  injective on non-zero vectors of equal length, and `1 + G > 0`).
-/
namespace Cm
open Real

/-! ## 1. strict bound on the rotation term -/

theorem sqrt_ratio7_lt_one {C : ℝ} (hC : 0 ≤ C) : √(ratio7 C) < 1 := by
  rw [Real.sqrt_lt' one_pos]; simpa using ratio7_lt_one hC

theorem RCR_lt_two {C : ℝ} (hC : 0 ≤ C) : RCR C < 2 := by
  unfold RCR
  have := sqrt_ratio7_lt_one hC
  linarith

theorem abs_RTR_lt_two {C : ℝ} (hC : 0 ≤ C) (Hm : ℝ) : |RTR C Hm| < 2 := by
  unfold RTR
  rw [abs_mul, abs_neg, abs_of_nonneg (RCR_nonneg C)]
  calc |sin (radR (2 * dThetaR Hm))| * RCR C ≤ 1 * RCR C :=
        mul_le_mul_of_nonneg_right (Real.abs_sin_le_one _) (RCR_nonneg C)
    _ = RCR C := one_mul _
    _ < 2 := RCR_lt_two hC

/-! ## 2. positive definiteness -/

theorem quad_eq_zero (x y r : ℝ) (hr : |r| < 2) (h : x ^ 2 + y ^ 2 + r * x * y = 0) :
    x = 0 ∧ y = 0 := by
  obtain ⟨h1, h2⟩ := abs_lt.1 hr
  have hk : 0 < 1 - r ^ 2 / 4 := by nlinarith
  have e : x ^ 2 + y ^ 2 + r * x * y = (x + r * y / 2) ^ 2 + (1 - r ^ 2 / 4) * y ^ 2 := by ring
  rw [e] at h
  have hy2 : (1 - r ^ 2 / 4) * y ^ 2 = 0 := by
    nlinarith [sq_nonneg (x + r * y / 2), mul_nonneg hk.le (sq_nonneg y)]
  have hy : y = 0 := by
    rcases mul_eq_zero.1 hy2 with h0 | h0
    · exact absurd h0 hk.ne'
    · exact pow_eq_zero_iff (two_ne_zero) |>.1 h0
  subst hy
  have hx : x ^ 2 = 0 := by nlinarith
  exact ⟨pow_eq_zero_iff (two_ne_zero) |>.1 hx, rfl⟩

theorem coreForm_eq_zero (x y z r : ℝ) (hr : |r| < 2) (h : coreForm x y z r = 0) :
    x = 0 ∧ y = 0 ∧ z = 0 := by
  unfold coreForm at h
  have hq := quad_nonneg y z r hr.le
  have hx2 : x ^ 2 = 0 := by nlinarith [sq_nonneg x]
  have hq0 : y ^ 2 + z ^ 2 + r * y * z = 0 := by nlinarith
  exact ⟨pow_eq_zero_iff (two_ne_zero) |>.1 hx2, quad_eq_zero y z r hr hq0⟩

/-- if the radicand vanishes, the three differences vanish -/
theorem radicand_eq_zero_terms (p q : Lab) (h : radicand p q = 0) :
    dLP p q = 0 ∧ dCP p q = 0 ∧ dHP p q = 0 := by
  unfold radicand at h
  obtain ⟨h1, h2, h3⟩ := coreForm_eq_zero _ _ _ _ (abs_RTR_lt_two (CmP_nonneg p q) _) h
  have sl : SLR (LmP p q) ≠ 0 := (lt_of_lt_of_le one_pos (SLR_ge_one _)).ne'
  have sc : SCR (CmP p q) ≠ 0 := (lt_of_lt_of_le one_pos (SCR_ge_one (CmP_nonneg p q))).ne'
  have sh : SHR (CmP p q) (HmP p q) ≠ 0 :=
    (lt_of_lt_of_le one_pos (SHR_ge_one (CmP_nonneg p q) _)).ne'
  exact ⟨(div_eq_zero_iff.1 h1).resolve_right sl, (div_eq_zero_iff.1 h2).resolve_right sc,
    (div_eq_zero_iff.1 h3).resolve_right sh⟩

/-! ## 3. Lab level -/

/-- `1 + G > 0` -/
theorem one_add_Gpq_pos (p q : Lab) : 0 < 1 + Gpq p q := by
  unfold Gpq
  have hc : 0 ≤ (chroma p.2.1 p.2.2 + chroma q.2.1 q.2.2) / 2 := by
    have := chroma_nonneg p.2.1 p.2.2
    have := chroma_nonneg q.2.1 q.2.2
    linarith
  have := (GR_range hc).1
  linarith

theorem sqrt_sq_add_eq_zero {a b : ℝ} (h : √(a * a + b * b) = 0) : a = 0 ∧ b = 0 := by
  have h0 : a * a + b * b = 0 := (Real.sqrt_eq_zero (by nlinarith [mul_self_nonneg a, mul_self_nonneg b])).1 h
  constructor <;> nlinarith [mul_self_nonneg a, mul_self_nonneg b]

/-- zero chroma `C'` means `a = b = 0` (because `1 + g ≠ 0`) -/
theorem CP_eq_zero {g : ℝ} (hg : 0 < 1 + g) {p : Lab} (h : CP g p = 0) : p.2.1 = 0 ∧ p.2.2 = 0 := by
  unfold CP at h
  obtain ⟨h1, h2⟩ := sqrt_sq_add_eq_zero h
  unfold aP at h1
  exact ⟨(mul_eq_zero.1 h1).resolve_right hg.ne', h2⟩

theorem norm_mk (a b : ℝ) : ‖(⟨a, b⟩ : ℂ)‖ = √(a * a + b * b) := by
  rw [Complex.norm_def, Complex.normSq_mk]

/-- the hue angle separates non-zero vectors of equal length -/
theorem hueR_inj {a1 b1 a2 b2 : ℝ} (hn1 : ¬ (a1 = 0 ∧ b1 = 0)) (hn2 : ¬ (a2 = 0 ∧ b2 = 0))
    (hC : √(a1 * a1 + b1 * b1) = √(a2 * a2 + b2 * b2)) (hh : hueR a1 b1 = hueR a2 b2) :
    a1 = a2 ∧ b1 = b2 := by
  have hpi := Real.pi_pos
  unfold hueR at hh
  rw [if_neg hn1, if_neg hn2] at hh
  have l1 : -π < Complex.arg ⟨a1, b1⟩ := Complex.neg_pi_lt_arg _
  have u1 : Complex.arg ⟨a1, b1⟩ ≤ π := Complex.arg_le_pi _
  have l2 : -π < Complex.arg ⟨a2, b2⟩ := Complex.neg_pi_lt_arg _
  have u2 : Complex.arg ⟨a2, b2⟩ ≤ π := Complex.arg_le_pi _
  have e : ∀ t : ℝ, t * 180 / π = t / π * 180 := fun t => by ring
  have m1 : -1 < Complex.arg ⟨a1, b1⟩ / π := by rw [lt_div_iff₀ hpi]; linarith
  have n1 : Complex.arg ⟨a1, b1⟩ / π ≤ 1 := by rw [div_le_iff₀ hpi]; linarith
  have m2 : -1 < Complex.arg ⟨a2, b2⟩ / π := by rw [lt_div_iff₀ hpi]; linarith
  have n2 : Complex.arg ⟨a2, b2⟩ / π ≤ 1 := by rw [div_le_iff₀ hpi]; linarith
  simp only [e] at hh
  have harg : Complex.arg ⟨a1, b1⟩ / π = Complex.arg ⟨a2, b2⟩ / π := by
    split_ifs at hh <;> linarith
  have harg' : Complex.arg ⟨a1, b1⟩ = Complex.arg ⟨a2, b2⟩ := by
    have := congrArg (· * π) harg
    simpa [div_mul_cancel₀ _ hpi.ne'] using this
  have hz : (⟨a1, b1⟩ : ℂ) = ⟨a2, b2⟩ :=
    Complex.ext_norm_arg (by rw [norm_mk, norm_mk, hC]) harg'
  exact ⟨congrArg Complex.re hz, congrArg Complex.im hz⟩

/-- range of `Δh'` for hue angles in `[0, 360)`: the value is `h₂ − h₁` up to the wrap, and lies
in `[-180, 180]`; if it is `0` the two hue angles are equal -/
theorem dhpR_facts {C1 C2 h1 h2 : ℝ} (hC : ¬ (C1 = 0 ∨ C2 = 0))
    (r1 : 0 ≤ h1 ∧ h1 < 360) (r2 : 0 ≤ h2 ∧ h2 < 360) :
    -180 ≤ dhpR C1 C2 h1 h2 ∧ dhpR C1 C2 h1 h2 ≤ 180 ∧ (dhpR C1 C2 h1 h2 = 0 → h1 = h2) := by
  unfold dhpR
  rw [if_neg hC]
  obtain ⟨a1, b1⟩ := r1
  obtain ⟨a2, b2⟩ := r2
  split_ifs with hle hgt
  · obtain ⟨x, y⟩ := abs_le.1 hle
    exact ⟨x, y, fun h => by linarith⟩
  · exact ⟨by linarith, by linarith, fun h => by linarith⟩
  · have := lt_abs.1 (not_le.1 hle)
    have hlt : h2 - h1 < -180 := by
      rcases this with h | h
      · exact absurd h hgt
      · linarith
    exact ⟨by linarith, by linarith, fun h => by linarith⟩

/-- **the radicand vanishes only for identical Lab triples** -/
theorem radicand_eq_zero_imp_eq (p q : Lab) (h : radicand p q = 0) : p = q := by
  obtain ⟨hL, hCz, hH⟩ := radicand_eq_zero_terms p q h
  have hg := one_add_Gpq_pos p q
  obtain ⟨L1, a1, b1⟩ := p
  obtain ⟨L2, a2, b2⟩ := q
  have eL : L1 = L2 := by unfold dLP at hL; simp only at hL; linarith
  have eC : CP (Gpq (L1, a1, b1) (L2, a2, b2)) (L1, a1, b1)
      = CP (Gpq (L1, a1, b1) (L2, a2, b2)) (L2, a2, b2) := by unfold dCP at hCz; linarith
  set g := Gpq (L1, a1, b1) (L2, a2, b2) with hgdef
  suffices hab : a1 = a2 ∧ b1 = b2 by rw [eL, hab.1, hab.2]
  by_cases hz : CP g (L1, a1, b1) = 0
  · have hz2 : CP g (L2, a2, b2) = 0 := by rw [← eC]; exact hz
    obtain ⟨x1, y1⟩ := CP_eq_zero hg hz
    obtain ⟨x2, y2⟩ := CP_eq_zero hg hz2
    simp only at x1 y1 x2 y2
    exact ⟨by rw [x1, x2], by rw [y1, y2]⟩
  · have hz2 : CP g (L2, a2, b2) ≠ 0 := by rw [← eC]; exact hz
    have hpos1 : 0 < CP g (L1, a1, b1) := lt_of_le_of_ne (CP_nonneg _ _) (Ne.symm hz)
    have hpos2 : 0 < CP g (L2, a2, b2) := lt_of_le_of_ne (CP_nonneg _ _) (Ne.symm hz2)
    unfold dHP at hH
    rw [← hgdef] at hH
    have hsq : 0 < √(CP g (L1, a1, b1) * CP g (L2, a2, b2)) :=
      Real.sqrt_pos.2 (mul_pos hpos1 hpos2)
    have hsin : sin (radR (dhP (L1, a1, b1) (L2, a2, b2) / 2)) = 0 := by
      rcases mul_eq_zero.1 hH with h0 | h0
      · exfalso; nlinarith
      · exact h0
    have hor : ¬ (CP g (L1, a1, b1) = 0 ∨ CP g (L2, a2, b2) = 0) := by
      rintro (h0 | h0)
      · exact hz h0
      · exact hz2 h0
    obtain ⟨lo, hi, hzero⟩ := dhpR_facts hor (hueR_range (aP g (L1, a1, b1)) b1)
      (hueR_range (aP g (L2, a2, b2)) b2)
    have hpi := Real.pi_pos
    have hdh : dhP (L1, a1, b1) (L2, a2, b2) = 0 := by
      unfold dhP hP
      rw [← hgdef]
      unfold dhP hP at hsin
      rw [← hgdef] at hsin
      set d := dhpR (CP g (L1, a1, b1)) (CP g (L2, a2, b2)) (hueR (aP g (L1, a1, b1)) b1)
        (hueR (aP g (L2, a2, b2)) b2) with hd
      unfold radR at hsin
      have hlo : -π < d / 2 * (π / 180) := by nlinarith
      have hhi : d / 2 * (π / 180) < π := by nlinarith
      have h0 := (Real.sin_eq_zero_iff_of_lt_of_lt hlo hhi).1 hsin
      have hne : π / 180 ≠ 0 := by positivity
      have := (mul_eq_zero.1 h0).resolve_right hne
      linarith
    have hhue : hueR (aP g (L1, a1, b1)) b1 = hueR (aP g (L2, a2, b2)) b2 := by
      apply hzero
      unfold dhP hP at hdh
      rw [← hgdef] at hdh
      exact hdh
    have hn1 : ¬ (aP g (L1, a1, b1) = 0 ∧ b1 = 0) := by
      rintro ⟨x, y⟩
      apply hz
      show √(aP g (L1, a1, b1) * aP g (L1, a1, b1) + b1 * b1) = 0
      rw [x, y]; simp
    have hn2 : ¬ (aP g (L2, a2, b2) = 0 ∧ b2 = 0) := by
      rintro ⟨x, y⟩
      apply hz2
      show √(aP g (L2, a2, b2) * aP g (L2, a2, b2) + b2 * b2) = 0
      rw [x, y]; simp
    obtain ⟨ha, hb⟩ := hueR_inj hn1 hn2 (by unfold CP at eC; exact eC) hhue
    unfold aP at ha
    simp only at ha
    exact ⟨mul_right_cancel₀ hg.ne' ha, hb⟩

/-! ## 4. RGB level: `rgbToLab` is injective on valid 8-bit colours -/

/-- `lab_transform` at ℝ -/
noncomputable def labFR (t : ℝ) : ℝ :=
  if 0.008856 < t then t ^ ((1 : ℝ) / 3) else 7.787 * t + 16 / 116

theorem labF_real (t : ℝ) : @labF ℝ realNum t = labFR t := by
  unfold labF labFR
  by_cases h : (0.008856 : ℝ) < t
  · rw [if_pos ((real_gt _ _).2 h), if_pos h]
    simp only [real_rpow, real_div, real_sci]
    norm_num
  · rw [if_neg (fun h' => h ((real_gt _ _).1 h')), if_neg h]
    simp only [real_add, real_mul, real_div, real_sci]
    norm_num

theorem cbrt_pow_three {t : ℝ} (ht : 0 ≤ t) : (t ^ ((1 : ℝ) / 3)) ^ (3 : ℕ) = t := by
  rw [← rpow_natCast, ← rpow_mul ht]
  norm_num

/-- the junction of `lab_transform`: the linear branch at the threshold lies below the cube-root
branch just above it -/
theorem labFR_junction {t : ℝ} (ht : 0.008856 < t) :
    7.787 * (0.008856 : ℝ) + 16 / 116 < t ^ ((1 : ℝ) / 3) := by
  have ht0 : (0 : ℝ) ≤ t := le_trans (by norm_num) ht.le
  apply lt_of_pow_lt_pow_left₀ 3 (rpow_nonneg ht0 _)
  rw [cbrt_pow_three ht0]
  refine lt_trans ?_ ht
  norm_num

theorem labFR_strictMono : StrictMono labFR := by
  intro x y hxy
  unfold labFR
  by_cases hx : (0.008856 : ℝ) < x
  · have hy : (0.008856 : ℝ) < y := lt_trans hx hxy
    rw [if_pos hx, if_pos hy]
    exact rpow_lt_rpow (le_trans (by norm_num) hx.le) hxy (by norm_num)
  · by_cases hy : (0.008856 : ℝ) < y
    · rw [if_neg hx, if_pos hy]
      have := labFR_junction hy
      have hx' := not_lt.1 hx
      linarith
    · rw [if_neg hx, if_neg hy]
      linarith

theorem labFR_one : labFR 1 = 1 := by
  unfold labFR; rw [if_pos (by norm_num), one_rpow]

theorem labFR_zero : labFR 0 = 16 / 116 := by
  unfold labFR; rw [if_neg (by norm_num)]; norm_num

theorem labFR_ge {t : ℝ} (ht : 0 ≤ t) : 16 / 116 ≤ labFR t := by
  rw [← labFR_zero]; exact labFR_strictMono.le_iff_le.2 ht

theorem labFR_ge_one {t : ℝ} (h : 1 ≤ labFR t) : 1 ≤ t := by
  rw [← labFR_one] at h; exact labFR_strictMono.le_iff_le.1 h

/-- normalised tristimulus values from linear-light channels -/
noncomputable def xnR (r g b : ℝ) : ℝ := (r * 0.4124564 + g * 0.3575761 + b * 0.1804375) * 100 / 95.047
noncomputable def ynR (r g b : ℝ) : ℝ := (r * 0.2126729 + g * 0.7151522 + b * 0.0721750) * 100 / 100
noncomputable def znR (r g b : ℝ) : ℝ := (r * 0.0193339 + g * 0.1191920 + b * 0.9503041) * 100 / 108.883

/-- `xyz_to_lab ∘ rgb_to_xyz` from linear-light channels -/
noncomputable def labOfLin (r g b : ℝ) : Lab :=
  (max 0 (min 100 (116 * labFR (ynR r g b) - 16)),
   500 * (labFR (xnR r g b) - labFR (ynR r g b)),
   200 * (labFR (ynR r g b) - labFR (znR r g b)))

/-- **Tie to the model**: `rgbToLab` at ℝ -/
theorem rgbToLab_real (c : RGB) :
    @rgbToLab ℝ realNum c =
      labOfLin (lin ((c.1 : ℝ) / 255)) (lin ((c.2.1 : ℝ) / 255)) (lin ((c.2.2 : ℝ) / 255)) := by
  unfold rgbToLab xyzToLab rgbToXyz labOfLin xnR ynR znR
  simp only [srgbToLinear_eq_lin, chan_real, labF_real, real_pmax, real_pmin, real_add, real_sub,
    real_mul, real_div, real_sci]
  norm_num

/-- on linear-light channels in `[0, 1]`, the Lab triple determines the channels unless both
lightness values are clamped at 100 (`Y/Yn ≥ 1`) -/
theorem labOfLin_inj {r g b r' g' b' : ℝ}
    (hr : 0 ≤ r) (hg : 0 ≤ g) (hb : 0 ≤ b) (hr' : 0 ≤ r') (hg' : 0 ≤ g') (hb' : 0 ≤ b')
    (h : labOfLin r g b = labOfLin r' g' b') :
    (r = r' ∧ g = g' ∧ b = b') ∨ (1 ≤ ynR r g b ∧ 1 ≤ ynR r' g' b') := by
  unfold labOfLin at h
  have h1 := congrArg Prod.fst h
  have h2 := congrArg (fun t : Lab => t.2.1) h
  have h3 := congrArg (fun t : Lab => t.2.2) h
  simp only at h1 h2 h3
  have y0 : 0 ≤ ynR r g b := by unfold ynR; positivity
  have y0' : 0 ≤ ynR r' g' b' := by unfold ynR; positivity
  have v0 := labFR_ge y0
  have v0' := labFR_ge y0'
  have hv : (0 : ℝ) ≤ 116 * labFR (ynR r g b) - 16 := by linarith
  have hv' : (0 : ℝ) ≤ 116 * labFR (ynR r' g' b') - 16 := by linarith
  rw [max_eq_right (le_min (by norm_num) hv), max_eq_right (le_min (by norm_num) hv')] at h1
  by_cases hc : 116 * labFR (ynR r g b) - 16 < 100
  · left
    rw [min_eq_right hc.le] at h1
    have hc' : 116 * labFR (ynR r' g' b') - 16 < 100 := by
      by_contra hcon
      rw [min_eq_left (not_lt.1 hcon)] at h1
      linarith
    rw [min_eq_right hc'.le] at h1
    have ey : labFR (ynR r g b) = labFR (ynR r' g' b') := by linarith
    have ex : labFR (xnR r g b) = labFR (xnR r' g' b') := by linarith
    have ez : labFR (znR r g b) = labFR (znR r' g' b') := by linarith
    have ey' := labFR_strictMono.injective ey
    have ex' := labFR_strictMono.injective ex
    have ez' := labFR_strictMono.injective ez
    unfold ynR at ey'
    unfold xnR at ex'
    unfold znR at ez'
    rw [div_left_inj' (by norm_num), mul_left_inj' (by norm_num)] at ex' ey' ez'
    norm_num at ex' ey' ez'
    refine ⟨?_, ?_, ?_⟩ <;> linarith
  · right
    have hge := not_lt.1 hc
    rw [min_eq_left hge] at h1
    have hge' : 100 ≤ 116 * labFR (ynR r' g' b') - 16 := by
      by_contra hcon
      rw [min_eq_right (not_le.1 hcon).le] at h1
      linarith
    exact ⟨labFR_ge_one (by linarith), labFR_ge_one (by linarith)⟩

/-- a channel below 255 linearises to at most 0.9963 -/
theorem lin_chan_le {v : Int} (h : v ≤ 254) : lin ((v : ℝ) / 255) ≤ 0.9963 := by
  have h1 : (v : ℝ) / 255 ≤ 254 / 255 := by
    apply div_le_div_of_nonneg_right _ (by norm_num)
    exact_mod_cast h
  refine le_trans (lin_le_iff.2 h1) ?_
  unfold lin
  rw [if_neg (by norm_num)]
  have hb0 : (0 : ℝ) < (254 / 255 + 0.055) / 1.055 := by norm_num
  have hb1 : ((254 : ℝ) / 255 + 0.055) / 1.055 ≤ 1 := by norm_num
  calc ((254 / 255 + 0.055) / 1.055 : ℝ) ^ (2.4 : ℝ)
      ≤ ((254 / 255 + 0.055) / 1.055 : ℝ) ^ (1 : ℝ) :=
        rpow_le_rpow_of_exponent_ge hb0 hb1 (by norm_num)
    _ = (254 / 255 + 0.055) / 1.055 := rpow_one _
    _ ≤ 0.9963 := by norm_num

/-- among valid 8-bit colours only white reaches `Y/Yn ≥ 1` -/
theorem ynR_ge_one_white {c : RGB} (hv : validRgb c = true)
    (h : 1 ≤ ynR (lin ((c.1 : ℝ) / 255)) (lin ((c.2.1 : ℝ) / 255)) (lin ((c.2.2 : ℝ) / 255))) :
    c = (255, 255, 255) := by
  obtain ⟨⟨r0, r1⟩, ⟨g0, g1⟩, ⟨b0, b1⟩⟩ := (validRgb_iff c).1 hv
  obtain ⟨r, g, b⟩ := c
  simp only at r0 r1 g0 g1 b0 b1 h
  have lr := lin_le_one (chanR_le_one r1)
  have lg := lin_le_one (chanR_le_one g1)
  have lb := lin_le_one (chanR_le_one b1)
  unfold ynR at h
  have er : r = 255 := by
    by_contra hne
    have := lin_chan_le (v := r) (by omega)
    linarith
  have eg : g = 255 := by
    by_contra hne
    have := lin_chan_le (v := g) (by omega)
    linarith
  have eb : b = 255 := by
    by_contra hne
    have := lin_chan_le (v := b) (by omega)
    linarith
  rw [er, eg, eb]

theorem lin_chan_inj {v w : Int} (h : lin ((v : ℝ) / 255) = lin ((w : ℝ) / 255)) : v = w := by
  have := lin_strictMono.injective h
  have h2 : (v : ℝ) = w := by
    have h255 : (255 : ℝ) ≠ 0 := by norm_num
    field_simp at this
    exact this
  exact_mod_cast h2

/-- **`rgb_to_lab` is injective on valid 8-bit colours** (model at ℝ) -/
theorem rgbToLab_real_injective {c1 c2 : RGB} (h1 : validRgb c1 = true) (h2 : validRgb c2 = true)
    (h : @rgbToLab ℝ realNum c1 = @rgbToLab ℝ realNum c2) : c1 = c2 := by
  rw [rgbToLab_real, rgbToLab_real] at h
  obtain ⟨⟨r0, r1⟩, ⟨g0, g1⟩, ⟨b0, b1⟩⟩ := (validRgb_iff c1).1 h1
  obtain ⟨⟨r0', r1'⟩, ⟨g0', g1'⟩, ⟨b0', b1'⟩⟩ := (validRgb_iff c2).1 h2
  rcases labOfLin_inj (lin_nonneg (chanR_nonneg r0)) (lin_nonneg (chanR_nonneg g0))
      (lin_nonneg (chanR_nonneg b0)) (lin_nonneg (chanR_nonneg r0')) (lin_nonneg (chanR_nonneg g0'))
      (lin_nonneg (chanR_nonneg b0')) h with ⟨er, eg, eb⟩ | ⟨w1, w2⟩
  · obtain ⟨r, g, b⟩ := c1
    obtain ⟨r', g', b'⟩ := c2
    simp only at er eg eb
    rw [lin_chan_inj er, lin_chan_inj eg, lin_chan_inj eb]
  · rw [ynR_ge_one_white h1 w1, ynR_ge_one_white h2 w2]

end Cm
