import CmModel.Color
import Mathlib.Tactic.NormNum
import Mathlib.Tactic.Linarith
import Mathlib.Tactic.Ring
import Mathlib.Tactic.FieldSimp
import Mathlib.Algebra.Order.Field.Basic
import Mathlib.Algebra.Order.Floor.Ring
import Mathlib.Data.Rat.Floor
/-!
# The exact rational carrier in Mathlib's vocabulary

`Cm.ratNum : Cm.Num ℚ` (defined in `CmModel/Num.lean`, core Lean only, executable) is the carrier of
the *exact* model of parsing, compositing and HSL. The lemmas below rewrite its operations into
Mathlib's so that `ring`, `linarith`, `norm_num` apply. It is deliberately not an instance.
-/
namespace Cm

section
variable (a b : ℚ)
@[simp] theorem rat_add : @HAdd.hAdd ℚ ℚ ℚ (@instHAdd ℚ ratNum.toAdd) a b = a + b := rfl
@[simp] theorem rat_sub : @HSub.hSub ℚ ℚ ℚ (@instHSub ℚ ratNum.toSub) a b = a - b := rfl
@[simp] theorem rat_mul : @HMul.hMul ℚ ℚ ℚ (@instHMul ℚ ratNum.toMul) a b = a * b := rfl
@[simp] theorem rat_div : @HDiv.hDiv ℚ ℚ ℚ (@instHDiv ℚ ratNum.toDiv) a b = a / b := rfl
@[simp] theorem rat_neg : @Neg.neg ℚ ratNum.toNeg a = -a := rfl
@[simp] theorem rat_sci (m : ℕ) (s : Bool) (e : ℕ) :
    @OfScientific.ofScientific ℚ ratNum.toOfScientific m s e = (OfScientific.ofScientific m s e : ℚ) := rfl
@[simp] theorem rat_ofInt (n : ℤ) : @Num.ofInt ℚ ratNum n = (n : ℚ) := rfl
@[simp] theorem rat_le : @Num.le ℚ ratNum a b = true ↔ a ≤ b := by
  show decide (a ≤ b) = true ↔ _; simp
@[simp] theorem rat_lt : @Num.lt ℚ ratNum a b = true ↔ a < b := by
  show decide (a < b) = true ↔ _; simp
@[simp] theorem rat_ge : @Num.ge ℚ ratNum a b = true ↔ b ≤ a := rat_le b a
@[simp] theorem rat_gt : @Num.gt ℚ ratNum a b = true ↔ b < a := rat_lt b a
@[simp] theorem rat_eq : @Num.eq ℚ ratNum a b = true ↔ a = b := by
  unfold Num.eq
  rw [Bool.and_eq_true, rat_le, rat_le]
  exact ⟨fun h => le_antisymm h.1 h.2, fun h => ⟨h.le, h.ge⟩⟩
@[simp] theorem rat_floor : @Num.floor ℚ ratNum a = ⌊a⌋ := by
  rfl
@[simp] theorem rat_pmax : @Num.pmax ℚ ratNum a b = max a b := by
  unfold Num.pmax
  by_cases h : a < b
  · rw [if_pos ((rat_lt a b).2 h)]; exact (max_eq_right h.le).symm
  · rw [if_neg (fun h' => h ((rat_lt a b).1 h'))]; exact (max_eq_left (not_lt.1 h)).symm
@[simp] theorem rat_pmin : @Num.pmin ℚ ratNum a b = min a b := by
  unfold Num.pmin
  by_cases h : b < a
  · rw [if_pos ((rat_lt b a).2 h)]; exact (min_eq_right h.le).symm
  · rw [if_neg (fun h' => h ((rat_lt b a).1 h'))]; exact (min_eq_left (not_lt.1 h)).symm
end

end Cm
