import CmProofs.SearchComplete
import CmProofs.RatNum
import CmProofs.RealNum
import Mathlib.Data.Rat.Cast.OfScientific
/-!
# Helper lemmas for C03 at exact carriers: the bisection's resolution

At a carrier whose arithmetic is that of an ordered field (`FieldCarrier`; `ℚ` with `ratNum`, `ℝ` with
`realNum`) every iteration halves the interval exactly, so after `n` iterations its width is the
initial width over `2^n`, and all probes lie in the initial interval.  Together with the bracketing
lemma this discharges `Res`: two band points further apart than that cannot both be bracketed.
-/
set_option linter.unusedSectionVars false
set_option linter.unusedVariables false
namespace Cm

/-- the carrier's order, `+`, `/` and decimal literals are those of the ordered field `F` -/
structure FieldCarrier {F : Type} [Field F] [LinearOrder F] [IsStrictOrderedRing F] (N : Num F) : Prop where
  le_iff : ∀ a b : F, @Num.le F N a b = true ↔ a ≤ b
  lt_iff : ∀ a b : F, @Num.lt F N a b = true ↔ a < b
  add_eq : ∀ a b : F, @HAdd.hAdd F F F (@instHAdd F N.toAdd) a b = a + b
  div_eq : ∀ a b : F, @HDiv.hDiv F F F (@instHDiv F N.toDiv) a b = a / b
  sci_eq : ∀ m e : ℕ, @OfScientific.ofScientific F N.toOfScientific m true e = (m : F) / 10 ^ e

section field
variable {F : Type} [Field F] [LinearOrder F] [IsStrictOrderedRing F] {N : Num F} (FC : FieldCarrier N)
include FC

theorem FieldCarrier.lawful : @LawfulNumOrd F N :=
  @LawfulNumOrd.mk F N
    (fun a => (FC.le_iff a a).2 (le_refl a))
    (fun a b c h1 h2 => (FC.le_iff a c).2 (le_trans ((FC.le_iff a b).1 h1) ((FC.le_iff b c).1 h2)))
    (fun a b => by
      rcases le_total a b with h | h
      · exact Or.inl ((FC.le_iff a b).2 h)
      · exact Or.inr ((FC.le_iff b a).2 h))
    (fun a b => by
      rw [FC.lt_iff]
      constructor
      · intro h
        cases hx : @Num.le F N b a with
        | false => rfl
        | true => exact absurd ((FC.le_iff b a).1 hx) (not_le.2 h)
      · intro h
        apply lt_of_not_ge
        intro hba
        rw [(FC.le_iff b a).2 hba] at h; cases h)

theorem FieldCarrier.lit : @LawfulLit F N :=
  @LawfulLit.mk F N (fun m e m' e' h => by
    rw [FC.le_iff, FC.sci_eq, FC.sci_eq]
    have h10 : (0 : F) < 10 := by norm_num
    rw [div_le_div_iff₀ (pow_pos h10 e) (pow_pos h10 e')]
    exact_mod_cast h)

theorem FieldCarrier.mid (s : BS F) : @bsMid F N s = (s.low + s.high) / 2 := by
  unfold bsMid
  rw [FC.div_eq, FC.add_eq, FC.sci_eq]
  norm_num

theorem FieldCarrier.zero : @OfScientific.ofScientific F N.toOfScientific 0 true 1 = 0 := by
  rw [FC.sci_eq]; norm_num

theorem FieldCarrier.one : @OfScientific.ofScientific F N.toOfScientific 10 true 1 = 1 := by
  rw [FC.sci_eq]; norm_num

variable (O : Leaf F) (t bg : RGB) (thr target c h : F)

/-- one iteration replaces exactly one end of the interval by the midpoint -/
theorem bsStep_halves (up : Bool) (s : BS F) :
    ((@bsStep F N O t bg thr target c h up s).low = s.low ∧
      (@bsStep F N O t bg thr target c h up s).high = (s.low + s.high) / 2) ∨
    ((@bsStep F N O t bg thr target c h up s).low = (s.low + s.high) / 2 ∧
      (@bsStep F N O t bg thr target c h up s).high = s.high) := by
  have hint := @bsStep_interval F N O t bg thr target c h up s
  rw [FC.mid] at hint
  by_cases hc : @Acc F N O t thr c h ((s.low + s.high) / 2) ∧ ¬ @Meets F N O bg target c h ((s.low + s.high) / 2)
  · obtain ⟨e1, e2⟩ := hint.1 hc
    cases up
    · exact Or.inl ⟨by simpa using e1, by simpa using e2⟩
    · exact Or.inr ⟨by simpa using e1, by simpa using e2⟩
  · obtain ⟨e1, e2⟩ := hint.2 hc
    cases up
    · exact Or.inr ⟨by simpa using e1, by simpa using e2⟩
    · exact Or.inl ⟨by simpa using e1, by simpa using e2⟩

/-- `n` iterations: the interval stays inside the initial one, its width is the initial width over
    `2^n`, and every probe lies in the initial interval -/
theorem bsLoop_width (up : Bool) (n : Nat) (s : BS F) (hs : s.low ≤ s.high) :
    s.low ≤ (@bsLoop F N O t bg thr target c h up n s).low ∧
    (@bsLoop F N O t bg thr target c h up n s).low ≤ (@bsLoop F N O t bg thr target c h up n s).high ∧
    (@bsLoop F N O t bg thr target c h up n s).high ≤ s.high ∧
    (@bsLoop F N O t bg thr target c h up n s).high - (@bsLoop F N O t bg thr target c h up n s).low
      = (s.high - s.low) / 2 ^ n ∧
    ∀ m ∈ (@bsLoopTrace F N O t bg thr target c h up n s).2, s.low ≤ m ∧ m ≤ s.high := by
  induction n generalizing s with
  | zero =>
    simp only [bsLoop, bsLoopTrace, pow_zero, div_one, List.not_mem_nil]
    exact ⟨le_refl _, hs, le_refl _, trivial, fun m hm => absurd hm id⟩
  | succ n ih =>
    have hm1 : s.low ≤ (s.low + s.high) / 2 := by linarith
    have hm2 : (s.low + s.high) / 2 ≤ s.high := by linarith
    have hstep := bsStep_halves FC O t bg thr target c h up s
    simp only [bsLoop, bsLoopTrace, List.mem_cons]
    rcases hstep with ⟨e1, e2⟩ | ⟨e1, e2⟩
    · have hs' : (@bsStep F N O t bg thr target c h up s).low ≤ (@bsStep F N O t bg thr target c h up s).high := by
        rw [e1, e2]; exact hm1
      obtain ⟨i1, i2, i3, i4, i5⟩ := ih _ hs'
      rw [e1] at i1 i5; rw [e2] at i3 i5; rw [e1, e2] at i4
      refine ⟨i1, i2, le_trans i3 hm2, ?_, fun m hm => ?_⟩
      · rw [i4, pow_succ]; field_simp; ring
      · rcases hm with rfl | hm
        · rw [FC.mid]; exact ⟨hm1, hm2⟩
        · exact ⟨(i5 m hm).1, le_trans (i5 m hm).2 hm2⟩
    · have hs' : (@bsStep F N O t bg thr target c h up s).low ≤ (@bsStep F N O t bg thr target c h up s).high := by
        rw [e1, e2]; exact hm2
      obtain ⟨i1, i2, i3, i4, i5⟩ := ih _ hs'
      rw [e1] at i1 i5; rw [e2] at i3 i5; rw [e1, e2] at i4
      refine ⟨le_trans hm1 i1, i2, i3, ?_, fun m hm => ?_⟩
      · rw [i4, pow_succ]; field_simp; ring
      · rcases hm with rfl | hm
        · rw [FC.mid]; exact ⟨hm1, hm2⟩
        · exact ⟨le_trans hm1 (i5 m hm).1, (i5 m hm).2⟩

/-- **`Mono` + `DirOK` + `Res` ⇒ a probe hits the band.**  `I` is the starting interval; the band
    `{L | A L ∧ k L ≥ v}` contains two points of `I` further apart than the width left after `n`
    halvings. -/
theorem bs_hit_of_wide_band (up : Bool) (v : F) (hv : v ≤ target) (n : Nat) (s : BS F)
    (hs : s.low ≤ s.high)
    (hmono : @MonoOn F N O t bg thr c h up (fun x => s.low ≤ x ∧ x ≤ s.high))
    (a b : F) (ha : s.low ≤ a) (hb : b ≤ s.high)
    (hHa : @Hit F N O t bg thr c h v a) (hHb : @Hit F N O t bg thr c h v b)
    (hres : (s.high - s.low) / 2 ^ n < b - a) :
    ∃ m ∈ (@bsLoopTrace F N O t bg thr target c h up n s).2, @Hit F N O t bg thr c h v m := by
  have hpow : (0 : F) < 2 ^ n := pow_pos (by norm_num) n
  have hw : (0 : F) ≤ (s.high - s.low) / 2 ^ n := div_nonneg (by linarith) hpow.le
  have hab : a < b := by linarith
  obtain ⟨_, _, _, w4, w5⟩ := bsLoop_width FC O t bg thr target c h up n s hs
  apply Classical.byContradiction
  intro hno
  have hmiss : ∀ m ∈ (@bsLoopTrace F N O t bg thr target c h up n s).2, ¬ @Hit F N O t bg thr c h v m :=
    fun m hm hh => hno ⟨m, hm, hh⟩
  have Ba := @miss_brackets_band F N FC.lawful O t bg thr target c h up _ hmono v
    ((FC.le_iff _ _).2 hv) a ⟨ha, by linarith⟩ hHa n s w5 hmiss
    ⟨(FC.le_iff _ _).2 ha, (FC.le_iff _ _).2 (by linarith)⟩
  have Bb := @miss_brackets_band F N FC.lawful O t bg thr target c h up _ hmono v
    ((FC.le_iff _ _).2 hv) b ⟨by linarith, hb⟩ hHb n s w5 hmiss
    ⟨(FC.le_iff _ _).2 (by linarith), (FC.le_iff _ _).2 hb⟩
  have h1 := (FC.le_iff _ _).1 Ba.1
  have h2 := (FC.le_iff _ _).1 Bb.2
  linarith

/-- the starting interval of `binarySearch`: from the text's lightness to `1.0` when searching up,
    from `0.0` to it when searching down -/
theorem bsStart_low_high :
    (@bsStart F N O t bg).low = (if @bsUp F N O t bg then (O.toOklch t).1 else 0) ∧
    (@bsStart F N O t bg).high = (if @bsUp F N O t bg then 1 else (O.toOklch t).1) := by
  unfold bsStart bsInit
  simp only
  constructor
  · split
    · rfl
    · exact FC.zero
  · split
    · exact FC.one
    · rfl

/-- `Mono` + `DirOK` + `Res` for one call of the lightness search at level `v` -/
structure BandHyp (v : F) : Prop where
  l_ge : 0 ≤ (O.toOklch t).1
  l_le : (O.toOklch t).1 ≤ 1
  /-- `Mono` and `DirOK`, on the searched interval and for the direction the code computes -/
  mono : @MonoOn F N O t bg thr (@bsC F O t) (@bsH F O t) (@bsUp F N O t bg)
    (fun x => (@bsStart F N O t bg).low ≤ x ∧ x ≤ (@bsStart F N O t bg).high)
  /-- `Res`: two band points in the searched interval more than `2⁻²⁰` apart -/
  band : ∃ a b, (@bsStart F N O t bg).low ≤ a ∧ b ≤ (@bsStart F N O t bg).high ∧
    @Hit F N O t bg thr (@bsC F O t) (@bsH F O t) v a ∧
    @Hit F N O t bg thr (@bsC F O t) (@bsH F O t) v b ∧ 1 / 2 ^ 20 < b - a

/-- the lightness search is complete relative to `BandHyp`: it returns an in-tolerance colour whose
    contrast is at least `v` -/
theorem binarySearch_complete_field (v : F) (hpos : 0 < v) (hv : v ≤ target)
    (H : BandHyp (N := N) O t bg thr v) :
    ∃ r, @binarySearch F N O t bg thr target = some r ∧ v ≤ O.contrast r bg ∧
      @InTol F N O t thr r := by
  obtain ⟨a, b, ha, hb, hHa, hHb, hres⟩ := H.band
  obtain ⟨e1, e2⟩ := bsStart_low_high FC O t bg
  have hs : (@bsStart F N O t bg).low ≤ (@bsStart F N O t bg).high := by
    rw [e1, e2]; split
    · exact H.l_le
    · exact H.l_ge
  have hwid : (@bsStart F N O t bg).high - (@bsStart F N O t bg).low ≤ 1 := by
    rw [e1, e2]; split
    · linarith [H.l_ge]
    · linarith [H.l_le]
  have hres' : ((@bsStart F N O t bg).high - (@bsStart F N O t bg).low) / 2 ^ 20 < b - a := by
    refine lt_of_le_of_lt ?_ hres
    exact div_le_div_of_nonneg_right hwid (by positivity)
  obtain ⟨m, hm, hA, hk⟩ := bs_hit_of_wide_band FC O t bg thr target _ _ (@bsUp F N O t bg) v hv 20
    (@bsStart F N O t bg) hs H.mono a b ha hb hHa hHb hres'
  obtain ⟨r, h1, h2, h3⟩ := @binarySearch_of_probe_ge F N O t bg thr target FC.lawful v
    (by rw [FC.lt_iff, FC.zero]; exact hpos) ((FC.le_iff _ _).2 hv) ⟨m, hm, hA, hk⟩
  exact ⟨r, h1, (FC.le_iff _ _).1 h2, h3⟩

end field

/-! ## The two exact carriers -/

theorem q_sci (m e : ℕ) : (OfScientific.ofScientific m true e : ℚ) = (m : ℚ) / 10 ^ e := by
  show Rat.ofScientific m true e = _
  rw [Rat.ofScientific_true_def, Rat.mkRat_eq_div]
  push_cast
  rfl

theorem r_sci (m e : ℕ) : (OfScientific.ofScientific m true e : ℝ) = (m : ℝ) / 10 ^ e := by
  rw [← Rat.cast_ofScientific, q_sci]
  push_cast
  rfl

theorem ratFieldCarrier : FieldCarrier ratNum :=
  ⟨rat_le, rat_lt, rat_add, rat_div, fun m e => by rw [rat_sci]; exact q_sci m e⟩

theorem realFieldCarrier : FieldCarrier realNum.toNum :=
  ⟨real_le, real_lt, real_add, real_div, fun m e => by rw [real_sci]; exact r_sci m e⟩

end Cm
