import CmProofs.CliLemmas
/-!
# The custom-property table points at the definitions it was collected from

`VarsInv Q st`: every entry `(--x, d)` the table `st.vars` answers with (`lookupVar`) points at a
declaration named `--x` — item `d.item` of the shared block of the top-level rule `d.rule` — and the entry
and that declaration are related by `Q`. Established by the pre-pass (`prePass_varsInv`), preserved by
every rule the tool processes (`processRule_varsInv`) and hence by the whole traversal.

`Q` is a parameter (`DefRel Q` says what it has to survive): `DefAgrees env` is the relation between table
value and declaration value the model keeps from the pre-pass on; `TightFor x` is the sharper relation that
holds for `--x` from its first rewrite on.

The second half is the per-rule trace of a run (`traceTop`, `Chained`): the list of visits
(`RuleVisit`: arguments of `processRule`, state before, state after) in processing order.
-/
namespace Cm.Cli

/-- entry `d` of the table, for the name `name`, points at a declaration named `name`, related to it by `Q` -/
def PointsAt (Q : Str → VarDef → Decl → Prop) (st : St) (name : Str) (d : VarDef) : Prop :=
  ∃ its dd, getRoot st d.rule = some its ∧ its[d.item]? = some (.decl dd) ∧ dd.name = name ∧ Q name d dd

/-- every entry the table answers with points at its definition -/
def VarsInv (Q : Str → VarDef → Decl → Prop) (st : St) : Prop :=
  ∀ name d, lookupVar st.vars name = some d → PointsAt Q st name d

/-- what a relation between table entries and their definitions has to survive: the rewrite of a custom
    property (table and declaration get the new value) and a direct rewrite of a declaration the tool takes
    for a `color` declaration -/
structure DefRel (Q : Str → VarDef → Decl → Prop) : Prop where
  rewrite : ∀ name d dd v, Q name d dd → Q name { d with value := v } { dd with value := v ++ dd.comments }
  direct : ∀ name d dd v, Q name d dd → dd.lowerName = "color".toList → Q name d { dd with value := v ++ dd.comments }

/-- the relation the model keeps between a table value and the value of the defining declaration: as
    collected (`strip` of the declaration's value) or as rewritten (the value, then the kept comments) —
    unless the tool takes the definition itself for a `color` declaration -/
def DefAgrees (env : CliEnv) (_ : Str) (d : VarDef) (dd : Decl) : Prop :=
  dd.lowerName = "color".toList ∨ d.value = strip env dd.value ∨ dd.value = d.value ++ dd.comments

theorem defAgrees_rel (env : CliEnv) : DefRel (DefAgrees env) where
  rewrite := fun _ _ _ _ h => by
    rcases h with h | _ | _
    · exact .inl h
    · exact .inr (.inr rfl)
    · exact .inr (.inr rfl)
  direct := fun _ _ _ _ _ hc => .inl hc

/-- the relation that holds for `--x` once it has been rewritten: the declaration holds the table value,
    then the kept comments -/
def TightFor (x : Str) (name : Str) (d : VarDef) (dd : Decl) : Prop :=
  name = x → dd.lowerName = "color".toList ∨ dd.value = d.value ++ dd.comments

theorem tightFor_rel (x : Str) : DefRel (TightFor x) where
  rewrite := fun _ _ _ _ _ _ => .inr rfl
  direct := fun _ _ _ _ _ hc _ => .inl hc

theorem PointsAt.mono {Q Q' : Str → VarDef → Decl → Prop} {st : St} {name : Str} {d : VarDef}
    (hQ : ∀ dd, Q name d dd → Q' name d dd) (h : PointsAt Q st name d) : PointsAt Q' st name d := by
  obtain ⟨its, dd, h1, h2, h3, h4⟩ := h
  exact ⟨its, dd, h1, h2, h3, hQ _ h4⟩

theorem VarsInv.mono {Q Q' : Str → VarDef → Decl → Prop} {st : St} (hQ : ∀ n d dd, Q n d dd → Q' n d dd)
    (h : VarsInv Q st) : VarsInv Q' st := fun n d hl => (h n d hl).mono (hQ n d)

theorem PointsAt.congr {Q : Str → VarDef → Decl → Prop} {s t : St} (h : s.rootDecls = t.rootDecls) {name : Str} {d : VarDef}
    (hp : PointsAt Q s name d) : PointsAt Q t name d := by
  obtain ⟨its, dd, h1, h2⟩ := hp
  refine ⟨its, dd, ?_, h2⟩
  unfold getRoot at h1 ⊢; rw [← h]; exact h1

theorem VarsInv.congr {Q : Str → VarDef → Decl → Prop} {s t : St} (h : StRel s t) (hi : VarsInv Q s) : VarsInv Q t := by
  intro name d hl
  rw [← h.1] at hl
  exact (hi name d hl).congr h.2

/-! ## one rule -/

theorem lookupVar_map_set_ne (name : Str) (v : Str) (n' : Str) (hne : n' ≠ name) : (vars : Vars) →
    lookupVar (vars.map fun kv => if kv.1 = name then (name, { kv.2 with value := v }) else kv) n' = lookupVar vars n'
  | [] => rfl
  | kv :: r => by
    have ih := lookupVar_map_set_ne name v n' hne r
    unfold lookupVar at ih ⊢
    simp only [List.map_cons, List.find?_cons]
    by_cases h : kv.1 = name
    · have h2 : ¬ name = n' := fun e => hne e.symm
      have h3 : ¬ kv.1 = n' := fun e => hne (e.symm.trans h)
      simp only [h, if_true, h2, decide_false] at ih ⊢
      rw [h] at h3
      exact ih
    · simp only [h, if_false]
      by_cases h3 : kv.1 = n'
      · simp only [h3, decide_true]
      · simp only [h3, decide_false]; exact ih

/-- rewriting a custom property keeps the table pointing at the definitions -/
theorem rewriteVar_varsInv {Q : Str → VarDef → Decl → Prop} (hQ : DefRel Q) (st1 : St) (name : Str) (d : VarDef) (v : Str)
    (hi : VarsInv Q st1) (hl : lookupVar st1.vars name = some d) : VarsInv Q (rewriteVar st1 name d v) := by
  obtain ⟨its, dd, hg, hit, hn, hq⟩ := hi name d hl
  intro n' d' hl'
  rw [rewriteVar_vars] at hl'
  by_cases hnn : n' = name
  · subst hnn
    rw [lookupVar_map_set, hl] at hl'
    cases hl'
    refine ⟨setDeclValue its d.item v, { dd with value := v ++ dd.comments }, ?_, ?_, hn, hQ.rewrite _ _ _ _ hq⟩
    · rw [getRoot_rewriteVar, hg]; simp
    · rw [setDeclValue_getElem?, hit]; simp [setVal]
  · rw [lookupVar_map_set_ne name v n' hnn] at hl'
    obtain ⟨its', dd', hg', hit', hn', hq'⟩ := hi n' d' hl'
    by_cases hr : d.rule = d'.rule
    · have e : its' = its := by rw [hr, hg'] at hg; cases hg; rfl
      subst e
      have hne : d'.item ≠ d.item := by
        intro e; rw [e, hit] at hit'; cases hit'; exact hnn (hn'.symm.trans hn)
      refine ⟨setDeclValue its' d.item v, dd', ?_, ?_, hn', hq'⟩
      · rw [getRoot_rewriteVar, hg]; simp [hr]
      · rw [setDeclValue_getElem?, hit']; simp [hne]
    · refine ⟨its', dd', ?_, hit', hn', hq'⟩
      rw [getRoot_rewriteVar, hg]; simp [hr, hg']

/-- a direct rewrite of a (possibly shared) rule keeps the table pointing at the definitions -/
theorem shareBack_varsInv {Q : Str → VarDef → Decl → Prop} (hQ : DefRel Q) (top : Option Nat) (st : St) (f : Fixed)
    (items0 : List Item) (ci : Nat) (cd : Decl) (v : Str) (hi : VarsInv Q st)
    (hl : lastDecl (seenItems top items0 st) "color".toList = some (ci, cd)) :
    VarsInv Q (shareBack top st (tuneSt st f) (setDeclValue (seenItems top items0 st) ci v)) := by
  unfold shareBack
  cases hs : sharedOf top st with
  | none => exact hi.congr (s := st) ⟨rfl, rfl⟩
  | some p =>
    obtain ⟨i, its⟩ := p
    rw [seenItems_of_shared items0 hs] at hl ⊢
    have hgi := (sharedOf_some hs).2
    obtain ⟨hci, hcol⟩ := lastDecl_getElem? _ _ _ _ hl
    intro n' d' hl'
    obtain ⟨its', dd', hg', hit', hn', hq'⟩ := hi n' d' hl'
    have e0 : ∀ j, getRoot (tuneSt st f) j = getRoot st j := fun _ => rfl
    by_cases hr : i = d'.rule
    · have e : its' = its := by rw [← hr, hgi] at hg'; cases hg'; rfl
      subst e
      by_cases hitem : d'.item = ci
      · have : dd' = cd := by rw [hitem, hci] at hit'; cases hit'; rfl
        subst this
        refine ⟨setDeclValue its' ci v, { dd' with value := v ++ dd'.comments }, ?_, ?_, hn', hQ.direct _ _ _ _ hq' hcol⟩
        · rw [getRoot_setRoot, e0, ← hr, hgi]; simp
        · rw [setDeclValue_getElem?, hit']; simp [hitem, setVal]
      · refine ⟨setDeclValue its' ci v, dd', ?_, ?_, hn', hq'⟩
        · rw [getRoot_setRoot, e0, ← hr, hgi]; simp
        · rw [setDeclValue_getElem?, hit']; simp [hitem]
    · refine ⟨its', dd', ?_, hit', hn', hq'⟩
      rw [getRoot_setRoot, e0]; simp [hr, hg']

/-- every rule the tool processes — whatever branch, also when re-serialising fails — keeps the table
    pointing at the definitions -/
theorem processRule_varsInv {Q : Str → VarDef → Decl → Prop} (hQ : DefRel Q) (env : CliEnv) (cfg : Cfg) (top : Option Nat)
    (sel : Str) (items0 : List Item) (st : St) (hi : VarsInv Q st) :
    VarsInv Q (resSt (processRule env cfg top sel items0 st)) := by
  have hs := processRule_step env cfg top sel items0 st
  generalize processRule env cfg top sel items0 st = res at hs ⊢
  cases hs with
  | noColor h => exact hi
  | failed ci cd inv h hv => exact hi.congr (s := st) ⟨rfl, rfl⟩
  | accessible ci cd h hv => exact hi.congr (s := st) ⟨rfl, rfl⟩
  | tuned ci cd h hv =>
    have ht := tunedStep_step env cfg top sel items0 st ci cd
    generalize tunedStep env cfg top sel items0 st ci cd = res at ht ⊢
    cases ht with
    | viaVar name d h' =>
      exact rewriteVar_varsInv hQ _ name d _ (hi.congr (s := st) ⟨rfl, rfl⟩) (viaVarOf_some h').2.2
    | unserialisable h' h'' => exact hi.congr (s := st) ⟨rfl, rfl⟩
    | direct h' h'' => exact shareBack_varsInv hQ top st _ items0 ci cd _ hi h

/-! ## the traversal -/

mutual
  theorem processNode_varsInv {Q : Str → VarDef → Decl → Prop} (hQ : DefRel Q) (env : CliEnv) (cfg : Cfg) (top : Option Nat)
      (st : St) (hi : VarsInv Q st) : (n : Node) → VarsInv Q (resSt (processNode env cfg top st n))
    | .rule sel items => by
      have h := processRule_varsInv hQ env cfg top sel items st hi
      rw [processNode_rule]
      cases hres : processRule env cfg top sel items st with
      | error e => rw [hres] at h; exact h
      | ok p => obtain ⟨items', st'⟩ := p; rw [hres] at h; exact h
    | .at kw pre body => by
      rw [processNode_at]
      by_cases hk : isNested kw = true
      · have ih := processNodes_varsInv hQ env cfg st hi body
        simp only [hk, if_true]
        cases hres : processNodes env cfg st body with
        | error e => rw [hres] at ih; exact ih
        | ok p =>
          obtain ⟨body', st'⟩ := p
          rw [hres] at ih
          simp only
          split <;> exact ih
      · simp only [hk]; exact hi
    | .other t ok => by rw [processNode_other]; exact hi
  theorem processNodes_varsInv {Q : Str → VarDef → Decl → Prop} (hQ : DefRel Q) (env : CliEnv) (cfg : Cfg)
      (st : St) (hi : VarsInv Q st) : (ns : List Node) → VarsInv Q (resSt (processNodes env cfg st ns))
    | [] => by rw [processNodes_nil]; exact hi
    | n :: ns => by
      have ih1 := processNode_varsInv hQ env cfg none st hi n
      rw [processNodes_cons]
      cases hres : processNode env cfg none st n with
      | error e => rw [hres] at ih1; exact ih1
      | ok p =>
        obtain ⟨n', st1⟩ := p
        rw [hres] at ih1
        have ih2 := processNodes_varsInv hQ env cfg st1 ih1 ns
        simp only
        cases hres2 : processNodes env cfg st1 ns with
        | error e => rw [hres2] at ih2; exact ih2
        | ok q => obtain ⟨ns', st2⟩ := q; rw [hres2] at ih2; exact ih2
end

theorem processTop_varsInv {Q : Str → VarDef → Decl → Prop} (hQ : DefRel Q) (env : CliEnv) (cfg : Cfg) :
    (ns : List Node) → (i : Nat) → (st : St) → VarsInv Q st → VarsInv Q (resSt (processTop env cfg ns i st))
  | [], i, st, hi => by rw [processTop_nil]; exact hi
  | n :: ns, i, st, hi => by
    have ih1 := processNode_varsInv hQ env cfg (topOf n i) st hi n
    rw [processTop_cons]
    cases hres : processNode env cfg (topOf n i) st n with
    | error e => rw [hres] at ih1; exact ih1
    | ok p =>
      obtain ⟨n', st1⟩ := p
      rw [hres] at ih1
      have ih2 := processTop_varsInv hQ env cfg ns (i + 1) st1 ih1
      simp only
      cases hres2 : processTop env cfg ns (i + 1) st1 with
      | error e => rw [hres2] at ih2; exact ih2
      | ok q => obtain ⟨ns', st2⟩ := q; rw [hres2] at ih2; exact ih2

/-! ## the pre-pass -/

theorem find_filter_ne (n m : Str) (h : ¬ n = m) : (v : Vars) →
    (v.filter (·.1 ≠ n)).find? (·.1 = m) = v.find? (·.1 = m)
  | [] => rfl
  | kv :: r => by
    have ih := find_filter_ne n m h r
    by_cases h1 : kv.1 = n
    · have h2 : ¬ kv.1 = m := fun e => h (h1.symm.trans e)
      rw [List.filter_cons_of_neg (by simp [h1]), List.find?_cons_of_neg (by simp [h2])]; exact ih
    · rw [List.filter_cons_of_pos (by simp [h1])]
      by_cases h2 : kv.1 = m
      · rw [List.find?_cons_of_pos (by simp [h2]), List.find?_cons_of_pos (by simp [h2])]
      · rw [List.find?_cons_of_neg (by simp [h2]), List.find?_cons_of_neg (by simp [h2])]; exact ih

theorem lookupVar_cons_filter (n : Str) (x : VarDef) (v : Vars) (m : Str) :
    lookupVar ((n, x) :: v.filter (·.1 ≠ n)) m = if n = m then some x else lookupVar v m := by
  unfold lookupVar
  by_cases h : n = m
  · rw [List.find?_cons_of_pos (by simp [h]), if_pos h]; rfl
  · rw [List.find?_cons_of_neg (by simp [h]), if_neg h, find_filter_ne n m h]

/-- what `collectVars` answers with: an old answer, or a `--` declaration of the list, with its index -/
theorem collectVars_go_good (env : CliEnv) (ruleIdx : Nat) (G : Str → VarDef → Prop) :
    (rest : List Item) → (k : Nat) → (v : Vars) → (∀ n d, lookupVar v n = some d → G n d) →
    (∀ j dd, rest[j]? = some (.decl dd) → G dd.name { rule := ruleIdx, item := k + j, value := strip env dd.value }) →
    ∀ n d, lookupVar (collectVars.go env ruleIdx rest k v) n = some d → G n d
  | [], k, v, hv, _ => by simpa only [collectVars.go] using hv
  | .decl dd :: r, k, v, hv, hnew => by
    have hnew' : ∀ j dd', r[j]? = some (.decl dd') →
        G dd'.name { rule := ruleIdx, item := (k + 1) + j, value := strip env dd'.value } := by
      intro j dd' hj
      have := hnew (j + 1) dd' (by simpa using hj)
      rwa [show k + (j + 1) = k + 1 + j by omega] at this
    simp only [collectVars.go]
    split
    · refine collectVars_go_good env ruleIdx G r (k + 1) _ ?_ hnew'
      intro n d hl
      rw [lookupVar_cons_filter] at hl
      split at hl
      · next e => cases hl; subst e; exact hnew 0 dd rfl
      · exact hv n d hl
    · exact collectVars_go_good env ruleIdx G r (k + 1) v hv hnew'
  | .other _ _ :: r, k, v, hv, hnew => by
    simp only [collectVars.go]
    refine collectVars_go_good env ruleIdx G r (k + 1) v hv ?_
    intro j dd' hj
    have := hnew (j + 1) dd' (by simpa using hj)
    rwa [show k + (j + 1) = k + 1 + j by omega] at this

theorem getRoot_append_old (st : St) (vars : Vars) (i : Nat) (items : List Item) (j : Nat) (its : List Item)
    (h : getRoot st j = some its) :
    getRoot { st with rootDecls := st.rootDecls ++ [(i, items)], vars := vars } j = some its := by
  unfold getRoot at h ⊢
  simp only [List.find?_append]
  cases hf : st.rootDecls.find? (·.1 = j) with
  | none => simp [hf] at h
  | some kv => simpa [hf] using h

theorem getRoot_append_new (st : St) (vars : Vars) (i : Nat) (items : List Item) (hlt : ∀ kv ∈ st.rootDecls, kv.1 < i) :
    getRoot { st with rootDecls := st.rootDecls ++ [(i, items)], vars := vars } i = some items := by
  unfold getRoot
  simp only [List.find?_append]
  have : st.rootDecls.find? (·.1 = i) = none := by
    rw [List.find?_eq_none]
    intro kv hkv; have := hlt kv hkv; simp; omega
  simp [this]

theorem prePass_go_varsInv {Q : Str → VarDef → Decl → Prop} (env : CliEnv)
    (hinit : ∀ r k dd, Q dd.name { rule := r, item := k, value := strip env dd.value } dd) :
    (ns : List Node) → (i : Nat) → (st : St) → (∀ kv ∈ st.rootDecls, kv.1 < i) → VarsInv Q st →
    VarsInv Q (prePass.go env ns i st)
  | [], _, st, _, hi => by simpa only [prePass.go] using hi
  | .rule sel items :: r, i, st, hlt, hi => by
    simp only [prePass.go]
    split
    · refine prePass_go_varsInv env hinit r (i + 1) _ ?_ ?_
      · intro kv hkv
        simp only [List.mem_append, List.mem_singleton] at hkv
        rcases hkv with h | h
        · have := hlt kv h; omega
        · subst h; simp
      · intro n d hl
        refine collectVars_go_good env i
          (PointsAt Q { st with rootDecls := st.rootDecls ++ [(i, items)], vars := collectVars env i items st.vars })
          items 0 st.vars ?_ ?_ n d hl
        · intro n d hl
          obtain ⟨its, dd, h1, h2⟩ := hi n d hl
          exact ⟨its, dd, getRoot_append_old st _ i items _ its h1, h2⟩
        · intro j dd hj
          refine ⟨items, dd, getRoot_append_new st _ i items hlt, ?_, rfl, hinit _ _ _⟩
          simpa using hj
    · exact prePass_go_varsInv env hinit r (i + 1) st (fun kv h => by have := hlt kv h; omega) hi
  | .at _ _ _ :: r, i, st, hlt, hi => by
    simp only [prePass.go]
    exact prePass_go_varsInv env hinit r (i + 1) st (fun kv h => by have := hlt kv h; omega) hi
  | .other _ _ :: r, i, st, hlt, hi => by
    simp only [prePass.go]
    exact prePass_go_varsInv env hinit r (i + 1) st (fun kv h => by have := hlt kv h; omega) hi

/-- the pre-pass establishes the invariant -/
theorem prePass_varsInv {Q : Str → VarDef → Decl → Prop} (env : CliEnv)
    (hinit : ∀ r k dd, Q dd.name { rule := r, item := k, value := strip env dd.value } dd) (nodes : List Node) :
    VarsInv Q (prePass env nodes) := by
  unfold prePass
  refine prePass_go_varsInv env hinit nodes 0 {} (by intro kv h; simp at h) ?_
  intro n d h; simp [lookupVar] at h

theorem fileSt_varsInv {Q : Str → VarDef → Decl → Prop} (env : CliEnv)
    (hinit : ∀ r k dd, Q dd.name { rule := r, item := k, value := strip env dd.value } dd) (nodes : List Node) (st0 : St) :
    VarsInv Q (fileSt env nodes st0) :=
  (prePass_varsInv env hinit nodes).congr ⟨rfl, rfl⟩

theorem defAgrees_init (env : CliEnv) (r k : Nat) (dd : Decl) :
    DefAgrees env dd.name { rule := r, item := k, value := strip env dd.value } dd := .inr (.inl rfl)

/-! ## the written file -/

theorem sameShapeNodes_rule_at : (ns ns' : List Node) → sameShapeNodes ns ns' →
    ∀ (i : Nat) (sel : Str) (a : List Item), ns[i]? = some (.rule sel a) → ∃ b, ns'[i]? = some (.rule sel b)
  | [], [], _ => by intro i sel a h; simp at h
  | x :: xs, y :: ys, h => by
    obtain ⟨h1, h2⟩ := sameShapeNodes_cons.1 h
    intro i sel a hi
    cases i with
    | zero =>
      simp at hi; subst hi
      cases y with
      | rule s' b => exact ⟨b, by rw [(sameShapeNode_rule.1 h1).1]; rfl⟩
      | «at» k p b => simp only [sameShapeNode] at h1
      | other t ok => simp only [sameShapeNode] at h1
    | succ j =>
      obtain ⟨b, hb⟩ := sameShapeNodes_rule_at xs ys h2 j sel a (by simpa using hi)
      exact ⟨b, by simpa using hb⟩
  | [], _ :: _, h => by simp only [sameShapeNodes] at h
  | _ :: _, [], h => by simp only [sameShapeNodes] at h

theorem processFile_snd (env : CliEnv) (cfg : Cfg) (nodes : List Node) (st0 : St) :
    (processFile env cfg nodes st0).2 = resSt (processTop env cfg nodes 0 (fileSt env nodes st0)) := by
  rw [processFile_eq]
  cases processTop env cfg nodes 0 (fileSt env nodes st0) with
  | error e => rfl
  | ok p => obtain ⟨nodes', st'⟩ := p; simp only [resSt]; split <;> rfl

/-- whatever the outcome of a file, the table it leaves points at the definitions in the blocks it leaves -/
theorem processFile_varsInv {Q : Str → VarDef → Decl → Prop} (hQ : DefRel Q) (env : CliEnv) (cfg : Cfg)
    (hinit : ∀ r k dd, Q dd.name { rule := r, item := k, value := strip env dd.value } dd) (nodes : List Node) (st0 : St) :
    VarsInv Q (processFile env cfg nodes st0).2 := by
  rw [processFile_snd]
  exact processTop_varsInv hQ env cfg nodes 0 _ (fileSt_varsInv env hinit nodes st0)

/-- in a written file, the top-level rule a shared block belongs to is written with that block -/
theorem processFile_written_root (env : CliEnv) (cfg : Cfg) (nodes : List Node) (st0 : St) (out : List Node) (st' : St)
    (h : processFile env cfg nodes st0 = (.written out, st')) (i : Nat) (its : List Item) (hg : getRoot st' i = some its) :
    ∃ sel, out[i]? = some (.rule sel its) ∧ isRootSel sel = true := by
  have hinv : RootInv nodes 0 (fileSt env nodes st0).rootDecls := prePass_rootInv env nodes
  have hspec := processTop_spec env cfg nodes 0 (fileSt env nodes st0) hinv
  rw [processFile_eq] at h
  cases hres : processTop env cfg nodes 0 (fileSt env nodes st0) with
  | error e => rw [hres] at h; cases h
  | ok p =>
    obtain ⟨nodes', st1⟩ := p
    rw [hres] at h hspec
    simp only at h
    split at h
    · cases h
      obtain ⟨hshape, _, hle⟩ := hspec
      obtain ⟨kv, hkv, e, _⟩ := hle _ (getRoot_mem hg)
      obtain ⟨sel, hsel, hroot⟩ := prePass_roots env nodes kv hkv
      simp only at e
      rw [e] at hsel
      obtain ⟨b, hb⟩ := sameShapeNodes_rule_at nodes nodes' hshape i sel kv.2 hsel
      refine ⟨sel, ?_, hroot⟩
      rw [List.getElem?_mapIdx, hb]
      simp only [Option.map, postNode, hg]
    · cases h

/-! ## the per-rule trace of a run -/

/-- one successful call of `processRule`: its arguments, the state before and the state after -/
structure RuleVisit where
  top : Option Nat
  sel : Str
  items0 : List Item
  before : St
  after : St

mutual
  /-- the rules the tool visits in a node, in processing order, with the states around each -/
  def traceNode (env : CliEnv) (cfg : Cfg) (top : Option Nat) (st : St) : Node → List RuleVisit
    | .rule sel items =>
      match processRule env cfg top sel items st with
      | .ok (_, st') => [{ top := top, sel := sel, items0 := items, before := st, after := st' }]
      | .error _ => []
    | .at kw _ body => if isNested kw then traceNodes env cfg st body else []
    | .other _ _ => []
  def traceNodes (env : CliEnv) (cfg : Cfg) (st : St) : List Node → List RuleVisit
    | [] => []
    | n :: ns => traceNode env cfg none st n ++
        (match processNode env cfg none st n with
         | .ok (_, st1) => traceNodes env cfg st1 ns
         | .error _ => [])
end

def traceTop (env : CliEnv) (cfg : Cfg) : List Node → Nat → St → List RuleVisit
  | [], _, _ => []
  | n :: ns, i, st => traceNode env cfg (topOf n i) st n ++
      (match processNode env cfg (topOf n i) st n with
       | .ok (_, st1) => traceTop env cfg ns (i + 1) st1
       | .error _ => [])

/-- the visits of one file, in processing order -/
def fileTrace (env : CliEnv) (cfg : Cfg) (nodes : List Node) (st0 : St) : List RuleVisit :=
  traceTop env cfg nodes 0 (fileSt env nodes st0)

/-- `v` records a successful `processRule` call -/
def IsVisit (env : CliEnv) (cfg : Cfg) (v : RuleVisit) : Prop :=
  ∃ items', processRule env cfg v.top v.sel v.items0 v.before = .ok (items', v.after)

/-- the visits lead from `st` to `st'`: each starts where the previous one ended -/
def Chained (env : CliEnv) (cfg : Cfg) : St → List RuleVisit → St → Prop
  | st, [], st' => st = st'
  | st, v :: r, st' => v.before = st ∧ IsVisit env cfg v ∧ Chained env cfg v.after r st'

theorem Chained.append {env : CliEnv} {cfg : Cfg} : {a b c : St} → {l1 l2 : List RuleVisit} →
    Chained env cfg a l1 b → Chained env cfg b l2 c → Chained env cfg a (l1 ++ l2) c
  | _, _, _, [], _, h1, h2 => by simp only [Chained] at h1; subst h1; exact h2
  | _, _, _, v :: r, _, h1, h2 => by
    simp only [Chained, List.cons_append] at h1 ⊢
    exact ⟨h1.1, h1.2.1, h1.2.2.append h2⟩

theorem Chained.split {env : CliEnv} {cfg : Cfg} : {a c : St} → (l1 : List RuleVisit) → {l2 : List RuleVisit} →
    Chained env cfg a (l1 ++ l2) c → ∃ b, Chained env cfg a l1 b ∧ Chained env cfg b l2 c
  | a, _, [], _, h => ⟨a, rfl, h⟩
  | _, _, v :: r, _, h => by
    simp only [Chained, List.cons_append] at h
    obtain ⟨b, h1, h2⟩ := Chained.split r h.2.2
    exact ⟨b, ⟨h.1, h.2.1, h1⟩, h2⟩

mutual
  theorem processNode_chained (env : CliEnv) (cfg : Cfg) (top : Option Nat) (st : St) : (n : Node) → (n' : Node) →
      (st' : St) → processNode env cfg top st n = .ok (n', st') → Chained env cfg st (traceNode env cfg top st n) st'
    | .rule sel items, n', st', h => by
      rw [processNode_rule] at h
      simp only [traceNode]
      cases hres : processRule env cfg top sel items st with
      | error e => rw [hres] at h; cases h
      | ok p =>
        obtain ⟨its, st1⟩ := p
        rw [hres] at h
        cases h
        exact ⟨rfl, ⟨its, hres⟩, rfl⟩
    | .at kw pre body, n', st', h => by
      rw [processNode_at] at h
      simp only [traceNode]
      by_cases hk : isNested kw = true
      · simp only [hk, if_true] at h ⊢
        cases hres : processNodes env cfg st body with
        | error e => rw [hres] at h; cases h
        | ok p =>
          obtain ⟨body', st1⟩ := p
          rw [hres] at h
          simp only at h
          split at h
          · cases h; exact processNodes_chained env cfg st body body' st' hres
          · cases h
      · simp only [hk] at h ⊢
        cases h; exact rfl
    | .other t ok, n', st', h => by
      rw [processNode_other] at h; cases h; simp only [traceNode]; exact rfl
  theorem processNodes_chained (env : CliEnv) (cfg : Cfg) (st : St) : (ns : List Node) → (ns' : List Node) → (st' : St) →
      processNodes env cfg st ns = .ok (ns', st') → Chained env cfg st (traceNodes env cfg st ns) st'
    | [], ns', st', h => by rw [processNodes_nil] at h; cases h; simp only [traceNodes]; exact rfl
    | n :: ns, ns', st', h => by
      rw [processNodes_cons] at h
      simp only [traceNodes]
      cases h1 : processNode env cfg none st n with
      | error e => rw [h1] at h; cases h
      | ok p =>
        obtain ⟨n1, st1⟩ := p
        rw [h1] at h
        simp only at h ⊢
        cases h2 : processNodes env cfg st1 ns with
        | error e => rw [h2] at h; cases h
        | ok q =>
          obtain ⟨ns1, st2⟩ := q
          rw [h2] at h
          cases h
          exact (processNode_chained env cfg none st n n1 st1 h1).append (processNodes_chained env cfg st1 ns ns1 st' h2)
end

theorem processTop_chained (env : CliEnv) (cfg : Cfg) : (ns : List Node) → (i : Nat) → (st : St) → (ns' : List Node) →
    (st' : St) → processTop env cfg ns i st = .ok (ns', st') → Chained env cfg st (traceTop env cfg ns i st) st'
  | [], i, st, ns', st', h => by rw [processTop_nil] at h; cases h; simp only [traceTop]; exact rfl
  | n :: ns, i, st, ns', st', h => by
    rw [processTop_cons] at h
    simp only [traceTop]
    cases h1 : processNode env cfg (topOf n i) st n with
    | error e => rw [h1] at h; cases h
    | ok p =>
      obtain ⟨n1, st1⟩ := p
      rw [h1] at h
      simp only at h ⊢
      cases h2 : processTop env cfg ns (i + 1) st1 with
      | error e => rw [h2] at h; cases h
      | ok q =>
        obtain ⟨ns1, st2⟩ := q
        rw [h2] at h
        cases h
        exact (processNode_chained env cfg _ st n n1 st1 h1).append (processTop_chained env cfg ns (i + 1) st1 ns1 st' h2)

/-- a written file's visits lead from the pre-pass state to the final state -/
theorem processFile_chained (env : CliEnv) (cfg : Cfg) (nodes : List Node) (st0 : St) (out : List Node) (st' : St)
    (h : processFile env cfg nodes st0 = (.written out, st')) :
    Chained env cfg (fileSt env nodes st0) (fileTrace env cfg nodes st0) st' := by
  rw [processFile_eq] at h
  cases hres : processTop env cfg nodes 0 (fileSt env nodes st0) with
  | error e => rw [hres] at h; cases h
  | ok p =>
    obtain ⟨nodes', st1⟩ := p
    rw [hres] at h
    simp only at h
    split at h
    · cases h; exact processTop_chained env cfg nodes 0 _ nodes' st' hres
    · cases h

theorem Chained.varsInv {Q : Str → VarDef → Decl → Prop} (hQ : DefRel Q) {env : CliEnv} {cfg : Cfg} :
    {st st' : St} → {l : List RuleVisit} → Chained env cfg st l st' → VarsInv Q st → VarsInv Q st'
  | _, _, [], h, hi => by simp only [Chained] at h; subst h; exact hi
  | _, _, v :: r, h, hi => by
    simp only [Chained] at h
    obtain ⟨h1, ⟨items', h2⟩, h3⟩ := h
    subst h1
    have := processRule_varsInv hQ env cfg v.top v.sel v.items0 v.before hi
    rw [h2] at this
    exact h3.varsInv hQ this

theorem Chained.fixedSuffix {env : CliEnv} {cfg : Cfg} :
    {st st' : St} → {l : List RuleVisit} → Chained env cfg st l st' → st.fixedDetails <:+ st'.fixedDetails
  | _, _, [], h => by simp only [Chained] at h; subst h; exact List.suffix_refl _
  | _, _, v :: r, h => by
    simp only [Chained] at h
    obtain ⟨h1, ⟨items', h2⟩, h3⟩ := h
    subst h1
    have := (processRule_grew env cfg v.top v.sel v.items0 v.before).fixedSuffix
    rw [h2] at this
    exact this.trans h3.fixedSuffix

/-- visits that leave the table entry of `name` alone leave it alone -/
theorem Chained.lookup_unchanged {env : CliEnv} {cfg : Cfg} (name : Str) :
    {st st' : St} → {l : List RuleVisit} → Chained env cfg st l st' →
    (∀ w ∈ l, lookupVar w.after.vars name = lookupVar w.before.vars name) →
    lookupVar st'.vars name = lookupVar st.vars name
  | _, _, [], h, _ => by simp only [Chained] at h; subst h; rfl
  | _, _, v :: r, h, hl => by
    simp only [Chained] at h
    obtain ⟨h1, _, h3⟩ := h
    subst h1
    rw [h3.lookup_unchanged name (fun w hw => hl w (List.mem_cons_of_mem _ hw))]
    exact hl v (List.mem_cons_self ..)

/-! ## a rule adjusted through a custom property -/

/-- what `processRule` returns for a rule adjusted through `var(--x)` -/
theorem processRule_viaVar_eq (env : CliEnv) (cfg : Cfg) (top : Option Nat) (sel : Str) (items0 : List Item) (st : St)
    (ci : Nat) (cd : Decl) (hl : lastDecl (seenItems top items0 st) "color".toList = some (ci, cd))
    (hv : verdict (evalOf env cfg st (seenItems top items0 st) cd) = .tuned)
    (name : Str) (d : VarDef) (hvar : viaVarOf env st (strip env cd.value) = some (name, d)) :
    processRule env cfg top sel items0 st = .ok (
      itemsAfterVar top (seenItems top items0 st)
        (rewriteVar (tuneSt st (fixedOf env cfg st sel (seenItems top items0 st) cd)) name d
          (evalOf env cfg st (seenItems top items0 st) cd).tuned),
      rewriteVar (tuneSt st (fixedOf env cfg st sel (seenItems top items0 st) cd)) name d
          (evalOf env cfg st (seenItems top items0 st) cd).tuned) := by
  have h := processRule_verdict env cfg top sel items0 st ci cd hl
  rw [hv] at h
  simp only at h
  rw [h]
  simp only [tunedStep, hvar]

/-- right after `--x` is rewritten, its definition holds the table value followed by the kept comments -/
theorem rewriteVar_tight {Q : Str → VarDef → Decl → Prop} (hQ : DefRel Q) (st1 : St) (name : Str) (d : VarDef) (v : Str)
    (hi : VarsInv Q st1) (hl : lookupVar st1.vars name = some d) : VarsInv (TightFor name) (rewriteVar st1 name d v) := by
  have hafter := rewriteVar_varsInv hQ st1 name d v hi hl
  obtain ⟨its, dd, hg, hit, hn, _⟩ := hi name d hl
  intro n' d' hl'
  by_cases hnn : n' = name
  · subst hnn
    rw [rewriteVar_vars, lookupVar_map_set, hl] at hl'
    cases hl'
    refine ⟨setDeclValue its d.item v, { dd with value := v ++ dd.comments }, ?_, ?_, hn, fun _ => .inr rfl⟩
    · rw [getRoot_rewriteVar, hg]; simp
    · rw [setDeclValue_getElem?, hit]; simp [setVal]
  · exact (hafter n' d' hl').mono (fun _ _ e => (hnn e).elim)

/-- the invariant of the custom-property table: every entry `(--x, d)` the table answers with points at a
    declaration named `--x` (item `d.item` of the shared block of the top-level rule `d.rule`) whose value
    agrees with the entry's (`DefAgrees`) -/
def VarsPointAtDefs (env : CliEnv) (st : St) : Prop := VarsInv (DefAgrees env) st

end Cm.Cli

namespace Cm.Cli.Demo
open Cm Cm.Cli

/-- `:root { --c: #777 } p { color: var(--c) } b { color: #888 }` -/
def sheetVarOnce : List Node :=
  [ .rule ":root".toList [mkDecl "--c" " #777"],
    .rule "p".toList [mkDecl "color" " var(--c)"],
    .rule "b".toList [mkDecl "color" " #888"] ]

def sheetVarOnceOut : List Node :=
  [ .rule ":root".toList [mkDecl "--c" "#111"],
    .rule "p".toList [mkDecl "color" " var(--c)"],
    .rule "b".toList [mkDecl "color" "#111"] ]

/-- the custom property a visit adjusts its rule through, with the position of its definition (decidable
    form of the hypotheses of `reported_is_written_var_of_no_readjust`) -/
def visitVia (env : CliEnv) (cfg : Cfg) (v : RuleVisit) : Option (Str × Nat × Nat) :=
  match lastDecl (seenItems v.top v.items0 v.before) "color".toList with
  | some (_, cd) =>
    if verdict (evalOf env cfg v.before (seenItems v.top v.items0 v.before) cd) = .tuned then
      (viaVarOf env v.before (strip env cd.value)).map fun p => (p.1, p.2.rule, p.2.item)
    else none
  | none => none

theorem visitVia_spec {env : CliEnv} {cfg : Cfg} {v : RuleVisit} {name : Str} {r i : Nat}
    (h : visitVia env cfg v = some (name, r, i)) :
    ∃ ci cd d, lastDecl (seenItems v.top v.items0 v.before) "color".toList = some (ci, cd) ∧
      verdict (evalOf env cfg v.before (seenItems v.top v.items0 v.before) cd) = .tuned ∧
      viaVarOf env v.before (strip env cd.value) = some (name, d) ∧ d.rule = r ∧ d.item = i := by
  unfold visitVia at h
  split at h
  · next ci cd hl =>
    split at h
    · next hv =>
      cases hvar : viaVarOf env v.before (strip env cd.value) with
      | none => simp [hvar] at h
      | some p =>
        obtain ⟨n, d⟩ := p
        simp [hvar] at h
        obtain ⟨rfl, rfl, rfl⟩ := h
        exact ⟨ci, cd, d, hl, hv, hvar, rfl, rfl⟩
    · cases h
  · cases h

/-- the table entry of a name, as comparable data -/
def entryOf (st : St) (name : Str) : Option (Nat × Nat × Str) :=
  (lookupVar st.vars name).map fun d => (d.rule, d.item, d.value)

theorem lookupVar_eq_of_entryOf {s t : St} {name : Str} (h : entryOf s name = entryOf t name) :
    lookupVar s.vars name = lookupVar t.vars name := by
  unfold entryOf at h
  cases hs : lookupVar s.vars name <;> cases ht : lookupVar t.vars name <;> simp [hs, ht] at h ⊢
  next a b => cases a; cases b; simp at h ⊢; exact ⟨h.1, h.2.1, h.2.2⟩

/-- name and value of the declaration at item `i` of the written top-level rule `r` -/
def writtenDecl (o : FileOutcome) (r i : Nat) : Option (Str × Str) :=
  match o with
  | .written out =>
    (match out[r]? with
     | some (.rule _ its) => (match its[i]? with | some (.decl dd) => some (dd.name, dd.value) | _ => none)
     | _ => none)
  | .error => none

def isWritten : FileOutcome → Bool
  | .written _ => true
  | .error => false

end Cm.Cli.Demo
