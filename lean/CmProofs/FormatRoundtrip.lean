import CmModel.Color
import CmGen.NamedColors
import CmProofs.RatNum
import CmProofs.HslRoundtrip
/-!
# Reading back what `format_color` writes: string-level helpers

Helpers for `CmProps/C06rt.lean`: oracles that agree with ASCII on ASCII (`AsciiFaithful`), the
keyword-table condition (`keysLower`), `strip`/`lower` on already normal text, the hex writer/reader,
the `rgb(r, g, b)` writer/reader (`intStr`, `NumRe.findAll`, `PyFloat.parse` on digit strings).
-/
namespace Cm
namespace FmtRt
open Parse

/-! ## oracles that agree with ASCII on ASCII characters -/

/-- the oracle gives ASCII characters their ASCII classes (true of the Unicode database) -/
structure AsciiFaithful (cls : CharCls) : Prop where
  isSpace : ∀ c : Char, c.toNat < 128 → cls.isSpace c = asciiIsSpace c
  digit : ∀ c : Char, c.toNat < 128 → cls.digit c = asciiDigit c
  lower : ∀ c : Char, c.toNat < 128 → cls.lower c = asciiLower c

theorem asciiFaithful_ascii : AsciiFaithful asciiCls := ⟨fun _ _ => rfl, fun _ _ => rfl, fun _ _ => rfl⟩

/-! ## the keyword table -/

/-- every keyword consists of lower-case ASCII letters only -/
def keysLower (named : List (Str × Str)) : Bool := named.all fun kv => kv.1.all Char.isLower

/-- the keyword table of the Python source as the model's environment holds it -/
def namedEnv : List (Str × Str) := CmGen.namedTable.map fun kv => (kv.1.toList, kv.2.toList)

theorem namedTable_keys_alpha : ∀ kv ∈ CmGen.namedTable, kv.1.toList.all Char.isLower = true := by
  decide +kernel

theorem keysLower_namedEnv : keysLower namedEnv = true := by decide +kernel

theorem lookupNamed_none (E : PEnv) (hk : keysLower E.named = true) (s : Str) (c : Char)
    (hc : c ∈ s) (hcl : c.isLower = false) : lookupNamed E s = none := by
  unfold lookupNamed
  rw [Option.map_eq_none_iff, List.find?_eq_none]
  intro kv hkv heq
  have heq' : kv.1 = s := by simpa using heq
  unfold keysLower at hk
  rw [List.all_eq_true] at hk
  have h1 := hk kv hkv
  rw [List.all_eq_true] at h1
  have h2 := h1 c (heq' ▸ hc)
  rw [hcl] at h2
  cases h2

/-! ## `strip` and `lower` on text that is already normal -/

theorem dropWhile_eq_self {p : Char → Bool} (l : Str) (h : ∀ c, l.head? = some c → p c = false) :
    l.dropWhile p = l := by
  cases l with
  | nil => rfl
  | cons a t => rw [List.dropWhile_cons, if_neg]; rw [h a rfl]; decide

theorem strip_eq_self (cls : CharCls) (s : Str)
    (h1 : ∀ c, s.head? = some c → cls.isSpace c = false)
    (h2 : ∀ c, s.getLast? = some c → cls.isSpace c = false) : Str.strip cls s = s := by
  unfold Str.strip
  rw [dropWhile_eq_self s h1, dropWhile_eq_self s.reverse (by rw [List.head?_reverse]; exact h2),
    List.reverse_reverse]

theorem lower_eq_self (cls : CharCls) (s : Str) (h : ∀ c ∈ s, cls.lower c = [c]) :
    Str.lower cls s = s := by
  unfold Str.lower
  induction s with
  | nil => rfl
  | cons a t ih =>
    rw [List.flatMap_cons, h a (List.mem_cons_self), ih (fun c hc => h c (List.mem_cons_of_mem _ hc))]
    rfl

/-- ASCII, and not an upper-case letter -/
def lowAscii (c : Char) : Bool := decide (c.toNat < 128) && decide (asciiLower c = [c])

theorem lower_of_lowAscii {cls : CharCls} (hf : AsciiFaithful cls) (c : Char) (h : lowAscii c = true) :
    cls.lower c = [c] := by
  unfold lowAscii at h
  rw [Bool.and_eq_true, decide_eq_true_eq, decide_eq_true_eq] at h
  rw [hf.lower c h.1, h.2]

theorem space_of_ascii {cls : CharCls} (hf : AsciiFaithful cls) (c : Char) (h : c.toNat < 128)
    (h' : asciiIsSpace c = false) : cls.isSpace c = false := by
  rw [hf.isSpace c h, h']

/-! ## valid colours are triples of bytes -/

theorem validRgb_nat (c : RGB) (h : validRgb c = true) :
    ∃ r g b : Nat, r < 256 ∧ g < 256 ∧ b < 256 ∧ c = ((r : Int), (g : Int), (b : Int)) := by
  obtain ⟨r, g, b⟩ := c
  unfold validRgb at h
  simp only [Bool.and_eq_true, decide_eq_true_eq] at h
  obtain ⟨⟨⟨hr0, hr1⟩, hg0, hg1⟩, hb0, hb1⟩ := h
  refine ⟨r.toNat, g.toNat, b.toNat, by omega, by omega, by omega, ?_⟩
  rw [Int.toNat_of_nonneg hr0, Int.toNat_of_nonneg hg0, Int.toNat_of_nonneg hb0]

theorem validRgb_of_nat (r g b : Nat) (hr : r < 256) (hg : g < 256) (hb : b < 256) :
    validRgb ((r : Int), (g : Int), (b : Int)) = true := by
  unfold validRgb
  simp only [Bool.and_eq_true, decide_eq_true_eq]
  omega

/-! ## hex -/

/-- the sixteen characters `format(v, "02x")` uses -/
def hexChars : Str := "0123456789abcdef".toList

theorem hexDigit_mem : ∀ n : Fin 16, hexDigit n.val ∈ hexChars := by decide

theorem hexVal_hexDigit : ∀ n : Fin 16, Str.hexVal (hexDigit n.val) = some n.val := by decide

theorem hexChars_ascii : ∀ c ∈ hexChars, c.toNat < 128 ∧ asciiIsSpace c = false ∧ lowAscii c = true ∧
    (c = '#') = False := by decide

/-- the two characters of one byte -/
def hexByte (v : Nat) : Str := [hexDigit (v / 16), hexDigit (v % 16)]

theorem fmtHex_nat (r g b : Nat) :
    fmtHex ((r : Int), (g : Int), (b : Int)) = '#' :: (hexByte r ++ hexByte g ++ hexByte b) := by
  unfold fmtHex hexByte
  simp only [Int.toNat_natCast]

theorem hexDigit_mem' (n : Nat) (h : n < 16) : hexDigit n ∈ hexChars := hexDigit_mem ⟨n, h⟩
theorem hexVal_hexDigit' (n : Nat) (h : n < 16) : Str.hexVal (hexDigit n) = some n :=
  hexVal_hexDigit ⟨n, h⟩

section hex6
variable {cls : CharCls} (hf : AsciiFaithful cls) {a b c d e f : Char}
  (H : ∀ x ∈ [a, b, c, d, e, f], x ∈ hexChars)
include hf H

theorem hex6_strip : Str.strip cls ['#', a, b, c, d, e, f] = ['#', a, b, c, d, e, f] := by
  apply strip_eq_self
  · intro x hx
    simp only [List.head?_cons, Option.some.injEq] at hx
    subst hx
    exact space_of_ascii hf _ (by decide) (by decide)
  · intro x hx
    simp only [List.getLast?_cons_cons, List.getLast?_singleton, Option.some.injEq] at hx
    subst hx
    have := hexChars_ascii _ (H f (by simp))
    exact space_of_ascii hf _ this.1 this.2.1

theorem hex6_lower : Str.lower cls ['#', a, b, c, d, e, f] = ['#', a, b, c, d, e, f] := by
  apply lower_eq_self
  intro x hx
  apply lower_of_lowAscii hf
  rcases List.mem_cons.1 hx with rfl | hx
  · decide
  · exact (hexChars_ascii _ (H _ hx)).2.2.1

theorem hex6_hexToRgb (named : List (Str × Str)) :
    hexToRgb ⟨cls, named⟩ ['#', a, b, c, d, e, f] =
      match Str.hexVal a, Str.hexVal b, Str.hexVal c, Str.hexVal d, Str.hexVal e, Str.hexVal f with
      | some a, some b, some c, some d, some e, some f =>
        .ok (Int.ofNat (16 * a + b), Int.ofNat (16 * c + d), Int.ofNat (16 * e + f))
      | _, _, _, _, _, _ => vErr := by
  unfold hexToRgb
  simp only [hex6_strip hf H]
  have : Str.lstripHash ['#', a, b, c, d, e, f] = [a, b, c, d, e, f] := by
    unfold Str.lstripHash
    rw [List.dropWhile_cons, if_pos (by decide), List.dropWhile_cons, if_neg]
    simp only [decide_eq_true_eq]
    exact fun h => by simpa [h] using (hexChars_ascii _ (H a (by simp))).2.2.2
  rw [this]
  rfl

omit hf H in
theorem hex6_lookup (named : List (Str × Str)) (hk : keysLower named = true) :
    lookupNamed ⟨cls, named⟩ ['#', a, b, c, d, e, f] = none :=
  lookupNamed_none _ hk _ '#' (by simp) (by decide)

theorem hex6_parseStr {α : Type} [Num α] (named : List (Str × Str)) (hk : keysLower named = true)
    (bg : Option RGB) :
    parseStr (α := α) ⟨cls, named⟩ ['#', a, b, c, d, e, f] bg =
      hexToRgb ⟨cls, named⟩ ['#', a, b, c, d, e, f] := by
  unfold parseStr
  simp only [hex6_strip hf H, hex6_lower hf H, hex6_lookup named hk]
  rfl

theorem hex6_detect {α : Type} [Num α] (named : List (Str × Str)) (hk : keysLower named = true) :
    detectFormat (α := α) ⟨cls, named⟩ (.str ['#', a, b, c, d, e, f]) = .hex := by
  unfold detectFormat
  simp only [hex6_strip hf H, hex6_lower hf H, hex6_lookup named hk]
  rfl

end hex6

theorem hexByte_mem (v : Nat) (h : v < 256) : ∀ x ∈ hexByte v, x ∈ hexChars := by
  intro x hx
  simp only [hexByte, List.mem_cons, List.not_mem_nil, or_false] at hx
  rcases hx with rfl | rfl
  · exact hexDigit_mem' _ (by omega)
  · exact hexDigit_mem' _ (by omega)

theorem fmtHex_chars (r g b : Nat) (hr : r < 256) (hg : g < 256) (hb : b < 256) :
    ∀ x ∈ [hexDigit (r / 16), hexDigit (r % 16), hexDigit (g / 16), hexDigit (g % 16),
      hexDigit (b / 16), hexDigit (b % 16)], x ∈ hexChars := by
  intro x hx
  simp only [List.mem_cons, List.not_mem_nil, or_false] at hx
  rcases hx with rfl | rfl | rfl | rfl | rfl | rfl <;> exact hexDigit_mem' _ (by omega)

theorem parseStr_fmtHex {α : Type} [Num α] {cls : CharCls} (hf : AsciiFaithful cls)
    (named : List (Str × Str)) (hk : keysLower named = true) (c : RGB) (hc : validRgb c = true)
    (bg : Option RGB) :
    parseStr (α := α) ⟨cls, named⟩ (fmtHex c) bg = .ok c := by
  obtain ⟨r, g, b, hr, hg, hb, rfl⟩ := validRgb_nat c hc
  rw [fmtHex_nat]
  show parseStr (α := α) ⟨cls, named⟩ ['#', hexDigit (r / 16), hexDigit (r % 16), hexDigit (g / 16),
    hexDigit (g % 16), hexDigit (b / 16), hexDigit (b % 16)] bg = _
  rw [hex6_parseStr hf (fmtHex_chars r g b hr hg hb) named hk,
    hex6_hexToRgb hf (fmtHex_chars r g b hr hg hb)]
  rw [hexVal_hexDigit' _ (by omega), hexVal_hexDigit' _ (by omega), hexVal_hexDigit' _ (by omega),
    hexVal_hexDigit' _ (by omega), hexVal_hexDigit' _ (by omega), hexVal_hexDigit' _ (by omega)]
  show Except.ok (Int.ofNat _, Int.ofNat _, Int.ofNat _) = _
  have e1 : 16 * (r / 16) + r % 16 = r := by omega
  have e2 : 16 * (g / 16) + g % 16 = g := by omega
  have e3 : 16 * (b / 16) + b % 16 = b := by omega
  rw [e1, e2, e3]; rfl

theorem ok_bind {ε β γ : Type} (a : β) (f : β → Except ε γ) : (Except.ok a >>= f) = f a := rfl

theorem clamp255_id (n : Int) (h0 : 0 ≤ n) (h1 : n ≤ 255) : clamp255 n = n := by
  unfold clamp255; omega

theorem rgbComponent_int {α : Type} [Num α] (E : PEnv) (n : Int) (h0 : 0 ≤ n) (h1 : n ≤ 255) :
    rgbComponent (α := α) E (.int n) = .ok n := by
  unfold rgbComponent
  simp only [h0, h1, and_self, if_true]

theorem seq_ints {α : Type} [Num α] (E : PEnv) (c : RGB) (hc : validRgb c = true) (bg : Option RGB) :
    parseColor (α := α) E (.tuple [.int c.1, .int c.2.1, .int c.2.2]) bg = .ok c ∧
    parseColor (α := α) E (.list [.int c.1, .int c.2.1, .int c.2.2]) bg = .ok c := by
  obtain ⟨r, g, b⟩ := c
  have hv := hc
  unfold validRgb at hv
  simp only [Bool.and_eq_true, decide_eq_true_eq] at hv
  obtain ⟨⟨⟨hr0, hr1⟩, hg0, hg1⟩, hb0, hb1⟩ := hv
  constructor <;>
  · unfold parseColor
    simp only [ok_bind, Bool.and_false, Bool.false_eq_true, if_false, rgbComponent_int E r hr0 hr1,
      rgbComponent_int E g hg0 hg1, rgbComponent_int E b hb0 hb1, clamp255_id r hr0 hr1,
      clamp255_id g hg0 hg1, clamp255_id b hb0 hb1, hc, if_true]
    rfl

/-- the ten characters `str(int)` uses -/
def digitChars : Str := "0123456789".toList

theorem digitChars_props : ∀ c ∈ digitChars,
    c.toNat < 128 ∧ asciiIsSpace c = false ∧ lowAscii c = true ∧
    asciiDigit c = some (c.toNat - 48) ∧ PyFloat.isFloatSpace asciiCls c = false ∧
    c ≠ '-' ∧ c ≠ '+' ∧ c ≠ '.' ∧ c ≠ '%' ∧ c ≠ '_' ∧
    c.isLower = false ∧ asciiLower c = [c] ∧ c ≠ 'i' ∧ c ≠ 'n' := by decide

/-- characters between the numbers of `rgb(r, g, b)` -/
def junkChars : Str := "rgb(, )".toList

theorem junkChars_props : ∀ c ∈ junkChars,
    c.toNat < 128 ∧ lowAscii c = true ∧ asciiDigit c = none ∧
    c ≠ '-' ∧ c ≠ '+' ∧ c ≠ '.' ∧ c ≠ '%' := by decide

section
variable {cls : CharCls} (hf : AsciiFaithful cls)
include hf

theorem isDig_digit (c : Char) (hc : c ∈ digitChars) : NumRe.isDig cls c = true := by
  unfold NumRe.isDig
  rw [hf.digit c (digitChars_props c hc).1, (digitChars_props c hc).2.2.2.1]; rfl

theorem dig_digit (c : Char) (hc : c ∈ digitChars) : PyFloat.dig cls c = some (c.toNat - 48) := by
  unfold PyFloat.dig
  rw [hf.digit c (digitChars_props c hc).1, (digitChars_props c hc).2.2.2.1]

theorem isDig_junk (c : Char) (hc : c ∈ junkChars) : NumRe.isDig cls c = false := by
  unfold NumRe.isDig
  rw [hf.digit c (junkChars_props c hc).1, (junkChars_props c hc).2.2.1]; rfl

theorem matchAt_junk (c : Char) (hc : c ∈ junkChars) (cs : Str) :
    NumRe.matchAt cls (c :: cs) = none := by
  obtain ⟨-, -, -, h1, h2, h3, -⟩ := junkChars_props c hc
  have hd := isDig_junk hf c hc
  simp [NumRe.matchAt, NumRe.takeDigits, hd, h1, h2, h3]

theorem matchAt_digits (D : Str) (hD : ∀ c ∈ D, c ∈ digitChars) (hne : D ≠ []) (y : Char)
    (hy : y ∈ junkChars) (rest : Str) :
    NumRe.matchAt cls (D ++ y :: rest) = some (D, y :: rest) := by
  obtain ⟨-, -, -, -, -, h3, h4⟩ := junkChars_props y hy
  have hd := isDig_junk hf y hy
  have tw : (D ++ y :: rest).takeWhile (NumRe.isDig cls) = D := by
    rw [List.takeWhile_append_of_pos (fun c hc => isDig_digit hf c (hD c hc)), List.takeWhile_cons,
      hd]; simp
  have dw : (D ++ y :: rest).dropWhile (NumRe.isDig cls) = y :: rest := by
    rw [List.dropWhile_append_of_pos (fun c hc => isDig_digit hf c (hD c hc)), List.dropWhile_cons,
      hd]; simp
  cases D with
  | nil => exact absurd rfl hne
  | cons x D' =>
    obtain ⟨-, -, -, -, -, h1, h2, -⟩ := digitChars_props x (hD x List.mem_cons_self)
    rw [List.cons_append] at tw dw ⊢
    simp [NumRe.matchAt, NumRe.takeDigits, h1, h2, h3, h4, tw, dw]


omit hf in
theorem go_nil (fuel : Nat) (acc : List Str) : NumRe.findAll.go cls fuel [] acc = acc.reverse := by
  cases fuel <;> rfl

/-- separator characters are skipped one at a time -/
theorem go_junk (P : Str) (hP : ∀ c ∈ P, c ∈ junkChars) (fuel : Nat) (s : Str) (acc : List Str) :
    NumRe.findAll.go cls (fuel + P.length) (P ++ s) acc = NumRe.findAll.go cls fuel s acc := by
  induction P generalizing fuel with
  | nil => rfl
  | cons c P ih =>
    show NumRe.findAll.go cls ((fuel + P.length) + 1) (c :: (P ++ s)) acc = _
    rw [NumRe.findAll.go, matchAt_junk hf c (hP c List.mem_cons_self)]
    exact ih (fun c hc => hP c (List.mem_cons_of_mem _ hc)) fuel

/-- a run of digits followed by a separator is one token -/
theorem go_digits (D : Str) (hD : ∀ c ∈ D, c ∈ digitChars) (hne : D ≠ []) (y : Char)
    (hy : y ∈ junkChars) (rest : Str) (fuel : Nat) (acc : List Str) :
    NumRe.findAll.go cls (fuel + 1) (D ++ y :: rest) acc =
      NumRe.findAll.go cls fuel (y :: rest) (D :: acc) := by
  have hm := matchAt_digits hf D hD hne y hy rest
  cases D with
  | nil => exact absurd rfl hne
  | cons x D' =>
    rw [List.cons_append] at hm ⊢
    rw [NumRe.findAll.go, hm]
    simp only [List.length_cons, List.length_append]
    rw [if_pos (by omega)]


/-- `rgb(D1, D2, D3)` -/
def rgbText (D1 D2 D3 : Str) : Str :=
  'r' :: 'g' :: 'b' :: '(' :: (D1 ++ ',' :: ' ' :: (D2 ++ ',' :: ' ' :: (D3 ++ [')'])))

theorem findAll_rgbText (D1 D2 D3 : Str) (h1 : ∀ c ∈ D1, c ∈ digitChars) (h2 : ∀ c ∈ D2, c ∈ digitChars)
    (h3 : ∀ c ∈ D3, c ∈ digitChars) (n1 : D1 ≠ []) (n2 : D2 ≠ []) (n3 : D3 ≠ []) :
    NumRe.findAll cls (rgbText D1 D2 D3) = [D1, D2, D3] := by
  have l1 := List.length_pos_iff.2 n1
  have l2 := List.length_pos_iff.2 n2
  have l3 := List.length_pos_iff.2 n3
  have hfuel : (rgbText D1 D2 D3).length + 1 =
      (D1.length + D2.length + D3.length - 2) + 1 + 1 + 2 + 1 + 2 + 1 + 4 := by
    simp only [rgbText, List.length_cons, List.length_append, List.length_nil]; omega
  unfold NumRe.findAll
  rw [hfuel]
  generalize D1.length + D2.length + D3.length - 2 = f
  have e1 := go_junk hf ['r', 'g', 'b', '('] (by decide) (f + 1 + 1 + 2 + 1 + 2 + 1)
    (D1 ++ ',' :: ' ' :: (D2 ++ ',' :: ' ' :: (D3 ++ [')']))) []
  have e2 := go_digits hf D1 h1 n1 ',' (by decide) (' ' :: (D2 ++ ',' :: ' ' :: (D3 ++ [')'])))
    (f + 1 + 1 + 2 + 1 + 2) []
  have e3 := go_junk hf [',', ' '] (by decide) (f + 1 + 1 + 2 + 1)
    (D2 ++ ',' :: ' ' :: (D3 ++ [')'])) [D1]
  have e4 := go_digits hf D2 h2 n2 ',' (by decide) (' ' :: (D3 ++ [')'])) (f + 1 + 1 + 2) [D1]
  have e5 := go_junk hf [',', ' '] (by decide) (f + 1 + 1) (D3 ++ [')']) [D2, D1]
  have e6 := go_digits hf D3 h3 n3 ')' (by decide) [] (f + 1) [D2, D1]
  have e7 := go_junk hf [')'] (by decide) f [] [D3, D2, D1]
  rw [go_nil] at e7
  exact e1.trans (e2.trans (e3.trans (e4.trans (e5.trans (e6.trans e7)))))


/-- value of a digit string read from the left, starting from `v` -/
def decFrom (v : Nat) (D : Str) : Nat := D.foldl (fun v c => v * 10 + (c.toNat - 48)) v

theorem digits_go (D : Str) (hD : ∀ c ∈ D, c ∈ digitChars) (v n : Nat) :
    PyFloat.digits.go cls D v n = (decFrom v D, n + D.length, []) := by
  induction D generalizing v n with
  | nil => rfl
  | cons c D ih =>
    rw [PyFloat.digits.go, dig_digit hf c (hD c List.mem_cons_self)]
    simp only []
    rw [ih (fun c hc => hD c (List.mem_cons_of_mem _ hc))]
    simp only [decFrom, List.foldl_cons, List.length_cons]
    congr 2; omega

theorem dropUnderscores_go (D : Str) (hD : ∀ c ∈ D, c ∈ digitChars) (prev : Option Char)
    (hp : prev ≠ some '_') (acc : Str) :
    PyFloat.dropUnderscores.go cls D prev acc = some (acc.reverse ++ D) := by
  induction D generalizing prev acc with
  | nil => rw [PyFloat.dropUnderscores.go, if_neg hp]; simp
  | cons c D ih =>
    have hc := hD c List.mem_cons_self
    have hu : c ≠ '_' := (digitChars_props c hc).2.2.2.2.2.2.2.2.2.1
    unfold PyFloat.dropUnderscores.go
    simp only [if_neg hu, dig_digit hf c hc, Option.isSome_some, Bool.not_true, Bool.and_false,
      Bool.false_eq_true, if_false]
    rw [ih (fun c hc => hD c (List.mem_cons_of_mem _ hc)) (some c) (by simpa using hu)]
    simp

omit hf in
theorem floatSpace_digit (c : Char) (hc : c ∈ digitChars) : PyFloat.isFloatSpace cls c = false := by
  have h := digitChars_props c hc
  have : PyFloat.isFloatSpace cls c = PyFloat.isFloatSpace asciiCls c := by
    unfold PyFloat.isFloatSpace; rw [if_pos h.1, if_pos h.1]
  rw [this, h.2.2.2.2.1]

theorem parse_digits {α : Type} [Num α] (D : Str) (hD : ∀ c ∈ D, c ∈ digitChars) (hne : D ≠ []) :
    PyFloat.parse (α := α) cls D = .ok (Num.ofDecimal false (decFrom 0 D) 0) := by
  have hs : ((D.dropWhile (PyFloat.isFloatSpace cls)).reverse.dropWhile
      (PyFloat.isFloatSpace cls)).reverse = D := by
    rw [dropWhile_eq_self D (fun c h => floatSpace_digit c (hD c (List.mem_of_mem_head? h))),
      dropWhile_eq_self D.reverse (fun c h => floatSpace_digit c
        (hD c (List.mem_reverse.1 (List.mem_of_mem_head? h)))), List.reverse_reverse]
  have hu : PyFloat.dropUnderscores cls D = some D := by
    unfold PyFloat.dropUnderscores
    rw [dropUnderscores_go hf D hD none (by simp)]; rfl
  have hdg : PyFloat.digits cls D = (decFrom 0 D, D.length, []) := by
    unfold PyFloat.digits
    rw [digits_go hf D hD]; simp
  unfold PyFloat.parse
  simp only [hs, hu]
  cases D with
  | nil => exact absurd rfl hne
  | cons x D' =>
    obtain ⟨-, -, -, -, -, h1, h2, -, -, -, -, hl, hi, hn⟩ := digitChars_props x (hD x List.mem_cons_self)
    have hlow : PyFloat.lowerAscii (x :: D') = x :: PyFloat.lowerAscii D' := by
      unfold PyFloat.lowerAscii; rw [List.flatMap_cons, hl]; rfl
    simp [h1, h2, hlow, hi, hn, hdg]


omit hf in
theorem endsWith_pct (D : Str) (hD : ∀ c ∈ D, c ∈ digitChars) : Str.endsWith D ['%'] = false := by
  unfold Str.endsWith
  show List.isPrefixOf ['%'] D.reverse = false
  cases h : D.reverse with
  | nil => rfl
  | cons a t =>
    have ha : a ∈ D := List.mem_reverse.1 (h ▸ List.mem_cons_self)
    have : a ≠ '%' := (digitChars_props a (hD a ha)).2.2.2.2.2.2.2.2.1
    simp [List.isPrefixOf, Ne.symm this]

theorem strip_digits (D : Str) (hD : ∀ c ∈ D, c ∈ digitChars) : Str.strip cls D = D := by
  apply strip_eq_self
  · intro c h
    have := digitChars_props c (hD c (List.mem_of_mem_head? h))
    exact space_of_ascii hf c this.1 this.2.1
  · intro c h
    have := digitChars_props c (hD c (List.mem_of_mem_getLast? h))
    exact space_of_ascii hf c this.1 this.2.1

/-- a digit string as a number token: `float()` reads its value, then the range check -/
theorem numberToken_digits {α : Type} [Num α] (named : List (Str × Str)) (D : Str)
    (hD : ∀ c ∈ D, c ∈ digitChars) (hne : D ≠ []) (comp : Bool) :
    numberToken (α := α) ⟨cls, named⟩ D comp =
      rangeToken (Num.ofDecimal false (decFrom 0 D) 0 : α) comp := by
  unfold numberToken floatOrValueError
  simp only [strip_digits hf D hD, endsWith_pct D hD, parse_digits hf D hD hne]
  rfl

end

/-- `str(n)` for a byte: a non-empty string of ASCII digits whose value is `n` -/
theorem intStr_byte : ∀ n : Fin 256,
    ((intStr (n.val : Int)).all fun c => digitChars.contains c) = true ∧
      intStr (n.val : Int) ≠ [] ∧ decFrom 0 (intStr (n.val : Int)) = n.val := by decide +kernel

theorem intStr_digits (n : Nat) (h : n < 256) :
    (∀ c ∈ intStr (n : Int), c ∈ digitChars) ∧ intStr (n : Int) ≠ [] ∧
      decFrom 0 (intStr (n : Int)) = n := by
  obtain ⟨h1, h2, h3⟩ := intStr_byte ⟨n, h⟩
  refine ⟨fun c hc => ?_, h2, h3⟩
  rw [List.all_eq_true] at h1
  simpa using h1 c hc

theorem fmtRgbFn_eq (c : RGB) : fmtRgbFn c = rgbText (intStr c.1) (intStr c.2.1) (intStr c.2.2) := by
  have e1 : "rgb(".toList = ['r', 'g', 'b', '('] := by decide
  have e2 : ", ".toList = [',', ' '] := by decide
  unfold fmtRgbFn rgbText
  rw [e1, e2]
  simp only [List.cons_append, List.nil_append, List.append_assoc]

section
variable {cls : CharCls} (hf : AsciiFaithful cls) {D1 D2 D3 : Str}
  (h1 : ∀ c ∈ D1, c ∈ digitChars) (h2 : ∀ c ∈ D2, c ∈ digitChars) (h3 : ∀ c ∈ D3, c ∈ digitChars)
include h1 h2 h3

theorem rgbText_chars : ∀ c ∈ rgbText D1 D2 D3, c ∈ junkChars ∨ c ∈ digitChars := by
  intro c hc
  simp only [rgbText, List.mem_cons, List.mem_append, List.not_mem_nil, or_false] at hc
  rcases hc with rfl | rfl | rfl | rfl | h | rfl | rfl | h | rfl | rfl | h | rfl
  all_goals first
    | exact Or.inl (by decide)
    | exact Or.inr (h1 _ h) | exact Or.inr (h2 _ h) | exact Or.inr (h3 _ h)

include hf
omit h1 h2 h3 in
theorem rgbText_strip : Str.strip cls (rgbText D1 D2 D3) = rgbText D1 D2 D3 := by
  apply strip_eq_self
  · intro c h
    simp only [rgbText, List.head?_cons, Option.some.injEq] at h
    subst h
    exact space_of_ascii hf _ (by decide) (by decide)
  · intro c h
    have : (rgbText D1 D2 D3).getLast? = some ')' := by
      have e : rgbText D1 D2 D3 =
          ('r' :: 'g' :: 'b' :: '(' :: (D1 ++ ',' :: ' ' :: (D2 ++ ',' :: ' ' :: D3))) ++ [')'] := by
        simp [rgbText]
      rw [e, List.getLast?_concat]
    rw [this, Option.some.injEq] at h
    subst h
    exact space_of_ascii hf _ (by decide) (by decide)

theorem rgbText_lower : Str.lower cls (rgbText D1 D2 D3) = rgbText D1 D2 D3 := by
  apply lower_eq_self
  intro c hc
  apply lower_of_lowAscii hf
  rcases rgbText_chars h1 h2 h3 c hc with h | h
  · exact (junkChars_props c h).2.1
  · exact (digitChars_props c h).2.2.1
end


/-! ## reading `rgb(r, g, b)` back -/

/-- the carrier reads the decimal text of a byte exactly: `float("n")` lies in `[0, 255]` and rounds
    to `n` (true of `ℚ` by proof, of binary64 because integers below 2^53 are representable) -/
def ByteExact (α : Type) [Num α] : Prop :=
  ∀ n : Nat, n ≤ 255 →
    Num.le (0.0 : α) (Num.ofDecimal false n 0) = true ∧
    Num.le (Num.ofDecimal false n 0) (255.0 : α) = true ∧
    Num.roundHE (Num.ofDecimal false n 0 : α) = (n : Int)

theorem byteExact_rat : @ByteExact ℚ ratNum := by
  intro n hn
  have e : @Num.ofDecimal ℚ ratNum false n 0 = ((n : ℤ) : ℚ) := by
    show (if false = true then -_ else _) = _
    simp
  have hn' : (n : ℚ) ≤ 255 := by exact_mod_cast hn
  rw [e]
  refine ⟨?_, ?_, HslRt.roundHE_int n⟩
  · rw [rat_le, rat_sci, HslRt.lit0]; positivity
  · rw [rat_le, rat_sci, HslRt.lit255]; exact_mod_cast hn

theorem rangeToken_byte {α : Type} [Num α] (hα : ByteExact α) (n : Nat) (hn : n ≤ 255) :
    rangeToken (Num.ofDecimal false n 0 : α) true = .ok (Num.ofDecimal false n 0) := by
  unfold rangeToken
  simp [(hα n hn).1, (hα n hn).2.1]

theorem parseStr_rgbText {α : Type} [Num α] (hα : ByteExact α) {cls : CharCls} (hf : AsciiFaithful cls)
    (named : List (Str × Str)) (hk : keysLower named = true) (D1 D2 D3 : Str)
    (h1 : ∀ c ∈ D1, c ∈ digitChars) (h2 : ∀ c ∈ D2, c ∈ digitChars) (h3 : ∀ c ∈ D3, c ∈ digitChars)
    (n1 : D1 ≠ []) (n2 : D2 ≠ []) (n3 : D3 ≠ [])
    (b1 : decFrom 0 D1 ≤ 255) (b2 : decFrom 0 D2 ≤ 255) (b3 : decFrom 0 D3 ≤ 255) (bg : Option RGB) :
    parseStr (α := α) ⟨cls, named⟩ (rgbText D1 D2 D3) bg =
      .ok ((decFrom 0 D1 : Int), (decFrom 0 D2 : Int), (decFrom 0 D3 : Int)) := by
  have hlook : lookupNamed ⟨cls, named⟩ (rgbText D1 D2 D3) = none :=
    lookupNamed_none _ hk _ '(' (by simp [rgbText]) (by decide)
  have hhash : Str.startsWith (rgbText D1 D2 D3) ['#'] = false := rfl
  have hbare : isBareHex (rgbText D1 D2 D3) = false := by
    unfold isBareHex rgbText
    rw [List.all_cons]
    have : Str.isHexDigit 'r' = false := by decide
    rw [this]; simp
  have hhsla : Str.startsWith (rgbText D1 D2 D3) "hsla(".toList = false := rfl
  have hhsl : Str.startsWith (rgbText D1 D2 D3) "hsl(".toList = false := rfl
  have hrgb : Str.startsWith (rgbText D1 D2 D3) "rgb(".toList = true := rfl
  have v : validRgb ((decFrom 0 D1 : Int), (decFrom 0 D2 : Int), (decFrom 0 D3 : Int)) = true :=
    validRgb_of_nat _ _ _ (by omega) (by omega) (by omega)
  unfold parseStr
  simp only [rgbText_strip hf, rgbText_lower hf h1 h2 h3, hlook, hhash, hbare, hhsla, hhsl,
    hrgb, findAll_rgbText hf D1 D2 D3 h1 h2 h3 n1 n2 n3, numberToken_digits hf named _ h1 n1,
    numberToken_digits hf named _ h2 n2, numberToken_digits hf named _ h3 n3,
    rangeToken_byte hα _ b1, rangeToken_byte hα _ b2, rangeToken_byte hα _ b3, ok_bind,
    (hα _ b1).2.2, (hα _ b2).2.2, (hα _ b3).2.2, Bool.true_or, Bool.or_false,
    Bool.false_eq_true, if_false, if_true]
  simp only [pure, Except.pure, clamp255_id _ (Int.natCast_nonneg _) (Int.ofNat_le.2 b1),
    clamp255_id _ (Int.natCast_nonneg _) (Int.ofNat_le.2 b2),
    clamp255_id _ (Int.natCast_nonneg _) (Int.ofNat_le.2 b3), v, if_true]

theorem detect_rgbText {α : Type} [Num α] {cls : CharCls} (hf : AsciiFaithful cls)
    (named : List (Str × Str)) (hk : keysLower named = true) (D1 D2 D3 : Str)
    (h1 : ∀ c ∈ D1, c ∈ digitChars) (h2 : ∀ c ∈ D2, c ∈ digitChars) (h3 : ∀ c ∈ D3, c ∈ digitChars) :
    detectFormat (α := α) ⟨cls, named⟩ (.str (rgbText D1 D2 D3)) = .rgb := by
  have hlook : lookupNamed ⟨cls, named⟩ (rgbText D1 D2 D3) = none :=
    lookupNamed_none _ hk _ '(' (by simp [rgbText]) (by decide)
  unfold detectFormat
  simp only [rgbText_strip hf, rgbText_lower hf h1 h2 h3, hlook]
  rfl

theorem parseStr_fmtRgbFn {α : Type} [Num α] (hα : ByteExact α) {cls : CharCls} (hf : AsciiFaithful cls)
    (named : List (Str × Str)) (hk : keysLower named = true) (c : RGB) (hc : validRgb c = true)
    (bg : Option RGB) :
    parseStr (α := α) ⟨cls, named⟩ (fmtRgbFn c) bg = .ok c := by
  obtain ⟨r, g, b, hr, hg, hb, rfl⟩ := validRgb_nat c hc
  obtain ⟨r1, r2, r3⟩ := intStr_digits r hr
  obtain ⟨g1, g2, g3⟩ := intStr_digits g hg
  obtain ⟨b1, b2, b3⟩ := intStr_digits b hb
  rw [fmtRgbFn_eq, parseStr_rgbText hα hf named hk _ _ _ r1 g1 b1 r2 g2 b2 (by omega) (by omega) (by omega),
    r3, g3, b3]

theorem detect_fmtRgbFn {α : Type} [Num α] {cls : CharCls} (hf : AsciiFaithful cls)
    (named : List (Str × Str)) (hk : keysLower named = true) (c : RGB) (hc : validRgb c = true) :
    detectFormat (α := α) ⟨cls, named⟩ (.str (fmtRgbFn c)) = .rgb := by
  obtain ⟨r, g, b, hr, hg, hb, rfl⟩ := validRgb_nat c hc
  rw [fmtRgbFn_eq]
  exact detect_rgbText hf named hk _ _ _ (intStr_digits r hr).1 (intStr_digits g hg).1
    (intStr_digits b hb).1

/-- the documented shape of `make_readable`'s colour for each detected input format -/
def OutShape {α : Type} (f : Fmt) (out : OutVal α) : Prop :=
  match f with
  | .rgbTuple => ∃ c, out = .tuple c
  | .hsl => ∃ h s l, out = .hsl h s l
  | .rgb => ∃ c, out = .text (fmtRgbFn c)
  | _ => ∃ c, out = .text (fmtHex c)

theorem formatColor_shape {α : Type} [Num α] (c : RGB) (f : Fmt) :
    OutShape f (formatColor (α := α) c f) := by
  cases f <;> simp [OutShape, formatColor]

theorem parseColor_str {α : Type} [Num α] (E : PEnv) (s : Str) (bg : Option RGB) :
    parseColor (α := α) E (.str s) bg = parseStr (α := α) E s bg := rfl

/-- the internal re-read of `make_readable` returns the tuned colour -/
theorem makeReadable_eq {α : Type} [NumT α] (hα : ByteExact α) (E : PEnv) (hf : AsciiFaithful E.cls)
    (hk : keysLower E.named = true) (O : Leaf α) (d : Descend α) (p : ColorPair α) (mode : Int)
    (very : Bool) (t b : RGB) (ht : p.text.rgb? = some t) (hb : p.bg.rgb? = some b)
    (hv : validRgb (checkAndFix O d t b p.large mode very).1 = true) :
    p.makeReadable E O d mode very =
      some (formatColor (checkAndFix O d t b p.large mode very).1 p.text.fmt,
        (checkAndFix O d t b p.large mode very).2) := by
  obtain ⟨cls, named⟩ := E
  unfold ColorPair.makeReadable
  rw [ht, hb]
  simp only [(seq_ints (α := α) ⟨cls, named⟩ _ hv none).1, parseColor_str,
    parseStr_fmtRgbFn hα hf named hk _ hv none, ite_self]

/-- without any assumption: the colour has the documented shape, or (the re-read failed) it is the
    raw tuple / `rgb()` text that `check_and_fix_contrast` produced -/
theorem makeReadable_cases {α : Type} [NumT α] (E : PEnv) (O : Leaf α) (d : Descend α)
    (p : ColorPair α) (mode : Int) (very : Bool) (out : OutVal α) (ok : Bool)
    (h : p.makeReadable E O d mode very = some (out, ok)) :
    OutShape p.text.fmt out ∨ ∃ c, out = .tuple c ∨ out = .text (fmtRgbFn c) := by
  unfold ColorPair.makeReadable at h
  split at h
  · simp only at h
    split at h
    · simp only [Option.some.injEq, Prod.mk.injEq] at h
      exact Or.inl (h.1 ▸ formatColor_shape _ _)
    · simp only [Option.some.injEq, Prod.mk.injEq] at h
      rename_i t b _ _ _ _ _
      refine Or.inr ⟨(checkAndFix O d t b p.large mode very).1, ?_⟩
      rw [← h.1]
      split
      · exact Or.inl rfl
      · exact Or.inr rfl
  · cases h

/-- reading `make_readable`'s colour back the way the library does (`Color(...)` for text and tuples,
    `hsl_to_rgb` for the three printed HSL numbers) -/
def readBack {α : Type} [Num α] (E : PEnv) (bg : Option RGB) : OutVal α → Option RGB
  | .hsl h s l => hslTextToRgb (h, s, l)
  | .text s => (parseColor (α := α) E (.str s) bg).toOption
  | .tuple c => (parseColor (α := α) E (.tuple [.int c.1, .int c.2.1, .int c.2.2]) bg).toOption

theorem fmtHex_shape (c : RGB) (hc : validRgb c = true) :
    ∃ a b c' d e f : Char, fmtHex c = ['#', a, b, c', d, e, f] ∧
      ∀ x ∈ [a, b, c', d, e, f], x ∈ hexChars := by
  obtain ⟨r, g, b, hr, hg, hb, rfl⟩ := validRgb_nat c hc
  exact ⟨_, _, _, _, _, _, fmtHex_nat r g b, fmtHex_chars r g b hr hg hb⟩

theorem detect_fmtHex {α : Type} [Num α] {cls : CharCls} (hf : AsciiFaithful cls)
    (named : List (Str × Str)) (hk : keysLower named = true) (c : RGB) (hc : validRgb c = true) :
    detectFormat (α := α) ⟨cls, named⟩ (.str (fmtHex c)) = .hex := by
  obtain ⟨a, b, c', d, e, f, h, H⟩ := fmtHex_shape c hc
  rw [h]; exact hex6_detect hf H named hk

end FmtRt
end Cm
