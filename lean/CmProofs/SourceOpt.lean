import CmModel.Strategy
import CmGen.Optimiser
import Mathlib.Tactic.SplitIfs
open Cm
/-!
# The optimiser as translated from the source (`CmGen/Optimiser.lean`) equals the hand-written model

Helper lemmas: one per loop body (the generated body applied to the model's state, as a tuple, is the model's
step), one per loop (induction), then the function-level equations used by `CmProps/C0xopt.lean`.
-/
namespace Cm.SourceOpt
variable {α : Type} [Num α]
open CmGen.Opt

/-- the tuple the generated loop carries, for a model state -/
def bsTup (s : BS α) : α × α × Option RGB × α × α := (s.high, s.low, s.best, s.bestDE, s.bestC)

theorem bs_body (O : Leaf α) (t bg : RGB) (thr target c h : α) (up : Bool) (s : BS α) :
    binary_search_lightness__loop1 O t bg thr target c h up (bsTup s) =
      .next (bsTup (bsStep O t bg thr target c h up s)) := by
  unfold binary_search_lightness__loop1 bsStep bsTup
  cases up <;> simp only [] <;> split <;> simp_all <;> split <;> simp_all <;> split <;> simp_all <;> split <;> simp_all

end Cm.SourceOpt

namespace Cm.SourceOpt
variable {α : Type} [Num α]
open CmGen.Opt

theorem bs_loop (O : Leaf α) (t bg : RGB) (thr target c h : α) (up : Bool) :
    ∀ (n : Nat) (s : BS α), loopN (binary_search_lightness__loop1 O t bg thr target c h up) n (bsTup s) =
      (.next (bsTup (bsLoop O t bg thr target c h up n s)) : Step _ (Option RGB))
  | 0, s => rfl
  | n + 1, s => by
    rw [loopN, bs_body, bsLoop]
    exact bs_loop O t bg thr target c h up n _

theorem source_binary_search (O : Leaf α) (t bg : RGB) (thr target : α) (large : Bool) :
    binary_search_lightness O t bg thr target large = binarySearch O t bg thr target := by
  unfold binary_search_lightness binarySearch
  rcases O.toOklch t with ⟨l, c, h⟩
  rcases O.toOklch bg with ⟨bl, x, y⟩
  simp only []
  have := bs_loop O t bg thr target c h (searchUp l bl) 20 (bsInit O l (searchUp l bl))
  unfold bsTup bsInit searchUp at this
  unfold searchUp bsInit
  simp only [] at this ⊢
  rw [this]
end Cm.SourceOpt

namespace Cm.SourceOpt
variable {α : Type} [Num α]
open CmGen.Opt

/-- the descent phase as the source calls it -/
def gdOf (O : Leaf α) (d : Descend α) : RGB → RGB → α → α → Bool → Option RGB :=
  fun t bg thr target _ => gradientDescent O d t bg thr target

def gsTup (s : GS α) : α × Option RGB × α := (s.bestC, s.best, s.bestDE)

/-- an `Except` outcome of the model's step, as an outcome of the generated loop body -/
def toStep : Except RGB (GS α) → Step (α × Option RGB × α) RGB
  | .error r => .ret r
  | .ok s => .next (gsTup s)

theorem gen_body (O : Leaf α) (d : Descend α) (t bg : RGB) (large : Bool) (target minC : α) (seq : List α) (thr : α) (s : GS α) :
    generate_accessible_color__loop1 O (gdOf O d) t bg large target minC seq thr (gsTup s) =
      toStep (genStep O d t bg target minC (seq.getLastD (0.0 : α)) thr s) := by
  obtain ⟨best, bestC, bestDE⟩ := s
  unfold generate_accessible_color__loop1 genStep gsTup
  simp only [source_binary_search, gdOf]
  cases hb : binarySearch O t bg thr target <;> cases hg : gradientDescent O d t bg thr target <;> cases best <;>
    simp only [absorb, earlyTerm, bind, Except.bind, toStep, gsTup] <;>
    grind

/-- what `generate_accessible_color` does with the outcome of its loop -/
def genFinish (t : RGB) : Step (α × Option RGB × α) RGB → RGB
  | .ret r => r
  | .next st => (match st.2.1 with | some b => b | none => t)
  | .brk st => (match st.2.1 with | some b => b | none => t)

theorem gen_loop (O : Leaf α) (d : Descend α) (t bg : RGB) (large : Bool) (target minC : α) (seq : List α) :
    ∀ (xs : List α) (s : GS α),
      genFinish t (loopL (generate_accessible_color__loop1 O (gdOf O d) t bg large target minC seq) xs (gsTup s)) =
      genLoop O d t bg target minC (seq.getLastD (0.0 : α)) xs s
  | [], s => by
    simp only [loopL, genLoop, gsTup, genFinish]
    cases s.best <;> rfl
  | x :: xs, s => by
    rw [loopL, gen_body, genLoop]
    cases h : genStep O d t bg target minC (seq.getLastD (0.0 : α)) x s with
    | error r => simp [toStep, genFinish]
    | ok s' => simpa [toStep] using gen_loop O d t bg large target minC seq xs s'

/-- `generate_accessible_color` with all optional arguments given -/
theorem source_generate_accessible_color (O : Leaf α) (d : Descend α) (t bg : RGB) (large : Bool) (target minC : α) (seq : List α) :
    generate_accessible_color O (gdOf O d) t bg large target minC seq = genAccessible O d t bg target minC seq := by
  unfold generate_accessible_color genAccessible
  simp only []
  split
  · rfl
  · have := gen_loop O d t bg large target minC seq seq { best := none, bestC := O.contrast t bg, bestDE := O.inf }
    simp only [gsTup] at this
    rw [← this]
    rcases loopL (generate_accessible_color__loop1 O (gdOf O d) t bg large target minC seq) seq (O.contrast t bg, none, O.inf) with ⟨a, b, c⟩ | ⟨a, b, c⟩ | r <;>
      simp only [genFinish] <;> cases b <;> rfl

/-! ## strategies -/

/-- `_strategy_strict` -/
theorem source_strategy_strict (O : Leaf α) (d : Descend α) (t bg : RGB) (large : Bool) (target minC : α) :
    strategy_strict O (gdOf O d) t bg large target minC = strategyStrict O d t bg target minC := by
  unfold strategy_strict strategyStrict
  rw [source_generate_accessible_color]
  rfl

theorem rec_body (O : Leaf α) (d : Descend α) (bg : RGB) (large : Bool) (target minC : α) (cur : RGB) :
    strategy_recursive__loop1 O (gdOf O d) bg large target minC stepSchedule cur =
      (if Num.ge (O.contrast cur bg) minC then .ret (cur, true) else
       let next := genAccessible O d cur bg target minC stepSchedule
       if next = cur then (if Num.ge (O.contrast next bg) minC then .ret (next, true) else .ret (next, false))
       else if Num.ge (O.contrast next bg) minC then .ret (next, true) else .next next) := by
  unfold strategy_recursive__loop1
  simp only [source_generate_accessible_color]

theorem rec_loop (O : Leaf α) (d : Descend α) (bg : RGB) (large : Bool) (target minC : α) :
    ∀ (n : Nat) (cur : RGB),
      (match loopN (strategy_recursive__loop1 O (gdOf O d) bg large target minC stepSchedule) n cur with
       | .ret r => r
       | .next s => (s, false)
       | .brk s => (s, false)) = recursiveLoop O d bg target minC n cur
  | 0, cur => rfl
  | n + 1, cur => by
    rw [loopN, rec_body, recursiveLoop]
    have ih := rec_loop O d bg large target minC n
    grind

/-- `_strategy_recursive` -/
theorem source_strategy_recursive (O : Leaf α) (d : Descend α) (t bg : RGB) (large : Bool) (target minC : α) :
    strategy_recursive O (gdOf O d) t bg large target minC = strategyRecursive O d t bg target minC := by
  unfold strategy_recursive strategyRecursive
  rw [← rec_loop O d bg large target minC 10 t]
  simp only [stepSchedule]
  rcases loopN _ 10 t with a | a | r <;> rfl

/-- the state of option A's loop when it stops, as the pair the model's loop returns -/
def optAPost : Step (Bool × RGB) (RGB × Bool) → RGB × Bool
  | .ret r => r
  | .next s => (s.2, s.1)
  | .brk s => (s.2, s.1)

theorem optA_body (O : Leaf α) (d : Descend α) (bg : RGB) (large : Bool) (target minC : α) (cur : RGB) :
    strategy_relaxed__loop1 O (gdOf O d) bg large target minC stepSchedule (false, cur) =
      (if Num.ge (O.contrast cur bg) minC then .brk (true, cur) else
       let next := genAccessible O d cur bg target minC stepSchedule
       if next = cur then .brk (Num.ge (O.contrast next bg) minC, cur)
       else if Num.ge (O.contrast next bg) minC then .brk (true, next) else .next (false, next)) := by
  unfold strategy_relaxed__loop1
  simp only [source_generate_accessible_color]
  grind

theorem optA_loop (O : Leaf α) (d : Descend α) (bg : RGB) (large : Bool) (target minC : α) :
    ∀ (n : Nat) (cur : RGB),
      optAPost (loopN (strategy_relaxed__loop1 O (gdOf O d) bg large target minC stepSchedule) n (false, cur)) =
        optALoop O d bg target minC n cur
  | 0, cur => rfl
  | n + 1, cur => by
    rw [loopN, optA_body, optALoop]
    have ih := optA_loop O d bg large target minC n
    grind [optAPost]

theorem optA_body_noret (O : Leaf α) (gd : RGB → RGB → α → α → Bool → Option RGB) (bg : RGB) (large : Bool) (target minC : α) (seq : List α)
    (s : Bool × RGB) (r : RGB × Bool) : strategy_relaxed__loop1 O gd bg large target minC seq s ≠ .ret r := by
  obtain ⟨b, c⟩ := s
  unfold strategy_relaxed__loop1
  simp only []
  split_ifs <;> simp

theorem loopN_noret {σ ρ : Type} (body : σ → Step σ ρ) (hb : ∀ s r, body s ≠ .ret r) :
    ∀ (n : Nat) (s : σ) (r : ρ), loopN body n s ≠ .ret r
  | 0, s, r => by simp [loopN]
  | n + 1, s, r => by
    rw [loopN]
    cases h : body s with
    | next s' => exact loopN_noret body hb n s' r
    | brk s' => simp
    | ret r' => exact absurd h (hb s r')

/-- `_strategy_relaxed` -/
theorem source_strategy_relaxed (O : Leaf α) (d : Descend α) (t bg : RGB) (large : Bool) (target minC : α) :
    strategy_relaxed O (gdOf O d) t bg large target minC = strategyRelaxed O d t bg target minC := by
  unfold strategy_relaxed strategyRelaxed
  rw [source_strategy_recursive]
  rcases strategyRecursive O d t bg target minC with ⟨rr, rs⟩
  simp only []
  split
  · rfl
  · have h := optA_loop O d bg large target minC 15 t
    simp only [stepSchedule] at h
    simp only [← h, source_generate_accessible_color, relaxedSchedule]
    have nr := loopN_noret _ (optA_body_noret O (gdOf O d) bg large target minC
      [0.8, 1.0, 1.2, 1.4, 1.6, 1.8, 2.0, 2.2, 2.5, 2.8, 3.0]) 15 (false, t)
    rcases hL : loopN (strategy_relaxed__loop1 O (gdOf O d) bg large target minC
      [0.8, 1.0, 1.2, 1.4, 1.6, 1.8, 2.0, 2.2, 2.5, 2.8, 3.0]) 15 (false, t) with ⟨a, b⟩ | ⟨a, b⟩ | r
    · simp only [optAPost]; grind
    · simp only [optAPost]; grind
    · exact absurd hL (nr r)

/-- `check_and_fix_contrast` from the point where both colours are parsed is the model's `checkAndFix` -/
theorem source_check_and_fix (O : Leaf α) (d : Descend α) (t bg : RGB) (large : Bool) (mode : Int) (premium : Bool) :
    check_and_fix_contrast_core O (gdOf O d) t bg large mode premium = checkAndFix O d t bg large mode premium := by
  unfold check_and_fix_contrast_core checkAndFix
  simp only [source_strategy_strict, source_strategy_relaxed, source_strategy_recursive]
  cases large <;> cases premium <;> simp only [thresholds] <;> grind

end Cm.SourceOpt
