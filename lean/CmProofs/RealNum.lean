import CmModel.Lab
import Mathlib.Analysis.SpecialFunctions.Pow.Real
import Mathlib.Analysis.SpecialFunctions.Trigonometric.Basic
import Mathlib.Analysis.SpecialFunctions.Complex.Arg
import Mathlib.Analysis.SpecialFunctions.Exp
/-!
# The real-number carrier

`realNum : NumT ℝ` is a *definition*, not an instance, so that ordinary `+`, `≤`, … on `ℝ` in proof
files keep resolving to Mathlib's instances. Theorems about the model at `ℝ` are stated as
`@Cm.f ℝ realNum …`; the lemmas below rewrite the carrier's operations into Mathlib's.
-/
open Classical in
/-- ℝ as a numeric carrier: exact field operations, `Real.rpow`, `Real.sqrt`, …,
    `atan2 b a = Complex.arg (a + b i)` -/
@[instance_reducible] noncomputable def Cm.realNum : Cm.NumT ℝ where
  add := (· + ·)
  sub := (· - ·)
  mul := (· * ·)
  div := (· / ·)
  neg := fun a => -a
  ofScientific m s e := (OfScientific.ofScientific m s e : ℝ)
  ofInt := fun n => (n : ℝ)
  le a b := decide (a ≤ b)
  lt a b := decide (a < b)
  floor := fun a => ⌊a⌋
  abs := fun a => |a|
  pmod a b := a - b * (⌊a / b⌋ : ℝ)
  finite _ := true
  ofDecimal neg m e := (if neg then -1 else 1) * (m : ℝ) * (10 : ℝ) ^ e
  inf := 0
  nan := 0
  rpow := fun a b => a ^ b
  sqrt := Real.sqrt
  exp := Real.exp
  sin := Real.sin
  cos := Real.cos
  atan2 := fun b a => Complex.arg ⟨a, b⟩
  pi := Real.pi

namespace Cm
open Real

/-! Rewriting carrier operations at `ℝ` into Mathlib's (all by `rfl`). -/
section
variable (a b : ℝ)
@[simp] theorem real_add : @HAdd.hAdd ℝ ℝ ℝ (@instHAdd ℝ realNum.toNum.toAdd) a b = a + b := rfl
@[simp] theorem real_sub : @HSub.hSub ℝ ℝ ℝ (@instHSub ℝ realNum.toNum.toSub) a b = a - b := rfl
@[simp] theorem real_mul : @HMul.hMul ℝ ℝ ℝ (@instHMul ℝ realNum.toNum.toMul) a b = a * b := rfl
@[simp] theorem real_div : @HDiv.hDiv ℝ ℝ ℝ (@instHDiv ℝ realNum.toNum.toDiv) a b = a / b := rfl
@[simp] theorem real_neg : @Neg.neg ℝ realNum.toNum.toNeg a = -a := rfl
@[simp] theorem real_sci (m : ℕ) (s : Bool) (e : ℕ) :
    @OfScientific.ofScientific ℝ realNum.toNum.toOfScientific m s e = (OfScientific.ofScientific m s e : ℝ) := rfl
@[simp] theorem real_ofInt (n : ℤ) : @Num.ofInt ℝ realNum.toNum n = (n : ℝ) := rfl
@[simp] theorem real_le : @Num.le ℝ realNum.toNum a b = true ↔ a ≤ b := by
  show decide (a ≤ b) = true ↔ _; simp
@[simp] theorem real_lt : @Num.lt ℝ realNum.toNum a b = true ↔ a < b := by
  show decide (a < b) = true ↔ _; simp
@[simp] theorem real_ge : @Num.ge ℝ realNum.toNum a b = true ↔ b ≤ a := real_le b a
@[simp] theorem real_gt : @Num.gt ℝ realNum.toNum a b = true ↔ b < a := real_lt b a
@[simp] theorem real_abs : @Num.abs ℝ realNum.toNum a = |a| := rfl
@[simp] theorem real_floor : @Num.floor ℝ realNum.toNum a = ⌊a⌋ := rfl
@[simp] theorem real_rpow : @NumT.rpow ℝ realNum a b = a ^ b := rfl
@[simp] theorem real_sqrt : @NumT.sqrt ℝ realNum a = Real.sqrt a := rfl
@[simp] theorem real_exp : @NumT.exp ℝ realNum a = Real.exp a := rfl
@[simp] theorem real_sin : @NumT.sin ℝ realNum a = Real.sin a := rfl
@[simp] theorem real_cos : @NumT.cos ℝ realNum a = Real.cos a := rfl
@[simp] theorem real_pi : @NumT.pi ℝ realNum = Real.pi := rfl
@[simp] theorem real_pmax : @Num.pmax ℝ realNum.toNum a b = max a b := by
  unfold Num.pmax
  by_cases h : a < b
  · rw [if_pos ((real_lt a b).2 h)]; exact (max_eq_right h.le).symm
  · rw [if_neg (fun h' => h ((real_lt a b).1 h'))]; exact (max_eq_left (not_lt.1 h)).symm
@[simp] theorem real_pmin : @Num.pmin ℝ realNum.toNum a b = min a b := by
  unfold Num.pmin
  by_cases h : b < a
  · rw [if_pos ((real_lt b a).2 h)]; exact (min_eq_right h.le).symm
  · rw [if_neg (fun h' => h ((real_lt b a).1 h'))]; exact (min_eq_left (not_lt.1 h)).symm
end

/-- the model's linearisation at ℝ, in Mathlib's vocabulary -/
theorem srgbToLinear_real (c : ℝ) :
    @srgbToLinear ℝ realNum c =
      if c ≤ 0.04045 then c / 12.92 else ((c + 0.055) / 1.055) ^ (2.4 : ℝ) := by
  unfold srgbToLinear
  by_cases h : c ≤ 0.04045
  · rw [if_pos ((real_le _ _).2 h), if_pos h]
  · rw [if_neg (fun h' => h ((real_le _ _).1 h')), if_neg h]; rfl

end Cm
