import CmModel.Strategy
import CmProofs.Order
/-! Helper lemmas for C04 / C02 / C16: Hoare-style stage specifications for the search loops. -/
set_option linter.unusedSectionVars false
namespace Cm
variable {α : Type} [Num α]

/-- "no further than `thr`" in the form the lightness search tests it: `not (d > thr)` -/
def NotBeyond (d thr : α) : Prop := Num.gt d thr = false

/-- what may be recorded by a search phase given tolerance `thr` -/
def InTol (O : Leaf α) (t : RGB) (thr : α) (c : RGB) : Prop :=
  O.validRgb c = true ∧ NotBeyond (O.deltaE t c) thr

/-! ### binary search -/

def BSInv (O : Leaf α) (t : RGB) (thr : α) (s : BS α) : Prop :=
  ∀ c, s.best = some c → InTol O t thr c

theorem bsStep_inv (O : Leaf α) (t bg thr target c h up) (s : BS α) (hs : BSInv O t thr s) :
    BSInv O t thr (bsStep O t bg thr target c h up s) := by
  unfold BSInv InTol NotBeyond bsStep at *
  grind

theorem bsLoop_inv (O : Leaf α) (t bg thr target c h up) (n : Nat) (s : BS α) (hs : BSInv O t thr s) :
    BSInv O t thr (bsLoop O t bg thr target c h up n s) := by
  induction n generalizing s with
  | zero => simpa [bsLoop]
  | succ n ih => simp only [bsLoop]; exact ih _ (bsStep_inv O t bg thr target c h up s hs)

theorem binarySearch_inTol (O : Leaf α) (t bg : RGB) (thr target : α) (r : RGB)
    (h : binarySearch O t bg thr target = some r) : InTol O t thr r := by
  unfold binarySearch at h
  exact bsLoop_inv O t bg thr target _ _ _ 20 _ (by intro c hc; simp [bsInit] at hc) r h

theorem gradient_inTol [LawfulNumOrd α] (O : Leaf α) (d : Descend α) (t bg thr target r)
    (h : gradientDescent O d t bg thr target = some r) : InTol O t thr r := by
  unfold gradientDescent at h
  unfold InTol NotBeyond Num.gt
  have := @not_lt_of_le α _ _ (O.deltaE t r) thr
  grind

/-! ### generic Hoare-style stage specification -/

def StageSpec (P : RGB → Prop) (Q : GS α → Prop) (x : Except RGB (GS α)) : Prop :=
  (∀ r, x = .error r → P r) ∧ (∀ s, x = .ok s → Q s)

theorem StageSpec.bind {P : RGB → Prop} {Q R : GS α → Prop} {x : Except RGB (GS α)}
    {f : GS α → Except RGB (GS α)}
    (hx : StageSpec P Q x) (hf : ∀ s, Q s → StageSpec P R (f s)) : StageSpec P R (x >>= f) := by
  cases x with
  | error r =>
    have : (Except.error r >>= f) = Except.error r := rfl
    rw [this]
    exact ⟨fun r' h => hx.1 r' h, fun s h => by cases h⟩
  | ok s =>
    have : (Except.ok s >>= f) = f s := rfl
    rw [this]
    exact hf s (hx.2 s rfl)

/-! ### multi-phase search: within the schedule -/

/-- the result is the input itself, or a valid colour within some entry of the schedule -/
def Within (O : Leaf α) (t : RGB) (sched : List α) (r : RGB) : Prop :=
  r = t ∨ ∃ thr ∈ sched, InTol O t thr r

def GInv (O : Leaf α) (t : RGB) (sched : List α) (s : GS α) : Prop :=
  ∀ b, s.best = some b → Within O t sched b

theorem absorb_within (O : Leaf α) (t bg target tie cand) (sched : List α) (s : GS α)
    (hc : ∀ b, cand = some b → Within O t sched b) (hs : GInv O t sched s) :
    StageSpec (Within O t sched) (GInv O t sched) (absorb O t bg target tie cand s) := by
  unfold StageSpec absorb GInv at *
  grind

theorem earlyTerm_within (O : Leaf α) (t) (minC thr last : α) (sched : List α) (s : GS α)
    (hs : GInv O t sched s) :
    StageSpec (Within O t sched) (GInv O t sched) (earlyTerm minC thr last s) := by
  unfold StageSpec earlyTerm GInv at *
  grind

theorem genStep_within [LawfulNumOrd α] (O : Leaf α) (d : Descend α) (t bg target minC last thr)
    (sched : List α) (hthr : thr ∈ sched) (s : GS α) (hs : GInv O t sched s) :
    StageSpec (Within O t sched) (GInv O t sched) (genStep O d t bg target minC last thr s) := by
  unfold genStep
  refine StageSpec.bind (absorb_within O t bg target _ _ sched s ?_ hs) fun s1 h1 =>
    StageSpec.bind (absorb_within O t bg target _ _ sched s1 ?_ h1) fun s2 h2 =>
      earlyTerm_within O t minC thr last sched s2 h2
  · intro b hb; right; exact ⟨thr, hthr, binarySearch_inTol O t bg thr target b hb⟩
  · intro b hb; right; exact ⟨thr, hthr, gradient_inTol O d t bg thr target b hb⟩

theorem genLoop_within [LawfulNumOrd α] (O : Leaf α) (d : Descend α) (t bg target minC last)
    (sched rest : List α) (hsub : ∀ x ∈ rest, x ∈ sched) (s : GS α) (hs : GInv O t sched s) :
    Within O t sched (genLoop O d t bg target minC last rest s) := by
  induction rest generalizing s with
  | nil => unfold genLoop; unfold GInv Within at *; grind
  | cons thr rest ih =>
    have hst := genStep_within O d t bg target minC last thr sched (hsub thr (by simp)) s hs
    unfold genLoop
    split
    · exact hst.1 _ ‹_›
    · exact ih (fun x hx => hsub x (by simp [hx])) _ (hst.2 _ ‹_›)

theorem genAccessible_within [LawfulNumOrd α] (O : Leaf α) (d : Descend α) (t bg target minC)
    (sched : List α) : Within O t sched (genAccessible O d t bg target minC sched) := by
  simp only [genAccessible]
  split
  · left; rfl
  · exact genLoop_within O d t bg target minC _ sched sched (fun _ h => h) _ (by intro b hb; simp at hb)

end Cm
