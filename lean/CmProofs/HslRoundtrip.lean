import CmProofs.RatNum
import Mathlib.Algebra.Order.AbsoluteValue.Basic
import Mathlib.Tactic.LinearCombination
import Mathlib.Tactic.Positivity
/-!
# RGB → HSL text → RGB is the identity at the exact carrier

`rgb_to_hsl` followed by `hsl_to_rgb`, computed in exact rational arithmetic, returns every one of
the 2^24 colours unchanged. The proof is symbolic (no enumeration): the reader's `q`, `p` are the
maximum and minimum channel (`hsl_pq`), the hue falls in one of six sectors (`sector_A1` … `sector_C2`),
in each of which the piecewise-linear `f(p, q, t)` (`F_1` … `F_7`) returns the three channels exactly;
`round(v/255 * 255) = v`.
-/
namespace Cm
namespace HslRt

/-! ## the reader's piecewise-linear `f(p, q, t)` in Mathlib's vocabulary -/

/-- the two wrap-around steps of `f`: `if t < 0: t += 1`, `if t > 1: t -= 1` -/
def wrap (t : ℚ) : ℚ := if 1 < (if t < 0 then t + 1 else t) then (if t < 0 then t + 1 else t) - 1
  else (if t < 0 then t + 1 else t)
/-- the four pieces of `f` on `[0, 1]` -/
def F0 (p q u : ℚ) : ℚ :=
  if u < 1 / 6 then p + (q - p) * 6 * u
  else if u < 1 / 2 then q
  else if u < 2 / 3 then p + (q - p) * (2 / 3 - u) * 6
  else p
/-- `f(p, q, t)` -/
def F (p q t : ℚ) : ℚ := F0 p q (wrap t)

theorem wrap_mid (t : ℚ) (h0 : 0 ≤ t) (h1 : t ≤ 1) : wrap t = t := by
  unfold wrap; rw [if_neg (not_lt.2 h0), if_neg (not_lt.2 h1)]
theorem wrap_neg (t : ℚ) (h1 : t < 0) : wrap t = t + 1 := by
  unfold wrap; rw [if_pos h1, if_neg (by linarith)]
theorem wrap_big (t : ℚ) (h1 : 1 < t) : wrap t = t - 1 := by
  have h : ¬ t < 0 := by linarith
  unfold wrap; simp only [if_neg h, if_pos h1]

theorem F0_a (p q u : ℚ) (h1 : u ≤ 1 / 6) : F0 p q u = p + (q - p) * 6 * u := by
  unfold F0
  split_ifs with c1 c2 c3
  · rfl
  all_goals (have : u = 1 / 6 := by linarith); subst this; first | ring1 | (exfalso; norm_num at *)
theorem F0_b (p q u : ℚ) (h0 : 1 / 6 ≤ u) (h1 : u ≤ 1 / 2) : F0 p q u = q := by
  unfold F0
  rw [if_neg (not_lt.2 h0)]
  split_ifs with c2 c3
  · rfl
  all_goals (have : u = 1 / 2 := by linarith); subst this; first | ring1 | (exfalso; norm_num at *)
theorem F0_c (p q u : ℚ) (h0 : 1 / 2 ≤ u) (h1 : u ≤ 2 / 3) :
    F0 p q u = p + (q - p) * (2 / 3 - u) * 6 := by
  unfold F0
  rw [if_neg (by linarith), if_neg (not_lt.2 h0)]
  split_ifs with c3
  · rfl
  · (have : u = 2 / 3 := by linarith); subst this; ring
theorem F0_d (p q u : ℚ) (h0 : 2 / 3 ≤ u) : F0 p q u = p := by
  unfold F0
  rw [if_neg (by linarith), if_neg (by linarith), if_neg (not_lt.2 h0)]

/-- `t ∈ [0, 1/6]` -/
theorem F_1 (p q t : ℚ) (h0 : 0 ≤ t) (h1 : t ≤ 1 / 6) : F p q t = p + (q - p) * 6 * t := by
  unfold F; rw [wrap_mid t h0 (by linarith), F0_a p q t h1]
/-- `t ∈ [1/6, 1/2]` -/
theorem F_2 (p q t : ℚ) (h0 : 1 / 6 ≤ t) (h1 : t ≤ 1 / 2) : F p q t = q := by
  unfold F; rw [wrap_mid t (by linarith) (by linarith), F0_b p q t h0 h1]
/-- `t ∈ [1/2, 2/3]` -/
theorem F_3 (p q t : ℚ) (h0 : 1 / 2 ≤ t) (h1 : t ≤ 2 / 3) :
    F p q t = p + (q - p) * (2 / 3 - t) * 6 := by
  unfold F; rw [wrap_mid t (by linarith) (by linarith), F0_c p q t h0 h1]
/-- `t ∈ [2/3, 1]` -/
theorem F_4 (p q t : ℚ) (h0 : 2 / 3 ≤ t) (h1 : t ≤ 1) : F p q t = p := by
  unfold F; rw [wrap_mid t (by linarith) h1, F0_d p q t h0]
/-- `t ∈ [-1/3, 0)` wraps to `[2/3, 1)` -/
theorem F_5 (p q t : ℚ) (h0 : -1 / 3 ≤ t) (h1 : t < 0) : F p q t = p := by
  unfold F; rw [wrap_neg t h1, F0_d p q _ (by linarith)]
/-- `t ∈ (1, 7/6]` wraps to `(0, 1/6]` -/
theorem F_6 (p q t : ℚ) (h0 : 1 < t) (h1 : t ≤ 7 / 6) : F p q t = p + (q - p) * 6 * (t - 1) := by
  unfold F; rw [wrap_big t h0, F0_a p q _ (by linarith)]
/-- `t ∈ [7/6, 4/3]` wraps to `[1/6, 1/3]` -/
theorem F_7 (p q t : ℚ) (h0 : 7 / 6 ≤ t) (h1 : t ≤ 4 / 3) : F p q t = q := by
  unfold F; rw [wrap_big t (by linarith), F0_b p q _ (by linarith) (by linarith)]


/-! ## the six hue sectors -/

/-- the three channels `hsl_to_rgb` computes from `p = mn`, `q = mx` and the normalised hue -/
def back (mx mn hn : ℚ) : ℚ × ℚ × ℚ :=
  (F mn mx (hn + 1 / 3), F mn mx hn, F mn mx (hn - 1 / 3))

theorem quot_pos_bounds (n d : ℚ) (hd : 0 < d) (h0 : 0 ≤ n) (h1 : n ≤ d) :
    n / d * d = n ∧ 0 ≤ n / d ∧ n / d ≤ 1 :=
  ⟨div_mul_cancel₀ n hd.ne', div_nonneg h0 hd.le, (div_le_one hd).2 h1⟩

theorem quot_neg_bounds (n d : ℚ) (hd : 0 < d) (h0 : n < 0) (h1 : -d ≤ n) :
    n / d * d = n ∧ -1 ≤ n / d ∧ n / d < 0 :=
  ⟨div_mul_cancel₀ n hd.ne', by rw [le_div_iff₀ hd]; linarith, div_neg_of_neg_of_pos h0 hd⟩

/-- red is the maximum, blue the minimum: hue in `[0°, 60°]` -/
theorem sector_A1 (r g b : ℚ) (hbg : b ≤ g) (hgr : g ≤ r) (hbr : b < r) :
    back r b ((g - b) / (r - b) / 6) = (r, g, b) := by
  obtain ⟨hx, hx0, hx1⟩ := quot_pos_bounds (g - b) (r - b) (by linarith) (by linarith) (by linarith)
  generalize (g - b) / (r - b) = x at hx hx0 hx1
  unfold back
  rw [F_2 _ _ _ (by linarith) (by linarith), F_1 _ _ _ (by linarith) (by linarith),
    F_5 _ _ _ (by linarith) (by linarith)]
  refine Prod.ext rfl (Prod.ext ?_ rfl)
  show b + (r - b) * 6 * (x / 6) = g
  linear_combination hx

/-- red is the maximum, green the minimum: hue in `[300°, 360°)` -/
theorem sector_A2 (r g b : ℚ) (hgb : g < b) (hbr : b ≤ r) :
    back r g (((g - b) / (r - g) + 6) / 6) = (r, g, b) := by
  obtain ⟨hx, hx0, hx1⟩ := quot_neg_bounds (g - b) (r - g) (by linarith) (by linarith) (by linarith)
  generalize (g - b) / (r - g) = x at hx hx0 hx1
  unfold back
  rw [F_7 _ _ _ (by linarith) (by linarith), F_4 _ _ _ (by linarith) (by linarith),
    F_3 _ _ _ (by linarith) (by linarith)]
  refine Prod.ext rfl (Prod.ext rfl ?_)
  show g + (r - g) * (2 / 3 - ((x + 6) / 6 - 1 / 3)) * 6 = b
  linear_combination -hx

/-- green is the maximum, red the minimum: hue in `[120°, 180°]` -/
theorem sector_B1 (r g b : ℚ) (hrb : r ≤ b) (hbg : b ≤ g) (hrg : r < g) :
    back g r (((b - r) / (g - r) + 2) / 6) = (r, g, b) := by
  obtain ⟨hx, hx0, hx1⟩ := quot_pos_bounds (b - r) (g - r) (by linarith) (by linarith) (by linarith)
  generalize (b - r) / (g - r) = x at hx hx0 hx1
  unfold back
  rw [F_4 _ _ _ (by linarith) (by linarith), F_2 _ _ _ (by linarith) (by linarith),
    F_1 _ _ _ (by linarith) (by linarith)]
  refine Prod.ext rfl (Prod.ext rfl ?_)
  show r + (g - r) * 6 * ((x + 2) / 6 - 1 / 3) = b
  linear_combination hx

/-- green is the maximum, blue the minimum: hue in `[60°, 120°)` -/
theorem sector_B2 (r g b : ℚ) (hbr : b < r) (hrg : r ≤ g) :
    back g b (((b - r) / (g - b) + 2) / 6) = (r, g, b) := by
  obtain ⟨hx, hx0, hx1⟩ := quot_neg_bounds (b - r) (g - b) (by linarith) (by linarith) (by linarith)
  generalize (b - r) / (g - b) = x at hx hx0 hx1
  unfold back
  rw [F_3 _ _ _ (by linarith) (by linarith), F_2 _ _ _ (by linarith) (by linarith),
    F_5 _ _ _ (by linarith) (by linarith)]
  refine Prod.ext ?_ (Prod.ext rfl rfl)
  show b + (g - b) * (2 / 3 - ((x + 2) / 6 + 1 / 3)) * 6 = r
  linear_combination -hx

/-- blue is the maximum, green the minimum: hue in `[240°, 300°]` -/
theorem sector_C1 (r g b : ℚ) (hgr : g ≤ r) (hrb : r ≤ b) (hgb : g < b) :
    back b g (((r - g) / (b - g) + 4) / 6) = (r, g, b) := by
  obtain ⟨hx, hx0, hx1⟩ := quot_pos_bounds (r - g) (b - g) (by linarith) (by linarith) (by linarith)
  generalize (r - g) / (b - g) = x at hx hx0 hx1
  unfold back
  have hB : F g b ((x + 4) / 6 - 1 / 3) = b := F_2 _ _ _ (by linarith) (by linarith)
  have hG : F g b ((x + 4) / 6) = g := F_4 _ _ _ (by linarith) (by linarith)
  have hR : F g b ((x + 4) / 6 + 1 / 3) = r := by
    rcases hx0.eq_or_lt with h0 | h0
    · subst h0
      rw [F_4 _ _ _ (by norm_num) (by norm_num)]; linarith
    · rw [F_6 _ _ _ (by linarith) (by linarith)]; linear_combination hx
  rw [hB, hG, hR]

/-- blue is the maximum, red the minimum: hue in `[180°, 240°)` -/
theorem sector_C2 (r g b : ℚ) (hrg : r < g) (hgb : g ≤ b) :
    back b r (((r - g) / (b - r) + 4) / 6) = (r, g, b) := by
  obtain ⟨hx, hx0, hx1⟩ := quot_neg_bounds (r - g) (b - r) (by linarith) (by linarith) (by linarith)
  generalize (r - g) / (b - r) = x at hx hx0 hx1
  unfold back
  rw [F_4 _ _ _ (by linarith) (by linarith), F_3 _ _ _ (by linarith) (by linarith),
    F_2 _ _ _ (by linarith) (by linarith)]
  refine Prod.ext rfl (Prod.ext ?_ rfl)
  show r + (b - r) * (2 / 3 - (x + 4) / 6) * 6 = g
  linear_combination -hx


/-! ## saturation, lightness and the reader's `p`, `q` -/

theorem hsl_pq (mx mn : ℚ) (h0 : 0 ≤ mn) (h1 : mx ≤ 1) (hlt : mn < mx) :
    let l := (mx + mn) / 2
    let s := (mx - mn) / (1 - |2 * l - 1|)
    let q := if l < 1/2 then l * (1 + s) else l + s - l * s
    q = mx ∧ 2 * l - q = mn ∧ 0 < s ∧ s ≤ 1 := by
  intro l s q
  have hl : l = (mx + mn) / 2 := rfl
  by_cases hc : l < 1/2
  · have habs : |2 * l - 1| = 1 - 2 * l := by rw [abs_of_nonpos (by linarith)]; ring
    have hpos : 0 < mx + mn := by linarith
    have hs : s = (mx - mn) / (mx + mn) := by
      show (mx - mn) / (1 - |2 * l - 1|) = _; rw [habs, hl]; congr 1; ring
    have hq : q = mx := by
      show (if l < 1/2 then l * (1 + s) else l + s - l * s) = mx
      rw [if_pos hc, hs, hl]; field_simp; ring
    refine ⟨hq, by rw [hq, hl]; ring, by rw [hs]; exact div_pos (by linarith) hpos, ?_⟩
    rw [hs, div_le_one hpos]; linarith
  · have hc' : 1/2 ≤ l := not_lt.mp hc
    have habs : |2 * l - 1| = 2 * l - 1 := abs_of_nonneg (by linarith)
    have hpos : 0 < 2 - (mx + mn) := by linarith
    have hs : s = (mx - mn) / (2 - (mx + mn)) := by
      show (mx - mn) / (1 - |2 * l - 1|) = _; rw [habs, hl]; congr 1; ring
    have hq : q = mx := by
      show (if l < 1/2 then l * (1 + s) else l + s - l * s) = mx
      rw [if_neg hc, hs, hl]; field_simp; ring
    refine ⟨hq, by rw [hq, hl]; ring, by rw [hs]; exact div_pos (by linarith) hpos, ?_⟩
    rw [hs, div_le_one hpos]; linarith

/-! ## `rgb_to_hsl` and `hsl_to_rgb` on exact fractions, in Mathlib's vocabulary -/

def mxOf (r g b : ℚ) : ℚ := max (max r g) b
def mnOf (r g b : ℚ) : ℚ := min (min r g) b
def lOf (r g b : ℚ) : ℚ := (mxOf r g b + mnOf r g b) / 2
def sOf (r g b : ℚ) : ℚ :=
  min 1 ((mxOf r g b - mnOf r g b) / (1 - |2 * lOf r g b - 1|))
/-- hue in sixths of a turn -/
def h6Of (r g b : ℚ) : ℚ :=
  if mxOf r g b = r then
    (g - b) / (mxOf r g b - mnOf r g b) - 6 * (⌊(g - b) / (mxOf r g b - mnOf r g b) / 6⌋ : ℚ)
  else if mxOf r g b = g then (b - r) / (mxOf r g b - mnOf r g b) + 2
  else (r - g) / (mxOf r g b - mnOf r g b) + 4
/-- `rgb_to_hsl` on channel fractions `v/255` -/
def hslOf (r g b : ℚ) : ℚ × ℚ × ℚ :=
  if mxOf r g b - mnOf r g b = 0 then (0, 0, lOf r g b)
  else (h6Of r g b * 60, sOf r g b, lOf r g b)

/-- `hsl_to_rgb` before the final `round(· * 255)` -/
def rgbOf (h s l : ℚ) : ℚ × ℚ × ℚ :=
  if s = 0 then (l, l, l)
  else back (if l < 1 / 2 then l * (1 + s) else l + s - l * s)
    (2 * l - (if l < 1 / 2 then l * (1 + s) else l + s - l * s)) (h / 360)

/-- what has to hold of the numbers `rgb_to_hsl` produces -/
def Good (r g b : ℚ) (t : ℚ × ℚ × ℚ) : Prop :=
  0 ≤ t.1 ∧ t.1 < 360 ∧ 0 ≤ t.2.1 ∧ t.2.1 ≤ 1 ∧ 0 ≤ t.2.2 ∧ t.2.2 ≤ 1 ∧
    rgbOf t.1 t.2.1 t.2.2 = (r, g, b)

theorem good_grey (v : ℚ) (h0 : 0 ≤ v) (h1 : v ≤ 1) : Good v v v (hslOf v v v) := by
  have : hslOf v v v = (0, 0, v) := by
    unfold hslOf lOf mxOf mnOf
    simp
  rw [this]
  refine ⟨le_refl _, by norm_num, le_refl _, by norm_num, h0, h1, ?_⟩
  unfold rgbOf
  rw [if_pos rfl]

theorem good_sector (r g b mx mn h6 : ℚ) (hmx : mxOf r g b = mx) (hmn : mnOf r g b = mn)
    (h0 : 0 ≤ mn) (h1 : mx ≤ 1) (hlt : mn < mx)
    (hh : h6Of r g b = h6) (hh0 : 0 ≤ h6) (hh6 : h6 < 6) (hback : back mx mn (h6 / 6) = (r, g, b)) :
    Good r g b (hslOf r g b) := by
  obtain ⟨hq, -, hs0, hs1⟩ := hsl_pq mx mn h0 h1 hlt
  have hl : lOf r g b = (mx + mn) / 2 := by unfold lOf; rw [hmx, hmn]
  have hs : sOf r g b = (mx - mn) / (1 - |2 * ((mx + mn) / 2) - 1|) := by
    unfold sOf; rw [hl, hmx, hmn]; exact min_eq_right hs1
  have : hslOf r g b = (h6 * 60, sOf r g b, lOf r g b) := by
    unfold hslOf; rw [hmx, hmn, if_neg (by intro h; linarith), hh]
  rw [this]
  refine ⟨by positivity, by show h6 * 60 < 360; linarith, by rw [hs]; exact hs0.le,
    by rw [hs]; exact hs1, by rw [hl]; linarith, by rw [hl]; linarith, ?_⟩
  show rgbOf (h6 * 60) (sOf r g b) (lOf r g b) = (r, g, b)
  unfold rgbOf
  rw [if_neg (by rw [hs]; exact hs0.ne'), hs, hl, hq]
  have e : 2 * ((mx + mn) / 2) - mx = mn := by ring
  have : h6 * 60 / 360 = h6 / 6 := by ring
  rw [e, this, hback]


theorem floor_sixth_pos (x : ℚ) (h0 : 0 ≤ x) (h1 : x ≤ 1) : ⌊x / 6⌋ = 0 := by
  rw [Int.floor_eq_iff]; constructor <;> norm_num <;> linarith
theorem floor_sixth_neg (x : ℚ) (h0 : -1 ≤ x) (h1 : x < 0) : ⌊x / 6⌋ = -1 := by
  rw [Int.floor_eq_iff]; constructor <;> norm_num <;> linarith

/-- all six sectors and the grey axis -/
theorem good_all (r g b : ℚ) (hr0 : 0 ≤ r) (hr1 : r ≤ 1) (hg0 : 0 ≤ g) (hg1 : g ≤ 1)
    (hb0 : 0 ≤ b) (hb1 : b ≤ 1) : Good r g b (hslOf r g b) := by
  by_cases hA : g ≤ r ∧ b ≤ r
  · obtain ⟨hgr, hbr⟩ := hA
    have hmx : mxOf r g b = r := by unfold mxOf; rw [max_eq_left hgr, max_eq_left hbr]
    by_cases hbg : b ≤ g
    · have hmn : mnOf r g b = b := by unfold mnOf; rw [min_eq_right hgr, min_eq_right hbg]
      rcases hbr.eq_or_lt with heq | hlt
      · -- grey
        subst heq
        have : g = b := le_antisymm hgr hbg
        subst this
        exact good_grey g hg0 hg1
      · obtain ⟨-, hx0, hx1⟩ := quot_pos_bounds (g - b) (r - b) (by linarith) (by linarith) (by linarith)
        refine good_sector r g b r b ((g - b) / (r - b)) hmx hmn hb0 hr1 hlt ?_ hx0 (by linarith)
          (sector_A1 r g b hbg hgr hlt)
        unfold h6Of
        rw [hmx, hmn, if_pos rfl, floor_sixth_pos _ hx0 hx1]; simp
    · have hgb : g < b := not_le.1 hbg
      have hmn : mnOf r g b = g := by unfold mnOf; rw [min_eq_right hgr, min_eq_left hgb.le]
      obtain ⟨-, hx0, hx1⟩ := quot_neg_bounds (g - b) (r - g) (by linarith) (by linarith) (by linarith)
      refine good_sector r g b r g ((g - b) / (r - g) + 6) hmx hmn hg0 hr1 (by linarith) ?_
        (by linarith) (by linarith) (sector_A2 r g b hgb hbr)
      unfold h6Of
      rw [hmx, hmn, if_pos rfl, floor_sixth_neg _ hx0 hx1]; push_cast; ring
  · by_cases hbg : b ≤ g
    · have hrg : r < g := by
        by_contra h; exact hA ⟨not_lt.1 h, le_trans hbg (not_lt.1 h)⟩
      have hmx : mxOf r g b = g := by unfold mxOf; rw [max_eq_right hrg.le, max_eq_left hbg]
      have hne : ¬ g = r := fun h => by linarith
      by_cases hrb : r ≤ b
      · have hmn : mnOf r g b = r := by unfold mnOf; rw [min_eq_left hrg.le, min_eq_left hrb]
        obtain ⟨-, hx0, hx1⟩ := quot_pos_bounds (b - r) (g - r) (by linarith) (by linarith) (by linarith)
        refine good_sector r g b g r ((b - r) / (g - r) + 2) hmx hmn hr0 hg1 hrg ?_
          (by linarith) (by linarith) (sector_B1 r g b hrb hbg hrg)
        unfold h6Of
        rw [hmx, hmn, if_neg hne, if_pos rfl]
      · have hbr : b < r := not_le.1 hrb
        have hmn : mnOf r g b = b := by unfold mnOf; rw [min_eq_left hrg.le, min_eq_right hbr.le]
        obtain ⟨-, hx0, hx1⟩ := quot_neg_bounds (b - r) (g - b) (by linarith) (by linarith) (by linarith)
        refine good_sector r g b g b ((b - r) / (g - b) + 2) hmx hmn hb0 hg1 (by linarith) ?_
          (by linarith) (by linarith) (sector_B2 r g b hbr hrg.le)
        unfold h6Of
        rw [hmx, hmn, if_neg hne, if_pos rfl]
    · have hgb : g < b := not_le.1 hbg
      have hrb : r < b := by
        by_contra h
        exact hA ⟨le_trans hgb.le (not_lt.1 h), not_lt.1 h⟩
      have hmx : mxOf r g b = b := by
        unfold mxOf; exact max_eq_right (max_le hrb.le hgb.le)
      have hne1 : ¬ b = r := fun h => by linarith
      have hne2 : ¬ b = g := fun h => by linarith
      by_cases hgr : g ≤ r
      · have hmn : mnOf r g b = g := by unfold mnOf; rw [min_eq_right hgr, min_eq_left hgb.le]
        obtain ⟨-, hx0, hx1⟩ := quot_pos_bounds (r - g) (b - g) (by linarith) (by linarith) (by linarith)
        refine good_sector r g b b g ((r - g) / (b - g) + 4) hmx hmn hg0 hb1 hgb ?_
          (by linarith) (by linarith) (sector_C1 r g b hgr hrb.le hgb)
        unfold h6Of
        rw [hmx, hmn, if_neg hne1, if_neg hne2]
      · have hrg : r < g := not_le.1 hgr
        have hmn : mnOf r g b = r := by unfold mnOf; rw [min_eq_left hrg.le, min_eq_left hrb.le]
        obtain ⟨-, hx0, hx1⟩ := quot_neg_bounds (r - g) (b - r) (by linarith) (by linarith) (by linarith)
        refine good_sector r g b b r ((r - g) / (b - r) + 4) hmx hmn hr0 hb1 hrb ?_
          (by linarith) (by linarith) (sector_C2 r g b hrg hgb.le)
        unfold h6Of
        rw [hmx, hmn, if_neg hne1, if_neg hne2]


/-! ## the model's functions at the exact carrier -/

theorem rat_abs (a : ℚ) : @Num.abs ℚ ratNum a = |a| := by
  show (if a < 0 then -a else a) = |a|
  split_ifs with h
  · exact (abs_of_neg h).symm
  · exact (abs_of_nonneg (not_lt.1 h)).symm

theorem rat_pmod (a b : ℚ) : @Num.pmod ℚ ratNum a b = a - b * (⌊a / b⌋ : ℚ) := rfl

theorem lit0 : (0.0 : ℚ) = 0 := by norm_num
theorem lit1 : (1.0 : ℚ) = 1 := by norm_num
theorem lit2 : (2.0 : ℚ) = 2 := by norm_num
theorem lit3 : (3.0 : ℚ) = 3 := by norm_num
theorem lit4 : (4.0 : ℚ) = 4 := by norm_num
theorem lit6 : (6.0 : ℚ) = 6 := by norm_num
theorem lit05 : (0.5 : ℚ) = 1 / 2 := by norm_num
theorem lit60 : (60.0 : ℚ) = 60 := by norm_num
theorem lit100 : (100.0 : ℚ) = 100 := by norm_num
theorem lit255 : (255.0 : ℚ) = 255 := by norm_num
theorem lit360 : (360.0 : ℚ) = 360 := by norm_num

theorem hslF_rat (p q t : ℚ) : @hslF ℚ ratNum p q t = F p q t := by
  unfold hslF F F0 wrap
  simp only [rat_lt, rat_gt, rat_add, rat_sub, rat_mul, rat_div, rat_sci, lit0, lit1, lit2, lit3, lit6]

theorem rgbToHsl_rat (R G B : ℚ) :
    @rgbToHsl ℚ ratNum R G B = hslOf (R / 255) (G / 255) (B / 255) := by
  unfold rgbToHsl hslOf h6Of sOf lOf mxOf mnOf
  simp only [rat_add, rat_sub, rat_mul, rat_div, rat_sci, rat_eq, rat_pmax, rat_pmin,
    rat_abs, rat_pmod, lit0, lit1, lit2, lit4, lit6, lit60, lit255]

theorem roundHE_int (n : ℤ) : @Num.roundHE ℚ ratNum (n : ℚ) = n := by
  unfold Num.roundHE
  simp only [rat_floor, rat_lt, rat_ofInt, rat_sci, Int.floor_intCast, sub_self, lit05]
  rw [if_pos (by norm_num)]

/-- `round(x * 255)` -/
def rnd (x : ℚ) : ℤ := @Num.roundHE ℚ ratNum (x * 255)

theorem rnd_byte (n : ℤ) : rnd ((n : ℚ) / 255) = n := by
  unfold rnd
  rw [div_mul_cancel₀ _ (by norm_num : (255 : ℚ) ≠ 0), roundHE_int]

theorem hslToRgbCore_rat (h s l : ℚ) :
    @hslToRgbCore ℚ ratNum h s l =
      (rnd (rgbOf h s l).1, rnd (rgbOf h s l).2.1, rnd (rgbOf h s l).2.2) := by
  unfold hslToRgbCore rgbOf back rnd
  simp only [rat_lt, rat_add, rat_sub, rat_mul, rat_div, rat_sci, rat_eq, hslF_rat,
    lit0, lit1, lit2, lit3, lit05, lit255, lit360]
  split_ifs <;> rfl


theorem rgbToHslText_rat (c : RGB) :
    @rgbToHslText ℚ ratNum c =
      ((hslOf ((c.1 : ℚ) / 255) ((c.2.1 : ℚ) / 255) ((c.2.2 : ℚ) / 255)).1,
       (hslOf ((c.1 : ℚ) / 255) ((c.2.1 : ℚ) / 255) ((c.2.2 : ℚ) / 255)).2.1 * 100,
       (hslOf ((c.1 : ℚ) / 255) ((c.2.1 : ℚ) / 255) ((c.2.2 : ℚ) / 255)).2.2 * 100) := by
  unfold rgbToHslText
  simp only [rgbToHsl_rat, rat_ofInt, rat_mul, rat_sci, lit100]

theorem hslTextToRgb_rat (h s l : ℚ) (hh0 : 0 ≤ h) (hh1 : h < 360) (hs0 : 0 ≤ s) (hs1 : s ≤ 1)
    (hl0 : 0 ≤ l) (hl1 : l ≤ 1) :
    @hslTextToRgb ℚ ratNum (h, s * 100, l * 100) =
      some (rnd (rgbOf h s l).1, rnd (rgbOf h s l).2.1, rnd (rgbOf h s l).2.2) := by
  unfold hslTextToRgb hslInRange
  simp only [rat_pmod, rat_div, rat_sci, rat_le, lit0, lit1, lit100, lit360, Bool.and_eq_true]
  have e1 : s * 100 / 100 = s := by ring
  have e2 : l * 100 / 100 = l := by ring
  have e3 : ⌊h / 360⌋ = 0 := by
    rw [Int.floor_eq_iff]; constructor
    · simp only [Int.cast_zero]; positivity
    · simp only [Int.cast_zero, zero_add]; rw [div_lt_one (by norm_num)]; exact hh1
  rw [e1, e2, e3, if_pos ⟨⟨hs0, hs1⟩, hl0, hl1⟩, hslToRgbCore_rat]
  simp

theorem byte_frac (v : ℤ) (h0 : 0 ≤ v) (h1 : v ≤ 255) : 0 ≤ (v : ℚ) / 255 ∧ (v : ℚ) / 255 ≤ 1 := by
  have a : (0 : ℚ) ≤ v := by exact_mod_cast h0
  have b : (v : ℚ) ≤ 255 := by exact_mod_cast h1
  exact ⟨by positivity, by rw [div_le_one (by norm_num)]; exact b⟩

theorem good_rgb (c : RGB) (hc : validRgb c = true) :
    Good ((c.1 : ℚ) / 255) ((c.2.1 : ℚ) / 255) ((c.2.2 : ℚ) / 255)
      (hslOf ((c.1 : ℚ) / 255) ((c.2.1 : ℚ) / 255) ((c.2.2 : ℚ) / 255)) := by
  obtain ⟨r, g, b⟩ := c
  unfold validRgb at hc
  simp only [Bool.and_eq_true, decide_eq_true_eq] at hc
  obtain ⟨⟨⟨hr0, hr1⟩, hg0, hg1⟩, hb0, hb1⟩ := hc
  exact good_all _ _ _ (byte_frac r hr0 hr1).1 (byte_frac r hr0 hr1).2 (byte_frac g hg0 hg1).1
    (byte_frac g hg0 hg1).2 (byte_frac b hb0 hb1).1 (byte_frac b hb0 hb1).2

/-- the exact reader returns the colour the exact writer was given -/
theorem hslText_roundtrip (c : RGB) (hc : validRgb c = true) :
    @hslTextToRgb ℚ ratNum (@rgbToHslText ℚ ratNum c) = some c := by
  obtain ⟨h0, h1, s0, s1, l0, l1, hback⟩ := good_rgb c hc
  rw [rgbToHslText_rat, hslTextToRgb_rat _ _ _ h0 h1 s0 s1 l0 l1, hback]
  simp only [rnd_byte]

/-- the three printed numbers are in the ranges the reader accepts -/
theorem hslText_range (c : RGB) (hc : validRgb c = true) :
    0 ≤ (@rgbToHslText ℚ ratNum c).1 ∧ (@rgbToHslText ℚ ratNum c).1 < 360 ∧
    0 ≤ (@rgbToHslText ℚ ratNum c).2.1 ∧ (@rgbToHslText ℚ ratNum c).2.1 ≤ 100 ∧
    0 ≤ (@rgbToHslText ℚ ratNum c).2.2 ∧ (@rgbToHslText ℚ ratNum c).2.2 ≤ 100 := by
  obtain ⟨h0, h1, s0, s1, l0, l1, -⟩ := good_rgb c hc
  rw [rgbToHslText_rat]
  refine ⟨h0, h1, ?_, ?_, ?_, ?_⟩ <;> dsimp only <;> linarith

end HslRt
end Cm
