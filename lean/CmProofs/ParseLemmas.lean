import CmProofs.ParseTable
import Mathlib.Data.List.Nodup
/-!
# `parseStr` on keywords and hex notations; spellings that parse alike
-/
namespace Cm.ParseSpec
open Cm Cm.Parse

/-! ## `strip`, `lower` on text without surrounding whitespace -/

theorem strip_fixed_of (cls : CharCls) (s : Str) (hne : s ≠ [])
    (hh : cls.isSpace (s.head hne) = false) (hl : cls.isSpace (s.getLast hne) = false) :
    Str.strip cls s = s := by
  rw [strip_eq_rdropWhile]
  have h1 : s.dropWhile cls.isSpace = s := by
    rw [List.dropWhile_eq_self_iff]
    intro h0
    rw [← List.head_eq_getElem_zero hne, hh]; simp
  rw [h1, List.rdropWhile_eq_self_iff]
  intro h
  rw [hl]; simp

theorem lower_ascii_eq_map (s : Str) : Str.lower asciiCls s = s.map lc := by
  unfold Str.lower
  induction s with
  | nil => rfl
  | cons x xs ih =>
    rw [List.flatMap_cons, ih]
    show asciiLower x ++ _ = _
    rw [asciiLower_eq]; rfl

theorem isAscii_of_hex {ds : Str} (h : ∀ c ∈ ds, Str.isHexDigit c = true) : IsAscii ds :=
  fun c hc => hexDigit_lt c (h c hc)

theorem isAscii_cons {c : Char} {s : Str} (hc : c.toNat < 128) (hs : IsAscii s) : IsAscii (c :: s) := by
  intro x hx
  rcases List.mem_cons.1 hx with rfl | h
  · exact hc
  · exact hs x h

/-- `'#' :: digits` is untouched by `strip` -/
theorem strip_hash_hex {cls : CharCls} (hf : AsciiFaithful cls) {ds : Str} (hne : ds ≠ [])
    (hall : ∀ c ∈ ds, Str.isHexDigit c = true) : Str.strip cls ('#' :: ds) = '#' :: ds := by
  apply strip_fixed_of cls _ (by simp)
  · rw [List.head_cons, hf.isSpace _ (by decide)]; decide
  · rw [List.getLast_cons hne]
    have hc := hall _ (List.getLast_mem hne)
    rw [hf.isSpace _ (hexDigit_lt _ hc)]
    exact (hexCharFacts _ hc).notSpace

theorem strip_hex {cls : CharCls} (hf : AsciiFaithful cls) {ds : Str}
    (hall : ∀ c ∈ ds, Str.isHexDigit c = true) : Str.strip cls ds = ds := by
  by_cases hne : ds = []
  · subst hne; rfl
  apply strip_fixed_of cls _ hne
  · have hc := hall _ (List.head_mem hne)
    rw [hf.isSpace _ (hexDigit_lt _ hc)]
    exact (hexCharFacts _ hc).notSpace
  · have hc := hall _ (List.getLast_mem hne)
    rw [hf.isSpace _ (hexDigit_lt _ hc)]
    exact (hexCharFacts _ hc).notSpace

/-! ## hex -/

/-- the colour `#abcdef` denotes -/
def hex6 (a b c d e f : Char) : RGB :=
  (Int.ofNat (16 * hv a + hv b), Int.ofNat (16 * hv c + hv d), Int.ofNat (16 * hv e + hv f))

theorem hexToRgb_hash6 {cls : CharCls} (hf : AsciiFaithful cls) (n : List (Str × Str))
    {a b c d e f : Char}
    (ha : Str.isHexDigit a = true) (hb : Str.isHexDigit b = true) (hc : Str.isHexDigit c = true)
    (hd : Str.isHexDigit d = true) (he : Str.isHexDigit e = true) (hf' : Str.isHexDigit f = true) :
    hexToRgb ⟨cls, n⟩ ['#', a, b, c, d, e, f] = .ok (hex6 a b c d e f) := by
  have hall : ∀ x ∈ [a, b, c, d, e, f], Str.isHexDigit x = true := by
    intro x hx; simp only [List.mem_cons, List.not_mem_nil, or_false] at hx
    rcases hx with rfl | rfl | rfl | rfl | rfl | rfl <;> assumption
  unfold hexToRgb
  simp only [strip_hash_hex hf (by simp) hall]
  have hl : Str.lstripHash ['#', a, b, c, d, e, f] = [a, b, c, d, e, f] := by
    unfold Str.lstripHash
    simp [(hexCharFacts a ha).neHash]
  simp only [hl, (hexCharFacts a ha).val, (hexCharFacts b hb).val, (hexCharFacts c hc).val,
    (hexCharFacts d hd).val, (hexCharFacts e he).val, (hexCharFacts f hf').val]
  rfl

theorem hexToRgb_hash3 {cls : CharCls} (hf : AsciiFaithful cls) (n : List (Str × Str))
    {a b c : Char}
    (ha : Str.isHexDigit a = true) (hb : Str.isHexDigit b = true) (hc : Str.isHexDigit c = true) :
    hexToRgb ⟨cls, n⟩ ['#', a, b, c] = .ok (hex6 a a b b c c) := by
  have hall : ∀ x ∈ [a, b, c], Str.isHexDigit x = true := by
    intro x hx; simp only [List.mem_cons, List.not_mem_nil, or_false] at hx
    rcases hx with rfl | rfl | rfl <;> assumption
  unfold hexToRgb
  simp only [strip_hash_hex hf (by simp) hall]
  have hl : Str.lstripHash ['#', a, b, c] = [a, b, c] := by
    unfold Str.lstripHash
    simp [(hexCharFacts a ha).neHash]
  simp only [hl, (hexCharFacts a ha).val, (hexCharFacts b hb).val, (hexCharFacts c hc).val]
  rfl


/-! ## `parseStr` -/
section
variable {α : Type} [Num α]

/-- `parse_color_to_rgb` strips first, and `strip` is idempotent -/
theorem parseStr_strip (E : PEnv) (color : Str) (bg : Option RGB) :
    parseStr (α := α) E (Str.strip E.cls color) bg = parseStr (α := α) E color bg := by
  unfold parseStr
  simp only [strip_idem]

theorem lc_hash : lc '#' = '#' := by decide

theorem parseStr_hash {cls : CharCls} (hf : AsciiFaithful cls) {ds : Str} (hne : ds ≠ [])
    (hall : ∀ c ∈ ds, Str.isHexDigit c = true) (bg : Option RGB) :
    parseStr (α := α) ⟨cls, namedEnv⟩ ('#' :: ds) bg = hexToRgb ⟨cls, namedEnv⟩ ('#' :: ds) := by
  unfold parseStr
  simp only [strip_hash_hex hf hne hall]
  have hlow : Str.lower cls ('#' :: ds) = '#' :: ds.map lc := by
    rw [lower_faithful hf (isAscii_cons (by decide) (isAscii_of_hex hall)), lower_ascii_eq_map,
      List.map_cons, lc_hash]
  simp only [hlow, lookupNamed_hash]
  simp [Str.startsWith]

theorem isBareHex_all {ds : Str} (h : isBareHex ds = true) : ∀ c ∈ ds, Str.isHexDigit c = true := by
  unfold isBareHex at h
  rw [Bool.and_eq_true] at h
  exact List.all_eq_true.1 h.2

theorem isBareHex_ne_nil {ds : Str} (h : isBareHex ds = true) : ds ≠ [] := by
  rintro rfl
  exact absurd h (by decide)

theorem parseStr_bare {cls : CharCls} (hf : AsciiFaithful cls) {ds : Str} (hb : isBareHex ds = true)
    (bg : Option RGB) :
    parseStr (α := α) ⟨cls, namedEnv⟩ ds bg = hexToRgb ⟨cls, namedEnv⟩ ('#' :: ds) := by
  have hall := isBareHex_all hb
  have hne := isBareHex_ne_nil hb
  unfold parseStr
  simp only [strip_hex hf hall]
  have hlow : Str.lower cls ds = ds.map lc := by
    rw [lower_faithful hf (isAscii_of_hex hall), lower_ascii_eq_map]
  have hb' : isBareHex (ds.map lc) = true := by
    unfold isBareHex at hb ⊢
    rw [Bool.and_eq_true] at hb ⊢
    refine ⟨by simpa using hb.1, ?_⟩
    rw [List.all_eq_true]
    intro c hc
    obtain ⟨d, hd, rfl⟩ := List.mem_map.1 hc
    exact (hexCharFacts d (hall d hd)).lcHex
  simp only [hlow, lookupNamed_bareHex cls hb', hb']
  obtain ⟨a, t, rfl⟩ := List.exists_cons_of_ne_nil hne
  have hneq : lc a ≠ '#' := (hexCharFacts a (hall a List.mem_cons_self)).lcNeHash
  have : Str.startsWith (lc a :: List.map lc t) ['#'] = false := by
    simp [Str.startsWith, List.isPrefixOf, hneq.symm]
  simp only [List.map_cons, this, Bool.false_or, if_true, Bool.false_eq_true, if_false]

/-- any spelling whose lower-casing is a keyword -/
theorem parseStr_named_of_lower {cls : CharCls} (hf : AsciiFaithful cls)
    {kv : String × (Nat × Nat × Nat)} (hkv : kv ∈ specTable) (s : Str)
    (hs : Str.strip cls s = s) (hl : Str.lower cls s = kv.1.toList) (bg : Option RGB) :
    parseStr (α := α) ⟨cls, namedEnv⟩ s bg = .ok (rgbOfNat kv.2) := by
  obtain ⟨hex, hlk, hasc, hrgb⟩ := (specEntryFacts hkv).lookup
  have hlk' : lookupNamed ⟨cls, namedEnv⟩ kv.1.toList = some hex := hlk
  unfold parseStr
  simp only [hs, hl, hlk']
  exact (hexToRgb_faithful hf _ _ hasc).trans hrgb

end

/-! ## the table, up to order -/

/-- what an entry of the generated table denotes -/
def denote (kv : Str × Str) : Str × Except PyErr RGB := (kv.1, hexToRgb ⟨asciiCls, []⟩ kv.2)

/-- what an entry of the spec table denotes -/
def specDenote (kv : String × (Nat × Nat × Nat)) : Str × Except PyErr RGB :=
  (kv.1.toList, .ok (rgbOfNat kv.2))

theorem namedEnv_length : namedEnv.length = 148 := by
  unfold namedEnv; rw [List.length_map]; exact namedTable_length

theorem specTable_perm : (specTable.map specDenote).Perm (namedEnv.map denote) := by
  apply List.Subperm.perm_of_length_le
  · apply List.subperm_of_subset
    · apply List.Nodup.of_map Prod.fst
      rw [List.map_map]
      exact nodup_of_distinctB specTable_distinctB
    · intro x hx
      obtain ⟨kv, hkv, rfl⟩ := List.mem_map.1 hx
      obtain ⟨hex, hlk, _, hrgb⟩ := (specEntryFacts hkv).lookup
      unfold lookupNamed at hlk
      obtain ⟨e, he, he2⟩ := Option.map_eq_some_iff.1 hlk
      have hmem := List.mem_of_find?_eq_some he
      have hkey := List.find?_some he
      simp only [decide_eq_true_eq] at hkey
      refine List.mem_map.2 ⟨e, hmem, ?_⟩
      unfold denote specDenote
      rw [hkey, he2, hexToRgb_named_irrel asciiCls [] namedEnv, hrgb]
  · rw [List.length_map, List.length_map, namedEnv_length, specTable_length]

/-! ## function notations: letter case -/
section
variable {α : Type} [Num α]

theorem lit_hsl : "hsl(".toList = ['h','s','l','('] := by decide
theorem lit_hsla : "hsla(".toList = ['h','s','l','a','('] := by decide
theorem lit_rgb : "rgb(".toList = ['r','g','b','('] := by decide
theorem lit_rgba : "rgba(".toList = ['r','g','b','a','('] := by decide
theorem lit_rgbsp : "rgb ".toList = ['r','g','b',' '] := by decide

theorem hslaStr_congr (E : PEnv) (s t : Str) (bg : Option RGB)
    (h : Str.lower E.cls (Str.strip E.cls s) = Str.lower E.cls (Str.strip E.cls t)) :
    hslaStrToRgb (α := α) E s bg = hslaStrToRgb (α := α) E t bg := by
  unfold hslaStrToRgb; simp only [h]

theorem hslStr_congr (E : PEnv) (s t : Str)
    (h : Str.lower E.cls (Str.strip E.cls s) = Str.lower E.cls (Str.strip E.cls t)) :
    hslStrToRgb (α := α) E s = hslStrToRgb (α := α) E t := by
  unfold hslStrToRgb; simp only [h]

theorem startsWith_iff (s p : Str) : Str.startsWith s p = true ↔ ∃ r, s = p ++ r := by
  unfold Str.startsWith
  rw [List.isPrefixOf_iff_prefix]
  exact ⟨fun ⟨r, h⟩ => ⟨r, h.symm⟩, fun ⟨r, h⟩ => ⟨r, h.symm⟩⟩

/-- function notations are read from the lower-cased text only -/
theorem parseStr_fn_case (E : PEnv) (s t : Str) (bg : Option RGB)
    (hs : Str.strip E.cls s = s) (ht : Str.strip E.cls t = t)
    (hl : Str.lower E.cls s = Str.lower E.cls t)
    (hfn : Str.startsWith (Str.lower E.cls s) "hsl(".toList = true ∨
           Str.startsWith (Str.lower E.cls s) "hsla(".toList = true ∨
           Str.startsWith (Str.lower E.cls s) "rgb(".toList = true ∨
           Str.startsWith (Str.lower E.cls s) "rgba(".toList = true) :
    parseStr (α := α) E s bg = parseStr (α := α) E t bg := by
  have h3 : hslaStrToRgb (α := α) E s bg = hslaStrToRgb (α := α) E t bg :=
    hslaStr_congr E s t bg (by rw [hs, ht, hl])
  have h4 : hslStrToRgb (α := α) E s = hslStrToRgb (α := α) E t :=
    hslStr_congr E s t (by rw [hs, ht, hl])
  unfold parseStr
  simp only [hs, ht, ← hl, h3, h4]
  generalize Str.lower E.cls s = sl at *
  cases hlk : lookupNamed E sl with
  | some hex => rfl
  | none =>
    simp only [lit_hsl, lit_hsla, lit_rgb, lit_rgba, lit_rgbsp] at hfn ⊢
    rcases hfn with h | h | h | h <;> obtain ⟨r, rfl⟩ := (startsWith_iff _ _).1 h <;>
      simp [Str.startsWith, List.isPrefixOf, isBareHex, Str.isHexDigit]
end

end Cm.ParseSpec
