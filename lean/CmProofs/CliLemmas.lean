import CmModel.Cli
import CmModel.Fs
/-!
# Lemmas about the CSS rewriter (`Cm.Cli`) and the per-file loop (`Cm.Fs`)

Helpers for C08 / C09 / C18: a step characterisation of `processRule` (`RuleStep`, `TunedStep`), the
shape relation on declaration lists and trees (`sameShape`, `sameShapeNode(s)`), counting
(`Grew`, `countNode(s)`), the invariant tying the pre-parsed `:root` / `html` blocks to the rules they
came from (`RootInv`, `RootsLe`), independence from the incoming counters (`StRel`, `ResRel`), the
per-rule trace (`relNode(s)`, `RuleStepped`), path lemmas and the per-file loop.
-/
namespace Cm.Cli

/-- the pre-parsed declaration list a top-level `:root`/`html` rule shares, if any -/
def sharedOf (top : Option Nat) (st : St) : Option (Nat × List Item) :=
  match top with
  | some i => (getRoot st i).map fun its => (i, its)
  | none => none

/-- the declaration list the tool looks at for a rule -/
def seenItems (top : Option Nat) (items0 : List Item) (st : St) : List Item :=
  match sharedOf top st with | some (_, its) => its | none => items0

def bgRawOf (env : CliEnv) (cfg : Cfg) (items : List Item) : Str :=
  match lastDecl items "background-color".toList with
  | some (_, bd) => strip env bd.value
  | none => cfg.defaultBg

def textOf (env : CliEnv) (st : St) (cd : Decl) : Str := resolveOr env st.vars (strip env cd.value)
def bgOf (env : CliEnv) (cfg : Cfg) (st : St) (items : List Item) : Str := resolveOr env st.vars (bgRawOf env cfg items)
def evalOf (env : CliEnv) (cfg : Cfg) (st : St) (items : List Item) (cd : Decl) : PairResult :=
  cfg.pairEval (textOf env st cd) (bgOf env cfg st items)

def viaVarOf (env : CliEnv) (st : St) (rawText : Str) : Option (Str × VarDef) :=
  if containsVar rawText then
    match searchVarSimple env rawText with
    | some name => (lookupVar st.vars name).map fun d => (name, d)
    | none => none
  else none

def failSt (st : St) (f : Failed) : St :=
  { st with failed := st.failed + 1, failedDetails := f :: st.failedDetails }
def accSt (st : St) : St := { st with accessible := st.accessible + 1 }
def tuneSt (st : St) (f : Fixed) : St :=
  { st with tuned := st.tuned + 1, fixedDetails := f :: st.fixedDetails }
def fixedOf (env : CliEnv) (cfg : Cfg) (st : St) (sel : Str) (items : List Item) (cd : Decl) : Fixed :=
  { selector := sel, bg := bgOf env cfg st items, originalText := textOf env st cd,
    tunedText := (evalOf env cfg st items cd).tuned,
    originalLevel := (evalOf env cfg st items cd).origLevel, newLevel := (evalOf env cfg st items cd).newLevel }
def rewriteVar (st1 : St) (name : Str) (d : VarDef) (v : Str) : St :=
  let st2 := match getRoot st1 d.rule with
    | some its => setRoot st1 d.rule (setDeclValue its d.item v)
    | none => st1
  { st2 with vars := st2.vars.map fun kv => if kv.1 = name then (name, { kv.2 with value := v }) else kv }
def shareBack (top : Option Nat) (st st1 : St) (items' : List Item) : St :=
  match sharedOf top st with | some (i, _) => setRoot st1 i items' | none => st1
def itemsAfterVar (top : Option Nat) (items : List Item) (st3 : St) : List Item :=
  match top with
  | some i => (getRoot st3 i).getD items
  | none => items

def tunedStep (env : CliEnv) (cfg : Cfg) (top : Option Nat) (sel : Str) (items0 : List Item) (st : St)
    (ci : Nat) (cd : Decl) : Except St (List Item × St) :=
  let items := seenItems top items0 st
  let v := (evalOf env cfg st items cd).tuned
  let st1 := tuneSt st (fixedOf env cfg st sel items cd)
  match viaVarOf env st (strip env cd.value) with
  | some (name, d) => .ok (itemsAfterVar top items (rewriteVar st1 name d v), rewriteVar st1 name d v)
  | none =>
    if !itemsSerialisable (setDeclValue items ci v) then .error st1
    else .ok (setDeclValue items ci v, shareBack top st st1 (setDeclValue items ci v))

def processRule' (env : CliEnv) (cfg : Cfg) (top : Option Nat) (sel : Str) (items0 : List Item) (st : St) :
    Except St (List Item × St) :=
  let items := seenItems top items0 st
  match lastDecl items "color".toList with
  | none => .ok (items, st)
  | some (ci, cd) =>
    let r := evalOf env cfg st items cd
    let text := textOf env st cd
    let bg := bgOf env cfg st items
    if r.raised then .ok (items, failSt st { selector := sel, text := text, bg := bg, invalid := false })
    else if !r.valid then .ok (items, failSt st { selector := sel, text := text, bg := bg, invalid := true })
    else if r.meets then .ok (items, accSt st)
    else if !r.ok then .ok (items, failSt st { selector := sel, text := text, bg := bg, invalid := false })
    else tunedStep env cfg top sel items0 st ci cd

theorem processRule_eq (env : CliEnv) (cfg : Cfg) (top : Option Nat) (sel : Str) (items0 : List Item) (st : St) :
    processRule env cfg top sel items0 st = processRule' env cfg top sel items0 st := rfl


inductive Verdict where
  | accessible | failed (invalid : Bool) | tuned
  deriving DecidableEq, Repr

def verdict (r : PairResult) : Verdict :=
  if r.raised then .failed false else if !r.valid then .failed true else if r.meets then .accessible
  else if !r.ok then .failed false else .tuned

inductive RuleStep (env : CliEnv) (cfg : Cfg) (top : Option Nat) (sel : Str) (items0 : List Item) (st : St) :
    Except St (List Item × St) → Prop
  | noColor : lastDecl (seenItems top items0 st) "color".toList = none →
      RuleStep env cfg top sel items0 st (.ok (seenItems top items0 st, st))
  | failed (ci : Nat) (cd : Decl) (inv : Bool) :
      lastDecl (seenItems top items0 st) "color".toList = some (ci, cd) →
      verdict (evalOf env cfg st (seenItems top items0 st) cd) = .failed inv →
      RuleStep env cfg top sel items0 st (.ok (seenItems top items0 st,
        failSt st { selector := sel, text := textOf env st cd, bg := bgOf env cfg st (seenItems top items0 st), invalid := inv }))
  | accessible (ci : Nat) (cd : Decl) :
      lastDecl (seenItems top items0 st) "color".toList = some (ci, cd) →
      verdict (evalOf env cfg st (seenItems top items0 st) cd) = .accessible →
      RuleStep env cfg top sel items0 st (.ok (seenItems top items0 st, accSt st))
  | tuned (ci : Nat) (cd : Decl) :
      lastDecl (seenItems top items0 st) "color".toList = some (ci, cd) →
      verdict (evalOf env cfg st (seenItems top items0 st) cd) = .tuned →
      RuleStep env cfg top sel items0 st (tunedStep env cfg top sel items0 st ci cd)

theorem processRule_step (env : CliEnv) (cfg : Cfg) (top : Option Nat) (sel : Str) (items0 : List Item) (st : St) :
    RuleStep env cfg top sel items0 st (processRule env cfg top sel items0 st) := by
  rw [processRule_eq]; simp only [processRule']
  split
  · next h => exact .noColor h
  · next ci cd h =>
    split
    · next h1 => exact .failed ci cd false h (by simp [verdict, h1])
    · next h1 =>
      split
      · next h2 => exact .failed ci cd true h (by simp [verdict, h1, h2])
      · next h2 =>
        split
        · next h3 => exact .accessible ci cd h (by simp [verdict, h1, h2, h3])
        · next h3 =>
          split
          · next h4 => exact .failed ci cd false h (by simp [verdict, h1, h2, h3, h4])
          · next h4 => exact .tuned ci cd h (by simp [verdict, h1, h2, h3, h4])

inductive TunedStep (env : CliEnv) (cfg : Cfg) (top : Option Nat) (sel : Str) (items0 : List Item) (st : St)
    (ci : Nat) (cd : Decl) : Except St (List Item × St) → Prop
  | viaVar (name : Str) (d : VarDef) :
      viaVarOf env st (strip env cd.value) = some (name, d) →
      TunedStep env cfg top sel items0 st ci cd (.ok (
        itemsAfterVar top (seenItems top items0 st)
          (rewriteVar (tuneSt st (fixedOf env cfg st sel (seenItems top items0 st) cd)) name d
            (evalOf env cfg st (seenItems top items0 st) cd).tuned),
        rewriteVar (tuneSt st (fixedOf env cfg st sel (seenItems top items0 st) cd)) name d
            (evalOf env cfg st (seenItems top items0 st) cd).tuned))
  | unserialisable :
      viaVarOf env st (strip env cd.value) = none →
      itemsSerialisable (setDeclValue (seenItems top items0 st) ci (evalOf env cfg st (seenItems top items0 st) cd).tuned) = false →
      TunedStep env cfg top sel items0 st ci cd (.error (tuneSt st (fixedOf env cfg st sel (seenItems top items0 st) cd)))
  | direct :
      viaVarOf env st (strip env cd.value) = none →
      itemsSerialisable (setDeclValue (seenItems top items0 st) ci (evalOf env cfg st (seenItems top items0 st) cd).tuned) = true →
      TunedStep env cfg top sel items0 st ci cd (.ok (
        setDeclValue (seenItems top items0 st) ci (evalOf env cfg st (seenItems top items0 st) cd).tuned,
        shareBack top st (tuneSt st (fixedOf env cfg st sel (seenItems top items0 st) cd))
          (setDeclValue (seenItems top items0 st) ci (evalOf env cfg st (seenItems top items0 st) cd).tuned)))

theorem tunedStep_step (env : CliEnv) (cfg : Cfg) (top : Option Nat) (sel : Str) (items0 : List Item) (st : St)
    (ci : Nat) (cd : Decl) : TunedStep env cfg top sel items0 st ci cd (tunedStep env cfg top sel items0 st ci cd) := by
  simp only [tunedStep]
  split
  · next name d h => exact .viaVar name d h
  · next h =>
    split
    · next h1 => exact .unserialisable h (by simpa using h1)
    · next h1 => exact .direct h (by simpa using h1)


/-! ## declaration lists -/

def sameItem : Item → Item → Prop
  | .decl d, .decl e => d.name = e.name ∧ d.lowerName = e.lowerName ∧ d.important = e.important ∧ d.comments = e.comments
  | .other t ok, .other t' ok' => t = t' ∧ ok = ok'
  | _, _ => False

def sameShape : List Item → List Item → Prop
  | [], [] => True
  | a :: as, b :: bs => sameItem a b ∧ sameShape as bs
  | _, _ => False

theorem sameItem_refl (a : Item) : sameItem a a := by cases a <;> simp [sameItem]
theorem sameItem_symm {a b : Item} (h : sameItem a b) : sameItem b a := by
  cases a <;> cases b <;> simp_all [sameItem]
theorem sameItem_trans {a b c : Item} (h : sameItem a b) (h' : sameItem b c) : sameItem a c := by
  cases a <;> cases b <;> cases c <;> simp_all [sameItem]

theorem sameShape_refl : (a : List Item) → sameShape a a
  | [] => trivial
  | x :: xs => ⟨sameItem_refl x, sameShape_refl xs⟩
theorem sameShape_symm : {a b : List Item} → sameShape a b → sameShape b a
  | [], [], _ => trivial
  | _ :: _, _ :: _, h => ⟨sameItem_symm h.1, sameShape_symm h.2⟩
  | [], _ :: _, h => h.elim
  | _ :: _, [], h => h.elim
theorem sameShape_trans : {a b c : List Item} → sameShape a b → sameShape b c → sameShape a c
  | [], [], [], _, _ => trivial
  | _ :: _, _ :: _, _ :: _, h, h' => ⟨sameItem_trans h.1 h'.1, sameShape_trans h.2 h'.2⟩
  | [], _ :: _, _, h, _ => h.elim
  | _ :: _, [], _, h, _ => h.elim
  | [], [], _ :: _, _, h => h.elim
  | _ :: _, _ :: _, [], _, h => h.elim

theorem sameShape_length : {a b : List Item} → sameShape a b → a.length = b.length
  | [], [], _ => rfl
  | _ :: _, _ :: _, h => by simp [sameShape_length h.2]
  | [], _ :: _, h => h.elim
  | _ :: _, [], h => h.elim

theorem sameShape_getElem? : {a b : List Item} → sameShape a b → ∀ (i : Nat) (x : Item), a[i]? = some x →
    ∃ y, b[i]? = some y ∧ sameItem x y
  | [], [], _ => by intro i x h; simp at h
  | x :: xs, y :: ys, h => by
    intro i z hz
    cases i with
    | zero => simp at hz; subst hz; exact ⟨y, by simp, h.1⟩
    | succ i => simp at hz; simpa using sameShape_getElem? h.2 i z hz
  | [], _ :: _, h => h.elim
  | _ :: _, [], h => h.elim

theorem sameShape_of_getElem? : (a b : List Item) → a.length = b.length →
    (∀ (i : Nat) (x y : Item), a[i]? = some x → b[i]? = some y → sameItem x y) → sameShape a b
  | [], [], _, _ => trivial
  | x :: xs, y :: ys, hl, h => by
    refine ⟨h 0 x y (by simp) (by simp), sameShape_of_getElem? xs ys (by simpa using hl) ?_⟩
    intro i x' y' hx hy
    exact h (i + 1) x' y' (by simpa using hx) (by simpa using hy)
  | [], _ :: _, hl, _ => by simp at hl
  | _ :: _, [], hl, _ => by simp at hl

/-- the element-wise update `setDeclValue` performs -/
def setVal (v : Str) : Item → Item
  | .decl d => .decl { d with value := v ++ d.comments }
  | o => o

theorem sameItem_setVal (v : Str) (a : Item) : sameItem a (setVal v a) := by
  cases a <;> simp [sameItem, setVal]

theorem setDeclValue_nil (k : Nat) (v : Str) : setDeclValue [] k v = [] := rfl
theorem mapIdx_eq_self {α : Type} : (l : List α) → (f : Nat → α → α) → (∀ i x, f i x = x) → l.mapIdx f = l
  | [], _, _ => rfl
  | a :: as, f, h => by
    rw [List.mapIdx_cons, h 0 a, mapIdx_eq_self as (fun i => f (i + 1)) (fun i x => h (i + 1) x)]

theorem setDeclValue_cons_zero (a : Item) (as : List Item) (v : Str) :
    setDeclValue (a :: as) 0 v = setVal v a :: as := by
  simp only [setDeclValue, List.mapIdx_cons]
  rw [mapIdx_eq_self as _ (fun i x => by simp)]
  cases a <;> rfl
theorem setDeclValue_cons_succ (a : Item) (as : List Item) (k : Nat) (v : Str) :
    setDeclValue (a :: as) (k + 1) v = a :: setDeclValue as k v := by
  simp [setDeclValue, List.mapIdx_cons]

theorem setDeclValue_sameShape : (items : List Item) → (k : Nat) → (v : Str) → sameShape items (setDeclValue items k v)
  | [], _, _ => trivial
  | a :: as, 0, v => by rw [setDeclValue_cons_zero]; exact ⟨sameItem_setVal v a, sameShape_refl as⟩
  | a :: as, k + 1, v => by
    rw [setDeclValue_cons_succ]; exact ⟨sameItem_refl a, setDeclValue_sameShape as k v⟩

/-- `lastDecl` without the accumulator -/
def lastDeclSpec : List Item → Str → Option (Nat × Decl)
  | [], _ => none
  | it :: r, n =>
    match lastDeclSpec r n with
    | some (i, d) => some (i + 1, d)
    | none => match it with
      | .decl d => if d.lowerName = n then some (0, d) else none
      | .other _ _ => none

theorem lastDecl_go_eq (n : Str) : (items : List Item) → (i : Nat) → (acc : Option (Nat × Decl)) →
    lastDecl.go n items i acc = match lastDeclSpec items n with | some (j, d) => some (i + j, d) | none => acc
  | [], _, _ => rfl
  | .decl d :: r, i, acc => by
    simp only [lastDecl.go, lastDeclSpec]
    rw [lastDecl_go_eq n r (i + 1)]
    cases lastDeclSpec r n with
    | some p => simp; omega
    | none => simp; split <;> simp_all
  | .other _ _ :: r, i, acc => by
    simp only [lastDecl.go, lastDeclSpec]
    rw [lastDecl_go_eq n r (i + 1)]
    cases lastDeclSpec r n with
    | some p => simp; omega
    | none => simp

theorem lastDecl_eq_spec (items : List Item) (n : Str) : lastDecl items n = lastDeclSpec items n := by
  unfold lastDecl; rw [lastDecl_go_eq]
  cases lastDeclSpec items n with
  | some p => simp
  | none => rfl


theorem lastDeclSpec_sameShape (n : Str) : {a b : List Item} → sameShape a b →
    (lastDeclSpec a n).map (·.1) = (lastDeclSpec b n).map (·.1)
  | [], [], _ => rfl
  | x :: xs, y :: ys, h => by
    have ih := lastDeclSpec_sameShape n h.2
    simp only [lastDeclSpec]
    cases hx : lastDeclSpec xs n <;> cases hy : lastDeclSpec ys n <;> simp [hx, hy] at ih ⊢
    · have h1 := h.1
      cases x <;> cases y <;> simp [sameItem] at h1 ⊢
      rw [h1.2.1]
    · exact ih
  | [], _ :: _, h => h.elim
  | _ :: _, [], h => h.elim

theorem lastDecl_sameShape (n : Str) {a b : List Item} (h : sameShape a b) :
    (lastDecl a n).map (·.1) = (lastDecl b n).map (·.1) := by
  rw [lastDecl_eq_spec, lastDecl_eq_spec]; exact lastDeclSpec_sameShape n h

theorem lastDecl_isSome_sameShape (n : Str) {a b : List Item} (h : sameShape a b) :
    (lastDecl a n).isSome = (lastDecl b n).isSome := by
  have := lastDecl_sameShape n h
  cases ha : lastDecl a n <;> cases hb : lastDecl b n <;> simp [ha, hb] at this ⊢

theorem lastDeclSpec_setDeclValue (n : Str) (v : Str) : (items : List Item) → (ci : Nat) → (cd : Decl) →
    lastDeclSpec items n = some (ci, cd) →
    lastDeclSpec (setDeclValue items ci v) n = some (ci, { cd with value := v ++ cd.comments })
  | [], _, _, h => by simp [lastDeclSpec] at h
  | x :: xs, ci, cd, h => by
    simp only [lastDeclSpec] at h
    cases hx : lastDeclSpec xs n with
    | some p =>
      obtain ⟨j, d⟩ := p
      simp [hx] at h
      obtain ⟨rfl, rfl⟩ := h
      rw [setDeclValue_cons_succ]
      simp [lastDeclSpec, lastDeclSpec_setDeclValue n v xs j d hx]
    | none =>
      simp only [hx] at h
      cases x with
      | other t ok => simp at h
      | decl d =>
        simp only at h
        split at h
        · next hn =>
          simp at h; obtain ⟨rfl, rfl⟩ := h
          rw [setDeclValue_cons_zero]
          simp [lastDeclSpec, hx, setVal, hn]
        · simp at h

theorem lastDecl_setDeclValue (n : Str) (v : Str) (items : List Item) (ci : Nat) (cd : Decl)
    (h : lastDecl items n = some (ci, cd)) :
    lastDecl (setDeclValue items ci v) n = some (ci, { cd with value := v ++ cd.comments }) := by
  rw [lastDecl_eq_spec] at h ⊢; exact lastDeclSpec_setDeclValue n v items ci cd h

theorem lastDeclSpec_getElem? (n : Str) : (items : List Item) → (ci : Nat) → (cd : Decl) →
    lastDeclSpec items n = some (ci, cd) → items[ci]? = some (.decl cd) ∧ cd.lowerName = n
  | [], _, _, h => by simp [lastDeclSpec] at h
  | x :: xs, ci, cd, h => by
    simp only [lastDeclSpec] at h
    cases hx : lastDeclSpec xs n with
    | some p =>
      obtain ⟨j, d⟩ := p
      simp [hx] at h
      obtain ⟨rfl, rfl⟩ := h
      simpa using lastDeclSpec_getElem? n xs j d hx
    | none =>
      simp only [hx] at h
      cases x with
      | other t ok => simp at h
      | decl d =>
        simp only at h
        split at h
        · next hn => simp at h; obtain ⟨rfl, rfl⟩ := h; simp [hn]
        · simp at h

theorem lastDecl_getElem? (n : Str) (items : List Item) (ci : Nat) (cd : Decl)
    (h : lastDecl items n = some (ci, cd)) : items[ci]? = some (.decl cd) ∧ cd.lowerName = n := by
  rw [lastDecl_eq_spec] at h; exact lastDeclSpec_getElem? n items ci cd h

theorem setDeclValue_getElem? (items : List Item) (k : Nat) (v : Str) (i : Nat) :
    (setDeclValue items k v)[i]? = (items[i]?).map fun it => if i = k then setVal v it else it := by
  simp only [setDeclValue, List.getElem?_mapIdx]
  cases items[i]? with
  | none => rfl
  | some it => simp only [Option.map]; split <;> (cases it <;> rfl)

theorem setDeclValue_length' (items : List Item) (k : Nat) (v : Str) :
    (setDeclValue items k v).length = items.length := by simp [setDeclValue]

/-! ## the shared `:root` / `html` blocks -/

theorem getRoot_mem {st : St} {i : Nat} {its : List Item} (h : getRoot st i = some its) : (i, its) ∈ st.rootDecls := by
  unfold getRoot at h
  cases hf : st.rootDecls.find? (·.1 = i) with
  | none => simp [hf] at h
  | some kv =>
    simp [hf] at h
    have h1 := List.find?_some hf
    have h2 := List.mem_of_find?_eq_some hf
    simp at h1
    obtain ⟨a, b⟩ := kv
    simp at h1 h; subst h1; subst h; exact h2

theorem find_setRoot (i k : Nat) (x : List Item) : (r : List (Nat × List Item)) →
    ((r.map fun kv => if kv.1 = k then (k, x) else kv).find? (·.1 = i)).map (·.2) =
      if k = i then ((r.find? (·.1 = i)).map (·.2)).map (fun _ => x) else (r.find? (·.1 = i)).map (·.2)
  | [] => by simp
  | kv :: r => by
    have ih := find_setRoot i k x r
    simp only [List.map_cons, List.find?_cons]
    by_cases h1 : kv.1 = k
    · rw [if_pos h1]
      by_cases h2 : k = i
      · have h3 : kv.1 = i := h1.trans h2
        simp [h2, h3]
      · have h3 : ¬ kv.1 = i := by omega
        simp only [h2, h3, decide_false, if_false] at ih ⊢; exact ih
    · rw [if_neg h1]
      by_cases h3 : kv.1 = i
      · have h2 : ¬ k = i := by omega
        simp only [h3, decide_true, if_neg h2, Option.map]
      · simp only [h3, decide_false]; exact ih

theorem getRoot_setRoot (st : St) (k : Nat) (x : List Item) (i : Nat) :
    getRoot (setRoot st k x) i = if k = i then (getRoot st i).map (fun _ => x) else getRoot st i := by
  unfold getRoot setRoot; exact find_setRoot i k x st.rootDecls

/-- the pre-parsed blocks of `r'` are those of `r`, up to declaration values -/
def RootsLe (r r' : List (Nat × List Item)) : Prop :=
  ∀ kv' ∈ r', ∃ kv ∈ r, kv.1 = kv'.1 ∧ sameShape kv.2 kv'.2

theorem RootsLe.refl (r : List (Nat × List Item)) : RootsLe r r :=
  fun kv h => ⟨kv, h, rfl, sameShape_refl _⟩
theorem RootsLe.trans {a b c : List (Nat × List Item)} (h : RootsLe a b) (h' : RootsLe b c) : RootsLe a c := by
  intro kv hkv
  obtain ⟨kv1, h1, e1, s1⟩ := h' kv hkv
  obtain ⟨kv2, h2, e2, s2⟩ := h kv1 h1
  exact ⟨kv2, h2, e2.trans e1, sameShape_trans s2 s1⟩

theorem rootsLe_setRoot (st : St) (k : Nat) (its x : List Item) (h : getRoot st k = some its) (hs : sameShape its x) :
    RootsLe st.rootDecls (setRoot st k x).rootDecls := by
  intro kv' hkv'
  simp only [setRoot, List.mem_map] at hkv'
  obtain ⟨kv, hkv, e⟩ := hkv'
  by_cases hk : kv.1 = k
  · simp [hk] at e; subst e
    exact ⟨(k, its), getRoot_mem h, rfl, hs⟩
  · simp [hk] at e; subst e
    exact ⟨kv, hkv, rfl, sameShape_refl _⟩


/-! ## what one rule does to the state -/

theorem seenItems_none (items0 : List Item) (st : St) : seenItems none items0 st = items0 := rfl
theorem seenItems_some (i : Nat) (items0 : List Item) (st : St) :
    seenItems (some i) items0 st = (getRoot st i).getD items0 := by
  simp only [seenItems, sharedOf]; cases getRoot st i <;> rfl

/-- the state carried by a result, whether it is a success or the state a failure leaves behind -/
def resSt {α : Type} : Except St (α × St) → St
  | .ok (_, st) => st
  | .error st => st

def total (st : St) : Nat := st.accessible + st.tuned + st.failed

/-- `st'` is `st` after `k` more rules with a text colour were classified: the three counters grew by `k`
    in total, none decreased, and the two detail lists grew at the front by exactly as many entries as
    their counters -/
structure Grew (k : Nat) (st st' : St) : Prop where
  total : total st' = total st + k
  acc : st.accessible ≤ st'.accessible
  tuned : st.tuned ≤ st'.tuned
  failed : st.failed ≤ st'.failed
  failedLen : st'.failedDetails.length + st.failed = st.failedDetails.length + st'.failed
  fixedLen : st'.fixedDetails.length + st.tuned = st.fixedDetails.length + st'.tuned
  failedSuffix : st.failedDetails <:+ st'.failedDetails
  fixedSuffix : st.fixedDetails <:+ st'.fixedDetails

theorem Grew.refl (st : St) : Grew 0 st st :=
  ⟨rfl, Nat.le_refl _, Nat.le_refl _, Nat.le_refl _, rfl, rfl, List.suffix_refl _, List.suffix_refl _⟩

theorem Grew.trans {a b : Nat} {s1 s2 s3 : St} (h : Grew a s1 s2) (h' : Grew b s2 s3) : Grew (a + b) s1 s3 where
  total := by have := h.total; have := h'.total; omega
  acc := Nat.le_trans h.acc h'.acc
  tuned := Nat.le_trans h.tuned h'.tuned
  failed := Nat.le_trans h.failed h'.failed
  failedLen := by have := h.failedLen; have := h'.failedLen; omega
  fixedLen := by have := h.fixedLen; have := h'.fixedLen; omega
  failedSuffix := h.failedSuffix.trans h'.failedSuffix
  fixedSuffix := h.fixedSuffix.trans h'.fixedSuffix

/-- `Grew` only looks at the counters and detail lists -/
theorem Grew.congr {k : Nat} {s1 s2 t1 t2 : St} (h : Grew k s1 s2)
    (e1 : s1.accessible = t1.accessible ∧ s1.tuned = t1.tuned ∧ s1.failed = t1.failed ∧
      s1.failedDetails = t1.failedDetails ∧ s1.fixedDetails = t1.fixedDetails)
    (e2 : s2.accessible = t2.accessible ∧ s2.tuned = t2.tuned ∧ s2.failed = t2.failed ∧
      s2.failedDetails = t2.failedDetails ∧ s2.fixedDetails = t2.fixedDetails) : Grew k t1 t2 := by
  obtain ⟨a1, a2, a3, a4, a5⟩ := e1
  obtain ⟨b1, b2, b3, b4, b5⟩ := e2
  have ht1 : Cm.Cli.total s1 = Cm.Cli.total t1 := by simp [Cm.Cli.total, a1, a2, a3]
  have ht2 : Cm.Cli.total s2 = Cm.Cli.total t2 := by simp [Cm.Cli.total, b1, b2, b3]
  exact ⟨by rw [← ht1, ← ht2]; exact h.total, by rw [← a1, ← b1]; exact h.acc, by rw [← a2, ← b2]; exact h.tuned,
    by rw [← a3, ← b3]; exact h.failed, by rw [← a3, ← b3, ← a4, ← b4]; exact h.failedLen,
    by rw [← a2, ← b2, ← a5, ← b5]; exact h.fixedLen, by rw [← a4, ← b4]; exact h.failedSuffix,
    by rw [← a5, ← b5]; exact h.fixedSuffix⟩

/-- the counters and detail lists of two states coincide -/
def SameCounts (s t : St) : Prop :=
  s.accessible = t.accessible ∧ s.tuned = t.tuned ∧ s.failed = t.failed ∧
    s.failedDetails = t.failedDetails ∧ s.fixedDetails = t.fixedDetails

theorem setRoot_sameCounts (st : St) (k : Nat) (x : List Item) : SameCounts (setRoot st k x) st :=
  ⟨rfl, rfl, rfl, rfl, rfl⟩
theorem rewriteVar_sameCounts (st1 : St) (name : Str) (d : VarDef) (v : Str) : SameCounts (rewriteVar st1 name d v) st1 := by
  unfold rewriteVar; cases getRoot st1 d.rule <;> exact ⟨rfl, rfl, rfl, rfl, rfl⟩
theorem shareBack_sameCounts (top : Option Nat) (st st1 : St) (x : List Item) : SameCounts (shareBack top st st1 x) st1 := by
  unfold shareBack; split <;> exact ⟨rfl, rfl, rfl, rfl, rfl⟩

def hasColor (items : List Item) : Bool := (lastDecl items "color".toList).isSome
def countItems (items : List Item) : Nat := if hasColor items then 1 else 0

theorem hasColor_of_some {items : List Item} {p : Nat × Decl} (h : lastDecl items "color".toList = some p) :
    hasColor items = true := by unfold hasColor; rw [h]; rfl
theorem hasColor_of_none {items : List Item} (h : lastDecl items "color".toList = none) :
    hasColor items = false := by unfold hasColor; rw [h]; rfl

theorem grew_failSt (st : St) (f : Failed) : Grew 1 st (failSt st f) :=
  ⟨by simp [Cm.Cli.total, failSt]; omega, Nat.le_refl _, Nat.le_refl _, Nat.le_succ _, by simp [failSt]; omega, rfl,
    ⟨[f], rfl⟩, List.suffix_refl _⟩
theorem grew_accSt (st : St) : Grew 1 st (accSt st) :=
  ⟨by simp [Cm.Cli.total, accSt]; omega, Nat.le_succ _, Nat.le_refl _, Nat.le_refl _, rfl, rfl,
    List.suffix_refl _, List.suffix_refl _⟩
theorem grew_tuneSt (st : St) (f : Fixed) : Grew 1 st (tuneSt st f) :=
  ⟨by simp [Cm.Cli.total, tuneSt]; omega, Nat.le_refl _, Nat.le_succ _, Nat.le_refl _, rfl, by simp [tuneSt]; omega,
    List.suffix_refl _, ⟨[f], rfl⟩⟩

theorem SameCounts.refl (s : St) : SameCounts s s := ⟨rfl, rfl, rfl, rfl, rfl⟩
theorem SameCounts.symm {s t : St} (h : SameCounts s t) : SameCounts t s :=
  ⟨h.1.symm, h.2.1.symm, h.2.2.1.symm, h.2.2.2.1.symm, h.2.2.2.2.symm⟩

theorem tunedStep_grew (env : CliEnv) (cfg : Cfg) (top : Option Nat) (sel : Str) (items0 : List Item) (st : St)
    (ci : Nat) (cd : Decl) : Grew 1 st (resSt (tunedStep env cfg top sel items0 st ci cd)) := by
  have hs := tunedStep_step env cfg top sel items0 st ci cd
  generalize tunedStep env cfg top sel items0 st ci cd = res at hs ⊢
  cases hs with
  | viaVar name d h => exact (grew_tuneSt st _).congr (SameCounts.refl _) (rewriteVar_sameCounts _ _ _ _).symm
  | unserialisable h h' => exact grew_tuneSt st _
  | direct h h' => exact (grew_tuneSt st _).congr (SameCounts.refl _) (shareBack_sameCounts _ _ _ _).symm

theorem processRule_grew (env : CliEnv) (cfg : Cfg) (top : Option Nat) (sel : Str) (items0 : List Item) (st : St) :
    Grew (countItems (seenItems top items0 st)) st (resSt (processRule env cfg top sel items0 st)) := by
  have hs := processRule_step env cfg top sel items0 st
  generalize processRule env cfg top sel items0 st = res at hs ⊢
  cases hs with
  | noColor h => simp only [countItems, hasColor, h, resSt]; exact Grew.refl st
  | failed ci cd inv h hv => simp only [countItems, hasColor, h, resSt]; exact grew_failSt st _
  | accessible ci cd h hv => simp only [countItems, hasColor, h, resSt]; exact grew_accSt st
  | tuned ci cd h hv => simp only [countItems, hasColor, h]; exact tunedStep_grew env cfg top sel items0 st ci cd


/-! ### shape of the declaration lists -/

theorem getRoot_rewriteVar (st1 : St) (name : Str) (d : VarDef) (v : Str) (i : Nat) :
    getRoot (rewriteVar st1 name d v) i =
      match getRoot st1 d.rule with
      | some its => if d.rule = i then some (setDeclValue its d.item v) else getRoot st1 i
      | none => getRoot st1 i := by
  unfold rewriteVar
  cases h : getRoot st1 d.rule with
  | none => rfl
  | some its =>
    show getRoot (setRoot st1 d.rule (setDeclValue its d.item v)) i = _
    rw [getRoot_setRoot]
    by_cases hi : d.rule = i
    · simp only [hi, if_true]; rw [← hi, h]; rfl
    · simp only [hi, if_false]

theorem rewriteVar_rootsLe (st1 : St) (name : Str) (d : VarDef) (v : Str) :
    RootsLe st1.rootDecls (rewriteVar st1 name d v).rootDecls := by
  unfold rewriteVar
  cases h : getRoot st1 d.rule with
  | none => exact RootsLe.refl _
  | some its => exact rootsLe_setRoot st1 d.rule its _ h (setDeclValue_sameShape its d.item v)

theorem sharedOf_some {top : Option Nat} {st : St} {i : Nat} {its : List Item} (h : sharedOf top st = some (i, its)) :
    top = some i ∧ getRoot st i = some its := by
  unfold sharedOf at h
  cases top with
  | none => simp at h
  | some j =>
    cases hg : getRoot st j with
    | none => simp [hg] at h
    | some a => simp [hg] at h; obtain ⟨rfl, rfl⟩ := h; exact ⟨rfl, hg⟩

theorem seenItems_of_shared {top : Option Nat} {st : St} {i : Nat} {its : List Item} (items0 : List Item)
    (h : sharedOf top st = some (i, its)) : seenItems top items0 st = its := by
  simp only [seenItems, h]

theorem shareBack_rootsLe (top : Option Nat) (st : St) (f : Fixed) (items0 : List Item) (k : Nat) (v : Str) :
    RootsLe st.rootDecls (shareBack top st (tuneSt st f) (setDeclValue (seenItems top items0 st) k v)).rootDecls := by
  unfold shareBack
  cases h : sharedOf top st with
  | none => exact RootsLe.refl _
  | some p =>
    obtain ⟨i, its⟩ := p
    rw [seenItems_of_shared items0 h]
    exact rootsLe_setRoot (tuneSt st f) i its _ (sharedOf_some h).2 (setDeclValue_sameShape its k v)

theorem processRule_rootsLe (env : CliEnv) (cfg : Cfg) (top : Option Nat) (sel : Str) (items0 : List Item) (st : St) :
    RootsLe st.rootDecls (resSt (processRule env cfg top sel items0 st)).rootDecls := by
  have hs := processRule_step env cfg top sel items0 st
  generalize processRule env cfg top sel items0 st = res at hs ⊢
  cases hs with
  | noColor h => exact RootsLe.refl _
  | failed ci cd inv h hv => exact RootsLe.refl _
  | accessible ci cd h hv => exact RootsLe.refl _
  | tuned ci cd h hv =>
    have ht := tunedStep_step env cfg top sel items0 st ci cd
    generalize tunedStep env cfg top sel items0 st ci cd = res at ht ⊢
    cases ht with
    | viaVar name d h => exact rewriteVar_rootsLe (tuneSt st _) name d _
    | unserialisable h h' => exact RootsLe.refl _
    | direct h h' => exact shareBack_rootsLe top st _ items0 ci _

theorem itemsAfterVar_shape (top : Option Nat) (items0 : List Item) (st : St) (f : Fixed) (name : Str) (d : VarDef) (v : Str) :
    sameShape (seenItems top items0 st)
      (itemsAfterVar top (seenItems top items0 st) (rewriteVar (tuneSt st f) name d v)) := by
  cases top with
  | none => exact sameShape_refl _
  | some i =>
    simp only [itemsAfterVar, seenItems_some, getRoot_rewriteVar]
    have e : ∀ j, getRoot (tuneSt st f) j = getRoot st j := fun _ => rfl
    simp only [e]
    cases hd : getRoot st d.rule with
    | none => simp only; cases getRoot st i <;> exact sameShape_refl _
    | some its =>
      simp only
      by_cases hi : d.rule = i
      · subst hi; simp only [if_true, hd, Option.getD]; exact setDeclValue_sameShape its d.item v
      · simp only [hi, if_false]; cases getRoot st i <;> exact sameShape_refl _

theorem processRule_shape (env : CliEnv) (cfg : Cfg) (top : Option Nat) (sel : Str) (items0 : List Item) (st : St)
    (items' : List Item) (st' : St) (hok : processRule env cfg top sel items0 st = .ok (items', st')) :
    sameShape (seenItems top items0 st) items' := by
  have hs := processRule_step env cfg top sel items0 st
  rw [hok] at hs
  generalize hr : (Except.ok (items', st') : Except St (List Item × St)) = res at hs
  cases hs with
  | noColor h => cases hr; exact sameShape_refl _
  | failed ci cd inv h hv => cases hr; exact sameShape_refl _
  | accessible ci cd h hv => cases hr; exact sameShape_refl _
  | tuned ci cd h hv =>
    have ht := tunedStep_step env cfg top sel items0 st ci cd
    rw [← hr] at ht
    generalize hr' : (Except.ok (items', st') : Except St (List Item × St)) = res' at ht
    cases ht with
    | viaVar name d h => cases hr'; exact itemsAfterVar_shape top items0 st _ name d _
    | unserialisable h h' => cases hr'
    | direct h h' => cases hr'; exact setDeclValue_sameShape _ _ _


/-! ## the tree -/

/-- the at-rules the tool descends into -/
def isNested (kw : Str) : Bool := kw = "media".toList || kw = "supports".toList

def nodesSerialisable (ns : List Node) : Bool := ns.all fun n => match n with | .other _ ok => ok | _ => true

theorem processNode_rule (env : CliEnv) (cfg : Cfg) (top : Option Nat) (st : St) (sel : Str) (items : List Item) :
    processNode env cfg top st (.rule sel items) =
      match processRule env cfg top sel items st with
      | .ok (its, st') => .ok (.rule sel its, st')
      | .error e => .error e := by
  simp only [processNode]
  cases processRule env cfg top sel items st with
  | ok p => rfl
  | error e => rfl

theorem processNode_at (env : CliEnv) (cfg : Cfg) (top : Option Nat) (st : St) (kw pre : Str) (body : List Node) :
    processNode env cfg top st (.at kw pre body) =
      if isNested kw then
        match processNodes env cfg st body with
        | .error e => .error e
        | .ok (body', st') => if nodesSerialisable body' then .ok (.at kw pre body', st') else .error st'
      else .ok (.at kw pre body, st) := by
  by_cases h : isNested kw = true
  · have h' : (decide (kw = "media".toList) || decide (kw = "supports".toList)) = true := h
    rw [if_pos h]
    simp only [processNode, bind, Except.bind, pure, Except.pure, throw, throwThe, MonadExceptOf.throw,
      nodesSerialisable, h', if_true]
    cases processNodes env cfg st body with
    | error e => rfl
    | ok q => rfl
  · have h' : ¬ (decide (kw = "media".toList) || decide (kw = "supports".toList)) = true := h
    rw [if_neg h]
    simp only [processNode, h', if_false, pure, Except.pure, Bool.false_eq_true]

theorem processNode_other (env : CliEnv) (cfg : Cfg) (top : Option Nat) (st : St) (t : Str) (ok : Bool) :
    processNode env cfg top st (.other t ok) = .ok (.other t ok, st) := by
  simp only [processNode]; rfl

theorem processNodes_nil (env : CliEnv) (cfg : Cfg) (st : St) : processNodes env cfg st [] = .ok ([], st) := by
  simp only [processNodes]; rfl

theorem processNodes_cons (env : CliEnv) (cfg : Cfg) (st : St) (n : Node) (ns : List Node) :
    processNodes env cfg st (n :: ns) =
      match processNode env cfg none st n with
      | .error e => .error e
      | .ok (n', st1) =>
        match processNodes env cfg st1 ns with
        | .error e => .error e
        | .ok (ns', st2) => .ok (n' :: ns', st2) := by
  simp only [processNodes, bind, Except.bind, pure, Except.pure]
  cases processNode env cfg none st n with
  | error e => rfl
  | ok p =>
    obtain ⟨n', st1⟩ := p
    simp only
    cases processNodes env cfg st1 ns with
    | error e => rfl
    | ok q => rfl

/-- the index a top-level node is processed with -/
def topOf (n : Node) (i : Nat) : Option Nat :=
  match n with | .rule sel _ => if isRootSel sel then some i else none | _ => none

theorem processTop_nil (env : CliEnv) (cfg : Cfg) (st : St) (i : Nat) : processTop env cfg [] i st = .ok ([], st) := by
  simp only [processTop]; rfl

theorem processTop_cons (env : CliEnv) (cfg : Cfg) (st : St) (n : Node) (ns : List Node) (i : Nat) :
    processTop env cfg (n :: ns) i st =
      match processNode env cfg (topOf n i) st n with
      | .error e => .error e
      | .ok (n', st1) =>
        match processTop env cfg ns (i + 1) st1 with
        | .error e => .error e
        | .ok (ns', st2) => .ok (n' :: ns', st2) := by
  simp only [processTop, bind, Except.bind, pure, Except.pure, topOf]
  cases processNode env cfg _ st n with
  | error e => rfl
  | ok p =>
    obtain ⟨n', st1⟩ := p
    simp only
    cases processTop env cfg ns (i + 1) st1 with
    | error e => rfl
    | ok q => rfl

mutual
  /-- number of rules with a text colour the tool classifies in a node -/
  def countNode : Node → Nat
    | .rule _ items => countItems items
    | .at kw _ body => if isNested kw then countNodes body else 0
    | .other _ _ => 0
  def countNodes : List Node → Nat
    | [] => 0
    | n :: ns => countNode n + countNodes ns
end

mutual
  /-- same node up to the values of declarations -/
  def sameShapeNode : Node → Node → Prop
    | .rule s a, .rule s' b => s = s' ∧ sameShape a b
    | .at k p b, .at k' p' b' => k = k' ∧ p = p' ∧ sameShapeNodes b b'
    | .other t ok, .other t' ok' => t = t' ∧ ok = ok'
    | _, _ => False
  def sameShapeNodes : List Node → List Node → Prop
    | [], [] => True
    | a :: as, b :: bs => sameShapeNode a b ∧ sameShapeNodes as bs
    | _, _ => False
end

theorem sameShapeNode_rule {s s' : Str} {a b : List Item} :
    sameShapeNode (.rule s a) (.rule s' b) ↔ s = s' ∧ sameShape a b := by simp only [sameShapeNode]
theorem sameShapeNode_at {k p k' p' : Str} {b b' : List Node} :
    sameShapeNode (.at k p b) (.at k' p' b') ↔ k = k' ∧ p = p' ∧ sameShapeNodes b b' := by simp only [sameShapeNode]
theorem sameShapeNode_other {t t' : Str} {ok ok' : Bool} :
    sameShapeNode (.other t ok) (.other t' ok') ↔ t = t' ∧ ok = ok' := by simp only [sameShapeNode]
theorem sameShapeNodes_nil : sameShapeNodes [] [] := by simp only [sameShapeNodes]
theorem sameShapeNodes_cons {a b : Node} {as bs : List Node} :
    sameShapeNodes (a :: as) (b :: bs) ↔ sameShapeNode a b ∧ sameShapeNodes as bs := by simp only [sameShapeNodes]

mutual
  theorem sameShapeNode_refl : (n : Node) → sameShapeNode n n
    | .rule _ a => sameShapeNode_rule.2 ⟨rfl, sameShape_refl a⟩
    | .at _ _ b => sameShapeNode_at.2 ⟨rfl, rfl, sameShapeNodes_refl b⟩
    | .other _ _ => sameShapeNode_other.2 ⟨rfl, rfl⟩
  theorem sameShapeNodes_refl : (ns : List Node) → sameShapeNodes ns ns
    | [] => sameShapeNodes_nil
    | n :: ns => sameShapeNodes_cons.2 ⟨sameShapeNode_refl n, sameShapeNodes_refl ns⟩
end

/-- what processing a node (list) yields: on success the same shape, exactly `count` more classified
    rules; on failure at most `count` more; the shared blocks keep their shape either way -/
def NodeRes {α : Type} (count : Nat) (st : St) (same : α → Prop) : Except St (α × St) → Prop
  | .ok (a, st') => same a ∧ Grew count st st' ∧ RootsLe st.rootDecls st'.rootDecls
  | .error st' => (∃ k, k ≤ count ∧ Grew k st st') ∧ RootsLe st.rootDecls st'.rootDecls

theorem countItems_sameShape {a b : List Item} (h : sameShape a b) : countItems a = countItems b := by
  unfold countItems hasColor; rw [lastDecl_isSome_sameShape _ h]

theorem processRule_nodeRes (env : CliEnv) (cfg : Cfg) (top : Option Nat) (sel : Str) (items0 : List Item) (st : St)
    (hseen : sameShape items0 (seenItems top items0 st)) :
    NodeRes (countItems items0) st (sameShape items0) (processRule env cfg top sel items0 st) := by
  have hg := processRule_grew env cfg top sel items0 st
  have hr := processRule_rootsLe env cfg top sel items0 st
  rw [← countItems_sameShape hseen] at hg
  cases hres : processRule env cfg top sel items0 st with
  | error e => rw [hres] at hg hr; exact ⟨⟨_, Nat.le_refl _, hg⟩, hr⟩
  | ok p =>
    obtain ⟨items', st'⟩ := p
    rw [hres] at hg hr
    exact ⟨sameShape_trans hseen (processRule_shape env cfg top sel items0 st items' st' hres), hg, hr⟩

mutual
  theorem processNode_spec (env : CliEnv) (cfg : Cfg) (top : Option Nat) (st : St) : (n : Node) →
      (∀ sel items0, n = .rule sel items0 → sameShape items0 (seenItems top items0 st)) →
      NodeRes (countNode n) st (sameShapeNode n) (processNode env cfg top st n)
    | .rule sel items, hseen => by
      have h := processRule_nodeRes env cfg top sel items st (hseen sel items rfl)
      rw [processNode_rule]
      cases hres : processRule env cfg top sel items st with
      | error e => rw [hres] at h; simp only [NodeRes, countNode] at h ⊢; exact h
      | ok p =>
        obtain ⟨items', st'⟩ := p
        rw [hres] at h
        simp only [NodeRes, countNode] at h ⊢
        exact ⟨sameShapeNode_rule.2 ⟨rfl, h.1⟩, h.2⟩
    | .at kw pre body, _ => by
      rw [processNode_at]
      by_cases hk : isNested kw = true
      · have ih := processNodes_spec env cfg st body
        simp only [hk, if_true, countNode]
        cases hres : processNodes env cfg st body with
        | error e => rw [hres] at ih; exact ih
        | ok p =>
          obtain ⟨body', st'⟩ := p
          rw [hres] at ih
          simp only
          split
          · exact ⟨sameShapeNode_at.2 ⟨rfl, rfl, ih.1⟩, ih.2⟩
          · exact ⟨⟨_, Nat.le_refl _, ih.2.1⟩, ih.2.2⟩
      · simp only [hk, countNode]
        exact ⟨sameShapeNode_refl _, Grew.refl st, RootsLe.refl _⟩
    | .other t ok, _ => by
      rw [processNode_other]
      exact ⟨sameShapeNode_refl _, by simp only [countNode]; exact Grew.refl st, RootsLe.refl _⟩
  theorem processNodes_spec (env : CliEnv) (cfg : Cfg) (st : St) : (ns : List Node) →
      NodeRes (countNodes ns) st (sameShapeNodes ns) (processNodes env cfg st ns)
    | [] => by
      rw [processNodes_nil]
      exact ⟨sameShapeNodes_nil, by simp only [countNodes]; exact Grew.refl st, RootsLe.refl _⟩
    | n :: ns => by
      have ih1 := processNode_spec env cfg none st n (fun _ _ _ => sameShape_refl _)
      rw [processNodes_cons]
      simp only [countNodes]
      cases hres : processNode env cfg none st n with
      | error e =>
        rw [hres] at ih1
        obtain ⟨⟨k, hk, hg⟩, hr⟩ := ih1
        exact ⟨⟨k, by omega, hg⟩, hr⟩
      | ok p =>
        obtain ⟨n', st1⟩ := p
        rw [hres] at ih1
        obtain ⟨hs1, hg1, hr1⟩ := ih1
        have ih2 := processNodes_spec env cfg st1 ns
        simp only
        cases hres2 : processNodes env cfg st1 ns with
        | error e =>
          rw [hres2] at ih2
          obtain ⟨⟨k, hk, hg⟩, hr⟩ := ih2
          exact ⟨⟨countNode n + k, by omega, hg1.trans hg⟩, hr1.trans hr⟩
        | ok q =>
          obtain ⟨ns', st2⟩ := q
          rw [hres2] at ih2
          obtain ⟨hs2, hg2, hr2⟩ := ih2
          exact ⟨sameShapeNodes_cons.2 ⟨hs1, hs2⟩, hg1.trans hg2, hr1.trans hr2⟩
end


/-! ## the top level: pre-pass, shared blocks, post-pass -/

/-- every pre-parsed block has the shape of the rule it was parsed from (`off` = index of `ns`' head) -/
def RootInv (ns : List Node) (off : Nat) (roots : List (Nat × List Item)) : Prop :=
  ∀ kv ∈ roots, ∀ (j : Nat) (sel : Str) (items : List Item), kv.1 = off + j → ns[j]? = some (.rule sel items) →
    sameShape items kv.2

theorem RootInv.step {n : Node} {ns : List Node} {off : Nat} {r r' : List (Nat × List Item)}
    (h : RootInv (n :: ns) off r) (hle : RootsLe r r') : RootInv ns (off + 1) r' := by
  intro kv' hkv' j sel items hj hn
  obtain ⟨kv, hkv, e, hs⟩ := hle kv' hkv'
  exact sameShape_trans (h kv hkv (j + 1) sel items (by omega) (by simpa using hn)) hs

theorem RootInv.mono {ns : List Node} {off : Nat} {r r' : List (Nat × List Item)}
    (h : RootInv ns off r) (hle : RootsLe r r') : RootInv ns off r' := by
  intro kv' hkv' j sel items hj hn
  obtain ⟨kv, hkv, e, hs⟩ := hle kv' hkv'
  exact sameShape_trans (h kv hkv j sel items (by omega) hn) hs

theorem RootInv.seen {sel : Str} {items0 : List Item} {ns : List Node} {i : Nat} {st : St}
    (h : RootInv (.rule sel items0 :: ns) i st.rootDecls) (top : Option Nat) (htop : top = none ∨ top = some i) :
    sameShape items0 (seenItems top items0 st) := by
  cases htop with
  | inl h0 => subst h0; exact sameShape_refl _
  | inr h1 =>
    subst h1
    rw [seenItems_some]
    cases hg : getRoot st i with
    | none => exact sameShape_refl _
    | some its => exact h _ (getRoot_mem hg) 0 sel items0 rfl rfl

theorem processTop_spec (env : CliEnv) (cfg : Cfg) : (ns : List Node) → (i : Nat) → (st : St) →
    RootInv ns i st.rootDecls →
    NodeRes (countNodes ns) st (sameShapeNodes ns) (processTop env cfg ns i st)
  | [], i, st, _ => by
    rw [processTop_nil]
    exact ⟨sameShapeNodes_nil, by simp only [countNodes]; exact Grew.refl st, RootsLe.refl _⟩
  | n :: ns, i, st, hinv => by
    have ih1 := processNode_spec env cfg (topOf n i) st n (by
      intro sel items0 hn
      subst hn
      refine hinv.seen _ ?_
      simp only [topOf]; split <;> simp)
    rw [processTop_cons]
    simp only [countNodes]
    cases hres : processNode env cfg (topOf n i) st n with
    | error e =>
      rw [hres] at ih1
      obtain ⟨⟨k, hk, hg⟩, hr⟩ := ih1
      exact ⟨⟨k, by omega, hg⟩, hr⟩
    | ok p =>
      obtain ⟨n', st1⟩ := p
      rw [hres] at ih1
      obtain ⟨hs1, hg1, hr1⟩ := ih1
      have ih2 := processTop_spec env cfg ns (i + 1) st1 (hinv.step hr1)
      simp only
      cases hres2 : processTop env cfg ns (i + 1) st1 with
      | error e =>
        rw [hres2] at ih2
        obtain ⟨⟨k, hk, hg⟩, hr⟩ := ih2
        exact ⟨⟨countNode n + k, by omega, hg1.trans hg⟩, hr1.trans hr⟩
      | ok q =>
        obtain ⟨ns', st2⟩ := q
        rw [hres2] at ih2
        obtain ⟨hs2, hg2, hr2⟩ := ih2
        exact ⟨sameShapeNodes_cons.2 ⟨hs1, hs2⟩, hg1.trans hg2, hr1.trans hr2⟩

/-- what the pre-pass collects: every block comes from a top-level `:root` / `html` rule, verbatim -/
theorem prePass_go_roots (env : CliEnv) : (ns : List Node) → (i : Nat) → (st : St) →
    ∀ kv ∈ (prePass.go env ns i st).rootDecls, kv ∈ st.rootDecls ∨
      ∃ j sel, kv.1 = i + j ∧ ns[j]? = some (.rule sel kv.2) ∧ isRootSel sel = true
  | [], _, st => by intro kv h; exact .inl h
  | .rule sel items :: r, i, st => by
    intro kv h
    simp only [prePass.go] at h
    split at h
    · next hsel =>
      rcases prePass_go_roots env r (i + 1) _ kv h with h1 | ⟨j, sel', e, hn, hs⟩
      · simp only [List.mem_append, List.mem_singleton] at h1
        rcases h1 with h1 | h1
        · exact .inl h1
        · subst h1; exact .inr ⟨0, sel, rfl, rfl, hsel⟩
      · exact .inr ⟨j + 1, sel', by omega, by simpa using hn, hs⟩
    · rcases prePass_go_roots env r (i + 1) _ kv h with h1 | ⟨j, sel', e, hn, hs⟩
      · exact .inl h1
      · exact .inr ⟨j + 1, sel', by omega, by simpa using hn, hs⟩
  | .at _ _ _ :: r, i, st => by
    intro kv h
    simp only [prePass.go] at h
    rcases prePass_go_roots env r (i + 1) _ kv h with h1 | ⟨j, sel', e, hn, hs⟩
    · exact .inl h1
    · exact .inr ⟨j + 1, sel', by omega, by simpa using hn, hs⟩
  | .other _ _ :: r, i, st => by
    intro kv h
    simp only [prePass.go] at h
    rcases prePass_go_roots env r (i + 1) _ kv h with h1 | ⟨j, sel', e, hn, hs⟩
    · exact .inl h1
    · exact .inr ⟨j + 1, sel', by omega, by simpa using hn, hs⟩

theorem prePass_roots (env : CliEnv) (nodes : List Node) :
    ∀ kv ∈ (prePass env nodes).rootDecls, ∃ sel, nodes[kv.1]? = some (.rule sel kv.2) ∧ isRootSel sel = true := by
  intro kv h
  rcases prePass_go_roots env nodes 0 {} kv h with h1 | ⟨j, sel, e, hn, hs⟩
  · simp at h1
  · exact ⟨sel, by rw [e]; simpa using hn, hs⟩

theorem prePass_rootInv (env : CliEnv) (nodes : List Node) : RootInv nodes 0 (prePass env nodes).rootDecls := by
  intro kv h j sel items hj hn
  obtain ⟨sel', hn', _⟩ := prePass_roots env nodes kv h
  have : kv.1 = j := by omega
  rw [this, hn] at hn'
  simp at hn'
  rw [hn'.2]; exact sameShape_refl _

/-- the post-pass: a pre-parsed rule is re-serialised from its shared block -/
def postNode (st' : St) (i : Nat) (n : Node) : Node :=
  match n, getRoot st' i with
  | .rule sel _, some its => .rule sel its
  | n, _ => n

def rootsSerialisable (st' : St) : Bool := st'.rootDecls.all fun kv => itemsSerialisable kv.2

/-- the state a file is processed from -/
def fileSt (env : CliEnv) (nodes : List Node) (st0 : St) : St :=
  { st0 with vars := (prePass env nodes).vars, rootDecls := (prePass env nodes).rootDecls }

theorem processFile_eq (env : CliEnv) (cfg : Cfg) (nodes : List Node) (st0 : St) :
    processFile env cfg nodes st0 =
      match processTop env cfg nodes 0 (fileSt env nodes st0) with
      | .error st' => (.error, st')
      | .ok (nodes', st') =>
        if rootsSerialisable st' && nodesSerialisable (nodes'.mapIdx (postNode st')) then
          (.written (nodes'.mapIdx (postNode st')), st')
        else (.error, st') := rfl

theorem postPass_shape (st' : St) : (ns ns' : List Node) → (off : Nat) → sameShapeNodes ns ns' →
    RootInv ns off st'.rootDecls → sameShapeNodes ns (ns'.mapIdx fun i n => postNode st' (i + off) n)
  | [], [], _, _, _ => sameShapeNodes_nil
  | a :: as, b :: bs, off, h, hinv => by
    rw [List.mapIdx_cons]
    have h' := sameShapeNodes_cons.1 h
    refine sameShapeNodes_cons.2 ⟨?_, ?_⟩
    · simp only [Nat.zero_add]
      unfold postNode
      split
      · next sel x its hg =>
        cases a with
        | rule s items =>
          have hab := sameShapeNode_rule.1 h'.1
          exact sameShapeNode_rule.2 ⟨hab.1, hinv _ (getRoot_mem hg) 0 s items rfl rfl⟩
        | «at» k p b' => simp only [sameShapeNode] at h'; exact h'.1.elim
        | other t ok => simp only [sameShapeNode] at h'; exact h'.1.elim
      · exact h'.1
    · have e : (fun i n => postNode st' (i + 1 + off) n) = (fun i n => postNode st' (i + (off + 1)) n) := by
        funext i n; congr 1; omega
      rw [e]
      exact postPass_shape st' as bs (off + 1) h'.2 (hinv.step (RootsLe.refl _))
  | [], _ :: _, _, h, _ => by simp only [sameShapeNodes] at h
  | _ :: _, [], _, h, _ => by simp only [sameShapeNodes] at h

/-- one file: same shape, exactly `countNodes` more classified rules when written, at most that when skipped -/
theorem processFile_spec (env : CliEnv) (cfg : Cfg) (nodes : List Node) (st0 : St) :
    match processFile env cfg nodes st0 with
    | (.written out, st') => sameShapeNodes nodes out ∧ Grew (countNodes nodes) st0 st'
    | (.error, st') => ∃ k, k ≤ countNodes nodes ∧ Grew k st0 st' := by
  have hinv : RootInv nodes 0 (fileSt env nodes st0).rootDecls := prePass_rootInv env nodes
  have h := processTop_spec env cfg nodes 0 (fileSt env nodes st0) hinv
  have e0 : SameCounts (fileSt env nodes st0) st0 := ⟨rfl, rfl, rfl, rfl, rfl⟩
  rw [processFile_eq]
  cases hres : processTop env cfg nodes 0 (fileSt env nodes st0) with
  | error e =>
    rw [hres] at h
    obtain ⟨⟨k, hk, hg⟩, _⟩ := h
    exact ⟨k, hk, hg.congr e0 (SameCounts.refl _)⟩
  | ok p =>
    obtain ⟨nodes', st'⟩ := p
    rw [hres] at h
    obtain ⟨hs, hg, hr⟩ := h
    simp only
    by_cases hc : (rootsSerialisable st' && nodesSerialisable (nodes'.mapIdx (postNode st'))) = true
    · rw [if_pos hc]
      exact ⟨postPass_shape st' nodes nodes' 0 hs (hinv.mono hr), hg.congr e0 (SameCounts.refl _)⟩
    · rw [if_neg hc]
      exact ⟨_, Nat.le_refl _, hg.congr e0 (SameCounts.refl _)⟩


/-! ## independence from the incoming counters -/

/-- two states that differ at most in the counters and detail lists -/
def StRel (s t : St) : Prop := s.vars = t.vars ∧ s.rootDecls = t.rootDecls

theorem StRel.refl (s : St) : StRel s s := ⟨rfl, rfl⟩
theorem StRel.symm {s t : St} (h : StRel s t) : StRel t s := ⟨h.1.symm, h.2.symm⟩
theorem StRel.trans {s t u : St} (h : StRel s t) (h' : StRel t u) : StRel s u := ⟨h.1.trans h'.1, h.2.trans h'.2⟩

theorem StRel.getRoot {s t : St} (h : StRel s t) (i : Nat) : getRoot s i = getRoot t i := by
  unfold Cm.Cli.getRoot; rw [h.2]
theorem StRel.sharedOf {s t : St} (h : StRel s t) (top : Option Nat) : sharedOf top s = sharedOf top t := by
  unfold Cm.Cli.sharedOf; cases top with
  | none => rfl
  | some i => simp only [h.getRoot]
theorem StRel.seenItems {s t : St} (h : StRel s t) (top : Option Nat) (items0 : List Item) :
    seenItems top items0 s = seenItems top items0 t := by
  unfold Cm.Cli.seenItems; rw [h.sharedOf]
theorem StRel.textOf {s t : St} (h : StRel s t) (env : CliEnv) (cd : Decl) : textOf env s cd = textOf env t cd := by
  unfold Cm.Cli.textOf; rw [h.1]
theorem StRel.bgOf {s t : St} (h : StRel s t) (env : CliEnv) (cfg : Cfg) (items : List Item) :
    bgOf env cfg s items = bgOf env cfg t items := by
  unfold Cm.Cli.bgOf; rw [h.1]
theorem StRel.evalOf {s t : St} (h : StRel s t) (env : CliEnv) (cfg : Cfg) (items : List Item) (cd : Decl) :
    evalOf env cfg s items cd = evalOf env cfg t items cd := by
  unfold Cm.Cli.evalOf; rw [h.textOf, h.bgOf]
theorem StRel.viaVarOf {s t : St} (h : StRel s t) (env : CliEnv) (raw : Str) : viaVarOf env s raw = viaVarOf env t raw := by
  unfold Cm.Cli.viaVarOf; rw [h.1]
theorem StRel.fixedOf {s t : St} (h : StRel s t) (env : CliEnv) (cfg : Cfg) (sel : Str) (items : List Item) (cd : Decl) :
    fixedOf env cfg s sel items cd = fixedOf env cfg t sel items cd := by
  unfold Cm.Cli.fixedOf; rw [h.textOf, h.bgOf, h.evalOf]

theorem StRel.failSt {s t : St} (h : StRel s t) (f g : Failed) : StRel (failSt s f) (failSt t g) := h
theorem StRel.accSt {s t : St} (h : StRel s t) : StRel (accSt s) (accSt t) := h
theorem StRel.tuneSt {s t : St} (h : StRel s t) (f g : Fixed) : StRel (tuneSt s f) (tuneSt t g) := h
theorem StRel.setRoot {s t : St} (h : StRel s t) (k : Nat) (x : List Item) : StRel (setRoot s k x) (setRoot t k x) := by
  refine ⟨h.1, ?_⟩; show List.map _ s.rootDecls = List.map _ t.rootDecls; rw [h.2]
theorem StRel.rewriteVar {s t : St} (h : StRel s t) (name : Str) (d : VarDef) (v : Str) :
    StRel (rewriteVar s name d v) (rewriteVar t name d v) := by
  unfold Cm.Cli.rewriteVar
  rw [h.getRoot]
  cases Cm.Cli.getRoot t d.rule with
  | none => exact ⟨by show List.map _ s.vars = List.map _ t.vars; rw [h.1], h.2⟩
  | some its =>
    have h' := h.setRoot d.rule (setDeclValue its d.item v)
    exact ⟨by show List.map _ s.vars = List.map _ t.vars; rw [h.1], h'.2⟩
theorem StRel.shareBack {s t s1 t1 : St} (h : StRel s t) (h1 : StRel s1 t1) (top : Option Nat) (x : List Item) :
    StRel (shareBack top s s1 x) (shareBack top t t1 x) := by
  unfold Cm.Cli.shareBack; rw [h.sharedOf]
  cases Cm.Cli.sharedOf top t with
  | none => exact h1
  | some p => exact h1.setRoot _ _

/-- two results agree on the output and leave states that differ at most in the counters -/
def ResRel {α : Type} : Except St (α × St) → Except St (α × St) → Prop
  | .ok (a, s), .ok (a', s') => a = a' ∧ StRel s s'
  | .error s, .error s' => StRel s s'
  | _, _ => False

theorem tunedStep_rel (env : CliEnv) (cfg : Cfg) (top : Option Nat) (sel : Str) (items0 : List Item) {s t : St}
    (h : StRel s t) (ci : Nat) (cd : Decl) :
    ResRel (tunedStep env cfg top sel items0 s ci cd) (tunedStep env cfg top sel items0 t ci cd) := by
  simp only [tunedStep, h.seenItems, h.evalOf, h.viaVarOf, h.fixedOf]
  have h1 : StRel (tuneSt s (fixedOf env cfg t sel (seenItems top items0 t) cd))
      (tuneSt t (fixedOf env cfg t sel (seenItems top items0 t) cd)) := h.tuneSt _ _
  split
  · next name d _ =>
    have h2 := h1.rewriteVar name d (evalOf env cfg t (seenItems top items0 t) cd).tuned
    refine ⟨?_, h2⟩
    unfold itemsAfterVar
    cases top with
    | none => rfl
    | some i => simp only [h2.getRoot]
  · split
    · exact h1
    · exact ⟨rfl, h.shareBack h1 top _⟩

theorem processRule_rel (env : CliEnv) (cfg : Cfg) (top : Option Nat) (sel : Str) (items0 : List Item) {s t : St}
    (h : StRel s t) :
    ResRel (processRule env cfg top sel items0 s) (processRule env cfg top sel items0 t) := by
  rw [processRule_eq, processRule_eq]
  simp only [processRule', h.seenItems, h.evalOf, h.textOf, h.bgOf]
  split
  · exact ⟨rfl, h⟩
  · next ci cd _ =>
    split
    · exact ⟨rfl, h.failSt _ _⟩
    · split
      · exact ⟨rfl, h.failSt _ _⟩
      · split
        · exact ⟨rfl, h.accSt⟩
        · split
          · exact ⟨rfl, h.failSt _ _⟩
          · exact tunedStep_rel env cfg top sel items0 h ci cd

mutual
  theorem processNode_rel (env : CliEnv) (cfg : Cfg) (top : Option Nat) : (n : Node) → (s t : St) → StRel s t →
      ResRel (processNode env cfg top s n) (processNode env cfg top t n)
    | .rule sel items, s, t, h => by
      have hr := processRule_rel env cfg top sel items h
      rw [processNode_rule, processNode_rule]
      cases h1 : processRule env cfg top sel items s <;> cases h2 : processRule env cfg top sel items t <;>
        rw [h1, h2] at hr
      · exact hr
      · exact hr.elim
      · exact hr.elim
      · next a b => obtain ⟨a1, a2⟩ := a; obtain ⟨b1, b2⟩ := b; exact ⟨by rw [hr.1], hr.2⟩
    | .at kw pre body, s, t, h => by
      rw [processNode_at, processNode_at]
      by_cases hk : isNested kw = true
      · have ih := processNodes_rel env cfg body s t h
        simp only [hk, if_true]
        cases h1 : processNodes env cfg s body <;> cases h2 : processNodes env cfg t body <;> rw [h1, h2] at ih
        · exact ih
        · exact ih.elim
        · exact ih.elim
        · next a b =>
          obtain ⟨a1, a2⟩ := a; obtain ⟨b1, b2⟩ := b
          obtain ⟨e, hst⟩ := ih
          subst e
          simp only
          split
          · exact ⟨rfl, hst⟩
          · exact hst
      · simp only [hk]; exact ⟨rfl, h⟩
    | .other x ok, s, t, h => by
      rw [processNode_other, processNode_other]; exact ⟨rfl, h⟩
  theorem processNodes_rel (env : CliEnv) (cfg : Cfg) : (ns : List Node) → (s t : St) → StRel s t →
      ResRel (processNodes env cfg s ns) (processNodes env cfg t ns)
    | [], s, t, h => by rw [processNodes_nil, processNodes_nil]; exact ⟨rfl, h⟩
    | n :: ns, s, t, h => by
      have ih1 := processNode_rel env cfg none n s t h
      rw [processNodes_cons, processNodes_cons]
      cases h1 : processNode env cfg none s n <;> cases h2 : processNode env cfg none t n <;> rw [h1, h2] at ih1
      · exact ih1
      · exact ih1.elim
      · exact ih1.elim
      · next a b =>
        obtain ⟨a1, a2⟩ := a; obtain ⟨b1, b2⟩ := b
        obtain ⟨e, hst⟩ := ih1
        subst e
        have ih2 := processNodes_rel env cfg ns a2 b2 hst
        simp only
        cases h3 : processNodes env cfg a2 ns <;> cases h4 : processNodes env cfg b2 ns <;> rw [h3, h4] at ih2
        · exact ih2
        · exact ih2.elim
        · exact ih2.elim
        · next c d => obtain ⟨c1, c2⟩ := c; obtain ⟨d1, d2⟩ := d; exact ⟨by rw [ih2.1], ih2.2⟩
end

theorem processTop_rel (env : CliEnv) (cfg : Cfg) : (ns : List Node) → (i : Nat) → (s t : St) → StRel s t →
    ResRel (processTop env cfg ns i s) (processTop env cfg ns i t)
  | [], i, s, t, h => by rw [processTop_nil, processTop_nil]; exact ⟨rfl, h⟩
  | n :: ns, i, s, t, h => by
    have ih1 := processNode_rel env cfg (topOf n i) n s t h
    rw [processTop_cons, processTop_cons]
    cases h1 : processNode env cfg (topOf n i) s n <;> cases h2 : processNode env cfg (topOf n i) t n <;>
      rw [h1, h2] at ih1
    · exact ih1
    · exact ih1.elim
    · exact ih1.elim
    · next a b =>
      obtain ⟨a1, a2⟩ := a; obtain ⟨b1, b2⟩ := b
      obtain ⟨e, hst⟩ := ih1
      subst e
      have ih2 := processTop_rel env cfg ns (i + 1) a2 b2 hst
      simp only
      cases h3 : processTop env cfg ns (i + 1) a2 <;> cases h4 : processTop env cfg ns (i + 1) b2 <;>
        rw [h3, h4] at ih2
      · exact ih2
      · exact ih2.elim
      · exact ih2.elim
      · next c d => obtain ⟨c1, c2⟩ := c; obtain ⟨d1, d2⟩ := d; exact ⟨by rw [ih2.1], ih2.2⟩

theorem postNode_rel {s t : St} (h : StRel s t) : postNode s = postNode t := by
  funext i n; unfold postNode; rw [h.getRoot]

/-- the outcome of a file is independent of the counters and detail lists it starts from -/
theorem processFile_indep (env : CliEnv) (cfg : Cfg) (nodes : List Node) (st0 st0' : St) :
    (processFile env cfg nodes st0).1 = (processFile env cfg nodes st0').1 := by
  have h0 : StRel (fileSt env nodes st0) (fileSt env nodes st0') := ⟨rfl, rfl⟩
  have h := processTop_rel env cfg nodes 0 _ _ h0
  rw [processFile_eq, processFile_eq]
  cases h1 : processTop env cfg nodes 0 (fileSt env nodes st0) <;>
    cases h2 : processTop env cfg nodes 0 (fileSt env nodes st0') <;> rw [h1, h2] at h
  · exact h.elim
  · exact h.elim
  · next a b =>
    obtain ⟨a1, a2⟩ := a; obtain ⟨b1, b2⟩ := b
    obtain ⟨e, hst⟩ := h
    subst e
    have e1 : rootsSerialisable a2 = rootsSerialisable b2 := by unfold rootsSerialisable; rw [hst.2]
    simp only [postNode_rel hst, e1]
    by_cases hc : (rootsSerialisable b2 && nodesSerialisable (List.mapIdx (postNode b2) a1)) = true
    · rw [if_pos hc, if_pos hc]
    · rw [if_neg hc, if_neg hc]


/-! ## what a single rule reports and writes -/

theorem lookupVar_map_set (name : Str) (v : Str) : (vars : Vars) →
    lookupVar (vars.map fun kv => if kv.1 = name then (name, { kv.2 with value := v }) else kv) name =
      (lookupVar vars name).map fun d => { d with value := v }
  | [] => rfl
  | kv :: r => by
    have ih := lookupVar_map_set name v r
    unfold lookupVar at ih ⊢
    simp only [List.map_cons, List.find?_cons]
    by_cases h : kv.1 = name
    · simp [h]
    · simp only [h, if_false, decide_false]; exact ih

theorem rewriteVar_vars (st1 : St) (name : Str) (d : VarDef) (v : Str) :
    (rewriteVar st1 name d v).vars = st1.vars.map fun kv => if kv.1 = name then (name, { kv.2 with value := v }) else kv := by
  unfold rewriteVar; cases getRoot st1 d.rule <;> rfl

theorem viaVarOf_some {env : CliEnv} {st : St} {raw name : Str} {d : VarDef} (h : viaVarOf env st raw = some (name, d)) :
    containsVar raw = true ∧ searchVarSimple env raw = some name ∧ lookupVar st.vars name = some d := by
  unfold viaVarOf at h
  split at h
  · next hc =>
    split at h
    · next n hn =>
      cases hl : lookupVar st.vars n with
      | none => simp [hl] at h
      | some d' => simp [hl] at h; obtain ⟨rfl, rfl⟩ := h; exact ⟨hc, hn, hl⟩
    · simp at h
  · simp at h

/-- the outcome of a rule the tool adjusts (`tunedStep`), spelled out -/
theorem tunedStep_ok (env : CliEnv) (cfg : Cfg) (top : Option Nat) (sel : Str) (items0 : List Item) (st : St)
    (ci : Nat) (cd : Decl) (hl : lastDecl (seenItems top items0 st) "color".toList = some (ci, cd))
    (items' : List Item) (st' : St) (hok : tunedStep env cfg top sel items0 st ci cd = .ok (items', st')) :
    st'.tuned = st.tuned + 1 ∧ st'.accessible = st.accessible ∧ st'.failed = st.failed ∧
    st'.failedDetails = st.failedDetails ∧
    st'.fixedDetails = fixedOf env cfg st sel (seenItems top items0 st) cd :: st.fixedDetails ∧
    ((viaVarOf env st (strip env cd.value) = none ∧
        items' = setDeclValue (seenItems top items0 st) ci (evalOf env cfg st (seenItems top items0 st) cd).tuned ∧
        lastDecl items' "color".toList =
          some (ci, { cd with value := (evalOf env cfg st (seenItems top items0 st) cd).tuned ++ cd.comments }) ∧
        st'.vars = st.vars ∧
        (∀ i, top = some i → getRoot st i ≠ none → getRoot st' i = some items') ∧
        (sharedOf top st = none → st'.rootDecls = st.rootDecls)) ∨
     (∃ name d, viaVarOf env st (strip env cd.value) = some (name, d) ∧
        lookupVar st'.vars name = some { d with value := (evalOf env cfg st (seenItems top items0 st) cd).tuned } ∧
        (∀ its, getRoot st d.rule = some its →
          getRoot st' d.rule = some (setDeclValue its d.item (evalOf env cfg st (seenItems top items0 st) cd).tuned)) ∧
        items' = seenItems top items0 st')) := by
  have ht := tunedStep_step env cfg top sel items0 st ci cd
  rw [hok] at ht
  generalize hr : (Except.ok (items', st') : Except St (List Item × St)) = res at ht
  cases ht with
  | unserialisable h h' => cases hr
  | direct h h' =>
    cases hr
    have hc := shareBack_sameCounts top st (tuneSt st (fixedOf env cfg st sel (seenItems top items0 st) cd))
      (setDeclValue (seenItems top items0 st) ci (evalOf env cfg st (seenItems top items0 st) cd).tuned)
    refine ⟨hc.2.1, hc.1, hc.2.2.1, hc.2.2.2.1, hc.2.2.2.2, .inl ⟨h, rfl, lastDecl_setDeclValue _ _ _ _ _ hl, ?_, ?_, ?_⟩⟩
    · unfold shareBack; split <;> rfl
    · intro i hi hne
      subst hi
      cases hg : getRoot st i with
      | none => exact (hne hg).elim
      | some its =>
        have hsh : sharedOf (some i) st = some (i, its) := by simp only [sharedOf, hg, Option.map]
        unfold shareBack; rw [hsh]
        simp only
        rw [getRoot_setRoot]
        simp only [if_true]
        show Option.map _ (getRoot st i) = _
        rw [hg]; rfl
    · intro hs; unfold shareBack; rw [hs]; rfl
  | viaVar name d h =>
    cases hr
    have hc := rewriteVar_sameCounts (tuneSt st (fixedOf env cfg st sel (seenItems top items0 st) cd)) name d
      (evalOf env cfg st (seenItems top items0 st) cd).tuned
    refine ⟨hc.2.1, hc.1, hc.2.2.1, hc.2.2.2.1, hc.2.2.2.2, .inr ⟨name, d, h, ?_, ?_, ?_⟩⟩
    · rw [rewriteVar_vars, lookupVar_map_set]
      show Option.map _ (lookupVar st.vars name) = _
      rw [(viaVarOf_some h).2.2]; rfl
    · intro its hg
      rw [getRoot_rewriteVar]
      show (match getRoot st d.rule with | some its => _ | none => _) = _
      rw [hg]; simp
    · cases top with
      | none => rfl
      | some i =>
        simp only [itemsAfterVar, seenItems_some, getRoot_rewriteVar]
        show (match getRoot st d.rule with
          | some its => if d.rule = i then some (setDeclValue its d.item _) else getRoot st i
          | none => getRoot st i).getD _ = (match getRoot st d.rule with
          | some its => if d.rule = i then some (setDeclValue its d.item _) else getRoot st i
          | none => getRoot st i).getD _
        cases hd : getRoot st d.rule with
        | none => simp only; cases getRoot st i <;> rfl
        | some its =>
          simp only
          by_cases hi : d.rule = i
          · simp only [hi, if_true, Option.getD]
          · simp only [hi, if_false]; cases getRoot st i <;> rfl

/-- a rule that is not adjusted is returned as the tool saw it, and nothing it could write to changes -/
theorem processRule_unchanged (env : CliEnv) (cfg : Cfg) (top : Option Nat) (sel : Str) (items0 : List Item) (st : St)
    (items' : List Item) (st' : St) (hok : processRule env cfg top sel items0 st = .ok (items', st'))
    (hnt : st'.tuned = st.tuned) :
    items' = seenItems top items0 st ∧ st'.vars = st.vars ∧ st'.rootDecls = st.rootDecls := by
  have hs := processRule_step env cfg top sel items0 st
  rw [hok] at hs
  generalize hr : (Except.ok (items', st') : Except St (List Item × St)) = res at hs
  cases hs with
  | noColor h => cases hr; exact ⟨rfl, rfl, rfl⟩
  | failed ci cd inv h hv => cases hr; exact ⟨rfl, rfl, rfl⟩
  | accessible ci cd h hv => cases hr; exact ⟨rfl, rfl, rfl⟩
  | tuned ci cd h hv =>
    have := (tunedStep_ok env cfg top sel items0 st ci cd h items' st' hr.symm).1
    omega

/-- the verdict on a rule with a text colour decides which counter moves -/
theorem processRule_verdict (env : CliEnv) (cfg : Cfg) (top : Option Nat) (sel : Str) (items0 : List Item) (st : St)
    (ci : Nat) (cd : Decl) (hl : lastDecl (seenItems top items0 st) "color".toList = some (ci, cd)) :
    match verdict (evalOf env cfg st (seenItems top items0 st) cd) with
    | .accessible => processRule env cfg top sel items0 st = .ok (seenItems top items0 st, accSt st)
    | .failed inv => processRule env cfg top sel items0 st = .ok (seenItems top items0 st,
        failSt st { selector := sel, text := textOf env st cd, bg := bgOf env cfg st (seenItems top items0 st), invalid := inv })
    | .tuned => processRule env cfg top sel items0 st = tunedStep env cfg top sel items0 st ci cd := by
  have hs := processRule_step env cfg top sel items0 st
  generalize processRule env cfg top sel items0 st = res at hs ⊢
  cases hs with
  | noColor h => rw [h] at hl; cases hl
  | failed ci' cd' inv h hv => rw [h] at hl; cases hl; rw [hv]
  | accessible ci' cd' h hv => rw [h] at hl; cases hl; rw [hv]
  | tuned ci' cd' h hv => rw [h] at hl; cases hl; rw [hv]


/-! ## every output rule is the result of one `processRule` step -/

mutual
  /-- `n'` is `n` with every rule the tool visits (outside the pre-parsed blocks) related by `P` -/
  def relNode (P : Str → List Item → List Item → Prop) : Node → Node → Prop
    | .rule s a, .rule s' b => s = s' ∧ P s a b
    | .at k p b, .at k' p' b' => k = k' ∧ p = p' ∧ ((isNested k = true ∧ relNodes P b b') ∨ (isNested k = false ∧ b = b'))
    | .other t ok, .other t' ok' => t = t' ∧ ok = ok'
    | _, _ => False
  def relNodes (P : Str → List Item → List Item → Prop) : List Node → List Node → Prop
    | [], [] => True
    | a :: as, b :: bs => relNode P a b ∧ relNodes P as bs
    | _, _ => False
end

theorem relNode_rule {P : Str → List Item → List Item → Prop} {s s' : Str} {a b : List Item} :
    relNode P (.rule s a) (.rule s' b) ↔ s = s' ∧ P s a b := by simp only [relNode]
theorem relNode_at {P : Str → List Item → List Item → Prop} {k p k' p' : Str} {b b' : List Node} :
    relNode P (.at k p b) (.at k' p' b') ↔
      k = k' ∧ p = p' ∧ ((isNested k = true ∧ relNodes P b b') ∨ (isNested k = false ∧ b = b')) := by
  simp only [relNode]
theorem relNode_other {P : Str → List Item → List Item → Prop} {t t' : Str} {ok ok' : Bool} :
    relNode P (.other t ok) (.other t' ok') ↔ t = t' ∧ ok = ok' := by simp only [relNode]
theorem relNodes_nil {P : Str → List Item → List Item → Prop} : relNodes P [] [] := by simp only [relNodes]
theorem relNodes_cons {P : Str → List Item → List Item → Prop} {a b : Node} {as bs : List Node} :
    relNodes P (a :: as) (b :: bs) ↔ relNode P a b ∧ relNodes P as bs := by simp only [relNodes]

mutual
  theorem relNode_mono {P Q : Str → List Item → List Item → Prop} (hPQ : ∀ s a b, P s a b → Q s a b) :
      (n n' : Node) → relNode P n n' → relNode Q n n'
    | .rule s a, .rule s' b, h => by
      have := relNode_rule.1 h; exact relNode_rule.2 ⟨this.1, hPQ _ _ _ this.2⟩
    | .at k p b, .at k' p' b', h => by
      obtain ⟨h1, h2, h3⟩ := relNode_at.1 h
      refine relNode_at.2 ⟨h1, h2, ?_⟩
      rcases h3 with ⟨hk, h3⟩ | h3
      · exact .inl ⟨hk, relNodes_mono hPQ b b' h3⟩
      · exact .inr h3
    | .other t ok, .other t' ok', h => relNode_other.2 (relNode_other.1 h)
    | .rule _ _, .at _ _ _, h => by simp only [relNode] at h
    | .rule _ _, .other _ _, h => by simp only [relNode] at h
    | .at _ _ _, .rule _ _, h => by simp only [relNode] at h
    | .at _ _ _, .other _ _, h => by simp only [relNode] at h
    | .other _ _, .rule _ _, h => by simp only [relNode] at h
    | .other _ _, .at _ _ _, h => by simp only [relNode] at h
  theorem relNodes_mono {P Q : Str → List Item → List Item → Prop} (hPQ : ∀ s a b, P s a b → Q s a b) :
      (ns ns' : List Node) → relNodes P ns ns' → relNodes Q ns ns'
    | [], [], _ => relNodes_nil
    | a :: as, b :: bs, h => by
      have := relNodes_cons.1 h
      exact relNodes_cons.2 ⟨relNode_mono hPQ a b this.1, relNodes_mono hPQ as bs this.2⟩
    | [], _ :: _, h => by simp only [relNodes] at h
    | _ :: _, [], h => by simp only [relNodes] at h
end

/-- `b` is what `processRule` returns for the (non-pre-parsed) rule `sel { a }` in some state -/
def RuleStepped (env : CliEnv) (cfg : Cfg) (sel : Str) (a b : List Item) : Prop :=
  ∃ st st', processRule env cfg none sel a st = .ok (b, st')

mutual
  theorem processNode_stepped (env : CliEnv) (cfg : Cfg) (st : St) : (n : Node) → (n' : Node) → (st' : St) →
      processNode env cfg none st n = .ok (n', st') → relNode (RuleStepped env cfg) n n'
    | .rule sel items, n', st', h => by
      rw [processNode_rule] at h
      cases hres : processRule env cfg none sel items st with
      | error e => rw [hres] at h; cases h
      | ok p =>
        obtain ⟨its, st1⟩ := p
        rw [hres] at h
        cases h
        exact relNode_rule.2 ⟨rfl, st, st', hres⟩
    | .at kw pre body, n', st', h => by
      rw [processNode_at] at h
      by_cases hk : isNested kw = true
      · simp only [hk, if_true] at h
        cases hres : processNodes env cfg st body with
        | error e => rw [hres] at h; cases h
        | ok p =>
          obtain ⟨body', st1⟩ := p
          rw [hres] at h
          simp only at h
          split at h
          · cases h
            exact relNode_at.2 ⟨rfl, rfl, .inl ⟨hk, processNodes_stepped env cfg st body body' st' hres⟩⟩
          · cases h
      · simp only [hk] at h
        cases h
        exact relNode_at.2 ⟨rfl, rfl, .inr ⟨by simpa using hk, rfl⟩⟩
    | .other t ok, n', st', h => by
      rw [processNode_other] at h; cases h; exact relNode_other.2 ⟨rfl, rfl⟩
  theorem processNodes_stepped (env : CliEnv) (cfg : Cfg) (st : St) : (ns : List Node) → (ns' : List Node) → (st' : St) →
      processNodes env cfg st ns = .ok (ns', st') → relNodes (RuleStepped env cfg) ns ns'
    | [], ns', st', h => by rw [processNodes_nil] at h; cases h; exact relNodes_nil
    | n :: ns, ns', st', h => by
      rw [processNodes_cons] at h
      cases h1 : processNode env cfg none st n with
      | error e => rw [h1] at h; cases h
      | ok p =>
        obtain ⟨n1, st1⟩ := p
        rw [h1] at h
        simp only at h
        cases h2 : processNodes env cfg st1 ns with
        | error e => rw [h2] at h; cases h
        | ok q =>
          obtain ⟨ns1, st2⟩ := q
          rw [h2] at h
          cases h
          exact relNodes_cons.2 ⟨processNode_stepped env cfg st n n1 st1 h1, processNodes_stepped env cfg st1 ns ns1 st' h2⟩
end

/-- a top-level node other than a `:root` / `html` rule -/
def notRootRule (n : Node) : Prop := ∀ sel items, n = .rule sel items → isRootSel sel = false

theorem topOf_notRoot {n : Node} (h : notRootRule n) (i : Nat) : topOf n i = none := by
  cases n with
  | rule sel items => simp only [topOf, h sel items rfl]; rfl
  | «at» k p b => rfl
  | other t ok => rfl

theorem processTop_stepped (env : CliEnv) (cfg : Cfg) : (ns : List Node) → (i : Nat) → (st : St) →
    (ns' : List Node) → (st' : St) → processTop env cfg ns i st = .ok (ns', st') →
    ∀ (j : Nat) (n : Node), ns[j]? = some n → notRootRule n → ∃ n', ns'[j]? = some n' ∧ relNode (RuleStepped env cfg) n n'
  | [], i, st, ns', st', h => by intro j n hn; simp at hn
  | m :: ns, i, st, ns', st', h => by
    rw [processTop_cons] at h
    cases h1 : processNode env cfg (topOf m i) st m with
    | error e => rw [h1] at h; cases h
    | ok p =>
      obtain ⟨m1, st1⟩ := p
      rw [h1] at h
      simp only at h
      cases h2 : processTop env cfg ns (i + 1) st1 with
      | error e => rw [h2] at h; cases h
      | ok q =>
        obtain ⟨ns1, st2⟩ := q
        rw [h2] at h
        cases h
        intro j n hn hnr
        cases j with
        | zero =>
          simp at hn; subst hn
          rw [topOf_notRoot hnr] at h1
          exact ⟨m1, by simp, processNode_stepped env cfg st m m1 st1 h1⟩
        | succ j =>
          have := processTop_stepped env cfg ns (i + 1) st1 ns1 st' h2 j n (by simpa using hn) hnr
          simpa using this

theorem getRoot_none_of_notRoot (env : CliEnv) (nodes : List Node) (st' : St)
    (hle : RootsLe (prePass env nodes).rootDecls st'.rootDecls) (i : Nat) (n : Node)
    (hn : nodes[i]? = some n) (hnr : notRootRule n) : getRoot st' i = none := by
  cases hg : getRoot st' i with
  | none => rfl
  | some its =>
    obtain ⟨kv, hkv, e, _⟩ := hle _ (getRoot_mem hg)
    obtain ⟨sel, hsel, hroot⟩ := prePass_roots env nodes kv hkv
    simp only at e
    rw [e, hn] at hsel
    simp at hsel
    have := hnr sel kv.2 hsel
    rw [this] at hroot; cases hroot

/-- in a written file every node other than a top-level `:root` / `html` rule is the input node with
    each visited rule replaced by what `processRule` returned for it -/
theorem processFile_stepped (env : CliEnv) (cfg : Cfg) (nodes : List Node) (st0 : St) (out : List Node) (st' : St)
    (h : processFile env cfg nodes st0 = (.written out, st')) (i : Nat) (n : Node) (hn : nodes[i]? = some n)
    (hnr : notRootRule n) : ∃ n', out[i]? = some n' ∧ relNode (RuleStepped env cfg) n n' := by
  have hinv : RootInv nodes 0 (fileSt env nodes st0).rootDecls := prePass_rootInv env nodes
  have hspec := processTop_spec env cfg nodes 0 (fileSt env nodes st0) hinv
  rw [processFile_eq] at h
  cases hres : processTop env cfg nodes 0 (fileSt env nodes st0) with
  | error e => rw [hres] at h; cases h
  | ok p =>
    obtain ⟨nodes', st1⟩ := p
    rw [hres] at h hspec
    simp only at h
    split at h
    · cases h
      obtain ⟨n', hn', hrel⟩ := processTop_stepped env cfg nodes 0 _ nodes' st' hres i n hn hnr
      refine ⟨n', ?_, hrel⟩
      rw [List.getElem?_mapIdx, hn']
      have hg := getRoot_none_of_notRoot env nodes st' hspec.2.2 i n hn hnr
      simp only [Option.map, postNode, hg]
    · cases h


/-! ## which rules the detail lists name -/

mutual
  /-- selectors of the rules with a text colour the tool classifies, in document order -/
  def colourSelsNode : Node → List Str
    | .rule sel items => if hasColor items then [sel] else []
    | .at kw _ body => if isNested kw then colourSelsNodes body else []
    | .other _ _ => []
  def colourSelsNodes : List Node → List Str
    | [] => []
    | n :: ns => colourSelsNode n ++ colourSelsNodes ns
end

/-- the two detail lists grew at the front, by entries whose selectors are (oldest first) a
    subsequence of `sels` -/
structure Listed (sels : List Str) (st st' : St) : Prop where
  failed : ∃ l : List Failed, st'.failedDetails = l ++ st.failedDetails ∧ (l.reverse.map (·.selector)).Sublist sels
  fixed : ∃ l : List Fixed, st'.fixedDetails = l ++ st.fixedDetails ∧ (l.reverse.map (·.selector)).Sublist sels

theorem Listed.refl (sels : List Str) (st : St) : Listed sels st st :=
  ⟨⟨[], rfl, List.nil_sublist _⟩, ⟨[], rfl, List.nil_sublist _⟩⟩

theorem Listed.trans {s1 s2 : List Str} {a b c : St} (h : Listed s1 a b) (h' : Listed s2 b c) : Listed (s1 ++ s2) a c := by
  obtain ⟨⟨l1, e1, u1⟩, ⟨m1, f1, v1⟩⟩ := h
  obtain ⟨⟨l2, e2, u2⟩, ⟨m2, f2, v2⟩⟩ := h'
  refine ⟨⟨l2 ++ l1, by rw [e2, e1, List.append_assoc], ?_⟩, ⟨m2 ++ m1, by rw [f2, f1, List.append_assoc], ?_⟩⟩
  · rw [List.reverse_append, List.map_append]; exact List.Sublist.append u1 u2
  · rw [List.reverse_append, List.map_append]; exact List.Sublist.append v1 v2

theorem Listed.weaken {s1 : List Str} (s2 : List Str) {a b : St} (h : Listed s1 a b) : Listed (s1 ++ s2) a b := by
  obtain ⟨⟨l1, e1, u1⟩, ⟨m1, f1, v1⟩⟩ := h
  exact ⟨⟨l1, e1, u1.trans (List.sublist_append_left _ _)⟩, ⟨m1, f1, v1.trans (List.sublist_append_left _ _)⟩⟩

theorem Listed.congr {sels : List Str} {a b b' : St} (h : Listed sels a b) (e : SameCounts b b') : Listed sels a b' := by
  obtain ⟨⟨l1, e1, u1⟩, ⟨m1, f1, v1⟩⟩ := h
  exact ⟨⟨l1, by rw [← e.2.2.2.1, e1], u1⟩, ⟨m1, by rw [← e.2.2.2.2, f1], v1⟩⟩

theorem Listed.congr_left {sels : List Str} {a a' b : St} (h : Listed sels a b) (e : SameCounts a a') : Listed sels a' b := by
  obtain ⟨⟨l1, e1, u1⟩, ⟨m1, f1, v1⟩⟩ := h
  exact ⟨⟨l1, by rw [← e.2.2.2.1, e1], u1⟩, ⟨m1, by rw [← e.2.2.2.2, f1], v1⟩⟩

theorem processRule_listed (env : CliEnv) (cfg : Cfg) (top : Option Nat) (sel : Str) (items0 : List Item) (st : St) :
    Listed (if hasColor (seenItems top items0 st) then [sel] else []) st
      (resSt (processRule env cfg top sel items0 st)) := by
  have hs := processRule_step env cfg top sel items0 st
  generalize processRule env cfg top sel items0 st = res at hs ⊢
  cases hs with
  | noColor h => exact Listed.refl _ _
  | failed ci cd inv h hv =>
    have hc : hasColor (seenItems top items0 st) = true := by simp only [hasColor, h]; rfl
    rw [if_pos hc]
    exact ⟨⟨[_], rfl, by simp⟩, ⟨[], rfl, List.nil_sublist _⟩⟩
  | accessible ci cd h hv => exact ⟨⟨[], rfl, List.nil_sublist _⟩, ⟨[], rfl, List.nil_sublist _⟩⟩
  | tuned ci cd h hv =>
    have hc : hasColor (seenItems top items0 st) = true := by simp only [hasColor, h]; rfl
    rw [if_pos hc]
    have base : Listed [sel] st (tuneSt st (fixedOf env cfg st sel (seenItems top items0 st) cd)) :=
      ⟨⟨[], rfl, List.nil_sublist _⟩, ⟨[_], rfl, by simp [fixedOf]⟩⟩
    have ht := tunedStep_step env cfg top sel items0 st ci cd
    generalize tunedStep env cfg top sel items0 st ci cd = res at ht ⊢
    cases ht with
    | viaVar name d h => exact base.congr (rewriteVar_sameCounts _ _ _ _).symm
    | unserialisable h h' => exact base
    | direct h h' => exact base.congr (shareBack_sameCounts _ _ _ _).symm

theorem hasColor_sameShape {a b : List Item} (h : sameShape a b) : hasColor a = hasColor b := by
  unfold hasColor; exact lastDecl_isSome_sameShape _ h

mutual
  theorem processNode_listed (env : CliEnv) (cfg : Cfg) (top : Option Nat) (st : St) : (n : Node) →
      (∀ sel items0, n = .rule sel items0 → sameShape items0 (seenItems top items0 st)) →
      Listed (colourSelsNode n) st (resSt (processNode env cfg top st n))
    | .rule sel items, hseen => by
      have h := processRule_listed env cfg top sel items st
      rw [← hasColor_sameShape (hseen sel items rfl)] at h
      rw [processNode_rule]
      simp only [colourSelsNode]
      cases hres : processRule env cfg top sel items st with
      | error e => rw [hres] at h; exact h
      | ok p => obtain ⟨items', st'⟩ := p; rw [hres] at h; exact h
    | .at kw pre body, _ => by
      rw [processNode_at]
      by_cases hk : isNested kw = true
      · have ih := processNodes_listed env cfg st body
        simp only [hk, if_true, colourSelsNode]
        cases hres : processNodes env cfg st body with
        | error e => rw [hres] at ih; exact ih
        | ok p =>
          obtain ⟨body', st'⟩ := p
          rw [hres] at ih
          simp only
          split
          · exact ih
          · exact ih
      · simp only [hk]
        exact Listed.refl _ _
    | .other t ok, _ => by
      rw [processNode_other]; exact Listed.refl _ _
  theorem processNodes_listed (env : CliEnv) (cfg : Cfg) (st : St) : (ns : List Node) →
      Listed (colourSelsNodes ns) st (resSt (processNodes env cfg st ns))
    | [] => by rw [processNodes_nil]; exact Listed.refl _ _
    | n :: ns => by
      have ih1 := processNode_listed env cfg none st n (fun _ _ _ => sameShape_refl _)
      rw [processNodes_cons]
      simp only [colourSelsNodes]
      cases hres : processNode env cfg none st n with
      | error e => rw [hres] at ih1; exact ih1.weaken _
      | ok p =>
        obtain ⟨n', st1⟩ := p
        rw [hres] at ih1
        have ih2 := processNodes_listed env cfg st1 ns
        simp only
        cases hres2 : processNodes env cfg st1 ns with
        | error e => rw [hres2] at ih2; exact ih1.trans ih2
        | ok q => obtain ⟨ns', st2⟩ := q; rw [hres2] at ih2; exact ih1.trans ih2
end

theorem processTop_listed (env : CliEnv) (cfg : Cfg) : (ns : List Node) → (i : Nat) → (st : St) →
    RootInv ns i st.rootDecls →
    Listed (colourSelsNodes ns) st (resSt (processTop env cfg ns i st))
  | [], i, st, _ => by rw [processTop_nil]; exact Listed.refl _ _
  | n :: ns, i, st, hinv => by
    have hseen : ∀ sel items0, n = .rule sel items0 → sameShape items0 (seenItems (topOf n i) items0 st) := by
      intro sel items0 hn
      subst hn
      refine hinv.seen _ ?_
      simp only [topOf]; split <;> simp
    have ih1 := processNode_listed env cfg (topOf n i) st n hseen
    have hsp := processNode_spec env cfg (topOf n i) st n hseen
    rw [processTop_cons]
    simp only [colourSelsNodes]
    cases hres : processNode env cfg (topOf n i) st n with
    | error e => rw [hres] at ih1; exact ih1.weaken _
    | ok p =>
      obtain ⟨n', st1⟩ := p
      rw [hres] at ih1 hsp
      have ih2 := processTop_listed env cfg ns (i + 1) st1 (hinv.step hsp.2.2)
      simp only
      cases hres2 : processTop env cfg ns (i + 1) st1 with
      | error e => rw [hres2] at ih2; exact ih1.trans ih2
      | ok q => obtain ⟨ns', st2⟩ := q; rw [hres2] at ih2; exact ih1.trans ih2

theorem processFile_listed (env : CliEnv) (cfg : Cfg) (nodes : List Node) (st0 : St) :
    Listed (colourSelsNodes nodes) st0 (processFile env cfg nodes st0).2 := by
  have hinv : RootInv nodes 0 (fileSt env nodes st0).rootDecls := prePass_rootInv env nodes
  have h := processTop_listed env cfg nodes 0 (fileSt env nodes st0) hinv
  have e0 : SameCounts (fileSt env nodes st0) st0 := ⟨rfl, rfl, rfl, rfl, rfl⟩
  rw [processFile_eq]
  cases hres : processTop env cfg nodes 0 (fileSt env nodes st0) with
  | error e => rw [hres] at h; exact h.congr_left e0
  | ok p =>
    obtain ⟨nodes', st'⟩ := p
    rw [hres] at h
    simp only
    split <;> exact h.congr_left e0

mutual
  theorem colourSelsNode_length : (n : Node) → (colourSelsNode n).length = countNode n
    | .rule sel items => by simp only [colourSelsNode, countNode, countItems]; split <;> rfl
    | .at kw pre body => by
      simp only [colourSelsNode, countNode]; split
      · exact colourSelsNodes_length body
      · rfl
    | .other _ _ => by simp only [colourSelsNode, countNode]; rfl
  theorem colourSelsNodes_length : (ns : List Node) → (colourSelsNodes ns).length = countNodes ns
    | [] => by simp only [colourSelsNodes, countNodes]; rfl
    | n :: ns => by
      simp only [colourSelsNodes, countNodes, List.length_append]
      rw [colourSelsNode_length n, colourSelsNodes_length ns]
end

end Cm.Cli

namespace Cm.Fs
open Cm Cm.Cli

/-! ## names -/

theorem endsWith_iff (s p : Str) : endsWith s p = true ↔ ∃ t, s = t ++ p := by
  unfold endsWith
  rw [List.isPrefixOf_iff_prefix, List.reverse_prefix]
  constructor
  · rintro ⟨t, rfl⟩; exact ⟨t, rfl⟩
  · rintro ⟨t, rfl⟩; exact ⟨t, rfl⟩

theorem lastDot_go_append : (a b : Str) → (i : Nat) → (acc : Option Nat) →
    lastDot.go (a ++ b) i acc = lastDot.go b (i + a.length) (lastDot.go a i acc)
  | [], b, i, acc => by simp [lastDot.go]
  | c :: cs, b, i, acc => by
    simp only [List.cons_append, lastDot.go, List.length_cons]
    rw [lastDot_go_append cs b (i + 1)]
    congr 1; omega

theorem lastDot_css (t : Str) : lastDot (t ++ ".css".toList) = some t.length := by
  unfold lastDot
  rw [lastDot_go_append]
  simp [lastDot.go]

theorem stemSuffix_append (name : Str) : (stemSuffix name).1 ++ (stemSuffix name).2 = name := by
  unfold stemSuffix
  split
  · split
    · simp
    · simp
  · simp

theorem outName_length (name : Str) : (outName name).length = name.length + 3 := by
  have h := congrArg List.length (stemSuffix_append name)
  simp only [List.length_append] at h
  simp only [outName, List.length_append]
  have : "_cm".toList.length = 3 := rfl
  omega

/-- the tool never writes over its input -/
theorem outName_ne (name : Str) : outName name ≠ name := by
  intro h
  have := congrArg List.length h
  rw [outName_length] at this
  omega

theorem outName_css (t : Str) (ht : t ≠ []) : outName (t ++ ".css".toList) = t ++ "_cm.css".toList := by
  have hl : 0 < t.length := List.length_pos_iff.2 ht
  simp only [outName, stemSuffix, lastDot_css]
  have h1 : (0 < t.length ∧ t.length < (t ++ ".css".toList).length - 1) := by
    refine ⟨hl, ?_⟩
    simp only [List.length_append]
    have : ".css".toList.length = 4 := rfl
    omega
  rw [if_pos h1]
  simp only [List.take_left' rfl, List.drop_left' rfl]
  simp

theorem outName_dotcss : outName ".css".toList = ".css_cm".toList := by decide

theorem isCmName_append (t : Str) : isCmName (t ++ "_cm.css".toList) = true :=
  (endsWith_iff _ _).2 ⟨t, rfl⟩

theorem isCssName_append (t : Str) : isCssName (t ++ ".css".toList) = true :=
  (endsWith_iff _ _).2 ⟨t, rfl⟩

theorem isCssName_iff (name : Str) : isCssName name = true ↔ ∃ t, name = t ++ ".css".toList := endsWith_iff _ _

/-- `name` without its last four characters -/
def dropExt (name : Str) : Str := name.take (name.length - 4)

theorem outName_of_css (name : Str) (h : isCssName name = true) (hl : name.length > 4) :
    outName name = dropExt name ++ "_cm.css".toList := by
  obtain ⟨t, rfl⟩ := (isCssName_iff name).1 h
  have ht : t ≠ [] := by
    intro h0; subst h0; simp at hl
  rw [outName_css t ht]
  unfold dropExt
  have : (t ++ ".css".toList).length - 4 = t.length := by simp
  rw [this, List.take_left' rfl]

theorem isCmName_outName (name : Str) (h : isCssName name = true) (hl : name.length > 4) :
    isCmName (outName name) = true := by
  rw [outName_of_css name h hl]; exact isCmName_append _

theorem css_short (name : Str) (h : isCssName name = true) (hl : ¬ name.length > 4) : name = ".css".toList := by
  obtain ⟨t, rfl⟩ := (isCssName_iff name).1 h
  have : t.length = 0 := by
    simp only [List.length_append] at hl
    have : ".css".toList.length = 4 := rfl
    omega
  have : t = [] := List.length_eq_zero_iff.1 this
  subst this; rfl

/-- an output is never picked up as an input -/
theorem outName_not_input (name : Str) (h : isCssName name = true) :
    (isCssName (outName name) && !isCmName (outName name)) = false := by
  by_cases hl : name.length > 4
  · rw [isCmName_outName name h hl]; simp
  · rw [css_short name h hl, outName_dotcss]; decide

theorem discovered_spec (names : List Str) (n : Str) :
    n ∈ discovered names ↔ n ∈ names ∧ isCssName n = true ∧ isCmName n = false := by
  simp [discovered]

theorem discovered_append (a b : List Str) : discovered (a ++ b) = discovered a ++ discovered b := by
  simp [discovered]

theorem discovered_outputs (l : List Str) (h : ∀ n ∈ l, isCssName n = true) : discovered (l.map outName) = [] := by
  unfold discovered
  rw [List.filter_eq_nil_iff]
  intro a ha
  obtain ⟨n, hn, rfl⟩ := List.mem_map.1 ha
  rw [outName_not_input n (h n hn)]; simp

theorem discovered_rerun (names : List Str) :
    discovered (names ++ (discovered names).map outName) = discovered names := by
  rw [discovered_append, discovered_outputs _ (fun n hn => ((discovered_spec names n).1 hn).2.1)]
  simp

theorem discovered_idem (names : List Str) : discovered (discovered names) = discovered names := by
  simp [discovered]

theorem outName_inj_css (a b : Str) (ha : isCssName a = true) (hb : isCssName b = true)
    (h : outName a = outName b) : a = b := by
  by_cases hla : a.length > 4 <;> by_cases hlb : b.length > 4
  · obtain ⟨t, rfl⟩ := (isCssName_iff a).1 ha
    obtain ⟨u, rfl⟩ := (isCssName_iff b).1 hb
    have ht : t ≠ [] := by intro h0; subst h0; simp at hla
    have hu : u ≠ [] := by intro h0; subst h0; simp at hlb
    rw [outName_css t ht, outName_css u hu] at h
    have := List.append_cancel_right h
    rw [this]
  · exfalso
    have h1 := isCmName_outName a ha hla
    rw [h, css_short b hb hlb, outName_dotcss] at h1
    revert h1; decide
  · exfalso
    have h1 := isCmName_outName b hb hlb
    rw [← h, css_short a ha hla, outName_dotcss] at h1
    revert h1; decide
  · rw [css_short a ha hla, css_short b hb hlb]


/-! ## the per-file loop -/

/-- what a file contributes to the outputs of a run: a function of the file alone -/
def fileWrite (env : CliEnv) (cfg : Cfg) : Str × FileIn → Option (Str × List Node)
  | (name, .css nodes) =>
    match (processFile env cfg nodes {}).1 with
    | .written out => some (outName name, out)
    | .error => none
  | (_, .unreadable) => none

/-- whether a file is reported on stderr: again a function of the file alone -/
def fileError (env : CliEnv) (cfg : Cfg) : Str × FileIn → Option Str
  | (name, .css nodes) =>
    match (processFile env cfg nodes {}).1 with
    | .written _ => none
    | .error => some name
  | (name, .unreadable) => some name

def isReadable : Str × FileIn → Bool
  | (_, .css _) => true
  | (_, .unreadable) => false

/-- number of rules with a text colour in a file -/
def fileCount : Str × FileIn → Nat
  | (_, .css nodes) => countNodes nodes
  | (_, .unreadable) => 0

/-- the state handed to the next file -/
def resetSt (st : St) : St := { st with vars := [], rootDecls := [] }

theorem runFiles_nil (env : CliEnv) (cfg : Cfg) (r : RunResult) : runFiles env cfg [] r = r := by
  simp only [runFiles]

theorem runFiles_unreadable (env : CliEnv) (cfg : Cfg) (name : Str) (rest : List (Str × FileIn)) (r : RunResult) :
    runFiles env cfg ((name, .unreadable) :: rest) r = runFiles env cfg rest { r with errors := r.errors ++ [name] } := by
  simp only [runFiles]

theorem runFiles_css (env : CliEnv) (cfg : Cfg) (name : Str) (nodes : List Node) (rest : List (Str × FileIn))
    (r : RunResult) :
    runFiles env cfg ((name, .css nodes) :: rest) r =
      match processFile env cfg nodes r.st with
      | (.written out, st') =>
        runFiles env cfg rest { r with writes := r.writes ++ [(outName name, out)], st := resetSt st' }
      | (.error, st') =>
        runFiles env cfg rest { r with errors := r.errors ++ [name], st := resetSt st' } := by
  cases hp : processFile env cfg nodes r.st with
  | mk o st' => cases o <;> simp only [runFiles, hp, resetSt]

theorem runFiles_writes (env : CliEnv) (cfg : Cfg) : (files : List (Str × FileIn)) → (r : RunResult) →
    (runFiles env cfg files r).writes = r.writes ++ files.filterMap (fileWrite env cfg)
  | [], r => by simp [runFiles_nil]
  | (name, .unreadable) :: rest, r => by
    rw [runFiles_unreadable, runFiles_writes env cfg rest]
    have : fileWrite env cfg (name, FileIn.unreadable) = none := rfl
    simp [this]
  | (name, .css nodes) :: rest, r => by
    rw [runFiles_css]
    have hi := processFile_indep env cfg nodes r.st {}
    cases hp : processFile env cfg nodes r.st with
    | mk o st' =>
      rw [hp] at hi
      cases o with
      | written out =>
        simp only
        rw [runFiles_writes env cfg rest]
        simp only [List.filterMap_cons, fileWrite, ← hi]
        simp
      | error =>
        simp only
        rw [runFiles_writes env cfg rest]
        simp only [List.filterMap_cons, fileWrite, ← hi]

theorem runFiles_errors (env : CliEnv) (cfg : Cfg) : (files : List (Str × FileIn)) → (r : RunResult) →
    (runFiles env cfg files r).errors = r.errors ++ files.filterMap (fileError env cfg)
  | [], r => by simp [runFiles_nil]
  | (name, .unreadable) :: rest, r => by
    rw [runFiles_unreadable, runFiles_errors env cfg rest]
    have : fileError env cfg (name, FileIn.unreadable) = some name := rfl
    simp [this]
  | (name, .css nodes) :: rest, r => by
    rw [runFiles_css]
    have hi := processFile_indep env cfg nodes r.st {}
    cases hp : processFile env cfg nodes r.st with
    | mk o st' =>
      rw [hp] at hi
      cases o with
      | written out =>
        simp only
        rw [runFiles_errors env cfg rest]
        simp only [List.filterMap_cons, fileError, ← hi]
      | error =>
        simp only
        rw [runFiles_errors env cfg rest]
        simp only [List.filterMap_cons, fileError, ← hi]
        simp

/-- unreadable files change neither the outputs nor the counters -/
theorem runFiles_filter_readable (env : CliEnv) (cfg : Cfg) : (files : List (Str × FileIn)) → (r : RunResult) →
    (runFiles env cfg files r).st = (runFiles env cfg (files.filter isReadable) r).st ∧
    (runFiles env cfg files r).writes = (runFiles env cfg (files.filter isReadable) r).writes
  | [], r => ⟨rfl, rfl⟩
  | (name, .unreadable) :: rest, r => by
    rw [runFiles_unreadable]
    simp only [List.filter_cons, isReadable, Bool.false_eq_true, if_false]
    have h1 := runFiles_filter_readable env cfg rest { r with errors := r.errors ++ [name] }
    have h2 := runFiles_filter_readable env cfg rest r
    -- the error list does not influence the rest of the run
    have key : ∀ (fs : List (Str × FileIn)) (r1 r2 : RunResult), r1.st = r2.st → r1.writes = r2.writes →
        (runFiles env cfg fs r1).st = (runFiles env cfg fs r2).st ∧
        (runFiles env cfg fs r1).writes = (runFiles env cfg fs r2).writes := by
      intro fs
      induction fs with
      | nil => intro r1 r2 h1 h2; simp only [runFiles_nil]; exact ⟨h1, h2⟩
      | cons f fs ih =>
        intro r1 r2 e1 e2
        obtain ⟨nm, fi⟩ := f
        cases fi with
        | unreadable => rw [runFiles_unreadable, runFiles_unreadable]; exact ih _ _ e1 e2
        | css nodes =>
          rw [runFiles_css, runFiles_css, e1]
          cases hp : processFile env cfg nodes r2.st with
          | mk o st' =>
            cases o with
            | written out => simp only; exact ih _ _ rfl (by simp only [e2])
            | error => simp only; exact ih _ _ rfl e2
    have := key (rest.filter isReadable) { r with errors := r.errors ++ [name] } r rfl rfl
    exact ⟨h1.1.trans this.1, h1.2.trans this.2⟩
  | (name, .css nodes) :: rest, r => by
    simp only [List.filter_cons, isReadable, if_true]
    rw [runFiles_css, runFiles_css]
    cases hp : processFile env cfg nodes r.st with
    | mk o st' =>
      cases o with
      | written out => simp only; exact runFiles_filter_readable env cfg rest _
      | error => simp only; exact runFiles_filter_readable env cfg rest _

/-- counters and detail lists over a whole run -/
theorem runFiles_grew (env : CliEnv) (cfg : Cfg) : (files : List (Str × FileIn)) → (r : RunResult) →
    ∃ k, k ≤ (files.map fileCount).sum ∧ Grew k r.st (runFiles env cfg files r).st ∧
      ((files.filterMap (fileError env cfg) = []) → k = (files.map fileCount).sum)
  | [], r => ⟨0, Nat.le_refl _, by rw [runFiles_nil]; exact Grew.refl _, fun _ => rfl⟩
  | (name, .unreadable) :: rest, r => by
    rw [runFiles_unreadable]
    obtain ⟨k, hk, hg, he⟩ := runFiles_grew env cfg rest { r with errors := r.errors ++ [name] }
    exact ⟨k, by simp [fileCount]; exact hk, hg, by intro h; simp [fileError] at h⟩
  | (name, .css nodes) :: rest, r => by
    rw [runFiles_css]
    have hs := processFile_spec env cfg nodes r.st
    have hi := processFile_indep env cfg nodes r.st {}
    cases hp : processFile env cfg nodes r.st with
    | mk o st' =>
      rw [hp] at hs hi
      have e : SameCounts st' (resetSt st') := ⟨rfl, rfl, rfl, rfl, rfl⟩
      cases o with
      | written out =>
        simp only at hs ⊢
        obtain ⟨k, hk, hg, he⟩ := runFiles_grew env cfg rest
          { r with writes := r.writes ++ [(outName name, out)], st := resetSt st' }
        refine ⟨countNodes nodes + k, by simp [fileCount]; omega,
          (hs.2.congr (SameCounts.refl _) e).trans hg, ?_⟩
        intro h
        simp only [List.filterMap_cons, fileError, ← hi] at h
        simp [fileCount, he h]
      | error =>
        simp only at hs ⊢
        obtain ⟨k0, hk0, hg0⟩ := hs
        obtain ⟨k, hk, hg, he⟩ := runFiles_grew env cfg rest
          { r with errors := r.errors ++ [name], st := resetSt st' }
        refine ⟨k0 + k, by simp [fileCount]; omega, (hg0.congr (SameCounts.refl _) e).trans hg, ?_⟩
        intro h
        simp only [List.filterMap_cons, fileError, ← hi] at h
        simp at h

end Cm.Fs

/-! ## a concrete stylesheet for the satisfiability examples -/
namespace Cm.Cli.Demo
open Cm Cm.Cli Cm.Fs

def mkDecl (n v : String) : Item :=
  .decl { name := n.toList, lowerName := n.toList, value := v.toList, important := false }

/-- a constant oracle: every pair is valid, too faint, and tunable to `#111` -/
def cfgTune : Cfg :=
  { defaultBg := "white".toList,
    pairEval := fun _ _ => { valid := true, raised := false, meets := false, tuned := "#111".toList, ok := true,
                             origLevel := .FAIL, newLevel := .AA } }

/-- a constant oracle: every pair is valid, too faint, and cannot be tuned -/
def cfgFail : Cfg :=
  { defaultBg := "white".toList,
    pairEval := fun _ _ => { valid := true, raised := false, meets := false, tuned := [], ok := false,
                             origLevel := .FAIL, newLevel := .FAIL } }

/-- `p { color: #777; } /* c */ @media print { a { margin: 0 } }` -/
def sheet : List Node :=
  [ .rule "p".toList [mkDecl "color" " #777", .other ";".toList true],
    .other "/* c */".toList true,
    .at "media".toList "print".toList [ .rule "a".toList [mkDecl "margin" " 0"] ] ]

def sheetOut : List Node :=
  [ .rule "p".toList [mkDecl "color" "#111", .other ";".toList true],
    .other "/* c */".toList true,
    .at "media".toList "print".toList [ .rule "a".toList [mkDecl "margin" " 0"] ] ]

/-- `:root { --c: #777 } p { color: var(--c) } b { color: var(--c) }` -/
def sheetVar : List Node :=
  [ .rule ":root".toList [mkDecl "--c" " #777"],
    .rule "p".toList [mkDecl "color" " var(--c)"],
    .rule "b".toList [mkDecl "color" " var(--c)"] ]

def sheetVarOut : List Node :=
  [ .rule ":root".toList [mkDecl "--c" "#111"],
    .rule "p".toList [mkDecl "color" " var(--c)"],
    .rule "b".toList [mkDecl "color" " var(--c)"] ]

end Cm.Cli.Demo
