import CmProofs.RealNum
import Mathlib.Tactic.NormNum
import Mathlib.Tactic.Linarith
import Mathlib.Tactic.Positivity
/-!
# WCAG luminance / contrast at the real carrier: helper lemmas

`lin` is the sRGB linearisation in Mathlib's vocabulary; it is strictly monotone on all of `ℝ`
(the two branches are compared at the junction via `a ^ 5 < x ^ 12`). From that: the range of the
luminance, where it is `0` / `1`, and the rewriting of the model's `luminance`, `contrastRatio`,
`contrastLevel` at `realNum` into ordinary real arithmetic.
-/
namespace Cm
open Real

/-- the sRGB linearisation over ℝ (what `srgbToLinear` is at `realNum`) -/
noncomputable def lin (c : ℝ) : ℝ :=
  if c ≤ 0.04045 then c / 12.92 else ((c + 0.055) / 1.055) ^ (2.4 : ℝ)

theorem srgbToLinear_eq_lin (c : ℝ) : @srgbToLinear ℝ realNum c = lin c := srgbToLinear_real c

theorem lin_zero : lin 0 = 0 := by
  unfold lin; rw [if_pos (by norm_num)]; norm_num

theorem lin_one : lin 1 = 1 := by
  unfold lin; rw [if_neg (by norm_num)]
  have : ((1 : ℝ) + 0.055) / 1.055 = 1 := by norm_num
  rw [this, one_rpow]

/-- the junction: the linear branch at the threshold lies below the power branch there -/
theorem lin_junction : (0.04045 : ℝ) / 12.92 < ((0.04045 + 0.055) / 1.055) ^ (2.4 : ℝ) := by
  have hx : (0 : ℝ) ≤ (0.04045 + 0.055) / 1.055 := by norm_num
  have h5 : (((0.04045 + 0.055) / 1.055 : ℝ) ^ (2.4 : ℝ)) ^ (5 : ℕ)
      = ((0.04045 + 0.055) / 1.055 : ℝ) ^ (12 : ℕ) := by
    rw [← rpow_natCast, ← rpow_mul hx, ← rpow_natCast]
    norm_num
  have hlt : ((0.04045 : ℝ) / 12.92) ^ (5 : ℕ)
      < (((0.04045 + 0.055) / 1.055 : ℝ) ^ (2.4 : ℝ)) ^ (5 : ℕ) := by
    rw [h5]; norm_num
  exact lt_of_pow_lt_pow_left₀ 5 (rpow_nonneg hx _) hlt

/-- the linearisation is strictly increasing (on all of ℝ) -/
theorem lin_strictMono : StrictMono lin := by
  intro x y hxy
  unfold lin
  by_cases hx : x ≤ 0.04045
  · by_cases hy : y ≤ 0.04045
    · rw [if_pos hx, if_pos hy]
      exact div_lt_div_of_pos_right hxy (by norm_num)
    · rw [if_pos hx, if_neg hy]
      have hy' : (0.04045 : ℝ) < y := not_le.1 hy
      calc x / 12.92 ≤ (0.04045 : ℝ) / 12.92 := div_le_div_of_nonneg_right hx (by norm_num)
        _ < ((0.04045 + 0.055) / 1.055) ^ (2.4 : ℝ) := lin_junction
        _ ≤ ((y + 0.055) / 1.055) ^ (2.4 : ℝ) := by
            apply rpow_le_rpow (by norm_num) _ (by norm_num)
            apply div_le_div_of_nonneg_right _ (by norm_num)
            linarith
  · have hx' : (0.04045 : ℝ) < x := not_le.1 hx
    have hy : ¬ y ≤ 0.04045 := fun h => hx (le_trans hxy.le h)
    rw [if_neg hx, if_neg hy]
    apply rpow_lt_rpow _ _ (by norm_num)
    · apply div_nonneg _ (by norm_num); linarith
    · apply div_lt_div_of_pos_right _ (by norm_num); linarith

theorem lin_lt_iff {x y : ℝ} : lin x < lin y ↔ x < y := lin_strictMono.lt_iff_lt
theorem lin_le_iff {x y : ℝ} : lin x ≤ lin y ↔ x ≤ y := lin_strictMono.le_iff_le

theorem lin_nonneg {c : ℝ} (h : 0 ≤ c) : 0 ≤ lin c := by
  rw [← lin_zero]; exact lin_le_iff.2 h

theorem lin_le_one {c : ℝ} (h : c ≤ 1) : lin c ≤ 1 := by
  rw [← lin_one]; exact lin_le_iff.2 h

theorem lin_eq_zero_iff {c : ℝ} : lin c = 0 ↔ c = 0 := by
  conv_lhs => rw [← lin_zero]
  exact lin_strictMono.injective.eq_iff

theorem lin_eq_one_iff {c : ℝ} : lin c = 1 ↔ c = 1 := by
  conv_lhs => rw [← lin_one]
  exact lin_strictMono.injective.eq_iff

/-! ## channels -/

theorem chan_real (v : Int) : @chan ℝ realNum v = (v : ℝ) / 255 := by
  unfold chan
  simp only [real_div, real_sci, real_ofInt]
  norm_num

theorem chanR_nonneg {v : Int} (h : 0 ≤ v) : (0 : ℝ) ≤ (v : ℝ) / 255 :=
  div_nonneg (by exact_mod_cast h) (by norm_num)

theorem chanR_le_one {v : Int} (h : v ≤ 255) : (v : ℝ) / 255 ≤ 1 := by
  rw [div_le_one (by norm_num)]; exact_mod_cast h

theorem chanR_lt_iff {v w : Int} : (v : ℝ) / 255 < (w : ℝ) / 255 ↔ v < w := by
  rw [div_lt_div_iff_of_pos_right (by norm_num : (0 : ℝ) < 255)]; exact Int.cast_lt

theorem chanR_eq_zero_iff {v : Int} : (v : ℝ) / 255 = 0 ↔ v = 0 := by
  rw [div_eq_zero_iff]; norm_num

theorem chanR_eq_one_iff {v : Int} : (v : ℝ) / 255 = 1 ↔ v = 255 := by
  rw [div_eq_one_iff_eq (by norm_num)]; exact_mod_cast Iff.rfl

theorem validRgb_iff (c : RGB) : validRgb c = true ↔
    (0 ≤ c.1 ∧ c.1 ≤ 255) ∧ (0 ≤ c.2.1 ∧ c.2.1 ≤ 255) ∧ (0 ≤ c.2.2 ∧ c.2.2 ≤ 255) := by
  simp [validRgb, and_assoc]

/-! ## luminance -/

/-- the model's luminance at ℝ in Mathlib's vocabulary -/
theorem luminance_real (c : RGB) : @luminance ℝ realNum c =
    0.2126 * lin ((c.1 : ℝ) / 255) + 0.7152 * lin ((c.2.1 : ℝ) / 255)
      + 0.0722 * lin ((c.2.2 : ℝ) / 255) := by
  unfold luminance
  simp only [real_add, real_mul, real_sci, srgbToLinear_eq_lin, chan_real]

theorem luminance_nonneg {c : RGB} (h : validRgb c = true) : 0 ≤ @luminance ℝ realNum c := by
  obtain ⟨⟨r0, -⟩, ⟨g0, -⟩, ⟨b0, -⟩⟩ := (validRgb_iff c).1 h
  rw [luminance_real]
  have := lin_nonneg (chanR_nonneg r0)
  have := lin_nonneg (chanR_nonneg g0)
  have := lin_nonneg (chanR_nonneg b0)
  positivity

theorem luminance_le_one {c : RGB} (h : validRgb c = true) : @luminance ℝ realNum c ≤ 1 := by
  obtain ⟨⟨-, r1⟩, ⟨-, g1⟩, ⟨-, b1⟩⟩ := (validRgb_iff c).1 h
  rw [luminance_real]
  have := lin_le_one (chanR_le_one r1)
  have := lin_le_one (chanR_le_one g1)
  have := lin_le_one (chanR_le_one b1)
  norm_num at *
  linarith

theorem luminance_eq_zero_iff {c : RGB} (h : validRgb c = true) :
    @luminance ℝ realNum c = 0 ↔ c = (0, 0, 0) := by
  obtain ⟨⟨r0, -⟩, ⟨g0, -⟩, ⟨b0, -⟩⟩ := (validRgb_iff c).1 h
  obtain ⟨r, g, b⟩ := c
  rw [luminance_real]
  have hr := lin_nonneg (chanR_nonneg r0)
  have hg := lin_nonneg (chanR_nonneg g0)
  have hb := lin_nonneg (chanR_nonneg b0)
  simp only at hr hg hb ⊢
  constructor
  · intro e
    have er : lin ((r : ℝ) / 255) = 0 := by norm_num at *; linarith
    have eg : lin ((g : ℝ) / 255) = 0 := by norm_num at *; linarith
    have eb : lin ((b : ℝ) / 255) = 0 := by norm_num at *; linarith
    rw [lin_eq_zero_iff, chanR_eq_zero_iff] at er eg eb
    subst er eg eb; rfl
  · intro e
    simp only [Prod.mk.injEq] at e
    obtain ⟨rfl, rfl, rfl⟩ := e
    norm_num [lin_zero]

theorem luminance_eq_one_iff {c : RGB} (h : validRgb c = true) :
    @luminance ℝ realNum c = 1 ↔ c = (255, 255, 255) := by
  obtain ⟨⟨-, r1⟩, ⟨-, g1⟩, ⟨-, b1⟩⟩ := (validRgb_iff c).1 h
  obtain ⟨r, g, b⟩ := c
  rw [luminance_real]
  have hr := lin_le_one (chanR_le_one r1)
  have hg := lin_le_one (chanR_le_one g1)
  have hb := lin_le_one (chanR_le_one b1)
  simp only at hr hg hb ⊢
  constructor
  · intro e
    have er : lin ((r : ℝ) / 255) = 1 := by norm_num at *; linarith
    have eg : lin ((g : ℝ) / 255) = 1 := by norm_num at *; linarith
    have eb : lin ((b : ℝ) / 255) = 1 := by norm_num at *; linarith
    rw [lin_eq_one_iff, chanR_eq_one_iff] at er eg eb
    subst er eg eb; rfl
  · intro e
    simp only [Prod.mk.injEq] at e
    obtain ⟨rfl, rfl, rfl⟩ := e
    have : ((255 : ℤ) : ℝ) / 255 = 1 := by norm_num
    rw [this, lin_one]; norm_num

/-! ## contrast ratio -/

/-- the model's contrast ratio at ℝ in Mathlib's vocabulary -/
theorem contrastRatio_real (a b : RGB) : @contrastRatio ℝ realNum a b =
    (max (@luminance ℝ realNum a) (@luminance ℝ realNum b) + 0.05)
      / (min (@luminance ℝ realNum a) (@luminance ℝ realNum b) + 0.05) := by
  unfold contrastRatio
  simp only [real_add, real_div, real_sci, real_pmax, real_pmin]

/-- `(hi + 0.05) / (lo + 0.05)` for `0 ≤ lo ≤ hi ≤ 1` lies in `[1, 21]` -/
theorem ratio_bounds {lo hi : ℝ} (h0 : 0 ≤ lo) (hle : lo ≤ hi) (h1 : hi ≤ 1) :
    1 ≤ (hi + 0.05) / (lo + 0.05) ∧ (hi + 0.05) / (lo + 0.05) ≤ 21 := by
  have hpos : (0 : ℝ) < lo + 0.05 := by norm_num; linarith
  rw [le_div_iff₀ hpos, div_le_iff₀ hpos]
  constructor <;> norm_num <;> linarith

/-- … and is `21` exactly when `lo = 0`, `hi = 1` -/
theorem ratio_eq_21 {lo hi : ℝ} (h0 : 0 ≤ lo) (h1 : hi ≤ 1) :
    (hi + 0.05) / (lo + 0.05) = 21 ↔ lo = 0 ∧ hi = 1 := by
  have hpos : (0 : ℝ) < lo + 0.05 := by norm_num; linarith
  rw [div_eq_iff hpos.ne']
  constructor
  · intro e
    norm_num at e
    constructor <;> linarith
  · rintro ⟨rfl, rfl⟩; norm_num

/-! ## levels -/

theorem contrastLevel_real (r : ℝ) (large : Bool) : @contrastLevel ℝ realNum.toNum r large =
    if large then (if (4.5 : ℝ) ≤ r then .AAA else if (3.0 : ℝ) ≤ r then .AA else .FAIL)
    else (if (7.0 : ℝ) ≤ r then .AAA else if (4.5 : ℝ) ≤ r then .AA else .FAIL) := by
  unfold contrastLevel
  simp only [real_ge, real_sci]

end Cm
