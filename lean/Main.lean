import CmModel.Proto
import CmModel.Lab
import CmModel.Hsl
import CmModel.Descent
import CmModel.Color
import CmModel.Cert
import CmModel.CliRun
import CmModel.Html
import CmModel.Effects
import CmGen.NamedColors
/-! Line-protocol driver: one operation per input line, one result line per operation. -/
open Cm Cm.Proto

def fmtRgb (c : RGB) : String := s!"{c.1} {c.2.1} {c.2.2}"
def fmtT (t : Triple Float) : String := s!"{hexOfFloat t.1} {hexOfFloat t.2.1} {hexOfFloat t.2.2}"

def fmtOpt : Option RGB → String | some c => fmtRgb c | none => "none"

def rgbOf (a b c : String) : Option RGB := do
  let r ← parseInt a; let g ← parseInt b; let bl ← parseInt c; pure (r, g, bl)
def tripleOf (a b c : String) : Option (Triple Float) := do
  let x ← floatOfHex a; let y ← floatOfHex b; let z ← floatOfHex c; pure (x, y, z)


/-! ### wire format of Python values and character classes -/

partial def decodeVal (toks : List String) : Option (PyVal Float × List String) :=
  match toks with
  | [] => none
  | t :: rest =>
    let tag := t.take 1
    let body := (t.drop 1).toString
    if tag == "S" then
      if body == "-" then some (.str [], rest) else (strOfHex body).map fun s => (.str s.toList, rest)
    else if tag == "I" then body.toInt?.map fun n => (.int n, rest)
    else if tag == "F" then (floatOfHex body).map fun x => (.float x, rest)
    else if tag == "B" then some (.bool (body == "1"), rest)
    else if tag == "N" then some (.none, rest)
    else if tag == "T" || tag == "L" then
      match body.toNat? with
      | none => none
      | some n =>
        let rec items (k : Nat) (ts : List String) (acc : List (PyVal Float)) : Option (List (PyVal Float) × List String) :=
          match k with
          | 0 => some (acc.reverse, ts)
          | k + 1 => match decodeVal ts with
            | some (v, ts') => items k ts' (v :: acc)
            | none => none
        match items n rest [] with
        | some (xs, ts') => some ((if tag == "T" then .tuple xs else .list xs), ts')
        | none => none
    else none

/-- `cp:space:digit:lowerhex` overrides for non-ASCII code points -/
def decodeCls (toks : List String) : Option CharCls := do
  let mut tbl : List (Nat × Bool × Option Nat × Str) := []
  for t in toks do
    match t.splitOn ":" with
    | [cp, sp, dg, lo] =>
      let cp ← cp.toNat?
      let d : Option Nat := if dg == "x" then none else dg.toNat?
      let l ← if lo == "-" then some "" else strOfHex lo
      tbl := (cp, sp == "1", d, l.toList) :: tbl
    | _ => none
  let find (c : Char) := tbl.find? (fun e => e.1 = c.toNat)
  pure { isSpace := fun c => match find c with | some e => e.2.1 | none => asciiIsSpace c
         digit := fun c => match find c with | some e => e.2.2.1 | none => asciiDigit c
         lower := fun c => match find c with | some e => e.2.2.2 | none => asciiLower c }

def namedEnv : List (Str × Str) := CmGen.namedTable.map fun kv => (kv.1.toList, kv.2.toList)

def fmtErr : PyErr → String
  | .valueError => "err value" | .typeError => "err type" | .overflowError => "err overflow"

def fmtParse : Except PyErr RGB → String
  | .ok c => "ok " ++ fmtRgb c
  | .error e => fmtErr e

def bgOf (s : String) : Option (Option RGB) :=
  if s == "-" then some none else
  match s.splitOn "," with
  | [a, b, c] => (rgbOf a b c).map some
  | _ => none

def fmtOut : Parse.OutVal Float → String
  | .text s => "s:" ++ hexOfStr (String.ofList s)
  | .hsl h s l => s!"h:{hexOfFloat h},{hexOfFloat s},{hexOfFloat l}"
  | .tuple c => s!"t:{c.1},{c.2.1},{c.2.2}"

def fmtState : ColorState → String
  | .valid c => "valid " ++ fmtRgb c
  | .invalid => "invalid"
  | .raised e => "raised " ++ (fmtErr e).drop 4

/-- ops whose arguments are Python values: `<op> <settings…> <k> <cls>*k <values…>` -/
def handleVal (op : String) (args : List String) : Option String := do
  match op, args with
  | "parse", bg :: k :: rest =>
    let bg ← bgOf bg; let k ← k.toNat?
    let cls ← decodeCls (rest.take k)
    let (v, _) ← decodeVal (rest.drop k)
    let E : PEnv := { cls := cls, named := namedEnv }
    pure (fmtParse (Parse.parseColor (α := Float) E v bg) ++ " " ++ (Parse.detectFormat E v).toString)
  | "parseq", bg :: k :: rest =>
    -- the same parser at the exact rational carrier (strings only)
    let bg ← bgOf bg; let k ← k.toNat?
    let cls ← decodeCls (rest.take k)
    let (v, _) ← decodeVal (rest.drop k)
    let E : PEnv := { cls := cls, named := namedEnv }
    match v with
    | .str s => pure (fmtParse (@Parse.parseColor Rat ratNum E (.str s) bg))
    | _ => none
  | "pair", large :: k :: rest =>
    -- ColorPair(text, bg, large): states, is_readable
    let k ← k.toNat?
    let cls ← decodeCls (rest.take k)
    let (t, r1) ← decodeVal (rest.drop k)
    let (b, _) ← decodeVal r1
    let E : PEnv := { cls := cls, named := namedEnv }
    let p := ColorPair.new (α := Float) E t b (large == "1")
    pure s!"{fmtState p.text.state} | {fmtState p.bg.state} | {p.text.fmt.toString} | {p.isReadable}"
  | "mr", large :: mode :: very :: k :: rest =>
    let k ← k.toNat?; let mode ← parseInt mode
    let cls ← decodeCls (rest.take k)
    let (t, r1) ← decodeVal (rest.drop k)
    let (b, _) ← decodeVal r1
    let E : PEnv := { cls := cls, named := namedEnv }
    let p := ColorPair.new (α := Float) E t b (large == "1")
    match p.makeReadable E floatLeaf (descendImpl floatLeaf) mode (very == "1") with
    | none => pure "none"
    | some (o, ok) => pure (fmtOut o ++ (if ok then " 1" else " 0"))
  | "bulk", mode :: very :: k :: rest =>
    let k ← k.toNat?; let mode ← parseInt mode
    let cls ← decodeCls (rest.take k)
    let E : PEnv := { cls := cls, named := namedEnv }
    -- items: `<large> <text> <bg>` repeated
    let rec items (fuel : Nat) (ts : List String) (acc : List (BulkItem Float)) : Option (List (BulkItem Float)) :=
      match fuel, ts with
      | _, [] => some acc.reverse
      | 0, _ => none
      | fuel + 1, l :: ts => do
        let (t, r1) ← decodeVal ts
        let (b, r2) ← decodeVal r1
        items fuel r2 ({ text := t, bg := b, large := l == "1" } :: acc)
    let its ← items (rest.length + 1) (rest.drop k) []
    let rs := Bulk.run E floatLeaf (descendImpl floatLeaf) mode (very == "1") its
    pure (" ; ".intercalate (rs.map fun r =>
      (match r.colour with | .original => "orig" | .tuned v => fmtOut v) ++ " " ++ hexOfStr r.status))
  | "fmt", f :: r :: g :: b :: [] =>
    let c ← rgbOf r g b
    let f : Parse.Fmt := match f with
      | "hex" => .hex | "rgb" => .rgb | "hsl" => .hsl | "rgb_tuple" => .rgbTuple | "named" => .named
      | "rgba" => .rgba | "hsla" => .hsla | "rgba_tuple" => .rgbaTuple | _ => .unknown
    let o := Parse.formatColor (α := Float) c f
    -- and read it back through the model's own parser
    let E : PEnv := { cls := asciiCls, named := namedEnv }
    let back : String := match o with
      | .text s => fmtParse (Parse.parseColor (α := Float) E (.str s) none)
      | .tuple c => fmtParse (Parse.parseColor (α := Float) E (.tuple [.int c.1, .int c.2.1, .int c.2.2]) none)
      | .hsl h s l => match hslTextToRgb (h, s, l) with | some c => "ok " ++ fmtRgb c | none => "err value"
    pure (fmtOut o ++ " " ++ back)
  | "float", k :: rest =>
    let k ← k.toNat?
    let cls ← decodeCls (rest.take k)
    let (v, _) ← decodeVal (rest.drop k)
    match v with
    | .str s => match PyFloat.parse (α := Float) cls s with
      | .ok x => pure ("ok " ++ hexOfFloat x)
      | .error e => pure (fmtErr e)
    | _ => none
  | _, _ => none


/-! ### CLI: stylesheet wire format -/
open Cm.Cli
partial def decodeItems (k : Nat) (ts : List String) (acc : List Item) : Option (List Item × List String) :=
  match k with
  | 0 => some (acc.reverse, ts)
  | k + 1 =>
    match ts with
    | "D" :: n :: l :: v :: imp :: c :: rest => do
      let n ← hexStr n; let l ← hexStr l; let v ← hexStr v; let c ← hexStr c
      decodeItems k rest (.decl { name := n, lowerName := l, value := v, important := imp == "1", comments := c } :: acc)
    | "X" :: t :: ok :: rest => do
      let t ← hexStr t
      decodeItems k rest (.other t (ok == "1") :: acc)
    | _ => none
where hexStr (h : String) : Option Str := if h == "-" then some [] else (strOfHex h).map String.toList

partial def decodeNodes (k : Nat) (ts : List String) (acc : List Node) : Option (List Node × List String) :=
  match k with
  | 0 => some (acc.reverse, ts)
  | k + 1 =>
    match ts with
    | "R" :: sel :: n :: rest => do
      let sel ← decodeItems.hexStr sel; let n ← n.toNat?
      let (items, rest') ← decodeItems n rest []
      decodeNodes k rest' (.rule sel items :: acc)
    | "A" :: kw :: pre :: n :: rest => do
      let kw ← decodeItems.hexStr kw; let pre ← decodeItems.hexStr pre; let n ← n.toNat?
      let (body, rest') ← decodeNodes n rest []
      decodeNodes k rest' (.at kw pre body :: acc)
    | "O" :: t :: ok :: rest => do
      let t ← decodeItems.hexStr t
      decodeNodes k rest (.other t (ok == "1") :: acc)
    | _ => none

def hx (s : Str) : String := if s.isEmpty then "-" else hexOfStr (String.ofList s)

def encodeItems (items : List Item) : String :=
  " ".intercalate (items.map fun it => match it with
    | .decl d => s!"D {hx d.name} {hx d.lowerName} {hx d.value} {if d.important then 1 else 0} {hx d.comments}"
    | .other t ok => s!"X {hx t} {if ok then 1 else 0}")

partial def encodeNodes (nodes : List Node) : String :=
  " ".intercalate (nodes.map fun n => match n with
    | .rule sel items => s!"R {hx sel} {items.length} {encodeItems items}"
    | .at kw pre body => s!"A {hx kw} {hx pre} {body.length} {encodeNodes body}"
    | .other t ok => s!"O {hx t} {if ok then 1 else 0}")

/-- `cli <defaultBg> <mode> <premium> <k> <cls>*k <nfiles> (<nnodes> nodes…)*` : runs the files in order
    with shared counters; prints per-file outcome and the final counters / detail lists -/
def handleCli (args : List String) : Option String := do
  match args with
  | dbg :: mode :: premium :: k :: rest =>
    let dbg ← decodeItems.hexStr dbg; let mode ← parseInt mode; let k ← k.toNat?
    let clsToks := rest.take k
    let cls ← decodeCls (clsToks.map fun t => (":".intercalate ((t.splitOn ":").take 4)))
    -- fifth field: `\w`
    let wordTbl : List (Nat × Bool) := clsToks.filterMap fun t =>
      match t.splitOn ":" with
      | [cp, _, _, _, w] => cp.toNat?.map fun c => (c, w == "1")
      | _ => none
    let env : CliEnv :=
      { isWord := fun c => match wordTbl.find? (·.1 = c.toNat) with | some e => e.2 | none => asciiEnv.isWord c
        isSpace := cls.isSpace }
    let E : PEnv := { cls := cls, named := namedEnv }
    let cfg : Cfg := { defaultBg := dbg, pairEval := pairEvalImpl E hexOfFloat floatOfHex mode (premium == "1") }
    match rest.drop k with
    | nf :: rest2 =>
      let nf ← nf.toNat?
      let mut ts := rest2
      let mut st : St := {}
      let mut outs : List String := []
      for _ in [0:nf] do
        match ts with
        | "E" :: r => -- unreadable file (decode error, directory, dangling link): reported and skipped
          outs := "error" :: outs; ts := r
        | n :: r =>
          let n ← n.toNat?
          let (nodes, r') ← decodeNodes n r []
          let (o, st') := processFile env cfg nodes st
          st := { st' with vars := [], rootDecls := [] }
          outs := (match o with | .written ns => s!"written {ns.length} {encodeNodes ns}" | .error => "error") :: outs
          ts := r'
        | [] => none
      let failed := st.failedDetails.reverse.map fun f => s!"G {hx f.selector} {hx f.text} {hx f.bg} {if f.invalid then 1 else 0}"
      let fixed := st.fixedDetails.reverse.map fun f =>
        s!"F {hx f.selector} {hx f.bg} {hx f.originalText} {hx f.tunedText} {f.originalLevel.toString} {f.newLevel.toString}"
      pure (s!"stats {st.accessible} {st.tuned} {st.failed} | " ++ " ".intercalate failed ++ " | " ++ " ".intercalate fixed
            ++ " | " ++ " ;; ".intercalate outs.reverse)
    | [] => none
  | _ => none

def handle (toks : List String) : Option String :=
  match toks with
  | ["lin", x] => do let x ← floatOfHex x; pure (hexOfFloat (srgbToLinear x))
  | ["gam", x] => do let x ← floatOfHex x; pure (hexOfFloat (linearToSrgb x))
  | ["lum", r, g, b] => do let c ← rgbOf r g b; pure (hexOfFloat (luminance (α := Float) c))
  | ["ratio", r, g, b, r2, g2, b2] => do
      let c ← rgbOf r g b; let d ← rgbOf r2 g2 b2
      pure (hexOfFloat (contrastRatio (α := Float) c d))
  | ["level", x, large] => do
      let x ← floatOfHex x; pure (contrastLevel x (large == "1")).toString
  | ["oklch", r, g, b] => do let c ← rgbOf r g b; pure (fmtT (rgbToOklch c))
  | ["oklchs", r, g, b] => do let c ← rgbOf r g b; pure (fmtT (rgbToOklchSafe c))
  | ["ofoklch", l, c, h] => do let t ← tripleOf l c h; pure (fmtRgb (oklchToRgb t))
  | ["ofoklchs", l, c, h] => do let t ← tripleOf l c h; pure (fmtRgb (oklchToRgbSafe t))
  | ["okrt", r, g, b] => do
      let c ← rgbOf r g b; let t := rgbToOklch (α := Float) c
      pure (fmtT t ++ " " ++ fmtRgb (oklchToRgb t))
  | ["xyz", r, g, b] => do let c ← rgbOf r g b; pure (fmtT (rgbToXyz c))
  | ["lab", r, g, b] => do let c ← rgbOf r g b; pure (fmtT (rgbToLab c))
  | ["xyz2lab", x, y, z] => do let t ← tripleOf x y z; pure (fmtT (xyzToLab t))
  | ["de", r, g, b, r2, g2, b2] => do
      let c ← rgbOf r g b; let d ← rgbOf r2 g2 b2
      pure (hexOfFloat (deltaE2000 (α := Float) c d))
  | ["delab", a, b, c, d, e, f] => do
      let p ← tripleOf a b c; let q ← tripleOf d e f; pure (hexOfFloat (deltaE2000Lab p q))
  | ["hsl", r, g, b] => do
      let c ← rgbOf r g b
      let t := rgbToHslText (α := Float) c
      let back := match hslTextToRgb t with | some c' => fmtRgb c' | none => "none"
      pure (fmtT t ++ " " ++ back)
  | ["caf", r, g, b, r2, g2, b2, large, mode, premium] => do
      let t ← rgbOf r g b; let bg ← rgbOf r2 g2 b2; let m ← parseInt mode
      let (c, ok) := checkAndFixF t bg (large == "1") m (premium == "1")
      pure (fmtRgb c ++ (if ok then " 1" else " 0"))
  | "bs" :: r :: g :: b :: r2 :: g2 :: b2 :: thr :: target :: [] => do
      let t ← rgbOf r g b; let bg ← rgbOf r2 g2 b2
      let thr ← floatOfHex thr; let target ← floatOfHex target
      pure (fmtOpt (binarySearch floatLeaf t bg thr target))
  | "gd" :: r :: g :: b :: r2 :: g2 :: b2 :: thr :: target :: [] => do
      let t ← rgbOf r g b; let bg ← rgbOf r2 g2 b2
      let thr ← floatOfHex thr; let target ← floatOfHex target
      pure (fmtOpt (gradientDescent floatLeaf (descendImpl floatLeaf) t bg thr target))
  | "gen" :: r :: g :: b :: r2 :: g2 :: b2 :: target :: minC :: sched => do
      let t ← rgbOf r g b; let bg ← rgbOf r2 g2 b2
      let target ← floatOfHex target; let minC ← floatOfHex minC
      let sched ← sched.mapM floatOfHex
      pure (fmtRgb (genAccessible floatLeaf (descendImpl floatLeaf) t bg target minC sched))
  | ["witness", r, g, b, r2, g2, b2, minC, n] => do
      -- independent scan of the text's OKLCH lightness line for a barely perceptible fix (C03)
      let t ← rgbOf r g b; let bg ← rgbOf r2 g2 b2; let minC ← floatOfHex minC; let n ← n.toNat?
      let (_, c, h) := rgbToOklchSafe (α := Float) t
      let mut best : Option (RGB × Float × Float) := none
      for i in [0:n+1] do
        let L := i.toFloat / n.toFloat
        let cand := oklchToRgbSafe (L, c, h)
        let d := deltaE2000 (α := Float) t cand
        let k := contrastRatio (α := Float) cand bg
        if d <= 1.5 && k >= minC + 0.05 then
          match best with
          | some (_, d0, _) => if d < d0 then best := some (cand, d, k)
          | none => best := some (cand, d, k)
      match best with
      | some (c, d, k) => pure s!"{fmtRgb c} {hexOfFloat d} {hexOfFloat k}"
      | none => pure "none"
  | ["cert", r, g, b, r2, g2, b2, num, den] => do
      -- certified (proved sound over ℝ) verdict `ratio ≥ num/den`
      let c ← rgbOf r g b; let d ← rgbOf r2 g2 b2; let n ← parseInt num; let m ← den.toNat?
      pure (match certVerdict c d (mkRat n m) with | some true => "true" | some false => "false" | none => "none")
  | ["effects", valid, sh, sv] =>
      -- predicted side effects of make_readable(show, save_report) (C17)
      pure (" ".intercalate ((mrEffects (valid == "1") (sh == "1") (sv == "1")).map fun e =>
        match e with | .stdout => "stdout" | .write f => "write:" ++ f))
  | ["bulkeffects", sv, n] => do
      let n ← n.toNat?
      pure (" ".intercalate ((bulkEffects (sv == "1") n).map fun e =>
        match e with | .stdout => "stdout" | .write f => "write:" ++ f))
  | ["skel", h] => do
      -- markup skeleton of an HTML document under the coarse tokenizer model (C19)
      let s ← if h == "-" then some "" else strOfHex h
      let sk := Cm.Html.skeleton (Cm.Html.ofString s)
      pure (hexOfStr (String.ofList (sk.map Char.ofNat)))
  | ["pmod", x, y] => do
      let x ← floatOfHex x; let y ← floatOfHex y; pure (hexOfFloat (Num.pmod x y))
  | ["round", x] => do let x ← floatOfHex x; pure (toString (Num.roundHE x))
  | "cli" :: args => handleCli args
  | op :: args => handleVal op args
  | _ => none

partial def loop (hin hout : IO.FS.Stream) : IO Unit := do
  let line ← hin.getLine
  if line.isEmpty then return ()
  let toks := (line.trimAscii.toString.splitOn " ").filter (· ≠ "")
  match handle toks with
  | some out => hout.putStrLn out
  | none => hout.putStrLn "bad-op"
  loop hin hout

def main : IO Unit := do
  let hin ← IO.getStdin
  let hout ← IO.getStdout
  loop hin hout
  hout.flush
