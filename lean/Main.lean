import CmModel.Proto
import CmModel.Lab
import CmModel.Hsl
import CmModel.Descent
/-! Line-protocol driver: one operation per input line, one result line per operation. -/
open Cm Cm.Proto

def fmtRgb (c : RGB) : String := s!"{c.1} {c.2.1} {c.2.2}"
def fmtT (t : Triple Float) : String := s!"{hexOfFloat t.1} {hexOfFloat t.2.1} {hexOfFloat t.2.2}"

def fmtOpt : Option RGB → String | some c => fmtRgb c | none => "none"

def rgbOf (a b c : String) : Option RGB := do
  let r ← parseInt a; let g ← parseInt b; let bl ← parseInt c; pure (r, g, bl)
def tripleOf (a b c : String) : Option (Triple Float) := do
  let x ← floatOfHex a; let y ← floatOfHex b; let z ← floatOfHex c; pure (x, y, z)

def handle (toks : List String) : Option String :=
  match toks with
  | ["lin", x] => do let x ← floatOfHex x; pure (hexOfFloat (srgbToLinear x))
  | ["gam", x] => do let x ← floatOfHex x; pure (hexOfFloat (linearToSrgb x))
  | ["lum", r, g, b] => do let c ← rgbOf r g b; pure (hexOfFloat (luminance (α := Float) c))
  | ["ratio", r, g, b, r2, g2, b2] => do
      let c ← rgbOf r g b; let d ← rgbOf r2 g2 b2
      pure (hexOfFloat (contrastRatio (α := Float) c d))
  | ["level", x, large] => do
      let x ← floatOfHex x; pure (contrastLevel x (large == "1")).toString
  | ["oklch", r, g, b] => do let c ← rgbOf r g b; pure (fmtT (rgbToOklch c))
  | ["oklchs", r, g, b] => do let c ← rgbOf r g b; pure (fmtT (rgbToOklchSafe c))
  | ["ofoklch", l, c, h] => do let t ← tripleOf l c h; pure (fmtRgb (oklchToRgb t))
  | ["ofoklchs", l, c, h] => do let t ← tripleOf l c h; pure (fmtRgb (oklchToRgbSafe t))
  | ["okrt", r, g, b] => do
      let c ← rgbOf r g b; let t := rgbToOklch (α := Float) c
      pure (fmtT t ++ " " ++ fmtRgb (oklchToRgb t))
  | ["xyz", r, g, b] => do let c ← rgbOf r g b; pure (fmtT (rgbToXyz c))
  | ["lab", r, g, b] => do let c ← rgbOf r g b; pure (fmtT (rgbToLab c))
  | ["xyz2lab", x, y, z] => do let t ← tripleOf x y z; pure (fmtT (xyzToLab t))
  | ["de", r, g, b, r2, g2, b2] => do
      let c ← rgbOf r g b; let d ← rgbOf r2 g2 b2
      pure (hexOfFloat (deltaE2000 (α := Float) c d))
  | ["delab", a, b, c, d, e, f] => do
      let p ← tripleOf a b c; let q ← tripleOf d e f; pure (hexOfFloat (deltaE2000Lab p q))
  | ["hsl", r, g, b] => do
      let c ← rgbOf r g b
      let t := rgbToHslText (α := Float) c
      let back := match hslTextToRgb t with | some c' => fmtRgb c' | none => "none"
      pure (fmtT t ++ " " ++ back)
  | ["caf", r, g, b, r2, g2, b2, large, mode, premium] => do
      let t ← rgbOf r g b; let bg ← rgbOf r2 g2 b2; let m ← parseInt mode
      let (c, ok) := checkAndFixF t bg (large == "1") m (premium == "1")
      pure (fmtRgb c ++ (if ok then " 1" else " 0"))
  | "bs" :: r :: g :: b :: r2 :: g2 :: b2 :: thr :: target :: [] => do
      let t ← rgbOf r g b; let bg ← rgbOf r2 g2 b2
      let thr ← floatOfHex thr; let target ← floatOfHex target
      pure (fmtOpt (binarySearch floatLeaf t bg thr target))
  | "gd" :: r :: g :: b :: r2 :: g2 :: b2 :: thr :: target :: [] => do
      let t ← rgbOf r g b; let bg ← rgbOf r2 g2 b2
      let thr ← floatOfHex thr; let target ← floatOfHex target
      pure (fmtOpt (gradientDescent floatLeaf (descendImpl floatLeaf) t bg thr target))
  | "gen" :: r :: g :: b :: r2 :: g2 :: b2 :: target :: minC :: sched => do
      let t ← rgbOf r g b; let bg ← rgbOf r2 g2 b2
      let target ← floatOfHex target; let minC ← floatOfHex minC
      let sched ← sched.mapM floatOfHex
      pure (fmtRgb (genAccessible floatLeaf (descendImpl floatLeaf) t bg target minC sched))
  | ["witness", r, g, b, r2, g2, b2, minC, n] => do
      -- independent scan of the text's OKLCH lightness line for a barely perceptible fix (C03)
      let t ← rgbOf r g b; let bg ← rgbOf r2 g2 b2; let minC ← floatOfHex minC; let n ← n.toNat?
      let (_, c, h) := rgbToOklchSafe (α := Float) t
      let mut best : Option (RGB × Float × Float) := none
      for i in [0:n+1] do
        let L := i.toFloat / n.toFloat
        let cand := oklchToRgbSafe (L, c, h)
        let d := deltaE2000 (α := Float) t cand
        let k := contrastRatio (α := Float) cand bg
        if d <= 1.5 && k >= minC + 0.05 then
          match best with
          | some (_, d0, _) => if d < d0 then best := some (cand, d, k)
          | none => best := some (cand, d, k)
      match best with
      | some (c, d, k) => pure s!"{fmtRgb c} {hexOfFloat d} {hexOfFloat k}"
      | none => pure "none"
  | ["pmod", x, y] => do
      let x ← floatOfHex x; let y ← floatOfHex y; pure (hexOfFloat (Num.pmod x y))
  | ["round", x] => do let x ← floatOfHex x; pure (toString (Num.roundHE x))
  | _ => none

partial def loop (hin hout : IO.FS.Stream) : IO Unit := do
  let line ← hin.getLine
  if line.isEmpty then return ()
  let toks := (line.trimAscii.toString.splitOn " ").filter (· ≠ "")
  match handle toks with
  | some out => hout.putStrLn out
  | none => hout.putStrLn "bad-op"
  loop hin hout

def main : IO Unit := do
  let hin ← IO.getStdin
  let hout ← IO.getStdout
  loop hin hout
  hout.flush
