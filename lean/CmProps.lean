import CmProps.C01
import CmProps.C04
import CmProps.C02
import CmProps.C16
import CmProps.C03
import CmProps.C05
import CmProps.C10
import CmProps.C11
