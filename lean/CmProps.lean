import CmProps.C01
import CmProps.C04
import CmProps.C02
import CmProps.C16
import CmProps.C03
